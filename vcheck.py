#!/venv/bin/python
"""Entry point of the serif runtime-monitoring checks.

  vcheck.py --property C05 --tier quick|thorough     run one check
  vcheck.py --replay replays/C05-....json            re-execute one recorded witness

exit 0 = held on everything explored (listed known findings are printed, not failed)
exit 1 = violation (prints: VIOLATION property=<id> replay=<path>)
exit 2 = inconclusive (prints: INCONCLUSIVE property=<id> reason=...)
"""
import argparse
import json
import os
import shutil
import subprocess
import sys
import tempfile
import time

HERE = os.path.dirname(os.path.abspath(__file__))
PY = "/venv/bin/python" if os.path.exists("/venv/bin/python") else sys.executable

# properties whose statement quantifies over PYTHONHASHSEED: replicas of the same
# workload run under several hash seeds and their result digests are compared
HASH_PROPS = {"C09": (0, 1, 2), "C12": (0, 1, 2), "C10": (0, 7), "C13": (0, 5), "C14": (0, 3)}
THOROUGH_PARTS = 16
THOROUGH_HASHSEEDS = (0, 1, 2, 3)
WATCHDOG_S = {"quick": 900, "thorough": 3600}

LEVELS = {"C08": "fault_enumeration"}


def plan(pid, tier, seed):
	"""list of (worker_seed, part, nparts, hashseed)"""
	if tier == "quick":
		return [(seed, 0, 1, h) for h in HASH_PROPS.get(pid, (0,))]
	out = []
	if pid in HASH_PROPS:
		nparts = 4
		for h in THOROUGH_HASHSEEDS:
			for p in range(nparts):
				out.append((seed * 1000 + p, p, nparts, h))
	else:
		for p in range(THOROUGH_PARTS):
			out.append((seed * 1000 + p, p, THOROUGH_PARTS, 0))
	return out


def spawn(args, hashseed, outfile):
	env = dict(os.environ)
	env["PYTHONHASHSEED"] = str(hashseed)
	env["PYTHONDONTWRITEBYTECODE"] = "1"
	env["PYTHONPATH"] = HERE
	env.pop("PYTHONSTARTUP", None)
	return subprocess.Popen([PY, "-X", "faulthandler", "-m", "serifmon.worker", *args, outfile],
		cwd=HERE, env=env, stdout=subprocess.PIPE, stderr=subprocess.STDOUT, text=True)


def load_known():
	path = os.path.join(HERE, "known_findings.json")
	if not os.path.exists(path):
		return []
	return json.load(open(path)).get("findings", [])


def write_replay(pid, sig_index, witness, signature, assertion):
	os.makedirs(os.path.join(HERE, "replays"), exist_ok=True)
	name = f"{pid}-s{witness.get('seed')}-h{witness.get('hashseed')}-{sig_index}.json"
	path = os.path.join(HERE, "replays", name)
	doc = dict(witness)
	doc.update({"property": pid, "signature": signature, "assertion": assertion,
		"replay_cmd": f"./vcheck.py --replay replays/{name}"})
	json.dump(doc, open(path, "w"), indent=1, default=str)
	return os.path.join("replays", name)


def run_workers(jobs, watchdog):
	"""jobs: list of (argv, hashseed). returns list of result dicts"""
	tmp = tempfile.mkdtemp(prefix="serifmon-")
	results = []
	try:
		maxpar = max(1, min(16, os.cpu_count() or 4))
		pending = list(enumerate(jobs))
		running = []
		deadline = time.time() + watchdog
		while pending or running:
			while pending and len(running) < maxpar:
				i, (argv, h) = pending.pop(0)
				out = os.path.join(tmp, f"r{i}.json")
				running.append((i, spawn(argv, h, out), out, argv, h))
			still = []
			for i, proc, out, argv, h in running:
				if proc.poll() is None:
					if time.time() > deadline:
						proc.kill()
						proc.wait()
						results.append({"status": "inconclusive", "reason": "watchdog", "argv": argv})
					else:
						still.append((i, proc, out, argv, h))
					continue
				text = proc.stdout.read() if proc.stdout else ""
				if os.path.exists(out):
					try:
						res = json.load(open(out))
					except Exception as exc:
						res = {"status": "inconclusive", "reason": f"unreadable worker result: {exc}"}
				else:
					res = {"status": "inconclusive",
						"reason": f"worker died rc={proc.returncode}: {text[-800:]}"}
				res["argv"] = argv
				res["hashseed_env"] = h
				results.append(res)
			running = still
			if running:
				time.sleep(0.05)
	finally:
		shutil.rmtree(tmp, ignore_errors=True)
	return results


def decide(pid, tier, seed, results, t0, replay=False):
	level = LEVELS.get(pid, "exploration")
	inconclusive = []
	evaluations = 0
	sigs = set()
	strata = {}
	counters = {}
	samples = []
	funcs = set()
	violations = {}
	required = {}
	anchors = set()
	rule = ""
	assumptions = []
	exhaustive = None
	timeouts = 0
	digests = {}
	for r in results:
		if r.get("status") != "ok":
			inconclusive.append(r.get("reason", "worker failed") + (" | " + r.get("trace", "")[-600:] if r.get("trace") else ""))
			continue
		evaluations += r["evaluations"]
		sigs.update(r["sigs"])
		for k, v in r["strata"].items():
			strata[k] = strata.get(k, 0) + v
		for k, v in r["counters"].items():
			counters[k] = counters.get(k, 0) + v
		for s in r["samples"]:
			if len(samples) < 8:
				samples.append(s)
		funcs.update(r["funcs"])
		timeouts += r["timeouts"]
		for he in r["harness_errors"]:
			inconclusive.append("harness error in runner %s: %s | spec=%s | %s" % (he["runner"], he["error"], he["spec"][:300], he["trace"][-500:]))
		for v in r["violations"]:
			cur = violations.get(v["signature"])
			if cur is None:
				violations[v["signature"]] = v
			else:
				cur["count"] += v["count"]
		for k, v in (r.get("required_strata") or {}).items():
			required[k] = max(required.get(k, 0), v)
		anchors.update(r.get("anchor_funcs") or [])
		rule = r.get("rule", rule)
		assumptions = r.get("assumptions", assumptions)
		if r.get("exhaustive") is not None:
			exhaustive = r["exhaustive"]
		if r.get("digests"):
			digests.setdefault((r["seed"], r["part"]), {})[str(r["hashseed"])] = r["digests"]
	# hash-seed independence: replicas of one workload must have produced identical results
	digest_groups = 0
	digest_cases = 0
	for key, by_seed in digests.items():
		if len(by_seed) > 1:
			digest_groups += 1
			seeds = sorted(by_seed)
			ref = by_seed[seeds[0]]
			for hs in seeds[1:]:
				other = by_seed[hs]
				for case_idx, dg in ref.items():
					if case_idx in other:
						digest_cases += 1
						if other[case_idx] != dg and "hashseed/results-differ-between-PYTHONHASHSEED-values" not in violations:
							violations["hashseed/results-differ-between-PYTHONHASHSEED-values"] = {
								"property": pid, "assertion": "results identical under every hash seed",
								"signature": "hashseed/results-differ-between-PYTHONHASHSEED-values", "count": 1,
								"witnesses": [{"message": f"case #{case_idx} of worker seed/part {key}: result digest {dg} under PYTHONHASHSEED={seeds[0]} but {other[case_idx]} under {hs}",
									"runner": None, "spec": {"case_index": case_idx, "hashseeds": [seeds[0], hs]}, "spec_pickle_b64": None,
									"seed": key[0], "part": key[1], "hashseed": f"{seeds[0]},{hs}"}]}
	if not replay:
		for k, floor in required.items():
			if strata.get(k, 0) < floor:
				inconclusive.append(f"stratum {k} judged {strata.get(k, 0)} < floor {floor}")
		missing = sorted(a for a in anchors if a not in funcs)
		if missing:
			inconclusive.append("anchor functions never entered: " + ", ".join(missing))
		if evaluations == 0 and not inconclusive:
			inconclusive.append("no case was judged")
	if timeouts:
		counters["case_timeouts"] = timeouts

	known = [k for k in load_known() if k.get("property") == pid and k.get("status") == "known"]
	known_sigs = {k["signature"]: k for k in known}
	unlisted = []
	known_hits = []
	for sig, v in sorted(violations.items()):
		if sig in known_sigs:
			known_hits.append((known_sigs[sig], v))
		else:
			unlisted.append(v)

	if not replay:
		import glob
		for old in glob.glob(os.path.join(HERE, "replays", f"{pid}-*.json")):
			try:
				os.unlink(old)      # witnesses of earlier runs of this property
			except OSError:
				pass
	lines = []
	for k, v in known_hits:
		lines.append(f"KNOWN-FINDING: property={pid} {k.get('what_fails', k['signature'])} [signature={k['signature']} seen={v['count']}]")
	replay_paths = []
	for n, v in enumerate(unlisted):
		w = v["witnesses"][0] if v["witnesses"] else {}
		path = write_replay(pid, n, w, v["signature"], v["assertion"])
		replay_paths.append(path)
		lines.append(f"VIOLATION property={pid} replay={path}")
		lines.append(f"  signature={v['signature']} count={v['count']} assertion={v['assertion']}")
		lines.append(f"  witness: {str(w.get('message'))[:700]}")

	wall = round(time.time() - t0, 3)
	if not replay:
		cov = {
			"evaluations": evaluations,
			"distinct_nontrivial": len(sigs),
			"rule": rule or "see DESIGN.md",
			"samples": samples or [{"note": "no sample recorded"}],
			"strata": strata,
			"required_strata": required,
			"counters": counters,
			"workers": len(results),
			"hash_seeds": sorted({str(r.get("hashseed_env")) for r in results}),
			"hashseed_digest_groups_compared": digest_groups,
			"hashseed_result_digests_compared": digest_cases,
			"serif_functions_entered": len(funcs),
			"serif_functions_entered_names": sorted(funcs),
			"anchor_functions_required": sorted(anchors),
			"anchor_functions_missing": sorted(a for a in anchors if a not in funcs),
			"known_finding_hits": [{"signature": k["signature"], "count": v["count"]} for k, v in known_hits],
			"violation_signatures": [v["signature"] for v in unlisted],
			"inconclusive_reasons": inconclusive[:5],
			"verdict": "violated" if unlisted else ("inconclusive" if inconclusive else "held"),
		}
		if exhaustive is not None:
			cov["exhaustive"] = bool(exhaustive.get("flag")) if isinstance(exhaustive, dict) else bool(exhaustive)
			if isinstance(exhaustive, dict):
				cov["exhaustive_scope"] = exhaustive.get("scope", "")
		ev = {
			"property_id": pid, "tier": tier, "seed": seed, "level": level, "coverage": cov,
			"assumptions": assumptions or [], "wall_s": wall, "violations": len(unlisted),
		}
		os.makedirs(os.path.join(HERE, "evidence"), exist_ok=True)
		json.dump(ev, open(os.path.join(HERE, "evidence", f"{pid}.json"), "w"), indent=1, default=str)

	for ln in lines:
		print(ln)
	if unlisted:
		print(f"RESULT property={pid} tier={tier} verdict=violated evaluations={evaluations} distinct={len(sigs)} wall={wall}s")
		return 1
	if inconclusive:
		print(f"INCONCLUSIVE property={pid} reason={inconclusive[0][:1500]}")
		return 2
	print(f"RESULT property={pid} tier={tier} verdict=held evaluations={evaluations} distinct={len(sigs)} "
		f"known_findings={len(known_hits)} workers={len(results)} wall={wall}s")
	return 0


def main():
	ap = argparse.ArgumentParser()
	ap.add_argument("--property")
	ap.add_argument("--tier", default=os.environ.get("VERIF_TIER", "quick"), choices=["quick", "thorough"])
	ap.add_argument("--seed", type=int, default=int(os.environ.get("VERIF_SEED", "0") or 0))
	ap.add_argument("--replay")
	a = ap.parse_args()
	t0 = time.time()
	if a.replay:
		path = a.replay if os.path.isabs(a.replay) else os.path.join(HERE, a.replay)
		doc = json.load(open(path))
		hs = str(doc.get("hashseed", "0")).split(",")[0]
		hs = hs if hs.isdigit() else "0"
		results = run_workers([(["--replay", path], hs)], WATCHDOG_S["quick"])
		return decide(doc["property"], "quick", int(doc.get("seed") or 0), results, t0, replay=True)
	if not a.property:
		ap.error("--property or --replay required")
	pid = a.property.upper()
	jobs = [([pid, a.tier, str(s), str(p), str(n)], h) for (s, p, n, h) in plan(pid, a.tier, a.seed)]
	results = run_workers(jobs, WATCHDOG_S[a.tier])
	return decide(pid, a.tier, a.seed, results, t0)


if __name__ == "__main__":
	sys.exit(main())
