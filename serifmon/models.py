"""Reference models written from the property statements on plain Python data.
They share no code with serif."""
import math
from datetime import date, datetime

OBJECT = object
_NUM = [bool, int, float, complex]
_TMP = [date, datetime]
_EXACT = (bool, int, float, complex, str, bytes, date, datetime, list, dict, tuple)


# ------------------------------------------------------------------- lattice
def exact_kind(v):
	"""type class of a value; ('sub', base) for instances of subclasses of built-ins"""
	t = type(v)
	if t in _EXACT:
		return t
	for base in (bool, int, float, complex, str, bytes, datetime, date, list, dict, tuple):
		if isinstance(v, base):
			return ("sub", base)
	return t


def is_sub(k):
	return isinstance(k, tuple)


def join_kinds(kinds):
	"""join of a non-empty collection of exact kinds (no subclass markers)"""
	ks = set(kinds)
	if len(ks) == 1:
		return next(iter(ks))
	if ks <= set(_NUM):
		return _NUM[max(_NUM.index(k) for k in ks)]
	if ks <= set(_TMP):
		return datetime
	return OBJECT


def model_infer(values):
	"""(kind, nullable) expected for a sequence; None when the statement does not
	settle it (no non-None value, or a subclass-of-builtin instance occurs)."""
	nullable = any(v is None for v in values)
	kinds = [exact_kind(v) for v in values if v is not None]
	if not kinds:
		return None
	if any(is_sub(k) for k in kinds):
		return None
	return (join_kinds(kinds), nullable)


def belongs(v, kind):
	"""does non-None v belong to the reported kind (generous: isinstance counts)"""
	if kind is OBJECT:
		return True
	if kind is date and isinstance(v, datetime):
		# date -> datetime is the documented widening; a datetime (or an instance of a datetime subclass) in a <date> column is the reverse
		return False
	try:
		if isinstance(v, kind):
			return True
	except TypeError:
		return True
	if kind in _NUM:
		k = exact_kind(v)
		if is_sub(k):
			k = k[1]
		return k in _NUM and _NUM.index(k) <= _NUM.index(kind)
	if kind is datetime:
		return isinstance(v, date)
	return False


def truthful(values, schema):
	"""None or a string describing how schema lies about values"""
	if schema is None:
		return None
	kind, nullable = schema.kind, schema.nullable
	for i, v in enumerate(values):
		if v is None:
			if not nullable:
				return f"None at position {i} but schema {schema!r} is non-nullable"
		elif not belongs(v, kind):
			return f"element {v!r} ({type(v).__name__}) at position {i} does not belong to {schema!r}"
	return None


def widen(v, kind):
	"""value as it appears after the documented widening into kind"""
	if v is None:
		return None
	try:
		if kind is float and isinstance(v, (bool, int)) and not isinstance(v, float):
			return float(v)
		if kind is complex and isinstance(v, (bool, int, float)):
			return complex(v)
		if kind is int and isinstance(v, bool):
			return int(v)
		if kind is datetime and isinstance(v, date) and not isinstance(v, datetime):
			return datetime.combine(v, datetime.min.time())
	except OverflowError:
		return v
	return v


# ------------------------------------------------------------ value comparison
def same(a, b):
	"""type-aware equality: 1, 1.0, True distinct; NaN equals NaN; -0.0 by sign"""
	if type(a) is not type(b):
		return False
	if isinstance(a, float):
		if a != a:
			return b != b
		return a == b and math.copysign(1, a) == math.copysign(1, b)
	if isinstance(a, complex):
		return same(a.real, b.real) and same(a.imag, b.imag)
	if isinstance(a, (list, tuple)):
		return len(a) == len(b) and all(same(x, y) for x, y in zip(a, b))
	if isinstance(a, dict):
		return a.keys() == b.keys() and all(same(a[k], b[k]) for k in a)
	try:
		return bool(a == b)
	except Exception:
		return a is b


def same_list(xs, ys):
	xs, ys = list(xs), list(ys)
	return len(xs) == len(ys) and all(same(x, y) for x, y in zip(xs, ys))


def eq_list(xs, ys):
	"""content equality (==), NaN equal to NaN, None only equal to None"""
	xs, ys = list(xs), list(ys)
	if len(xs) != len(ys):
		return False
	for x, y in zip(xs, ys):
		if (x is None) != (y is None):
			return False
		if x is None:
			continue
		if isinstance(x, float) and x != x:
			if not (isinstance(y, float) and y != y):
				return False
			continue
		try:
			if not (x == y):
				return False
		except Exception:
			if x is not y:
				return False
	return True


def first_diff(xs, ys):
	xs, ys = list(xs), list(ys)
	if len(xs) != len(ys):
		return f"length {len(xs)} != {len(ys)}"
	for i, (x, y) in enumerate(zip(xs, ys)):
		if not same(x, y):
			return f"position {i}: {x!r} ({type(x).__name__}) vs {y!r} ({type(y).__name__})"
	return None


# ------------------------------------------------------------------ snapshots
def snap_vector(v):
	"""plain snapshot of a vector: (type-tagged values, name, schema)"""
	vals = tuple(v._underlying) if hasattr(v, "_underlying") else tuple(v)
	sch = v.schema()
	return ("V", tuple((type(x).__name__, _freeze(x)) for x in vals), v.name,
		None if sch is None else (sch.kind.__name__, sch.nullable))


def _freeze(x):
	if isinstance(x, float) and x != x:
		return "NaN"
	if isinstance(x, (list, tuple)):
		return tuple(_freeze(e) for e in x)
	if isinstance(x, dict):
		return tuple(sorted((repr(k), _freeze(v)) for k, v in x.items()))
	if isinstance(x, set):
		return tuple(sorted(repr(e) for e in x))
	if hasattr(x, "_underlying") and hasattr(x, "schema"):
		return snap_any(x)
	try:
		hash(x)
		return x
	except Exception:
		return repr(x)


def snap_table(t):
	cols = tuple(t._underlying)
	return ("T", tuple(snap_vector(c) for c in cols), len(t))


def snap_any(x):
	from .bind import Table
	if isinstance(x, Table):
		return snap_table(x)
	return snap_vector(x)
