"""C19 - CSV ingestion is faithful to the file."""
from ..bind import Vector, Table
from ..core import call, short
from .. import models as M
from . import common
from . import joinmodel as J

RULE = ("a generator produces a grid of cell texts (ints with sign/underscore/padding/unicode digits, floats incl. nan/inf/exponents, look-alikes, blanks, "
	"quoted cells with delimiter / quote / \\n / \\r\\n / \\r, unicode), a header (repeated, empty and odd names) or none, a record-length pattern "
	"(full, some short, first short, all short, first cell empty), one of four delimiters, and serialises it with csv.writer; read_csv is called on a "
	"path and on a file object; the expected table is the documented cell rule applied to the very same texts: names, row count, every cell "
	"(type-aware, NaN-aware), None padding, column dtypes by the inference rule, header-only and empty input. distinct = (delimiter, header?, "
	"length pattern, via, cell classes per column).")
ASSUMPTIONS = [
	"records longer than the header are not generated (unconstrained); fully blank physical lines are not generated",
	"the file text is well-formed CSV as produced by csv.writer",
]
EXHAUSTIVE = {"flag": False, "scope": "sampled grids; every cell text of the dictionary is used in every column position class"}
ANCHOR_FUNCS = ["csv:read_csv", "csv:_read_csv_from_file", "csv:_infer_type"]
REQUIRED_STRATA = {"csv-reuse": 40, "csv-long": 10, "csv-raw": 40, "csv": 600, "csv-empty": 10, "csv-cellrule": 60}


def cell_rule(text):
	if text is None:
		return None
	s = text.strip()
	if s == "":
		return None
	try:
		return int(s)
	except ValueError:
		pass
	try:
		return float(s)
	except ValueError:
		pass
	return s


def cell_class(text):
	v = cell_rule(text)
	return "None" if v is None else type(v).__name__


def run_csv(chk, spec, raw_text=None):
	if spec.get("field_limit"):
		# the program raised the csv module's process-wide field size limit before reading (the documented way to read long cells): the read - and the
		# reference parse - run under the limit in force NOW, which is put back afterwards
		import csv as _csv
		old = _csv.field_size_limit(spec["field_limit"])
		try:
			return run_csv(chk, {k: v for k, v in spec.items() if k != "field_limit"}, raw_text)
		finally:
			_csv.field_size_limit(old)
	if raw_text is not None:
		import io
		import os
		import tempfile
		from ..bind import serif
		text = raw_text
		if spec["via"] == "path":
			fd, path = tempfile.mkstemp(prefix="serifmon-", suffix=".csv")
			try:
				with os.fdopen(fd, "w", encoding="utf-8", newline="") as f:
					f.write(text)
				o = call(serif.read_csv, path, delimiter=spec["delimiter"], has_header=spec["has_header"])
			finally:
				os.unlink(path)
		else:
			o = call(serif.read_csv, io.StringIO(text, newline=""), delimiter=spec["delimiter"], has_header=spec["has_header"])
	else:
		o, text = common.do_csv(spec)
	judge_table(chk, spec, o, text)


def judge_table(chk, spec, o, text):
	from ..core import Out
	if not isinstance(o, Out):
		o = Out(True, o, None)
	grid = spec["grid"]
	ncols = spec["ncols"]
	names = list(spec["header"]) if spec["header"] is not None else [f"col_{i}" for i in range(ncols)]
	exp_cols = [[cell_rule(row[c]) if c < len(row) else None for row in grid] for c in range(ncols)]
	stratum = "csv-reuse" if "between" in spec else "csv-long" if spec.get("pattern") == "long" else ("csv-cellrule" if spec.get("pattern") == "cellrule" else ("csv-raw" if spec.get("pattern") == "raw" else "csv")) if grid else "csv-empty"
	chk.judged(stratum, ("csv", spec["delimiter"], spec["has_header"], spec.get("pattern"), spec["via"], len(grid) > 0,
		tuple(sorted({cell_class(row[c]) if c < len(row) else "pad" for row in grid})) if False else tuple(tuple(sorted({cell_class(row[c]) if c < len(row) else "pad" for row in grid})) for c in range(min(ncols, 3)))))
	if not o.ok:
		cls = "data" if grid else ("header-only" if spec["header"] is not None else "empty-input")
		chk.fail("read_csv reads every well-formed file", f"csv/raises/{cls}/{type(o.exc).__name__}", f"read_csv({text!r}, delimiter={spec['delimiter']!r}, has_header={spec['has_header']}) raised {o!r}")
		return
	t = o.value
	chk.observe(t, "csv")
	if not isinstance(t, Table):
		chk.fail("read_csv returns a table", "csv/not-a-table", f"read_csv({text!r}) -> {type(t).__name__}")
		return
	if not grid:
		if len(t) != 0:
			chk.fail("header-only or empty input gives an empty table", "csv/empty-input-not-empty", f"read_csv({text!r}) has {len(t)} rows")
		elif spec["header"] is not None and t._underlying and t.column_names() != names:
			chk.fail("one column per header cell, named verbatim", "csv/header-names/header-only", f"read_csv({text!r}) names {t.column_names()!r}, header {names!r}")
		return
	gnames, gcols = J.cells(t)
	if gnames != names:
		cls = "count" if len(gnames) != len(names) else "text"
		chk.fail("one column per header cell, named verbatim (repeats allowed)", f"csv/header-names/{cls}", f"read_csv({text!r}): names {gnames!r}, expected {names!r}")
		return
	if len(t) != len(grid) or any(len(c) != len(grid) for c in gcols):
		chk.fail("one row per data record", "csv/row-count", f"read_csv({text!r}): {len(t)} rows / column lengths {[len(c) for c in gcols]}, {len(grid)} records")
		return
	for ci, (g, e) in enumerate(zip(gcols, exp_cols)):
		d = M.first_diff(g, e)
		if d:
			# classify by the kind of cell that went wrong
			i = next(k for k, (x, y) in enumerate(zip(g, e)) if not M.same(x, y))
			raw = grid[i][ci] if ci < len(grid[i]) else None
			if raw is None:
				cls = "short-record-not-padded"
			elif any(ch in raw for ch in "\r\n"):
				cls = "embedded-newline"
			elif raw != raw.strip():
				cls = "padded-or-blank-cell"
			else:
				cls = f"cell-rule-{cell_class(raw)}"
			chk.fail("each cell follows the rule None / int / float / stripped text of the file's cell", f"csv/cell/{cls}",
				f"read_csv({text!r}) column {ci}: {short(g, 200)} vs rule {short(e, 200)}: {d} (cell text {raw!r})")
			return
	for ci, (c, e) in enumerate(zip(t._underlying, exp_cols)):
		exp = M.model_infer(e)
		if exp is None:
			continue
		s = c.schema()
		got = None if s is None else (s.kind, s.nullable)
		if got != exp:
			chk.fail("column dtypes follow the ordinary inference rule for the cell values", f"csv/column-dtype/exp={exp[0].__name__}{'?' if exp[1] else ''}/got={got[0].__name__ if got else None}{'?' if got and got[1] else ''}",
				f"read_csv({text!r}) column {ci} values {short(e, 160)} typed {s!r}")
			return


def run_cellrule(chk, spec):
	"""one cell text in a one-column file, every dictionary entry, both input kinds and all delimiters"""
	run_csv(chk, spec)


def run_raw(chk, spec):
	"""hand-written file text; the lexical oracle is the csv module itself (default dialect + the delimiter), the cell rule on top"""
	import csv as _csv
	import io
	text, delim, has_header = spec["text"], spec["delimiter"], spec["has_header"]
	recs = list(_csv.reader(io.StringIO(text, newline=""), delimiter=delim))
	if not recs:
		return
	width = len(recs[0])
	if any(len(r) > width for r in recs) or any(len(r) == 0 for r in recs):
		chk.skip("raw-longer-record-or-blank-line")
		return
	header = recs[0] if has_header else None
	grid = recs[1:] if has_header else recs
	s2 = {"op": "csv", "header": header, "grid": grid, "delimiter": delim, "has_header": has_header, "ncols": width, "via": spec["via"], "pattern": "raw", "raw_text": text}
	run_csv(chk, s2, raw_text=text)


def run_reuse(chk, spec):
	"""the same source read more than once: the caller's file object stays open and positioned by the caller, a second read of the same path gives
	a table built from the file as it is now, independent of what was done to the first result"""
	import io
	import os
	import tempfile
	from ..bind import serif
	text = common.csv_text(spec)
	kw = dict(delimiter=spec["delimiter"], has_header=spec["has_header"])
	chk.judged("csv-reuse", ("reuse", spec["via"], spec["between"], spec["delimiter"]))
	if spec["via"] == "fileobj" and spec["between"] in ("realfile-preamble", "realfile-partly-iterated"):
		# a REAL text file opened by the caller (not an in-memory buffer), already partly read: read_csv continues from there and leaves the handle to the caller
		pre = "# exported 2020-01-31\n"
		fd, path = tempfile.mkstemp(prefix="serifmon-", suffix=".csv")
		try:
			with os.fdopen(fd, "w", encoding="utf-8", newline="") as fh:
				fh.write(pre + text)
			with open(path, "r", encoding="utf-8", newline="") as f:
				if spec["between"] == "realfile-preamble":
					f.readline()
				else:
					next(iter(f))
				b = call(serif.read_csv, f, **kw)
				closed = f.closed
		finally:
			os.unlink(path)
		if not b.ok:
			chk.fail("read_csv reads every well-formed file", f"csv/raises/{spec['between']}/{type(b.exc).__name__}", f"read_csv on a real file handle after a line was read ({text!r}) raised {b!r}")
			return
		if closed:
			chk.fail("read_csv reads the caller's file object and leaves it to the caller", "csv/closed-the-callers-file-object", f"read_csv(f) closed the caller's real file ({text!r})")
			return
		judge_table(chk, spec, b.value, text)
		return
	if spec["between"] == "digit-limit-changed":
		# "an int if int() accepts its stripped text" is decided when the file is read: the same text read again after the interpreter's int-to-str digit
		# limit changed is judged by the limit in force then (nothing remembered from the first read may answer)
		import sys
		old = sys.get_int_max_str_digits()
		try:
			for limit in spec["limits"]:
				sys.set_int_max_str_digits(limit)
				b = call(serif.read_csv, io.StringIO(text, newline=""), **kw)
				if not b.ok:
					sys.set_int_max_str_digits(old)
					chk.fail("read_csv reads every well-formed file", f"csv/raises/digit-limit-{limit}/{type(b.exc).__name__}", f"a file with a {spec['digits']}-digit cell under int digit limit {limit} raised {type(b.exc).__name__}")
					return
				names_, cols_ = b.value.column_names(), [list(c._underlying) for c in b.value.cols()]
				exp_ = [[cell_rule(row[c]) if c < len(row) else None for row in spec["grid"]] for c in range(spec["ncols"])]
				bad = [(ci, ri) for ci in range(len(exp_)) for ri in range(len(exp_[ci])) if ci < len(cols_) and ri < len(cols_[ci]) and (type(cols_[ci][ri]) is not type(exp_[ci][ri]) or (cols_[ci][ri] != exp_[ci][ri] and not (cols_[ci][ri] != cols_[ci][ri])))]
				if bad or len(cols_) != len(exp_):
					ci, ri = bad[0] if bad else (0, 0)
					sys.set_int_max_str_digits(old)
					chk.fail("each cell is an int if int() accepts its stripped text, else a float if float() does", f"csv/cell-rule/after-digit-limit-change/{'lowered' if limit and limit < old else 'restored'}",
						f"limits {spec['limits']!r}, now {limit}: cell ({ri}, {ci}) of {spec['digits']} digits is a {type(cols_[ci][ri]).__name__}, the rule gives a {type(exp_[ci][ri]).__name__}")
					return
		finally:
			sys.set_int_max_str_digits(old)
		return
	if spec["via"] == "fileobj" and spec["between"] == "after-a-headerless-read-with-a-longer-record":
		# an unrelated earlier header-less read whose LATER record is longer than its first one (undefined input) must not change what this read returns
		k = spec["ncols"]
		junk = ",".join(["1"] * k) + "\n" + ",".join(["2"] * (k + 2)) + "\n"
		call(serif.read_csv, io.StringIO(junk, newline=""), delimiter=",", has_header=False)
		b = call(serif.read_csv, io.StringIO(text, newline=""), **kw)
		if not b.ok:
			chk.fail("read_csv reads every well-formed file", f"csv/raises/{spec['between']}/{type(b.exc).__name__}", f"{text!r} raised {b!r}")
			return
		judge_table(chk, spec, b.value, text)
		return
	if spec["via"] == "fileobj" and spec["between"] in ("preamble", "rejected-call-first"):
		# a file object is read from where the caller left it; a call that was rejected for its arguments has not consumed it
		pre = "# exported 2020-01-31; 3 records\n" if spec["between"] == "preamble" else ""
		f = io.StringIO(pre + text, newline="")
		if pre:
			f.readline()
		else:
			bad = call(serif.read_csv, f, delimiter=spec["bad_delimiter"], has_header=spec["has_header"])
			if bad.ok:
				chk.counters["reuse-bad-delimiter-accepted"] += 1
				return
		b = call(serif.read_csv, f, **kw)
		if not b.ok:
			chk.fail("read_csv reads every well-formed file", f"csv/raises/{spec['between']}/{type(b.exc).__name__}", f"read_csv on a handle after {spec['between']} ({text!r}) raised {b!r}")
			return
		judge_table(chk, spec, b.value, text)
		return
	if spec["via"] == "fileobj":
		f = io.StringIO(text, newline="")
		a = call(serif.read_csv, f, **kw)
		if not a.ok:
			return
		if f.closed:
			chk.fail("read_csv reads the caller's file object and leaves it to the caller", "csv/closed-the-callers-file-object", f"read_csv(f) closed f ({text!r})")
			return
		f.seek(0)
		b = call(serif.read_csv, f, **kw)
		first, second = a.value, b
	else:
		fd, path = tempfile.mkstemp(prefix="serifmon-", suffix=".csv")
		try:
			with os.fdopen(fd, "w", encoding="utf-8", newline="") as fh:
				fh.write(text)
			a = call(serif.read_csv, path, **kw)
			if not a.ok:
				return
			first = a.value
			snap_first = M.snap_table(first) if isinstance(first, Table) else None
			if spec["between"] == "edit-result" and isinstance(first, Table) and first.cols():
				if len(first):
					call(first.__setitem__, (0, 0), first.cols()[0]._underlying[-1])
					call(lambda: first.cols()[-1].__setitem__(0, None))
				call(first.rename_column, first.column_names()[0], "renamed_by_caller")
				call(setattr, first.cols()[-1], "name", "renamed_through_the_column")
			elif spec["between"] == "rewrite-file":
				st = os.stat(path)
				g = [list(r) for r in spec["grid"]]
				k = 0 if spec["has_header"] else 1      # (a header-less file takes its width from the first record: leave it first)
				if len(g) - k > 1:
					g[k], g[-1] = g[-1], g[k]      # same size, other order
				spec = dict(spec, grid=g)
				text = common.csv_text(spec)
				with open(path, "w", encoding="utf-8", newline="") as fh:
					fh.write(text)
				os.utime(path, ns=(st.st_atime_ns, st.st_mtime_ns))
			second = call(serif.read_csv, path, **kw)
		finally:
			os.unlink(path)
	if not second.ok:
		chk.fail("read_csv reads every well-formed file", f"csv/raises/second-read/{type(second.exc).__name__}", f"second read_csv of the same {spec['via']} ({text!r}) raised {second!r}")
		return
	if second.value is first:
		chk.fail("every read_csv call returns the file's contents as a new table", "csv/second-read-returns-the-first-table", f"read_csv({spec['via']}) twice returned the same Table object")
		return
	# the second table is judged like any first read
	s2 = spec
	judge_table(chk, s2, second.value, text)


def run_special_path(chk, spec):
	"""a path that is not a regular file - a FIFO, a pipe reached as /dev/fd/N - reports size 0 and still delivers records: read_csv reads them"""
	import os, tempfile, threading
	from ..bind import serif
	text = "a,b\r\n" + "".join(f"{i},x{i}\r\n" for i in range(spec["records"]))
	o = None
	if spec["how"] == "fifo":
		d = tempfile.mkdtemp(prefix="serifmon-fifo-")
		path = os.path.join(d, "data.csv")
		try:
			os.mkfifo(path)
		except (AttributeError, OSError):
			chk.skip("no-fifo-here")
			return
		def writer():
			try:
				with open(path, "w", newline="") as f:
					f.write(text)
			except OSError:
				pass
		th = threading.Thread(target=writer, daemon=True)
		th.start()
		try:
			o = call(serif.read_csv, path)
			if th.is_alive():
				# nobody opened the read end: unblock the writer
				try:
					fd = os.open(path, os.O_RDONLY | os.O_NONBLOCK)
					os.close(fd)
				except OSError:
					pass
			th.join(5)
		finally:
			try:
				os.unlink(path); os.rmdir(d)
			except OSError:
				pass
	else:
		r, w = os.pipe()
		os.write(w, text.encode())
		os.close(w)
		path = f"/dev/fd/{r}"
		if not os.path.exists(path):
			os.close(r)
			chk.skip("no-dev-fd-here")
			return
		try:
			o = call(serif.read_csv, path)
		finally:
			try:
				os.close(r)
			except OSError:
				pass
	chk.judged("csv", ("special-path", spec["how"], spec["records"]))
	if not o.ok:
		chk.skip("special-path-refused")
		return
	t = o.value
	got = [list(c._underlying) for c in t.cols()]
	exp = [list(range(spec["records"])), [f"x{i}" for i in range(spec["records"])]]
	if got != exp:
		chk.fail("one row per data record", f"csv/special-path/{spec['how']}/records-lost", f"{spec!r}: read {short(got, 120)}, the path delivered {short(exp, 120)}")


RUNNERS = {"csv": run_csv, "raw": run_raw, "reuse": run_reuse, "special_path": run_special_path}

EXTRA_CELLS = ["ab\x00cd", "\x00", "12\x00", " q\x00 ", "\x001", "a\x0bb", "a\x0cb", "1\x0c2", "a\x1cb", "a\x1db", "a\x1eb", "a\x85b", "a\u2028b", "a\u2029b", "crlf\r\ninside", "old\rmac", "-2_5", "1__0", "_1", "1_", "+.5e-3", "0b1", "1e400", "NaN", "  -inf ", "٣", "１２", "1 000", " ", "x "]


def run(chk):
	rng = chk.rng
	common.CSV_CELLS.extend(c for c in EXTRA_CELLS if c not in common.CSV_CELLS)
	# every dictionary cell on its own, with a numeric neighbour so the column dtype matters
	for cell in list(common.CSV_CELLS):
		for delim in (",", ";", "\t", "|"):
			for via in ("fileobj", "path"):
				if chk.quick() and delim in (";", "|") and via == "path":
					continue
				hdr = rng.choice([["a", "b"], ["a", "a"], None])
				grid = [[cell, "1"], ["2", cell]]
				chk.case("csv", {"op": "csv", "header": hdr, "grid": grid, "delimiter": delim, "has_header": hdr is not None, "ncols": 2, "via": via, "pattern": "cellrule"}, "csv-cellrule")
	# header-only and empty input
	for delim in (",", ";"):
		for via in ("fileobj", "path"):
			for hdr in (["a"], ["a", "b", "a"], ["", "x y"], ["only"]):
				chk.case("csv", {"op": "csv", "header": hdr, "grid": [], "delimiter": delim, "has_header": True, "ncols": len(hdr), "via": via, "pattern": "header-only"}, "csv-empty")
			chk.case("csv", {"op": "csv", "header": None, "grid": [], "delimiter": delim, "has_header": False, "ncols": 0, "via": via, "pattern": "empty"}, "csv-empty")
			chk.case("csv", {"op": "csv", "header": None, "grid": [], "delimiter": delim, "has_header": True, "ncols": 0, "via": via, "pattern": "empty"}, "csv-empty")
	RAW = [
		'a,b\r\n1, "x, y"\r\n', 'a,b,c\r\n1, "x, y"\r\n', 'a, b\r\n 1, 2\r\n', 'a,b\n1,"x, y"\n2, "z"\n', 'a;b\r\n1; "p; q"\r\n', 'a b c\r\n1  3\r\n4 5 6\r\n', 'a b\r\n 2\r\n',
		'a,b\r\n"1" ,2\r\n', 'a,b\r\n1,"2"x\r\n', "a,b\r\n'1',2\r\n", 'a\tb\r\n1\t "q"\r\n', 'x,y\n  ,  \n1,2\n', 'x,y\n"",""\n', 'x|y\n1| "a|b"\n', 'a,b\r\n1,\r\n,2\r\n',
		'a,b\n1,2\n3\n', 'a,b\n"multi\nline",2\n', 'h\n+5\n 7 \n1_000\n0x10\n', '1,2\n3,4\n', '1, "x, y"\n2,3,4\n',
	]
	for text in RAW:
		for delim in ([",", " "] if " " in text.split("\n")[0] and "," not in text.split("\n")[0] else [d for d in (",", ";", "\t", "|", " ") if d in text] or [","]):
			for has_header in (True, False):
				for via in ("fileobj", "path"):
					chk.case("raw", {"text": text, "delimiter": delim, "has_header": has_header, "via": via}, "csv-raw")
	for _ in range(900 if chk.quick() else 6000):
		spec = common.gen_csv_spec(rng, max_rows=rng.choice([4, 8]))
		chk.case("csv", spec, "csv-sampled")
	for _ in range(40 if chk.quick() else 400):
		chk.case("csv", common.gen_csv_long(rng), "csv-long")
	# a header (or first cell) that starts with U+FEFF is that text, verbatim - by path as through a file object
	for hdr, grid in ((["\ufeffname", "b"], [["1", "2"]]), (["\ufeff", "x"], [["1", "2"]]), (None, [["\ufeff12", "3"], ["4", "5"]]), (["\ufeffa,b", "c"], [["1", "2"]])):
		for via in ("fileobj", "path"):
			chk.case("csv", {"op": "csv", "header": hdr, "grid": grid, "delimiter": ",", "has_header": hdr is not None, "ncols": 2, "via": via, "pattern": "bom"}, "csv-bom")
	for _ in range(120 if chk.quick() else 800):
		spec = common.gen_csv_spec(rng, max_rows=rng.choice([3, 6]))
		if not spec["grid"]:
			continue
		spec["via"] = rng.choice(["fileobj", "path", "path"])
		spec["between"] = rng.choice(["nothing", "edit-result", "rewrite-file"]) if spec["via"] == "path" else rng.choice(["seek0", "preamble", "rejected-call-first", "realfile-preamble", "realfile-partly-iterated", "after-a-headerless-read-with-a-longer-record"])
		spec["bad_delimiter"] = rng.choice([";;", "", "ab"])
		chk.case("reuse", spec, "csv-reuse")
	# header-only files read twice (the first result renamed by the caller in between), by path and by handle
	for hdr in (["id", "name"], ["a"], ["x", "x"], ["Total $", ""]):
		for via, between in (("path", "edit-result"), ("path", "nothing"), ("fileobj", "seek0")):
			for delim in (",", ";"):
				chk.case("reuse", {"op": "csv", "header": hdr, "grid": [], "delimiter": delim, "has_header": True, "ncols": len(hdr), "via": via, "between": between, "pattern": "header-only", "bad_delimiter": ";;"}, "csv-reuse-header-only")
	# the same long digit string read under different int-to-str digit limits
	for digits, limits in ((900, [640, 4300]), (900, [4300, 640, 4300]), (5000, [0, 4300]), (700, [640, 0])):
		big = "9" * digits
		chk.case("reuse", {"op": "csv", "header": ["a", "b"], "grid": [[big, "1"], ["2", big], ["x", "3"]], "delimiter": ",", "has_header": True, "ncols": 2, "via": "fileobj", "between": "digit-limit-changed", "limits": limits, "digits": digits, "pattern": "digit-limit"}, "csv-reuse-digit-limit")
	# header cells that are themselves spelled like default names
	for hdr in (["col_1", "col_0"], ["col_2", "city", "zip"], ["col_1", "col_1", "col_0"], ["col_0", "col_2", "col_1"], ["col_3", "a", "col_1", "b"]):
		grid = [[f"r{r}c{c}" for c in range(len(hdr))] for r in range(2)]
		for via in ("fileobj", "path"):
			chk.case("csv", {"op": "csv", "header": hdr, "grid": grid, "delimiter": ",", "has_header": True, "ncols": len(hdr), "via": via, "pattern": "default-name-lookalikes"}, "csv-default-name-lookalikes")
			chk.case("csv", {"op": "csv", "header": hdr, "grid": [], "delimiter": ",", "has_header": True, "ncols": len(hdr), "via": via, "pattern": "header-only"}, "csv-default-name-lookalikes")
	# cells longer than the csv module's default field limit, read after the program raised that limit
	for size in (131073, 200000):
		for via in ("fileobj", "path"):
			for limit in (10 ** 6, 2 ** 31 - 1):
				chk.case("csv", {"op": "csv", "header": ["a", "b"], "grid": [["1", "x" * size], ["y" * size, "2"]], "delimiter": ",", "has_header": True, "ncols": 2, "via": via, "pattern": "long-field", "field_limit": limit}, "csv-long-field-limit-raised")
	# physical LINES longer than the csv module's field size limit whose FIELDS all stay within it: a wide record under the default limit, ordinary lines after the program lowered it
	wide = [[("%04d" % c) + "x" * 3996 for c in range(40)], [str(c) for c in range(40)]]
	for via in ("fileobj", "path", "tempfile", "spooled", "wrapper"):
		chk.case("csv", {"op": "csv", "header": [f"h{c}" for c in range(40)], "grid": wide, "delimiter": ",", "has_header": True, "ncols": 40, "via": via, "pattern": "wide-record"}, "csv-line-longer-than-field-limit")
		chk.case("csv", {"op": "csv", "header": ["alpha", "beta", "gamma"], "grid": [["a" * 25, "b" * 25, "c" * 25], ["1", "2", "3"], ["d" * 30, "", "e" * 30]], "delimiter": ",", "has_header": True, "ncols": 3, "via": via, "pattern": "lowered-field-limit", "field_limit": 32}, "csv-line-longer-than-field-limit")
	for nrec in (1, 3):
		for how in ("fifo", "dev-fd"):
			chk.case("special_path", {"how": how, "records": nrec}, "csv-special-path")
	# more records than any batch size, a column that is blank for the first several thousand of them
	for nrows, first_value_at in ((5000, 4200), (9000, 8200), (4097, 4096)):
		grid = [["" if r < first_value_at else str(r), "s" if r % 2 else "", str(r)] for r in range(nrows)]
		chk.case("csv", {"op": "csv", "header": ["late", "half", "n"], "grid": grid, "delimiter": ",", "has_header": True, "ncols": 3, "via": "fileobj", "pattern": "long"}, "csv-long-late-values")
