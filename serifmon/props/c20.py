"""C20 - repr never fails and never misstates shape, dtype or data."""
import math
import re
from datetime import date, datetime, timedelta
from decimal import Decimal

from .. import bind
from ..bind import Vector, Table, display
from ..core import call, short
from .. import models as M
from .. import values as V
from . import common

from . import recompute

RULE = ("[plus the shared recompute-after-history monitor: this property's operations evaluated on long-lived objects between in-place writes / renames must equal the same operations on fresh objects rebuilt from the current contents] "
	"totality: repr() of vectors and tables of every dtype with None, NaN, +-inf, -0.0, 1e300, empty, 10^4 elements, 200-character / multi-line / "
	"'...' strings, nested and unhashable elements, 0-25 columns, odd names, zero-row tables, plus (as a universal observer) every result produced by "
	"the workloads of the arithmetic, join, aggregate, sort and CSV checks, must return a str and leave the object's snapshot unchanged. "
	"truthfulness: for set_repr_rows in {default, 2, 4, 6, 20} and per-table overrides, lengths limit-2..limit+3, widths 1-12 (around the 10-column "
	"limit), the output is parsed: footer count / rows x cols equal the truth, dtype tokens (footer, or [..] header row under <mixed>, or every column "
	"when a single token is shown) equal kind name + '?' iff nullable, the body shows every row when len <= limit and exactly first k + '...' + last "
	"k otherwise, shown cells are the first/last values, headers show the stored names. distinct = (object kind, dtype, length vs limit, width, limit, "
	"name pattern).")
ASSUMPTIONS = [
	"body content is compared only for simple cells (no whitespace in the text; floats by parse-back within 1e-5 relative)",
	"'# empty' is accepted for zero-length vectors",
	"odd set_repr_rows values are judged against the effective limit 2*(n//2); limits below 2 and non-string names are not generated",
]
EXHAUSTIVE = {"flag": False, "scope": "length x limit x width grid is complete for the listed values; cell values sampled"}
ANCHOR_FUNCS = ["display:_format_column", "display:_footer", "display:_repr_vector", "display:_repr_table", "display:set_repr_rows"]
REQUIRED_STRATA = {"recompute": 200, "total": 200, "vector-truth": 300, "table-truth": 300, "foreign-total": 300}

VEC_FOOT = re.compile(r"^# (\d+) element vector <(.+)>$")
TAB_FOOT = re.compile(r"^# (\d+)×(\d+) table(?: <(.*)>)?$")


from decimal import Decimal as _Dec
from fractions import Fraction as _Frac
from datetime import time as _time, timedelta


def dtype_token(vec):
	s = vec.schema()
	if s is None:
		return "object"
	return s.kind.__name__ + ("?" if s.nullable else "")


def snap(obj):
	try:
		return M.snap_any(obj)
	except Exception as exc:
		return ("unsnappable", type(exc).__name__)


def total(chk, obj, origin=""):
	"""universal observer: repr does not raise and does not change the object"""
	if not isinstance(obj, Vector):
		return
	before = snap(obj)
	o = call(repr, obj)
	kind = "table" if isinstance(obj, Table) else "vector"
	chk.judged("foreign-total" if chk._cur and str(chk._cur[0]).startswith("foreign:") else "total", None)
	if not o.ok:
		sch = obj.schema() if not isinstance(obj, Table) else None
		k = sch.kind.__name__ if sch is not None else ("table" if isinstance(obj, Table) else "none")
		chk.fail("repr never raises", f"repr/raises/{kind}/{k}/{type(o.exc).__name__}", f"repr of {kind} from {origin} raised {o!r}; contents {short(before, 300)}")
		return
	if not isinstance(o.value, str):
		chk.fail("repr returns a string", f"repr/not-a-string/{kind}", f"{origin}: {type(o.value).__name__}")
	if snap(obj) != before:
		chk.fail("repr does not change the object", f"repr/mutates/{kind}", f"{origin}: {short(before, 200)} -> {short(snap(obj), 200)}")
	placeholder_for_printable(chk, obj, o.value, kind, origin)


def _printable(v):
	"""can this cell's text be produced by the cell's own hooks (str, format for floats, isoformat for dates)"""
	try:
		str(v)
		repr(v)
		if isinstance(v, float):
			format(v, ".1f"); format(v, "g")
		if isinstance(v, date):
			v.isoformat()
		return True
	except Exception:
		return False


def placeholder_for_printable(chk, obj, text, kind, origin):
	"""the `<TypeName>` placeholder stands for a cell whose own text cannot be produced; every cell that CAN say what it is is shown by that text, not by its type"""
	cols = obj.cols() if isinstance(obj, Table) else [obj]
	cells = []
	for c in cols:
		if isinstance(c, Table):
			return
		cells.extend(c._underlying[:400])
	if any(isinstance(v, Vector) for v in cells):
		return
	by_type = {}
	for v in cells:
		if v is None:
			continue
		by_type.setdefault(type(v).__name__, []).append(v)
	body = [ln for ln in text.split("\n") if not ln.lstrip().startswith("#")]
	for tname, vs in by_type.items():
		if not all(_printable(v) for v in vs):
			continue
		token = f"<{tname}>"
		def mentions(v):
			try:
				return token in (v if isinstance(v, str) else repr(v))
			except Exception:
				return False
		if any(mentions(v) for v in cells):
			continue
		if any(re.search(r"(^|\s)" + re.escape(token) + r"(\s|$)", ln) for ln in body):
			chk.fail("repr shows the data", f"repr/placeholder-for-a-printable-cell/{kind}/{tname}", f"{origin}: a cell of type {tname} whose str() / format() / isoformat() work is shown as {token}; cells {short(vs, 120)}\n{text[:400]}")
			return


def setup_limits(spec):
	# (a negative limit shows no more than a limit of 0 does: effective_k() clamps it)
	display.set_repr_rows(spec.get("limit"))
	pol = spec.get("polluter")
	# an earlier repr of some OTHER object must not leave state behind that changes this one
	if pol == "empty-peek":
		call(lambda: repr(Table().peek()))
	elif pol == "zero-col-override":
		def f():
			t0 = Table(())
			t0._repr_rows = 4
			return repr(t0)
		call(f)
	elif pol == "table-override":
		def g():
			t1 = Table([Vector(list(range(30)), name="a")])
			t1._repr_rows = 2
			return repr(t1)
		call(g)
	elif pol == "vector-long":
		call(lambda: repr(Vector(list(range(50)))))
	elif pol == "failing":
		class Bad:
			def __str__(self):
				raise RuntimeError("bad element")
			__repr__ = __str__
		call(lambda: repr(Vector([Bad(), Bad()])))


def effective_k(spec, table_override=None):
	"""the preview limit in force: TOTAL rows shown (head + tail), as set_repr_rows documents"""
	n = table_override if table_override is not None else (spec.get("limit") if spec.get("limit") is not None else 12)
	return max(int(n), 0)


def cell_matches(text, v, token):
	"""is `text` a faithful rendering of value v in a column whose dtype token is `token`"""
	text = text.strip()
	if v is None:
		return text == "None"
	if isinstance(v, bool):
		if token.startswith(("float", "complex", "int")):
			# a bool kept in a numeric column: shown as itself or as the number it is there - never as something that is neither (True.0)
			try:
				return text == str(v) or float(text) == float(v)
			except ValueError:
				return False
		return text == str(v)
	if isinstance(v, float) or token.startswith("float"):
		try:
			f = float(text)
		except ValueError:
			return False
		if isinstance(v, float) and v != v:
			return f != f
		if isinstance(v, float) and v == 0.0 and f == 0.0:
			return math.copysign(1.0, f) == math.copysign(1.0, v)      # -0.0 and 0.0 are different values
		return f == v or math.isclose(f, v, rel_tol=1e-5, abs_tol=1e-12)
	if isinstance(v, int):
		return text == str(v)
	if isinstance(v, datetime):
		return text in (str(v), v.isoformat())
	if isinstance(v, date):
		return text in (v.isoformat(), str(v))
	if isinstance(v, str):
		return text in (v, repr(v))
	return text == str(v)


def expected_shown(vals, limit, body=None):
	"""indices shown: all of them when the data is not longer than the limit, else the first rows + None (the ellipsis) + the last rows, limit rows in all.
	How an odd limit is cut into head and tail is the library's choice: when the body lines are given, the cut is read off the position of their ellipsis
	line and accepted if the two parts differ by at most one row and add up to the limit"""
	n = len(vals)
	if n > limit:
		head, tail = limit - limit // 2, limit // 2
		if body is not None and limit % 2:
			pos = [i for i, ln in enumerate(body) if (ln.strip() == "..." if isinstance(ln, str) else (ln and all(tok == "..." for tok in ln)))]
			if len(pos) == 1 and len(body) == limit + 1 and abs(pos[0] - (len(body) - pos[0] - 1)) <= 1:
				head, tail = pos[0], len(body) - pos[0] - 1
		return list(range(head)) + [None] + list(range(n - tail, n))
	return list(range(n))


def run_vector_truth(chk, spec):
	setup_limits(spec)
	try:
		vals = spec["values"]
		v = Vector(list(vals), name=spec.get("name"))
		before = snap(v)
		o = call(repr, v)
		k = effective_k(spec)
		n = len(vals)
		rel = "over" if n > k else ("at" if n == k else "under")
		chk.judged("vector-truth", ("vtruth", spec.get("kind"), spec.get("limit"), n - k, bool(spec.get("name")), any(x is None for x in vals)))
		if not o.ok:
			chk.fail("repr never raises", f"repr/raises/vector/{spec.get('kind')}/{type(o.exc).__name__}", f"repr(Vector({short(vals, 200)}, name={spec.get('name')!r})) raised {o!r}")
			return
		if snap(v) != before:
			chk.fail("repr does not change the object", "repr/mutates/vector", f"{spec!r}")
		text = o.value
		lines = text.split("\n")
		foot = lines[-1]
		if n == 0 and foot.startswith("# empty"):
			return
		m = VEC_FOOT.match(foot)
		if not m:
			chk.fail("the footer states count and dtype", "repr/vector-footer-unparseable", f"{spec!r}: footer {foot!r}")
			return
		if int(m.group(1)) != n:
			chk.fail("the footer states the true element count", "repr/vector-footer-count", f"{spec!r}: footer {foot!r}, length {n}")
			return
		tok = dtype_token(v)
		if m.group(2) != tok:
			cls = "nullability" if m.group(2).rstrip("?") == tok.rstrip("?") else "kind"
			chk.fail("the footer states the true dtype with nullability", f"repr/vector-footer-dtype/{cls}", f"{spec!r}: footer {foot!r}, schema {v.schema()!r}")
			return
		body = lines[:-2]
		if len(lines) < 2 or lines[-2] != "":
			chk.fail("repr layout: blank line before the footer", "repr/vector-layout", f"{spec!r}: {text!r}")
			return
		if spec.get("name"):
			head, body = body[0], body[1:]
			nm = spec["name"]
			if head.strip() not in (nm, repr(nm)):
				chk.fail("the header shows the stored name", "repr/vector-header-name", f"{spec!r}: header {head!r}")
				return
		shown = expected_shown(vals, k, body)
		if len(body) != len(shown):
			chk.fail("longer data shows first and last rows around an ellipsis, shorter data shows every row", f"repr/vector-body-rows/{rel}-limit",
				f"{spec!r}: {len(body)} body lines for length {n} with limit {k}: {body!r}")
			return
		for line, idx in zip(body, shown):
			if idx is None:
				if line.strip() != "...":
					chk.fail("an ellipsis separates head and tail", "repr/vector-ellipsis", f"{spec!r}: line {line!r}")
					return
			elif not cell_matches(line, vals[idx], tok):
				where = "head" if idx < k or n <= k else "tail"
				chk.fail("shown rows are the first and last values", f"repr/vector-cell/{where}", f"{spec!r}: line {line!r} for element {idx} = {vals[idx]!r}")
				return
	finally:
		display.set_repr_rows(None)


def run_table_truth(chk, spec):
	setup_limits(spec)
	try:
		names, cols = spec["names"], spec["cols"]
		t = Table([Vector(list(c), name=nm) for c, nm in zip(cols, names)])
		if spec.get("zero_rows_via") and cols and len(cols[0]):
			# a typed table from which every row was selected away keeps its columns and their dtypes
			n0 = len(cols[0])
			z = call({"slice": lambda: t[0:0], "slice-end": lambda: t[n0:], "mask": lambda: t[[False] * n0], "mask-vector": lambda: t[Vector([False] * n0)]}[spec["zero_rows_via"]])
			if not z.ok or not isinstance(z.value, Table) or len(z.value.cols()) != len(cols):
				chk.skip("zero-row-selection-unavailable")
				return
			t = z.value
			cols = [[] for _ in cols]
		if spec.get("override") is not None:
			t._repr_rows = spec["override"]
		if spec.get("write_after_repr") and cols and len(cols[0]):
			# shown once, then a cell write that changes a column's dtype in place (None: nullable; a float into ints: promotion): the next repr states the dtypes of NOW
			call(repr, t)
			j = spec["write_after_repr"][0] % len(cols)
			val = {"none": None, "float": 2.5}[spec["write_after_repr"][1]]
			if val is None or all(type(x) is int for x in cols[j] if x is not None):
				w = call(t.cols()[j].__setitem__, 0, val) if spec["write_after_repr"][2] == "view" else call(t.__setitem__, (0, j), val)
				if w.ok:
					cols = [list(c) for c in cols]
					cols[j][0] = val
					if val == 2.5:
						cols[j] = [None if x is None else (x if i == 0 else float(x)) for i, x in enumerate(cols[j])]
		before = snap(t)
		o = call(repr, t)
		k = effective_k(spec, spec.get("override"))
		nrows = len(cols[0]) if cols else 0
		ncols = len(cols)
		rel = "over" if nrows > k else ("at" if nrows == k else "under")
		chk.judged("table-truth", ("ttruth", ncols, nrows - k, spec.get("limit"), spec.get("override"), spec.get("namepat"), spec.get("dtpat")))
		if not o.ok:
			chk.fail("repr never raises", f"repr/raises/table/table/{type(o.exc).__name__}", f"{spec!r} raised {o!r}")
			return
		if snap(t) != before:
			chk.fail("repr does not change the object", "repr/mutates/table", f"{spec!r}")
		text = o.value
		lines = text.split("\n")
		m = TAB_FOOT.match(lines[-1])
		if not m:
			chk.fail("the footer states rows x columns and dtypes", "repr/table-footer-unparseable", f"{spec!r}: footer {lines[-1]!r}")
			return
		if (int(m.group(1)), int(m.group(2))) != (nrows, ncols):
			chk.fail("the footer states the true rows x columns", "repr/table-footer-shape", f"{spec!r}: footer {lines[-1]!r}, truth {nrows}x{ncols}")
			return
		if ncols == 0:
			return
		toks = [dtype_token(c) for c in t._underlying]
		trunc = ncols > 10
		shown_cols = list(range(5)) + list(range(ncols - 5, ncols)) if trunc else list(range(ncols))
		rest = lines[:-2]
		if lines[-2] != "":
			chk.fail("repr layout: blank line before the footer", "repr/table-layout", f"{spec!r}: {text!r}")
			return
		# header rows (names / dot names / [types]) are recognised by their shape
		hdr = []
		split = [ln.split() for ln in rest]
		pos = 0
		if any(names):
			hdr.append(("names", split[pos]))
			pos += 1
		if pos < len(split) and split[pos] and all(tok.startswith(".") for tok in split[pos]) and any(tok != "..." for tok in split[pos]):
			hdr.append(("dots", split[pos]))
			pos += 1
		if pos < len(split) and split[pos] and all((tok.startswith("[") and tok.endswith("]")) or tok == "..." for tok in split[pos]) and any(tok.startswith("[") for tok in split[pos]):
			hdr.append(("types", split[pos]))
			pos += 1
		body = split[pos:]
		ftxt = m.group(3) or ""
		types_row = dict(hdr).get("types")
		if ftxt == "mixed":
			if types_row is None:
				chk.fail("a <mixed> footer comes with a [dtype] header row", "repr/table-mixed-without-types-row", f"{spec!r}: {text!r}")
				return
			want = [f"[{toks[i]}]" for i in shown_cols]
			if trunc:
				want = want[:5] + ["..."] + want[5:]
			if types_row != want:
				chk.fail("the dtype header row states the true dtypes with nullability", "repr/table-dtype-header", f"{spec!r}: {types_row!r} vs {want!r}")
				return
		else:
			ft = [x.strip() for x in ftxt.split(",")]
			if len(ft) == 1:
				if any(tk != ft[0] for tk in toks):
					cls = "hidden-column" if all(toks[i] == ft[0] for i in shown_cols) else "visible-column"
					chk.fail("a single dtype in the footer is the dtype of every column", f"repr/table-footer-dtype/single-token/{cls}", f"{spec!r}: footer {lines[-1]!r}, dtypes {toks!r}")
					return
			else:
				want = toks if not trunc else toks[:5] + ["..."] + toks[-5:]
				if ft != want:
					chk.fail("the footer lists the true dtypes with nullability", "repr/table-footer-dtype/list", f"{spec!r}: footer {lines[-1]!r}, dtypes {want!r}")
					return
		shown = expected_shown(list(range(nrows)), k, body)
		if len(body) != len(shown):
			chk.fail("longer data shows first and last rows around an ellipsis, shorter data shows every row", f"repr/table-body-rows/{rel}-limit",
				f"{spec!r}: {len(body)} body lines for {nrows} rows with limit {k}")
			return
		if spec.get("simple"):
			if any(names):
				want = []
				for i in shown_cols:
					want.append(names[i])
				row = dict(hdr)["names"]
				if trunc:
					row = row[:5] + row[6:]
				if len(row) != len(want) or any(a not in (b, repr(b)) for a, b in zip(row, want)):
					chk.fail("column headers show the stored names", "repr/table-header-names", f"{spec!r}: header {row!r}, names {want!r}")
					return
			for toks_line, ridx in zip(body, shown):
				if ridx is None:
					if set(toks_line) != {"..."}:
						chk.fail("an ellipsis row separates head and tail", "repr/table-ellipsis-row", f"{spec!r}: {toks_line!r}")
						return
					continue
				cells = toks_line[:5] + toks_line[6:] if trunc else toks_line
				if len(cells) != len(shown_cols):
					chk.fail("every shown row has one cell per shown column", "repr/table-row-width", f"{spec!r}: row {toks_line!r}")
					return
				for ctext, ci in zip(cells, shown_cols):
					if not cell_matches(ctext, cols[ci][ridx], toks[ci]):
						where = "head" if ridx < k or nrows <= k else "tail"
						chk.fail("shown rows are the first and last rows", f"repr/table-cell/{where}", f"{spec!r}: cell {ctext!r} for row {ridx} column {ci} = {cols[ci][ridx]!r}")
						return
	finally:
		display.set_repr_rows(None)


class Tag(str):
	"""a str subclass that changes nothing (its repr is the string's)"""


def run_strsub(chk, spec):
	"""instances of str subclasses are strings: an object column / table shows them exactly as it shows a plain str with the same text"""
	vals = [Tag(x[1]) if isinstance(x, tuple) else x for x in spec["values"]]
	plain = [str(x) if isinstance(x, str) else x for x in vals]
	chk.judged("vector-truth", ("strsub", spec["obj"], len(vals)))
	if spec["obj"] == "vector":
		a, b = call(lambda: repr(Vector(list(vals), name="nm"))), call(lambda: repr(Vector(list(plain), name="nm")))
	else:
		a, b = call(lambda: repr(Table([Vector(list(vals), name="a"), Vector(list(range(len(vals))), name="b")]))), call(lambda: repr(Table([Vector(list(plain), name="a"), Vector(list(range(len(vals))), name="b")])))
	if not a.ok:
		chk.fail("repr never raises", f"repr/raises/{spec['obj']}/str-subclass/{type(a.exc).__name__}", f"{spec!r} raised {a!r}")
		return
	if b.ok and a.value != b.value:
		chk.fail("repr never misstates data (a str-subclass instance is shown like the string it is)", f"repr/{spec['obj']}-cell/str-subclass-shown-differently", f"{spec!r}:\n{a.value}\n--- with plain strings ---\n{b.value}")


def run_str_cells(chk, spec):
	"""a str column is shown left-justified with every cell exactly as stored - leading blanks included"""
	vals = spec["values"]
	t = Table([Vector(list(vals), name="s"), Vector(list(range(len(vals))), name="n")])
	o = call(repr, t)
	chk.judged("table-truth", ("str-cells", len(vals), spec.get("obj", "table")))
	if not o.ok:
		chk.fail("repr never raises", f"repr/raises/table/str-cells/{type(o.exc).__name__}", f"{spec!r} raised {o!r}")
		return
	lines = o.value.split("\n")
	body = [ln for ln in lines if ln.rstrip().endswith(tuple(str(i) for i in range(len(vals)))) and not ln.startswith("#")][-len(vals):]
	if len(body) != len(vals):
		chk.counters["str-cells-unparsed"] += 1
		return
	width = max(len(x) for x in vals + ["s"])
	for ln, x in zip(body, vals):
		if not ln.startswith(x.ljust(width)[:len(x)]) or (x != x.lstrip() and ln[:len(x)] != x):
			chk.fail("shown rows are the first and last rows (cells exactly as stored)", "repr/table-cell/str-leading-whitespace", f"{spec!r}: line {ln!r} for the cell {x!r}\n{o.value}")
			return


def run_total(chk, spec):
	setup_limits(spec)
	try:
		kind = spec["obj"]
		if spec.get("factory") == "namesake":
			# user classes that merely share their NAME with a built-in kind (no subclass): formatted like any other object
			mk = lambda nm: type(nm, (), {"__init__": lambda self, x: setattr(self, "x", x), "__repr__": lambda self: f"<{nm} {self.x}>"})
			cls = mk(spec["classname"])
			spec = dict(spec)
			if kind == "vector":
				spec["values"] = [cls(1), cls(2), cls(3)] if spec.get("what", "").endswith("only") else [cls(1), None, cls(3)]
			else:
				spec["cols"] = [[cls(1), cls(2)], [3, 4]]
		if spec.get("factory") == "unprintable":
			# objects whose text cannot be produced at all (whatever their __str__ raises)
			exc = {"RuntimeError": RuntimeError, "AttributeError": AttributeError, "KeyError": KeyError, "ZeroDivisionError": ZeroDivisionError, "Custom": type("Custom", (Exception,), {}), "OSError": OSError}[spec.get("exc", "RuntimeError")]
			class NoText:
				def __str__(self):
					raise exc("no text")
				__repr__ = __str__
			spec = dict(spec)
			if kind == "vector":
				spec["values"] = [NoText(), NoText()] if spec.get("what") == "unprintable-only" else [NoText(), 1, "a"]
			else:
				spec["cols"] = [[NoText(), 1], [2, 3]]
		if kind == "vector":
			o = call(lambda: Vector(list(spec["values"]), name=spec.get("name")))
		elif kind == "table":
			o = call(lambda: Table([Vector(list(c), name=nm) for c, nm in zip(spec["cols"], spec["names"])]))
		elif kind == "ragged":
			o = call(lambda: Vector([Vector(list(c)) for c in spec["cols"]]))
		else:
			raise ValueError(kind)
		if not o.ok:
			chk.skip("total-construction-refused")
			return
		obj = o.value
		sig = ("total", kind, spec.get("what"), spec.get("limit"))
		chk.sigs.add(repr(sig))
		total(chk, obj, spec.get("what", ""))
		if kind == "table" and len(obj) > 0:
			r = call(lambda: obj[0])
			if r.ok:
				rr = call(repr, r.value)
				if not rr.ok:
					chk.fail("repr never raises", f"repr/raises/row/{type(rr.exc).__name__}", f"repr(table[0]) raised {rr!r} for {short(spec, 200)}")
	finally:
		display.set_repr_rows(None)

def run_int_limit(chk, spec):
	"""repr never raises - also when the interpreter's int-to-str digit limit was LOWERED after the library was imported (sys.set_int_max_str_digits, the
	documented hardening knob) and a stored int lies between the new and the old limit"""
	import sys
	digits = spec["digits"]
	big = 10 ** (digits - 1) + 7
	objs = {
		"int-vector": lambda: Vector([big, 1, -big]), "float-column-holding-int": lambda: Vector([1.5, big]), "table": lambda: Table({"a": [big, 2], "b": ["x", "y"]}),
		"row": lambda: Table({"a": [big, 2], "b": [1, 2]})[0], "object-vector": lambda: Vector([big, "a"]), "tuple-cell": lambda: Vector([(big,), (1,)]), "named": lambda: Vector([1, 2], name=big),
		"nullable": lambda: Vector([big, None]), "signed-pair-in-float-column": lambda: Vector([1.5, big, -big]), "signed-pair-in-table": lambda: Table({"a": [1, big, -big]}), "signed-object-cells": lambda: Vector([big, -big, "a"]),
		"negative-name": lambda: Vector([1, 2], name=-big), "negative-in-tuple": lambda: Vector([(-big,), (1,)]), "negative-row": lambda: Table({"a": [-big, 2], "b": [1, 2]})[0],
	}
	built = call(objs[spec["what"]])
	if not built.ok:
		chk.skip("int-limit-construction-refused")
		return
	old = sys.get_int_max_str_digits()
	try:
		sys.set_int_max_str_digits(spec["limit"])
		r = call(repr, built.value)
		ok, exc = r.ok, (type(r.exc).__name__ if not r.ok else None)
	finally:
		sys.set_int_max_str_digits(old)
	chk.sigs.add(repr(("int-limit", spec["what"], spec["limit"], digits)))
	chk.judged("total", ("int-limit", spec["what"], spec["limit"], digits)) if hasattr(chk, "judged") else None
	if ok and spec["what"] in ("int-vector", "signed-pair-in-float-column", "signed-pair-in-table", "signed-object-cells"):
		# however such an int is shown, a negative one is not shown as the positive one: the line of -big carries a minus sign, the line of big does not
		lines = [ln.strip() for ln in r.value.splitlines()]
		body = [ln for ln in lines if ln and not ln.startswith("#")]
		pos_i, neg_i = {"int-vector": (0, 2), "signed-pair-in-float-column": (1, 2), "signed-pair-in-table": (-2, -1), "signed-object-cells": (0, 1)}[spec["what"]]
		if len(body) >= 3 or (spec["what"] == "signed-object-cells" and len(body) >= 2):
			pl, nl = body[pos_i], body[neg_i]
			if pl.startswith("-") or not nl.startswith("-"):
				chk.fail("repr shows the data", f"repr/sign-lost/int-beyond-digit-limit/{spec['what']}", f"{spec!r}: the lines of big and -big read {pl[:24]!r}... and {nl[:24]!r}...")
				return
	if not ok:
		chk.fail("repr never raises", f"repr/raises/int-digit-limit-lowered/{spec['what']}/{exc}", f"{spec!r}: with sys.set_int_max_str_digits({spec['limit']}) after import, repr of a {spec['what']} holding an int of {digits} digits raised {exc}")

def run_repr_then_use(chk, spec):
	"""repr does not change the object - not its cells and not how it answers afterwards: after a rename through a column vector, the same table with and
	without a repr() in between advertises and resolves the same accessors"""
	nrows = spec["nrows"]
	mk = lambda: Table([Vector(list(range(nrows)), name="price"), Vector([str(i) for i in range(nrows)], name="qty")])
	a, b = mk(), mk()
	for t in (a, b):
		if spec["touch_first"]:
			call(dir, t)
		call(setattr, t.cols()[0], "name", spec["new"])
	r = call(repr, a)             # only a is shown
	if spec["twice"]:
		call(repr, a)
	chk.judged("total", ("repr-then-use", nrows, spec["new"], spec["touch_first"], spec["twice"]))
	if not r.ok:
		chk.fail("repr never raises", f"repr/raises/table/after-view-rename/{type(r.exc).__name__}", f"{spec!r}: {r!r}")
		return
	probes = {"dir": lambda t: sorted(x for x in dir(t) if not x.startswith("_") and x in ("price", "cost", "qty", spec["new"].lower())), "getattr-new": lambda t: list(getattr(t, spec["new"].lower())),
		"getattr-old": lambda t: list(getattr(t, "price")), "item-new": lambda t: list(t[spec["new"]]), "names": lambda t: t.column_names(), "cell-write": lambda t: t.__setitem__((0, spec["new"].lower()), 7) if nrows else None}
	for nm, f in probes.items():
		x, y = call(f, a), call(f, b)
		if x.ok != y.ok or (x.ok and x.value != y.value):
			chk.fail("repr does not change the object", f"repr/mutates/table/answers-differently-afterwards/{nm}", f"{spec!r}: after repr(t), {nm} gives {x!r}; the same table without the repr gives {y!r}")
			return


def run_built_by_history(chk, spec):
	"""objects that only a sequence of calls produces - a <datetime> column that took a plain date afterwards, a table whose first cells were overwritten
	with None in front of a column of nested vectors, cells and labels of str subclasses whose own __str__ / __repr__ raise - : repr returns a string, leaves
	the object alone and states the true size"""
	import warnings
	what = spec["what"]
	with warnings.catch_warnings():
		warnings.simplefilter("ignore")
		if what == "date-in-datetime-vector":
			obj = Vector([date(2020, 1, 1), date(2020, 1, 2), None][:spec.get("n", 3)], name="when")
			obj[0] = datetime(2020, 1, 1, 5, 30)
			obj[1 % len(obj)] = date(2021, 2, 3)
			size = f"{len(obj)} element vector"
		elif what == "date-in-datetime-column":
			obj = Table({"id": [1, 2, 3], "when": [datetime(2020, 1, 1, 5), datetime(2020, 1, 2, 6), datetime(2020, 1, 3, 7)]})
			obj[1, "when"] = date(2021, 2, 3)
			size = "3×2 table"
		elif what == "inferred-datetime-then-date":
			obj = Vector([datetime(2020, 1, 1, 5), date(2020, 1, 2)])
			size = "2 element vector"
		elif what == "none-before-nested-column":
			obj = Table([Vector(["a", "b"], name="key"), Vector([Vector([1, 2]), Vector([3, 4, 5])], name="members")])
			call(repr, obj)
			obj[0, "key"] = None
			size = "2×2 table"
		elif what == "none-first-then-nested":
			obj = Table([Vector([None, "b"], name="key"), Vector([None, 2], name="n"), Vector([Vector([1, 2]), Vector([3, 4])], dtype=object, name="members")])
			size = "2×3 table"
		elif what.startswith("hostile-number"):
			class HI(int):
				__str__ = __repr__ = lambda self: 1 / 0
			class HF(float):
				__str__ = __repr__ = lambda self: 1 / 0
				def __format__(self, f):
					raise RuntimeError("no format")
			class HD(date):
				def isoformat(self):
					raise KeyError("no iso")
				__str__ = __repr__ = lambda self: 1 / 0
			obj, size = {"hostile-number-int": lambda: (Vector([HI(1), 2]), "2 element vector"), "hostile-number-float": lambda: (Vector([HF(1.5), 2.5, HF(2.0)]), "3 element vector"), "hostile-number-date": lambda: (Vector([HD(2020, 1, 1), date(2020, 1, 2)]), "2 element vector"),
				"hostile-number-table": lambda: (Table({"a": [HI(1), 2], "b": [HF(2.0), 1.0], "c": [HD(2020, 1, 1), None]}), "2×3 table"), "hostile-number-int-in-float": lambda: (Vector([HI(1), 2.5]), "2 element vector")}[what]()
		else:
			mode = spec["mode"]
			ns = {}
			if mode in ("str", "both"):
				ns["__str__"] = lambda self: 1 / 0
			if mode in ("repr", "both"):
				ns["__repr__"] = lambda self: 1 / 0
			H = type("H", (str,), ns)
			obj, size = {
				"hostile-str-cells": lambda: (Vector([H("a"), H("b c")]), "2 element vector"), "hostile-str-object-cells": lambda: (Vector([H("a"), 1], dtype=object), "2 element vector"),
				"hostile-str-vector-name": lambda: (Vector([1], name=H("x y")), "1 element vector"), "hostile-str-table": lambda: (Table([Vector([1], name=H("x y")), Vector([H("q")], name=H("z"))]), "1×2 table"),
				"hostile-str-row": lambda: (Table({"a": [H("x")], "b": [2]})[0], None), "hostile-str-tuple-cell": lambda: (Vector([(H("a"), 1), (H("b"), 2)]), "2 element vector"),
			}[what]()
	before = snap(obj) if not isinstance(obj, bind.Row) else None
	o = call(repr, obj)
	chk.judged("total", ("built-by-history", what, spec.get("mode")))
	if not o.ok:
		chk.fail("repr never raises", f"repr/raises/{what}/{type(o.exc).__name__}", f"{spec!r}: repr raised {o!r}")
		return
	if not isinstance(o.value, str):
		chk.fail("repr returns a string", f"repr/not-a-string/{what}", f"{spec!r}: {type(o.value).__name__}")
		return
	if before is not None and snap(obj) != before:
		chk.fail("repr does not change the object", f"repr/mutates/{what}", f"{spec!r}")
		return
	if not what.startswith("hostile"):
		placeholder_for_printable(chk, obj, o.value, "table" if isinstance(obj, Table) else "vector", what)
	if size is not None and size not in o.value:
		chk.fail("the footer states the true element count or rows x columns", f"repr/footer-count/{what}", f"{spec!r}: expected {size!r} in the footer:\n{o.value}")


RUNNERS = {"built_by_history": run_built_by_history, "repr_then_use": run_repr_then_use, "int_limit": run_int_limit, "str_cells": run_str_cells, "strsub": run_strsub, "vector_truth": run_vector_truth, "table_truth": run_table_truth, "total": run_total}
RUNNERS["recompute"] = recompute.runner("C20")

SIMPLE = {
	"int": [0, 1, -1, 25, 1000, -37],
	"float": [0.5, -2.25, 3.0, 1e10, 0.125, -0.0],
	"str": ["a", "bc", "Zed", "x_1", "é"],
	"bool": [True, False],
	"float-holding-bools-and-ints": [1.5, True, False, 2, -0.5, True],
	"int-holding-bools": [3, True, False, 7],
	"date": [V.D0, date(2021, 2, 28), date(1999, 12, 31)],
	# kinds beyond the built-in scalars keep their own class as dtype; Ellipsis is an ordinary value of an object column
	"Decimal": [_Dec("1.5"), _Dec("0"), _Dec("-2.25")],
	"Fraction": [_Frac(1, 3), _Frac(5, 2), _Frac(-7, 4)],
	"timedelta": [timedelta(days=1), timedelta(hours=5), timedelta(0)],
	"tuple": [(1, 2), (3,), (), (4, 5, 6)],
	"time": [_time(5, 30), _time(0, 0), _time(23, 59, 59)],
	"object-ellipsis": [1, Ellipsis, "a", 2.5, Ellipsis, b"x"],
	"ellipsis": [Ellipsis],
}
HOSTILE = {
	"float": [float("nan"), float("inf"), float("-inf"), -0.0, 1e300, 1e-300, 0.1, 5e-324, 1.0],
	"int": [0, -1, 2**70, -(2**70), 10**30],
	"str": ["", " ", "a b", "line\nbreak", "tab\there", "...", "x" * 200, "é漢字", "'quoted'", "None"],
	"complex": [1j, complex(float("nan"), 1), complex(float("inf"), 0)],
	"bytes": [b"", b"\x00\xff", b"abc"],
	"date": [date.min, date.max, V.D0],
	"datetime": [datetime.min, datetime.max, V.DT0],
	"object": [None, 1, "a", 2.5, [1, 2], {"k": 1}, (1,), {1, 2}, Decimal("1.5"), V.Plain(1), float("nan"), b"x", "...", timedelta(1)],
	"list": [[1], [], [[1, 2], 3]],
	"bool": [True, False],
	"Decimal": [Decimal("1.5"), Decimal("NaN"), Decimal("Infinity")],
}
NAMES_SIMPLE = ["a", "b", "col", "x1", "Name", "zed", "k", "m", "n", "p", "q", "r"]
NAMES_ODD = [None, "", "a b", "sum", "1st", "é", "...", "Total $", "x" * 60, "a", "a", "T", "name", "_", "0", "1.5", "None"]


def run(chk):
	recompute.add_cases(chk, "C20")
	rng = chk.rng
	chk.observers.append(total)
	for nrows in (0, 0, 1, 3):
		for new in ("cost", "Cost", "unit cost"):
			for touch_first in (False, True):
				for twice in (False, True):
					chk.case("repr_then_use", {"nrows": nrows, "new": new, "touch_first": touch_first, "twice": twice}, "repr-then-use")
	for what in ("date-in-datetime-vector", "date-in-datetime-column", "inferred-datetime-then-date", "none-before-nested-column", "none-first-then-nested"):
		chk.case("built_by_history", {"what": what}, "built-by-history")
	for what in ("hostile-number-int", "hostile-number-float", "hostile-number-date", "hostile-number-table", "hostile-number-int-in-float"):
		chk.case("built_by_history", {"what": what}, "built-by-history")
	for what in ("hostile-str-cells", "hostile-str-object-cells", "hostile-str-vector-name", "hostile-str-table", "hostile-str-row", "hostile-str-tuple-cell"):
		for mode in ("str", "repr", "both"):
			chk.case("built_by_history", {"what": what, "mode": mode}, "built-by-history")
	for what in ("int-vector", "float-column-holding-int", "table", "row", "nullable", "signed-pair-in-float-column", "signed-pair-in-table", "signed-object-cells", "negative-name", "negative-in-tuple", "negative-row"):
		for limit, digits in ((640, 800), (640, 4000), (1000, 1001), (0, 5000)):
			chk.case("int_limit", {"what": what, "limit": limit, "digits": digits}, "int-limit")
	limits = [None, 2, 4, 6, 20, 3, 7, 1, 0, -2, -3, -7] + ([] if chk.quick() else [13, 5, -1, -4])
	# ---- truthfulness: vectors
	for limit in limits:
		k = max(limit if limit is not None else 12, 0)
		for kind in SIMPLE:
			for n in sorted({0, 1, max(0, k - 2), max(0, k - 1), k, k + 1, k + 2, k + 3, k + 40}):
				for npat in ("none", "low", "first", "last"):
					if n == 0 and npat != "none":
						continue
					vals = common.apply_none(rng, [rng.choice(SIMPLE[kind]) for _ in range(n)], npat)
					if n and all(v is None for v in vals):
						continue
					if kind == "int" and n > 1 and rng.random() < 0.3:
						vals[1] = 2.5 if vals[1] is not None else None     # promoted column: ints inside a float vector
					name = rng.choice([None, None, "nm", "Value", "sum", "a b", "1st", "12", "1.5", "x" * 30, "é"])
					chk.case("vector_truth", {"values": vals, "name": name, "limit": limit, "kind": kind,
						"polluter": rng.choice([None, None, "empty-peek", "zero-col-override", "table-override", "vector-long", "failing"])}, "vector-truth")
	# ---- truthfulness: tables
	for limit in limits:
		for override in (None, None, 4, 8, 5, 0, 1):
			k = max(override if override is not None else (limit if limit is not None else 12), 0)
			for ncols in (1, 2, 3, 5, 9, 10, 11, 12):
				for nrows in sorted({0, 1, max(0, k - 1), k, k + 1, k + 3}):
					if chk.quick() and (ncols in (3, 9)) and override is not None:
						continue
					dtpat = rng.choice(["same", "same-hidden-odd", "mixed", "nullable-mix"])
					kinds = []
					for c in range(ncols):
						if dtpat == "same":
							kinds.append("int")
						elif dtpat == "same-hidden-odd":
							kinds.append("int" if (c < 5 or c >= ncols - 5) else rng.choice(["str", "int?"]))
						elif dtpat == "nullable-mix":
							kinds.append(rng.choice(["int", "int?"]))
						else:
							kinds.append(rng.choice(["int", "float", "str", "bool", "date", "int?"]))
					cols = []
					for kd in kinds:
						base = kd.rstrip("?")
						col = [rng.choice(SIMPLE[base]) for _ in range(nrows)]
						if kd.endswith("?") and nrows:
							col[rng.randrange(nrows)] = None
							if all(v is None for v in col):
								col.append(None)
								col = col[:nrows]
						cols.append(col)
					if nrows and any(all(v is None for v in c) for c in cols):
						continue
					namepat = rng.choice(["simple", "simple", "unnamed", "upper"])
					if namepat == "simple":
						names = NAMES_SIMPLE[:ncols]
					elif namepat == "upper":
						names = [nm.upper() + "x" for nm in NAMES_SIMPLE[:ncols]]
					else:
						names = [None] * ncols
					if nrows and rng.random() < 0.25:
						chk.case("table_truth", {"names": names, "cols": cols, "limit": limit, "override": override, "simple": True, "zero_rows_via": rng.choice(["slice", "slice-end", "mask", "mask-vector"]),
							"namepat": namepat, "dtpat": dtpat, "polluter": None}, "table-truth-zero-rows")
					chk.case("table_truth", {"names": names, "cols": cols, "limit": limit, "override": override, "simple": True,
						"namepat": namepat, "dtpat": dtpat, "polluter": rng.choice([None, None, "empty-peek", "zero-col-override", "table-override", "vector-long", "failing"])}, "table-truth")
					if nrows and ncols >= 5 and dtpat in ("same", "nullable-mix"):
						# the same table shown once, then a hidden (or shown) column changes its dtype in place
						chk.case("table_truth", {"names": names, "cols": cols, "limit": limit, "override": override, "simple": True, "namepat": namepat, "dtpat": dtpat, "polluter": None,
							"write_after_repr": (rng.choice([ncols // 2, 5 if ncols > 10 else 0, ncols - 1, 6 if ncols > 11 else 1]), rng.choice(["none", "float"]), rng.choice(["view", "cell"]))}, "table-truth-write-after-repr")
	for vals in (["  b", "xyz"], [" a", "a", "  a"], ["x", "   y", "zzzz"], ["\tq", "r s"][1:] + [" r"]):
		chk.case("str_cells", {"values": vals}, "str-cells")
	# zeros of both signs, in both orders within one process (what was shown first must not decide how the other prints)
	for vals in ([0.0, 1.5], [-0.0, 1.5], [0.0, -0.0], [-0.0, 0.0], [-0.0], [0.0]):
		chk.case("vector_truth", {"values": vals, "name": None, "limit": None, "kind": "float-zeros", "polluter": None}, "vector-truth-zeros")
		chk.case("table_truth", {"names": ["a"], "cols": [vals], "limit": None, "override": None, "simple": True, "namepat": "simple", "dtpat": "same", "polluter": None}, "table-truth-zeros")
	for vals in ([{1, "a"}, 2], [{None, 1}, {2}], [{(1, "x"), (1, 2)}], [{1 + 2j, 3j}, "s"], [frozenset({1, "a"}), 0]):
		chk.case("total", {"obj": "vector", "values": vals, "name": None, "what": "unorderable-set-cells"}, "total-sets")
		chk.case("total", {"obj": "table", "cols": [vals, list(range(len(vals)))], "names": ["a", "b"], "what": "unorderable-set-cells-table"}, "total-sets")
	for vals in ([("tag", "7"), 7, ("tag", "x y"), 2.5], [("tag", "a"), None, 3], [("tag", ""), ("tag", "None"), 0], [1, ("tag", "1")]):
		for obj in ("vector", "table"):
			chk.case("strsub", {"values": vals, "obj": obj}, "strsub")
	# ---- totality
	for kind, pool in HOSTILE.items():
		for n in (1, 2, 5, 13, 30):
			for _ in range(3):
				vals = [rng.choice(pool) for _ in range(n)]
				if rng.random() < 0.4:
					vals[rng.randrange(n)] = None
				chk.case("total", {"obj": "vector", "values": vals, "name": rng.choice(NAMES_ODD[:9]), "what": f"hostile-{kind}", "limit": rng.choice([None, 2, 4])}, "total-vector")
		chk.case("total", {"obj": "vector", "values": [rng.choice(pool) for _ in range(10000)], "name": None, "what": f"long-{kind}"}, "total-long")
	for nm in (5, ("a", 1), 0, 2.5, True, b"n", frozenset({1})):
		chk.case("total", {"obj": "vector", "values": [1, 2], "name": nm, "what": f"name-{type(nm).__name__}"}, "total-odd-name")
	for vals, what in (([10 ** 5000, 1], "int-beyond-str-limit"), ([-(10 ** 5000)], "negative-int-beyond-str-limit"), ([1.5, 10 ** 400], "huge-int-in-float"), ([1.5, 10 ** 5000, None], "huge-int-in-float-beyond-str-limit"), ([10 ** 400, 1j], "huge-int-in-complex")):
		chk.case("total", {"obj": "vector", "values": vals, "name": None, "what": what}, "total-huge-int")
		chk.case("total", {"obj": "table", "cols": [vals, list(range(len(vals)))], "names": ["a", "b"], "what": what + "-table"}, "total-huge-int")
	big = 10 ** 5000
	for vals, what in (([big, "a"], "huge-int-in-object-column"), ([(big,), (1,)], "huge-int-in-tuple-cell"), ([{big}, {1}], "huge-int-in-set-cell"), ([{"k": big}, {}], "huge-int-in-dict-cell"), ([big, 1j], "huge-int-in-complex-beyond-str-limit"), ([[big], [1, 2]], "huge-int-in-list-cell"), ([big, None, "a"], "huge-int-in-nullable-object-column")):
		chk.case("total", {"obj": "vector", "values": vals, "name": None, "what": what}, "total-huge-int")
		chk.case("total", {"obj": "table", "cols": [vals, list(range(len(vals)))], "names": ["a", "b"], "what": what + "-table"}, "total-huge-int")
	chk.case("total", {"obj": "vector", "values": [1, 2], "name": big, "what": "huge-int-as-name"}, "total-huge-int")
	for what in ("unprintable-only", "unprintable-mixed"):
		for exc in ("RuntimeError", "AttributeError", "KeyError", "ZeroDivisionError", "Custom", "OSError"):
			chk.case("total", {"obj": "vector", "values": [], "name": None, "what": what, "factory": "unprintable", "exc": exc}, "total-unprintable")
			chk.case("total", {"obj": "table", "cols": [], "names": ["a", "b"], "what": what + "-table", "factory": "unprintable", "exc": exc}, "total-unprintable")
	for classname in ("date", "float", "int", "str", "datetime", "bool", "complex", "object"):
		for what in ("namesake-only", "namesake-with-none"):
			chk.case("total", {"obj": "vector", "values": [], "name": None, "what": what, "factory": "namesake", "classname": classname}, "total-namesake")
		chk.case("total", {"obj": "table", "cols": [], "names": ["a", "b"], "what": "namesake-table", "factory": "namesake", "classname": classname}, "total-namesake")
	chk.case("total", {"obj": "vector", "values": [], "name": None, "what": "empty"}, "total-empty")
	chk.case("total", {"obj": "vector", "values": [], "name": "nm", "what": "empty-named"}, "total-empty")
	chk.case("total", {"obj": "vector", "values": [None, None], "name": None, "what": "all-none"}, "total-empty")
	for ncols in (0, 1, 2, 5, 10, 11, 25):
		for nrows in (0, 1, 3, 13, 40):
			for _ in range(2 if chk.quick() else 6):
				kinds = [rng.choice(list(HOSTILE)) for _ in range(ncols)]
				cols = [[rng.choice(HOSTILE[kd]) for _ in range(nrows)] for kd in kinds]
				for c in cols:
					if c and rng.random() < 0.3:
						c[rng.randrange(len(c))] = None
				names = [rng.choice(NAMES_ODD) for _ in range(ncols)]
				chk.case("total", {"obj": "table", "cols": cols, "names": names, "what": f"hostile-table-{ncols}x{nrows}", "limit": rng.choice([None, 2, 6])}, "total-table")
	for _ in range(10):
		chk.case("total", {"obj": "ragged", "cols": [[1, 2], [1]], "what": "ragged-vector-of-vectors"}, "total-ragged")
	# ---- every result of the other workloads (universal observer)
	for other in ("C05", "C06", "C09", "C12", "C14", "C19"):
		chk.run_foreign(other)
