"""Shared spec generators and builders (arithmetic, joins, aggregates, CSV) used by
several property modules.  Specs are plain picklable data so they can be replayed."""
import csv as _csv
import io
import operator
from datetime import date, datetime, timedelta

from ..bind import Vector, Table
from ..core import call
from .. import values as V

BIN_OPS = {
	"add": operator.add, "sub": operator.sub, "mul": operator.mul, "truediv": operator.truediv,
	"floordiv": operator.floordiv, "mod": operator.mod, "pow": operator.pow,
}
UN_OPS = {"neg": operator.neg, "pos": operator.pos, "abs": operator.abs}
CMP_OPS = {"eq": operator.eq, "ne": operator.ne, "lt": operator.lt, "le": operator.le, "gt": operator.gt, "ge": operator.ge}
LOG_OPS = {"and": operator.and_, "or": operator.or_, "xor": operator.xor}
SYMBOL = {"add": "+", "sub": "-", "mul": "*", "truediv": "/", "floordiv": "//", "mod": "%", "pow": "**",
	"eq": "==", "ne": "!=", "lt": "<", "le": "<=", "gt": ">", "ge": ">=", "and": "&", "or": "|", "xor": "^"}

# operand value domains per kind, bounded so that Python itself terminates quickly
ARITH_VALUES = {
	"bool": [True, False],
	"int": [0, 1, -1, 2, 3, -3, 7],
	"float": [0.0, 0.5, -0.5, 1.0, 2.5, -2.5, 3.0, -0.0],
	"complex": [1j, 1 + 2j, -0.5j, complex(2, 0)],
	"str": ["a", "b", "", "ab", "%s", "x y"],
	"bytes": [b"a", b"", b"xy"],
	"date": [V.D0, date(2021, 2, 28), date(1999, 12, 31)],
	"datetime": [V.DT0, datetime(2021, 2, 28, 0, 0)],
	"timedelta": [timedelta(days=1), timedelta(0), timedelta(hours=5)],
	"list": [[1], [], [1, "a"]],
	"tuple": [(1,), (), (1, 2)],
}
ARITH_KINDS = ["bool", "int", "float", "complex", "str", "date", "datetime", "timedelta", "list", "bytes"]
BIGINTS = [2**70, -(2**61 - 1)]


def arith_column(rng, kind, n, none="none", big=False):
	dom = ARITH_VALUES[kind]
	vals = [rng.choice(dom) for _ in range(n)]
	if big and kind == "int" and n:
		vals[rng.randrange(n)] = rng.choice(BIGINTS)
	return apply_none(rng, vals, none)


def apply_none(rng, vals, none):
	n = len(vals)
	if n == 0 or none == "none":
		return vals
	if none == "all":
		return [None] * n
	if none == "first":
		vals[0] = None
	elif none == "last":
		vals[-1] = None
	elif none == "low":
		vals[rng.randrange(n)] = None
	elif none == "high":
		for i in range(n):
			if rng.random() < 0.6:
				vals[i] = None
	return vals


def mk_vector(vals, name=None):
	return Vector(list(vals), name=name) if name is not None else Vector(list(vals))


def mk_table(tspec):
	"""tspec = {'names': [...], 'cols': [[...], ...]}"""
	cols = [Vector(list(c), name=n) for n, c in zip(tspec["names"], tspec["cols"])]
	return Table(cols)


def rows_of(tspec):
	cols = tspec["cols"]
	n = len(cols[0]) if cols else 0
	return [tuple(c[i] for c in cols) for i in range(n)]


# ----------------------------------------------------------------- arithmetic
def gen_arith_spec(rng, forms=("vv", "vs", "sv", "vl", "lv", "unary")):
	form = rng.choice(forms)
	n = rng.choice([0, 1, 2, 2, 3, 5])
	ka = rng.choice(ARITH_KINDS)
	pair_bias = rng.random()
	if pair_bias < 0.55:
		kb = rng.choice([k for k in ("bool", "int", "float", "complex") if True]) if ka in V.NUMERIC else ka
		if ka in ("date", "datetime"):
			kb = rng.choice(["timedelta", ka, "int"])
		if ka == "timedelta":
			kb = rng.choice(["timedelta", "int", "float", "date", "datetime"])
		if ka in ("str", "list", "bytes"):
			kb = rng.choice([ka, "int"])
	else:
		kb = rng.choice(ARITH_KINDS)
	none_a = rng.choice(["none", "none", "first", "last", "low", "all", "high"])
	none_b = rng.choice(["none", "none", "first", "last", "low"])
	if form == "unary":
		ka = rng.choice(["bool", "int", "float", "complex", "timedelta", "str"])
		return {"op": "arith", "opname": rng.choice(list(UN_OPS)), "form": form, "a": arith_column(rng, ka, n, none_a, big=rng.random() < 0.2), "ka": ka}
	opname = rng.choice(list(BIN_OPS))
	big = rng.random() < 0.15 and opname not in ("pow",)
	a = arith_column(rng, ka, n, none_a, big=big)
	if form in ("vs", "sv"):
		b = rng.choice(ARITH_VALUES[kb])
		if opname == "pow":
			b = rng.choice([0, 1, 2, 3, -1, 0.5, 2.0]) if form == "vs" else rng.choice([0, 1, 2, -2, 0.5, 2.0, True])
	else:
		b = arith_column(rng, kb, n, none_b, big=big and rng.random() < 0.5)
	if opname == "pow":
		# keep exponents small whatever the side
		if form in ("vv", "vl", "lv"):
			small = [0, 1, 2, 3, -1, 0.5]
			if form == "lv":
				a = apply_none(rng, [rng.choice(small) for _ in range(n)], none_a)
			else:
				b = apply_none(rng, [rng.choice(small) for _ in range(n)], none_b)
		elif form == "sv":
			a = apply_none(rng, [rng.choice([0, 1, 2, 3, -1, 0.5]) for _ in range(n)], none_a)
	if form in ("vv", "vl", "lv") and rng.random() < 0.08:
		b = b + [rng.choice(ARITH_VALUES[kb])] if rng.random() < 0.5 or not b else b[:-1]
	return {"op": "arith", "opname": opname, "form": form, "a": a, "b": b, "ka": ka, "kb": kb}


def do_arith(spec):
	"""returns Out of the serif operation described by spec"""
	opname, form = spec["opname"], spec["form"]
	a = spec["a"]
	if form == "unary":
		va = Vector(list(a))
		return call(UN_OPS[opname], va)
	op = BIN_OPS.get(opname) or CMP_OPS.get(opname) or LOG_OPS[opname]
	b = spec["b"]
	if form == "vv":
		return call(op, Vector(list(a)), Vector(list(b)))
	if form == "vs":
		return call(op, Vector(list(a)), b)
	if form == "sv":
		return call(op, b, Vector(list(a)))       # scalar written on the left
	if form == "vl":
		return call(op, Vector(list(a)), list(b))
	if form == "lv":
		return call(op, list(b), Vector(list(a)))  # plain list written on the left
	raise ValueError(form)


def py_elementwise(spec):
	"""What Python computes for the written expression, element by element.
	returns ('value', list) | ('len-error', None) | ('unconstrained', why)"""
	opname, form = spec["opname"], spec["form"]
	a = spec["a"]
	if form == "unary":
		op = UN_OPS[opname]
		out = []
		for x in a:
			if x is None:
				out.append(None)
				continue
			try:
				out.append(op(x))
			except Exception as exc:
				return ("unconstrained", f"python raises {type(exc).__name__}")
		return ("value", out)
	op = BIN_OPS.get(opname) or CMP_OPS.get(opname) or LOG_OPS[opname]
	b = spec["b"]
	if form in ("vs", "sv"):
		if b is None:
			return ("unconstrained", "None scalar")
		if isinstance(b, (list, tuple, dict, set)):
			return ("unconstrained", "iterable is a sequence operand, not a scalar")
		if form == "sv" and isinstance(b, (str, bytes)) and opname == "mod":
			return ("unconstrained", "python string formatting")
		pairs = [(x, b) if form == "vs" else (b, x) for x in a]
		nones = [x is None for x in a]
	else:
		if len(a) != len(b):
			return ("len-error", None)
		pairs = [(x, y) if form in ("vv", "vl") else (y, x) for x, y in zip(a, b)]
		nones = [x is None or y is None for x, y in zip(a, b)]
	out = []
	for (x, y), isn in zip(pairs, nones):
		if isn:
			out.append(None)
			continue
		try:
			out.append(op(x, y))
		except Exception as exc:
			return ("unconstrained", f"python raises {type(exc).__name__}")
	return ("value", out)


# ---------------------------------------------------------------------- joins
KEY_DOMAINS = {
	"int": [1, 2, 3, 1, 2, 0, -1],
	"str": ["a", "b", "c", "a", "", "A"],
	"bool": [True, False],
	"date": [V.D0, date(2021, 2, 28), date(1999, 12, 31)],
	"hash": [1, 2**61, -(2**61 - 1) + 1, 2**61 - 1 + 1, 0, 2],   # ints colliding modulo 2**61-1
	"intbool": [1, True, 0, False, 2, 1],
	"datetime": [V.datetime(2020, 1, 31, 5, 0), V.datetime(2020, 1, 31, 17, 30), V.datetime(2020, 1, 31, 0, 0), V.datetime(2021, 2, 28, 0, 0), V.datetime(2020, 1, 31, 5, 0, 1)],   # several instants of one day
	"eqmix": [1, True, 1.0, 0, False, 0.0, 2],                   # group keys only (float kind is not a legal join key)                        # values equal under == but of different type (kind int)
}


def gen_key_column(rng, kind, n, p_none, dom_size=3):
	dom = KEY_DOMAINS[kind][:]
	rng.shuffle(dom)
	dom = dom[:max(1, dom_size)]
	return [None if rng.random() < p_none else rng.choice(dom) for _ in range(n)]


def gen_join_spec(rng, max_rows=8, how=None, nkeys=None, unique_left=None, unique_right=None):
	nkeys = nkeys or rng.choice([1, 1, 2, 2, 3])
	kinds = [rng.choice(["int", "str", "bool", "date", "int", "str", "hash", "intbool", "datetime"]) for _ in range(nkeys)]
	nl = rng.choice([0, 1, 2, 3, max_rows // 2, max_rows])
	nr = rng.choice([0, 1, 2, 3, max_rows // 2, max_rows])
	p_none = rng.choice([0.0, 0.0, 0.15, 0.4])
	dom = rng.choice([1, 2, 3, 3, 6])
	lk = [gen_key_column(rng, k, nl, p_none, dom) for k in kinds]
	rk = [gen_key_column(rng, k, nr, p_none, dom) for k in kinds]
	if unique_left is not None:
		lk = force_uniqueness(rng, lk, unique_left, kinds)
	if unique_right is not None:
		rk = force_uniqueness(rng, rk, unique_right, kinds)
	# unique payload ids identify source rows
	left = {"names": [f"k{i}" for i in range(nkeys)] + ["lid"], "cols": lk + [[f"L{i}" for i in range(nl)]]}
	same_names = rng.random() < 0.4
	right = {"names": [(f"k{i}" if same_names else f"r{i}") for i in range(nkeys)] + ["rid"], "cols": rk + [[f"R{i}" for i in range(nr)]]}
	for side, n in ((left, nl), (right, nr)):
		for j in range(rng.choice([0, 0, 1, 2])):
			kind = rng.choice(["int", "float", "str"])
			r0 = rng.random()
			if r0 < 0.12:
				# labels that are falsy or not strings at all: they are names like any other
				cand = [x for x in (0, "", False, 7, 2.5) if not any(type(y) is type(x) and y == x for y in side["names"])]
				side["names"].append(rng.choice(cand) if cand else f"{'l' if side is left else 'r'}p{j}")
			else:
				side["names"].append(rng.choice(["p", "q", "lid", "val"]) if r0 < 0.4 else f"{'l' if side is left else 'r'}p{j}")
			side["cols"].append(V.column(rng, kind, n, rng.choice(["none", "low", "high"]), small=True))
	# payload-first column order sometimes
	if rng.random() < 0.3:
		for side in (left, right):
			side["names"] = side["names"][nkeys:] + side["names"][:nkeys]
			side["cols"] = side["cols"][nkeys:] + side["cols"][:nkeys]
	key_mode = rng.choice(["name", "name", "vector", "external", "named-derived"])
	# a second column that carries a key's name (as join outputs, >> and renames produce): by name, the FIRST one is the key
	if rng.random() < 0.15:
		for side, keynames, n, keycols in ((left, [f"k{i}" for i in range(nkeys)], nl, lk), (right, [(f"k{i}" if same_names else f"r{i}") for i in range(nkeys)], nr, rk)):
			if rng.random() < 0.6:
				k = rng.randrange(nkeys)
				twin = list(keycols[k])
				rng.shuffle(twin)
				pos = rng.randrange(len(side["names"]) + 1)
				side["names"].insert(pos, keynames[k])
				side["cols"].insert(pos, twin)
	# key columns without a name (tables built from plain vectors): only reachable by vector
	if key_mode == "vector" and rng.random() < 0.25:
		for side, keynames in ((left, [f"k{i}" for i in range(nkeys)]), (right, [(f"k{i}" if same_names else f"r{i}") for i in range(nkeys)])):
			if rng.random() < 0.7 and side["names"].count(keynames[0]) == 1:
				side["names"][side["names"].index(keynames[0])] = None
		lon0 = [nm if nm in left["names"] else None for nm in [f"k{i}" for i in range(nkeys)]]
		ron0 = [nm if nm in right["names"] else None for nm in [(f"k{i}" if same_names else f"r{i}") for i in range(nkeys)]]
		return {"op": "join", "how": how or rng.choice(["inner", "left", "full"]), "left": left, "right": right, "lon": lon0, "ron": ron0,
			"key_mode": key_mode, "single_as_scalar": rng.random() < 0.5, "expect": "many_to_many", "kinds": kinds}
	return {"op": "join", "how": how or rng.choice(["inner", "left", "full"]), "left": left, "right": right,
		"lon": [f"k{i}" for i in range(nkeys)], "ron": [(f"k{i}" if same_names else f"r{i}") for i in range(nkeys)],
		"key_mode": key_mode, "single_as_scalar": rng.choice([True, False, "left-only", "right-only"]), "expect": "many_to_many", "kinds": kinds}


def gen_join_spec_named(rng, **kw):
	"""a join spec whose key columns all carry names (for workloads that address columns by name)"""
	while True:
		spec = gen_join_spec(rng, **kw)
		if None not in spec["lon"] and None not in spec["ron"]:
			return spec


def force_uniqueness(rng, keycols, unique, kinds):
	"""make the key tuples of a side unique (unique=True) or ensure a duplicate (unique=False)"""
	n = len(keycols[0]) if keycols else 0
	rows = [tuple(c[i] for c in keycols) for i in range(n)]
	if unique:
		seen = set()
		keep = []
		for r in rows:
			if r not in seen:
				seen.add(r)
				keep.append(r)
		rows = keep
	else:
		if n == 0:
			rows = [tuple(KEY_DOMAINS[k][0] for k in kinds)] * 2
		elif len(set(rows)) == len(rows):
			pos = rng.randrange(len(rows) + 1)
			rows.insert(pos, rng.choice(rows))
	return [[r[i] for r in rows] for i in range(len(keycols))]


def derive_key(col):
	"""the values of a key vector DERIVED from a column (it keeps the column's name, as -col, abs(col), col.fillna(), col[::-1] do): the column rotated by one"""
	col = list(col)
	return col[1:] + col[:1]


def key_values(tspec, names):
	"""key value lists of a table spec by (first occurrence of) column name"""
	out = []
	for nm in names:
		out.append(tspec["cols"][tspec["names"].index(nm)])
	return out


def do_join(spec, how=None, expect=None):
	"""build both tables and call the join; returns (Out, L, R)"""
	L = mk_table(spec["left"])
	R = mk_table(spec["right"])
	mode = spec.get("key_mode", "name")
	lon, ron = list(spec["lon"]), list(spec["ron"])
	if mode == "vector":
		lon = [L.cols()[spec["left"]["names"].index(n)] for n in lon]
		ron = [R.cols()[spec["right"]["names"].index(n)] for n in ron]
	elif mode == "named-derived":
		lon = [Vector(derive_key(c), name=n) for c, n in zip(key_values(spec["left"], lon), lon)]
		ron = [Vector(list(c), name=n) for c, n in zip(key_values(spec["right"], ron), ron)]
	elif mode == "external":
		lon = [Vector(list(c)) for c in key_values(spec["left"], lon)]
		ron = [Vector(list(c)) for c in key_values(spec["right"], ron)]
		# zero-row external vectors carry no schema; serif accepts them
	if len(lon) == 1 and spec.get("single_as_scalar") == "left-only":
		lon = lon[0]
	elif len(lon) == 1 and spec.get("single_as_scalar") == "right-only":
		ron = ron[0]
	elif len(lon) == 1 and spec.get("single_as_scalar"):
		lon, ron = lon[0], ron[0]
	how = how or spec["how"]
	fn = {"inner": L.inner_join, "left": L.join, "full": L.full_join}[how]
	return call(fn, R, lon, ron, expect=expect or spec.get("expect", "many_to_many")), L, R


# ----------------------------------------------------------------- aggregates
AGG_FUNCS = ("sum", "mean", "min", "max", "count", "stdev")
from decimal import Decimal as _Dec
from fractions import Fraction as _Frac
# value kinds outside int/float/bool: exact arithmetic (Decimal, Fraction), ints beyond 2**53, complex (no order, so no min/max)
EXOTIC_VALUES = {
	"Decimal": [_Dec("1.5"), _Dec("0"), _Dec("-2"), _Dec("0.1")],
	"Fraction": [_Frac(1, 3), _Frac(1, 2), _Frac(3), _Frac(-2, 7)],
	"bigint": [2 ** 53 + 1, 2 ** 53 + 3, 10 ** 17 + 1, -(2 ** 53) - 1, 3],
	"complex": [1j, 1 + 2j, complex(2, 0)],
}
EXOTIC_VALUES["tuplecells"] = [(1, 2), (0,), (3, 1, 2), (1, 2)]
EXOTIC_ALLOWED = {"tuplecells": ("count", "min", "max"), "Decimal": ("sum", "mean", "min", "max", "count"), "Fraction": ("sum", "mean", "min", "max", "count"), "bigint": ("sum", "min", "max", "count", "mean"), "complex": ("sum", "mean", "count")}
APPLY_FUNCS = {
	"tuple": lambda vals: tuple(vals),
	"first": lambda vals: vals[0],
	"last": lambda vals: vals[-1],
	"len": lambda vals: len(vals),
	"nones": lambda vals: sum(1 for v in vals if v is None),
	"join": lambda vals: "|".join(repr(v) for v in vals),
	"drain": lambda vals: (tuple(vals), vals.clear())[0],   # consumes its input list: a later callback must still get fresh values
	"identity": lambda vals: vals,      # hands its argument back: each group's cell must hold THAT group's values
	"sort-in-place": lambda vals: (vals.sort(key=repr), tuple(vals))[1],      # reorders its input list in place
	"next-non-none": lambda vals: next(v for v in vals if v is not None),      # StopIteration for a group that holds nothing but None: an exception like any other
	"strip-first": lambda vals: vals[0].strip(),      # AttributeError for a group that starts with None (or a number): the call's outcome, raised once
	"real-sum": lambda vals: sum(v.real for v in vals),      # AttributeError on None / str cells
	"builtin-sum": sum, "builtin-max": max, "builtin-min": min, "builtin-len": len, "builtin-list": list,      # the bare built-ins, passed as they are (no wrapper)
}


def gen_agg_spec(rng, max_rows=8, op=None):
	n = rng.choice([1, 2, 3, 4, max_rows // 2, max_rows, max_rows])
	nkeys = rng.choice([1, 1, 2, 3])
	kinds = [rng.choice(["str", "int", "bool", "date", "hash", "intbool", "eqmix"]) for _ in range(nkeys)]
	p_none = rng.choice([0.0, 0.2, 0.5])
	dom = rng.choice([1, 2, 2, 3])
	keys = [gen_key_column(rng, k, n, p_none, dom) for k in kinds]
	names = []
	cols = []
	key_refs = []
	for i, kc in enumerate(keys):
		mode = rng.choice(["name", "name", "vector", "external"])
		if mode == "external":
			key_refs.append({"mode": "external", "values": kc, "name": rng.choice([None, f"x{i}", "g"])})
		else:
			nm = rng.choice([f"g{i}", f"g{i}", "Group Key", "sum", "g"]) if rng.random() < 0.9 else f"g{i}"
			while nm in names:
				nm = nm + str(i)
			names.append(nm)
			cols.append(kc)
			key_refs.append({"mode": mode, "name": nm})
	nvals = rng.choice([1, 2, 3])
	val_names = []
	val_kind = {}
	for j in range(nvals):
		kind = rng.choice(["int", "int", "float", "bool"]) if rng.random() < 0.8 else rng.choice(list(EXOTIC_VALUES))
		nm = rng.choice([f"v{j}", f"v{j}", "Total $", "2x", "mean", f"v{j}"])
		while nm in names:
			nm = nm + "_"
		names.append(nm)
		val_names.append(nm)
		val_kind[nm] = kind
		if kind in EXOTIC_VALUES:
			col = [rng.choice(EXOTIC_VALUES[kind]) for _ in range(n)]
			for i in range(n):
				if rng.random() < 0.25:
					col[i] = None
			cols.append(col)
		else:
			cols.append(V.column(rng, kind, n, rng.choice(["none", "low", "high", "high", "first"]), small=True))
	if rng.random() < 0.3:
		# a whole group of None values: blank the value column wherever the first key equals its first value
		k0 = keys[0]
		for i in range(n):
			if k0[i] == k0[0] and (k0[i] is None) == (k0[0] is None):
				cols[names.index(val_names[0])][i] = None
	aggs = {}
	stored_keys = [r["name"] for r in key_refs if r["mode"] != "external"]
	for f in AGG_FUNCS:
		if rng.random() < 0.45:
			picks = [rng.choice(val_names) for _ in range(rng.choice([1, 1, 2, 3]))]
			if f == "count" and stored_keys and rng.random() < 0.4:
				picks.append(rng.choice(stored_keys))      # counting a partition key column counts ITS non-None values
				val_kind[picks[-1]] = "key"
			picks = [p for p in picks if f in EXOTIC_ALLOWED.get(val_kind.get(p), AGG_FUNCS)]
			if picks:
				aggs[f] = [{"mode": rng.choice(["name", "vector"]), "name": p} for p in picks]
	apply = []
	if rng.random() < 0.6 or not aggs:
		for _ in range(rng.choice([1, 2])):
			target = rng.choice(val_names + [nm for nm in names if nm not in val_names][:1])
			nm = rng.choice(["custom", "out", f"{_sanit(val_names[0])}_sum", "custom"])
			while any(a["out"] == nm for a in apply):
				nm += "x"
			apply.append({"out": nm, "col": {"mode": rng.choice(["name", "vector"]), "name": target}, "fn": rng.choice(list(APPLY_FUNCS))})
	scalar_over = len(key_refs) == 1 and rng.random() < 0.5
	if rng.random() < 0.04 and n:
		key_refs = []      # no partition key at all: one global group
		aggs = {f: [r for r in refs if r["name"] in val_names] for f, refs in aggs.items()}
		aggs = {f: refs for f, refs in aggs.items() if refs}
		apply = [a for a in apply if a["col"]["name"] in val_names]
		if not aggs and not apply:
			aggs = {"count": [{"mode": "name", "name": val_names[0]}]}
	return {"op": op or rng.choice(["aggregate", "window"]), "table": {"names": names, "cols": cols}, "n": n,
		"over": key_refs, "scalar_over": scalar_over, "aggs": aggs, "apply": apply,
		"over_form": rng.choice(["list", "list", "list", "tuple", "generator", "iter"]), "aggs_form": rng.choice(["list", "list", "list", "generator", "map"])}


def _sanit(name):
	import re
	s = re.sub(r"[^a-z0-9_]+", "_", name.lower()).strip("_")
	return s or "col"


def resolve_ref(t, ref):
	if ref["mode"] == "name":
		return ref.get("spelled", ref["name"])      # "spelled": another spelling that resolves to the same column (its sanitised accessor)
	if ref["mode"] == "vector":
		return t[ref["name"]]
	return Vector(list(ref["values"]), name=ref.get("name")) if ref.get("name") is not None else Vector(list(ref["values"]))


def ref_values(spec, ref):
	if ref["mode"] == "external":
		return list(ref["values"])
	t = spec["table"]
	return list(t["cols"][t["names"].index(ref["name"])])


def ref_name(ref):
	return ref.get("name")


def do_agg(spec, op=None, spies=None, table=None):
	"""returns (Out, table). spies: dict out-name -> callable wrapper factory; table: an existing Table object to run on instead of building one"""
	t = table if table is not None else mk_table(spec["table"])
	over = [resolve_ref(t, r) for r in spec["over"]]
	if spec.get("scalar_over") and len(over) == 1:
		over = over[0]
	elif spec.get("over_form") == "generator":
		over = (x for x in list(over))      # one-shot iterables are sequences of keys too
	elif spec.get("over_form") == "iter":
		over = iter(list(over))
	elif spec.get("over_form") == "tuple":
		over = tuple(over)
	kw = {}
	for f, refs in spec["aggs"].items():
		lst = [resolve_ref(t, r) for r in refs]
		if spec.get("aggs_form") == "generator":
			lst = (x for x in list(lst))
		elif spec.get("aggs_form") == "map":
			lst = map(lambda x: x, list(lst))
		kw[f + "_over"] = lst[0] if isinstance(lst, list) and len(lst) == 1 and spec.get("scalar_aggs") else lst
	if spec["apply"]:
		ap = {}
		for a in spec["apply"]:
			fn = APPLY_FUNCS[a["fn"]]
			if spies is not None and not a["fn"].startswith("builtin-"):
				fn = spies(a["out"], fn)
			ap[a["out"]] = (resolve_ref(t, a["col"]), fn)
		kw["apply"] = ap
	fn = t.aggregate if (op or spec["op"]) == "aggregate" else t.window
	return call(fn, over, **kw), t


# ------------------------------------------------------------------------ CSV
CSV_CELLS = ["1", "-2", "+5", " 7 ", "1_000", "0", "007", "2.5", "1e3", ".5", "-0.0", "nan", "inf", "-inf", "Infinity",
	"abc", " padded ", "0x10", "1,5", "١٢", "", " ", "\t", "é", "a b", 'q"uote', "semi;colon", "pipe|x", "tab\tx", "line\nbreak",
	"True", "None", "1.", "1e", "--1", "12abc", "٣.٥"]


def gen_csv_spec(rng, max_rows=6):
	ncols = rng.choice([1, 2, 3, 4])
	nrows = rng.choice([0, 1, 2, 3, max_rows])
	delimiter = rng.choice([",", ",", ";", "\t", "|", ",", ";", "\t", "|", "\u00a7", "\u00b7", "\u2502", "\\", " ", "\x1f", "~"])
	has_header = rng.random() < 0.75
	header_pool = ["a", "b", "Name", "a", "Total $", "", "x y", "1st", "sum", "é", "a,b"]
	header = [rng.choice(header_pool) for _ in range(ncols)]
	mode = rng.random()
	grid = []
	for r in range(nrows):
		row = []
		for c in range(ncols):
			if mode < 0.4:
				fam = [["1", "-2", "+5", " 7 ", "", "0"], ["2.5", "1e3", "1", "", ".5"], ["abc", " padded ", "", "é", "10"], CSV_CELLS][c % 4]
				row.append(rng.choice(fam))
			else:
				row.append(rng.choice(CSV_CELLS))
		grid.append(row)
	# record-length patterns
	pattern = rng.choice(["full", "full", "short-some", "short-first", "short-all", "first-cell-empty"])
	if ncols > 1 and nrows:
		if pattern == "short-some":
			for row in grid:
				if rng.random() < 0.4:
					del row[rng.randrange(1, ncols):]
		elif pattern == "short-first":
			del grid[0][rng.randrange(1, ncols):]
		elif pattern == "short-all":
			for row in grid:
				del row[max(1, ncols - 1):]
	if pattern == "first-cell-empty" and nrows:
		grid[0][rng.randrange(ncols)] = ""
	if not has_header and grid and len(grid[0]) != ncols:
		# header-less width comes from the first record; longer records are unconstrained, so keep the first full
		grid[0] = grid[0] + ["1"] * (ncols - len(grid[0]))
	# a record that is a single empty cell is written by csv.writer as '""' (not a blank line) - keep as is
	return {"op": "csv", "header": header if has_header else None, "grid": grid, "delimiter": delimiter,
		"has_header": has_header, "ncols": ncols, "via": rng.choice(["fileobj", "fileobj", "path", "fileobj", "path", "tempfile", "spooled", "wrapper"]), "pattern": pattern, "suffix": rng.choice([".csv", ".csv", ".tsv", ".TAB", ".txt", ".tab", ""])}


def gen_csv_long(rng):
	"""more than 100 records: every column keeps to one family of cells for the first 100+ records and only then shows other cells (blank cells,
	numbers in a text column, text in a numeric column, a float among ints, short records)"""
	ncols = rng.choice([1, 2, 3])
	head = rng.choice([100, 101, 105, 120])
	tail = rng.choice([1, 2, 5, 20])
	fams = {"int": ["1", "-2", "+5", "0", "12"], "float": ["2.5", "1e3", ".5", "-0.25"], "text": ["abc", "x y", "é", "n/a", "zz"], "intfull": ["3"]}
	others = ["", "7", "2.5", "abc", " 12 ", "1e2", "-3", "nan"]
	colfam = [rng.choice(list(fams)) for _ in range(ncols)]
	grid = [[rng.choice(fams[colfam[c]]) for c in range(ncols)] for _ in range(head)]
	for _ in range(tail):
		row = [rng.choice(others) if rng.random() < 0.7 else rng.choice(fams[colfam[c]]) for c in range(ncols)]
		if ncols > 1 and rng.random() < 0.3:
			del row[rng.randrange(1, ncols):]
		grid.append(row)
	header = [f"h{c}" for c in range(ncols)]
	return {"op": "csv", "header": header, "grid": grid, "delimiter": rng.choice([",", ";"]), "has_header": True, "ncols": ncols, "via": rng.choice(["fileobj", "path"]), "pattern": "long"}


def csv_text(spec):
	buf = io.StringIO()
	w = _csv.writer(buf, delimiter=spec["delimiter"], lineterminator=rng_lineterm(spec))
	if spec["header"] is not None:
		w.writerow(spec["header"])
	for row in spec["grid"]:
		w.writerow(row)
	return buf.getvalue()


def rng_lineterm(spec):
	return spec.get("lineterminator", "\r\n")


def do_csv(spec):
	import os
	import tempfile
	from ..bind import serif
	text = csv_text(spec)
	if spec.get("via") == "path":
		fd, path = tempfile.mkstemp(prefix="serifmon-", suffix=spec.get("suffix", ".csv"))      # (the name of the file says nothing about its contents)
		try:
			with os.fdopen(fd, "w", encoding="utf-8", newline="") as f:
				f.write(text)
			return call(serif.read_csv, path, delimiter=spec["delimiter"], has_header=spec["has_header"]), text
		finally:
			try:
				os.unlink(path)
			except OSError:
				pass
	via = spec.get("via")
	if via in ("tempfile", "spooled", "wrapper"):
		# other kinds of open text file objects: not io.TextIOBase instances, but files all the same
		if via == "tempfile":
			f = tempfile.NamedTemporaryFile("w+", encoding="utf-8", newline="", prefix="serifmon-")
		elif via == "spooled":
			f = tempfile.SpooledTemporaryFile(max_size=1 << 20, mode="w+", encoding="utf-8", newline="")
		else:
			f = _LineSource(io.StringIO(text, newline=""))
		try:
			if via != "wrapper":
				f.write(text)
				f.seek(0)
			return call(serif.read_csv, f, delimiter=spec["delimiter"], has_header=spec["has_header"]), text
		finally:
			f.close()
	return call(serif.read_csv, io.StringIO(text, newline=""), delimiter=spec["delimiter"], has_header=spec["has_header"]), text


class _LineSource:
	"""a user's file-like object: it hands out lines when iterated and can be closed - nothing else"""
	def __init__(self, inner):
		self._inner = inner

	def __iter__(self):
		return iter(self._inner)

	def __next__(self):
		return next(self._inner)

	def close(self):
		self._inner.close()


# ------------------------------------------------------- generic result specs
def gen_result_spec(rng):
	r = rng.random()
	if r < 0.45:
		return gen_arith_spec(rng)
	if r < 0.7:
		return gen_join_spec(rng, max_rows=5)
	if r < 0.88:
		return gen_agg_spec(rng, max_rows=6)
	if r > 0.985:
		return gen_csv_long(rng)
	return gen_csv_spec(rng)


def columns_of(label, obj):
	"""flatten a result into labelled 1-D vectors"""
	out = []
	if isinstance(obj, Table):
		for i, c in enumerate(obj._underlying):
			if isinstance(c, Vector) and not isinstance(c, Table):
				out.append((f"{label}#col{i}", c))
	elif isinstance(obj, Vector):
		out.append((label, obj))
	return out


def build_result(chk, spec):
	op = spec["op"]
	if op == "arith":
		if py_elementwise(spec)[0] != "value":
			return None
		o = do_arith(spec)
		if not o.ok:
			return None
		return columns_of(f"{spec['opname']}/{spec['form']}", o.value)
	if op == "join":
		o, L, R = do_join(spec)
		if not o.ok:
			return None
		return columns_of(f"join-{spec['how']}", o.value)
	if op in ("aggregate", "window"):
		o, t = do_agg(spec)
		if not o.ok:
			return None
		return columns_of(op, o.value)
	if op == "csv":
		o, text = do_csv(spec)
		if not o.ok:
			return None
		return columns_of("csv", o.value)
	raise ValueError(op)
