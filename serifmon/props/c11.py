"""C11 - join cardinality expectations are enforced exactly."""
from ..bind import Vector, Table, SerifValueError
from ..core import call, short
from .. import models as M
from . import common
from . import joinmodel as J

from . import recompute

RULE = ("[plus the shared recompute-after-history monitor: this property's operations evaluated on long-lived objects between in-place writes / renames must equal the same operations on fresh objects rebuilt from the current contents] "
	"the full decision table join kind {inner, left, full} x expect {one_to_one, many_to_one, one_to_many, many_to_many} x left keys unique? x "
	"right keys unique? (48 cells) is executed; every cell is realised by key multisets in which the duplicate sits among matched rows only, among "
	"unmatched rows only, among None keys, in a composite key (with tuple-unique but component-duplicated controls), at the last position, at the "
	"first position, plus sampled tables and join / in-place key edit / join histories on the same table objects; the call must raise SerifValueError iff a required uniqueness fails, accepted calls must return exactly "
	"the many_to_many rows (and the nested-loop model rows), and invalid expect values must always be rejected. distinct = (kind, expect, left "
	"unique, right unique, realisation variant).")
ASSUMPTIONS = ["uniqueness is computed by the model on whole key tuples with None equal to None", "any exception type is accepted as rejection of an invalid expect value"]
EXHAUSTIVE = {"flag": True, "scope": "the 48-cell decision table, each cell realised by every listed duplicate-placement variant"}
ANCHOR_FUNCS = ["table:Table.inner_join", "table:Table.join", "table:Table.full_join"]
REQUIRED_STRATA = {"recompute": 200, "cell": 48 * 6, "invalid-expect": 20, "sampled-cell": 100, "cell-history": 150}

EXPECTS = ("one_to_one", "many_to_one", "one_to_many", "many_to_many")
HOWS = ("inner", "left", "full")
VARIANTS = ("matched", "unmatched", "none", "composite", "last", "first", "triple")
from .. import values as _V
INVALID = ["one_to_one\n", "many_to_one\n", "one_to_many\n", "many_to_many\n", "\none_to_one", "one_to_one\r\n", "one_to_one\t", " many_to_many", "one_to_one\x00", b"one_to_one", "one-to-one", "ONE_TO_ONE", "", None, 1, "many_to_none", "left", "1:1", "m:1", "1:m", "m:m", "1:n", "n:1", "n:m", "1-1", "1to1", "one2one", "many-to-many", "manytomany", "m2m", "inner", "outer", "unique", "one_to_one,many_to_one", "one", "many", "*", True, "one_to_one ", ("one_to_one",), ["one_to_one"], {"one_to_one"}, {"one_to_one": 1}, bytearray(b"one_to_one"), 10 ** 5000, _V.EqAll(), Vector(["one_to_one"]), Vector(["one_to_one", "one_to_one"]), 1.5, object()]


def fn_of(L, how):
	return {"inner": L.inner_join, "left": L.join, "full": L.full_join}[how]


def run_cell(chk, spec):
	L, R = common.mk_table(spec["left"]), common.mk_table(spec["right"])
	if spec.get("stale_flags"):
		# columns whose declared dtype is wider than what their current values need: a None written and overwritten again, None rows masked away
		for T in (L, R):
			for c in T.cols():
				if len(c) and c._underlying[0] is not None:
					x = c._underlying[0]
					if call(c.__setitem__, 0, None).ok:
						call(c.__setitem__, 0, x)
	judge_cell(chk, L, R, spec)


def run_gather_after_check(chk, spec):
	"""a table DERIVED (rows gathered with repeats, stacked, copied and edited) from one whose keys an earlier call has verified unique is judged on its own keys"""
	import random
	rng = random.Random(spec["seed"])
	L, R = common.mk_table(spec["left"]), common.mk_table(spec["right"])
	first = dict(spec, how=spec["how"], expect=spec["first_expect"], stratum="cell-history", variant="before-derivation", key_mode=spec["key_mode"])
	judge_cell(chk, L, R, first)
	side = spec["side"]
	T = R if side == "right" else L
	n = len(T)
	d = spec["derive"]
	if n == 0:
		return
	o = call({"gather": lambda: T[Vector([rng.randrange(n) for _ in range(n + 1)])], "gather-first-twice": lambda: T[Vector([0, 0] + list(range(1, n)))], "stack": lambda: T << T,
		"copy": lambda: T.copy(), "slice": lambda: T[0:n], "mask": lambda: T[[True] * n]}[d])
	if not o.ok or not isinstance(o.value, Table) or len(o.value.cols()) != len(T.cols()):
		chk.skip("gather-unavailable")
		return
	T2 = o.value
	if d == "stack":
		for j, nm in enumerate(T.column_names()):
			call(lambda: setattr(T2.cols()[j], "name", nm))
	if T2.column_names() != T.column_names():
		chk.skip("gather-lost-names")
		return
	for how2, exp2 in spec["then"]:
		s2 = dict(spec, how=how2, expect=exp2, stratum="cell-history", variant=f"after-{d}", key_mode=spec["key_mode"])
		judge_cell(chk, L if side == "right" else T2, T2 if side == "right" else R, s2)


def run_prefix(chk, spec):
	"""several joins against the SAME right table whose key lists are prefix-related (x, y) / (x): each call is judged on its own keys"""
	L, R = common.mk_table(spec["left"]), common.mk_table(spec["right"])
	for lon, ron, how, expect in spec["calls"]:
		judge_cell(chk, L, R, {"how": how, "expect": expect, "lon": lon, "ron": ron, "stratum": "cell-history", "variant": "prefix-keys", "key_mode": spec["key_mode"]})


def run_cell_history(chk, spec):
	"""join, edit a key cell in place (creating or removing a duplicate), join again: both calls are judged on current contents"""
	from .c09 import apply_edit
	L, R = common.mk_table(spec["left"]), common.mk_table(spec["right"])
	tables = {"L": L, "R": R}
	for step in spec["steps"]:
		if step["op"] == "join":
			s2 = dict(spec)
			s2.update({"how": step["how"], "expect": step["expect"], "stratum": "cell-history", "variant": step.get("variant", "history")})
			judge_cell(chk, L, R, s2)
		else:
			ok = apply_edit(chk, tables, step)
			chk.counters["history_edit_ok" if ok else "history_edit_refused"] += 1


def judge_cell(chk, L, R, spec):
	how, expect = spec["how"], spec["expect"]
	lon, ron = spec["lon"], spec["ron"]
	ln, lc = J.cells(L)
	rn, rc = J.cells(R)
	lkeycols = [lc[ln.index(k)] for k in lon]
	rkeycols = [rc[rn.index(k)] for k in ron]
	if J.refusal_allowed(lkeycols, rkeycols, [L.cols()[ln.index(k)].schema() for k in lon], [R.cols()[rn.index(k)].schema() for k in ron]):
		chk.skip("cell-refusal-allowed")
		return
	lkeys = J.rows_from(lkeycols, len(lc[0]))
	rkeys = J.rows_from(rkeycols, len(rc[0]))
	lu, ru = J.unique_keys(lkeys), J.unique_keys(rkeys)
	need_l = expect in ("one_to_one", "one_to_many")
	need_r = expect in ("one_to_one", "many_to_one")
	should_raise = (need_l and not lu) or (need_r and not ru)
	key_mode = spec.get("key_mode", "name")
	a, b = list(lon), list(ron)
	if key_mode == "vector":
		a, b = [L.cols()[ln.index(k)] for k in a], [R.cols()[rn.index(k)] for k in b]
	elif key_mode in ("external", "named-derived"):
		a, b = [Vector(list(c)) for c in lkeycols], [Vector(list(c)) for c in rkeycols]
	if len(a) == 1 and spec.get("scalar"):
		a, b = a[0], b[0]
	if isinstance(expect, str) and spec.get("dynamic_expect", True):
		expect = "".join(list(expect))      # equal to the documented word but built at run time (read from a file, a CLI, a config), not the interned literal
	if spec.get("prefingerprint"):
		# every fingerprint that can be cached is cached before the call
		for T in (L, R):
			call(T.fingerprint)
			[call(c.fingerprint) for c in T.cols()]
	o = call(fn_of(L, how), R, a, b, expect) if spec.get("positional") else call(fn_of(L, how), R, a, b, expect=expect)
	stratum = spec.get("stratum", "cell")
	chk.judged(stratum, ("cell", how, expect, lu, ru, spec.get("variant")))
	cellname = f"{how}/{expect}/left-{'unique' if lu else 'dup'}/right-{'unique' if ru else 'dup'}"
	if should_raise:
		if o.ok:
			chk.fail("the call raises when a required uniqueness fails", f"cardinality/accepted/{cellname}",
				f"{how} expect={expect} L keys {short(lkeys, 160)} R keys {short(rkeys, 160)} ({spec.get('variant')}): returned {short(J.result_rows(o.value)[1], 200)}")
		elif not isinstance(o.exc, SerifValueError):
			chk.fail("the violation is reported as SerifValueError", f"cardinality/wrong-exception/{cellname}/{type(o.exc).__name__}",
				f"{how} expect={expect} L keys {short(lkeys, 160)} R keys {short(rkeys, 160)}: raised {o!r}")
		return
	if not o.ok:
		chk.fail("the call does not raise when the expectation holds", f"cardinality/spurious-rejection/{cellname}/{type(o.exc).__name__}",
			f"{how} expect={expect} L keys {short(lkeys, 160)} R keys {short(rkeys, 160)} ({spec.get('variant')}): raised {o!r}")
		return
	chk.observe(o.value, "cell")
	got = J.result_rows(o.value)[1]
	exp, _ = J.expected_rows(how, lc, rc, lkeys, rkeys)
	mm = call(fn_of(L, how), R, a, b, expect="many_to_many")
	if not mm.ok:
		chk.fail("many_to_many never rejects", f"cardinality/many-to-many-raises/{how}/{type(mm.exc).__name__}", f"{spec!r}: {mm!r}")
		return
	mmrows = J.result_rows(mm.value)[1]
	sa = [None if c.schema() is None else (c.schema().kind, c.schema().nullable) for c in o.value.cols()]
	sb = [None if c.schema() is None else (c.schema().kind, c.schema().nullable) for c in mm.value.cols()]
	if J.rows_same(got, mmrows) and got and (sa != sb or o.value.column_names() != mm.value.column_names()):
		chk.fail("an accepted call returns exactly the many_to_many result", f"cardinality/result-differs-from-many-to-many/{how}/{expect}/dtypes-or-names",
			f"{how} expect={expect} L keys {short(lkeys, 160)} R keys {short(rkeys, 160)}: same rows but column dtypes {sa} vs {sb} / names {o.value.column_names()} vs {mm.value.column_names()}")
		return
	if not J.rows_same(got, mmrows):
		chk.fail("an accepted call returns exactly the many_to_many result", f"cardinality/result-differs-from-many-to-many/{how}/{expect}",
			f"{how} expect={expect} L keys {short(lkeys, 160)} R keys {short(rkeys, 160)}: {short(got, 200)} vs many_to_many {short(mmrows, 200)}")
	elif (got or exp) and not J.rows_same(got, exp):
		chk.fail("an accepted call returns the model rows", f"cardinality/result-differs-from-model/{how}/{expect}",
			f"{how} expect={expect} L keys {short(lkeys, 160)} R keys {short(rkeys, 160)}: {short(got, 200)} vs model {short(exp, 200)}")


def run_invalid(chk, spec):
	L, R = common.mk_table(spec["left"]), common.mk_table(spec["right"])
	if spec.get("positional"):
		o = call(fn_of(L, spec["how"]), R, spec["lon"], spec["ron"], spec["expect"])      # (the fourth positional parameter IS expect)
	else:
		o = call(fn_of(L, spec["how"]), R, spec["lon"], spec["ron"], expect=spec["expect"])
	chk.judged("invalid-expect", ("invalid", spec["how"], bool(spec.get("positional")), short(spec["expect"], 40) if not isinstance(spec["expect"], int) or isinstance(spec["expect"], bool) else f"int of {spec['expect'].bit_length()} bits"))
	if o.ok:
		chk.fail("any other expect value is always rejected", f"cardinality/invalid-expect-accepted/{spec['how']}",
			f"{spec['how']} join with expect={short(spec['expect'], 60)} returned {short(o.value, 100)}")


from . import c09 as _c09
RUNNERS = {"gather_after_check": run_gather_after_check, "repeated_key_column": _c09.run_repeated_key_column, "prefix": run_prefix, "cell": run_cell, "invalid": run_invalid, "cell_history": run_cell_history}
RUNNERS["recompute"] = recompute.runner("C11")

def run_big(chk, spec):
	"""sizes at which a join may switch strategy: a right table of thousands of rows against a handful of left rows, with the repeated key among the
	rows NO left row matches (or among the matched ones, or nowhere); then the same right table again with another expectation / join kind"""
	import random
	rng = random.Random(spec["seed"])
	nr, nl = spec["nr"], spec["nl"]
	kind = spec["kind"]
	mk = (lambda i: i) if kind == "int" else (lambda i: f"k{i}")
	rkeys = list(range(nr))
	where = spec["dup"]
	if where == "unmatched":
		rkeys[nr - 1] = rkeys[nr - 2]                  # left keys are 0..nl-1: never matched
	elif where == "matched":
		rkeys[nr - 1] = 0
	rng.shuffle(rkeys)
	lk = list(range(nl))
	if spec["left_dup"]:
		lk[-1] = lk[0]
	L = Table({"k": [mk(i) for i in lk], "lid": list(range(nl))})
	R = Table({"r": [mk(i) for i in rkeys], "rid": list(range(nr))})
	for how, expect in spec["calls"]:
		judge_cell(chk, L, R, {"how": how, "expect": expect, "lon": ["k"], "ron": ["r"], "stratum": "cell-history", "variant": f"big-right-dup-{where}", "key_mode": spec["key_mode"]})


def run_big_left(chk, spec):
	"""thousands of LEFT rows whose only repeated key sits far apart (rows 0 and 4096, 4095 and 4096, 1 and 8192, first and last): the left side is not unique, wherever a
	strategy that works in blocks draws its lines"""
	n, (i, j) = spec["n"], spec["at"]
	lk = list(range(n))
	lk[j] = lk[i]
	if spec["matched"] == "unmatched":
		lk[i] = lk[j] = 10 ** 6
	L = Table({"k": lk, "lid": list(range(n))})
	R = Table({"r": list(range(0, n, 7)), "rid": list(range(0, n, 7))})
	for how, expect in spec["calls"]:
		judge_cell(chk, L, R, {"how": how, "expect": expect, "lon": ["k"], "ron": ["r"], "stratum": "cell-history", "variant": f"big-left-dup-at-{i}-{j}", "key_mode": spec["key_mode"]})


RUNNERS.update({"big_left": run_big_left})


def run_after_rejected(chk, spec):
	"""a join that is rejected half-way (an unhashable key in an object key column after some ordinary rows; a left duplicate under one_to_one) leaves
	nothing behind: the next join - other tables, keys that ARE unique but occur in the rejected call too - is judged on its own keys"""
	how = spec["how"]
	import warnings
	with warnings.catch_warnings():
		warnings.simplefilter("ignore")
		# (both key columns are object-typed, so the call gets as far as walking the keys)
		bad = Table({"k": [1, 2, "one", [3], 4] if spec["why"] == "unhashable" else [1, 2, "one", 2, 4], "x": [0, 1, 2, 3, 4]})
		other = Table({"r": [1, 2, "one", "two"], "y": ["a", "b", "c", "d"]})
	first = call(fn_of(bad, how), other, "k", "r", expect=spec["first_expect"])
	chk.counters["after-rejected:first-raised" if not first.ok else "after-rejected:first-ok"] += 1
	L = Table({"k": [2, 1, 7], "lid": [0, 1, 2]})
	R = Table({"r": [1, 2, 9], "rid": [0, 1, 2]})
	for h2, e2 in spec["calls"]:
		judge_cell(chk, L, R, {"how": h2, "expect": e2, "lon": ["k"], "ron": ["r"], "stratum": "cell-history", "variant": f"after-rejected-{spec['why']}", "key_mode": "name"})


RUNNERS.update({"big": run_big, "after_rejected": run_after_rejected})

def run_promoted_key_history(chk, spec):
	"""join on a date key column, promote the column by writing a datetime into it, write a duplicate of an (already promoted) cell, join again against a datetime
	key: every call is judged on the keys the column holds at that moment"""
	from datetime import date, datetime
	days = [date(2024, 1, 1 + i) for i in range(4)]
	L = Table({"k": list(days), "lid": [0, 1, 2, 3]})
	R1 = Table({"r": [days[0], days[2], date(2024, 3, 3)], "rid": [10, 11, 12]})
	R2 = Table({"r": [datetime(2024, 1, 1), datetime(2024, 1, 3), datetime(2024, 1, 2, 9, 30)], "rid": [20, 21, 22]})
	how = spec["how"]
	judge_cell(chk, L, R1, {"how": how, "expect": spec["expect"], "lon": ["k"], "ron": ["r"], "stratum": "cell-history", "variant": "promoted-key/before", "key_mode": spec["key_mode"]})
	w1 = call(L["k"].__setitem__, 1, datetime(2024, 1, 2, 9, 30))                      # promotes every cell to a datetime
	w2 = call(L["k"].__setitem__, 3, datetime(2024, 1, 3)) if spec["duplicate"] else None   # equals the promoted third cell
	chk.counters["promoted-key-writes-ok" if w1.ok and (w2 is None or w2.ok) else "promoted-key-writes-refused"] += 1
	judge_cell(chk, L, R2, {"how": how, "expect": spec["expect"], "lon": ["k"], "ron": ["r"], "stratum": "cell-history", "variant": "promoted-key/after", "key_mode": spec["key_mode"]})
	judge_cell(chk, R2, L, {"how": how, "expect": spec["expect"], "lon": ["r"], "ron": ["k"], "stratum": "cell-history", "variant": "promoted-key/after-swapped", "key_mode": spec["key_mode"]})


RUNNERS.update({"promoted_key_history": run_promoted_key_history})


def run_library_results_as_operands(chk, spec):
	"""tables the library itself produced - an aggregate (one row per key TUPLE, which says nothing about any single key column), a sorted table, a window
	result, an earlier join - used as join operands: uniqueness is a fact about the key columns actually named, found by looking at them"""
	import warnings
	with warnings.catch_warnings():
		warnings.simplefilter("ignore")
		sales = Table({"region": ["n", "n", "s", "s", "n", "w"], "product": ["a", "b", "a", "c", "a", "a"], "amt": [1, 2, 3, 4, 5, 6]})
		src = spec["source"]
		if src == "aggregate-2-keys":
			made = sales.aggregate(over=["region", "product"], sum_over="amt")
		elif src == "aggregate-3-keys":
			made = sales.aggregate(over=["region", "product", "amt"], count_over="amt")
		elif src == "sorted":
			made = sales.sort_by(["region", "product"])
		elif src == "sorted-desc":
			made = sales.sort_by("region", reverse=True)
		elif src == "window":
			made = sales.window(over=["region", "product"], sum_over="amt")
		else:
			made = sales.aggregate(over=["region", "product"], sum_over="amt").inner_join(Table({"region": ["n", "s", "w"], "mgr": ["x", "y", "z"]}), "region", "region", expect="many_to_one")
		if spec.get("handle_write"):
			# ... and then written to through a column handle (the table object is not told): a key of another row is written over row 0's
			kc = made.cols()[0]
			if len(kc) > 1:
				call(kc.__setitem__, 0, kc._underlying[len(kc) - 1])
		names = made.column_names()
		other_keys = {"unique": ["n", "s", "w"], "dup": ["n", "s", "n"], "partial": ["s", "q"]}[spec["other"]]
		other = Table({"rg": list(other_keys), "oid": list(range(len(other_keys)))})
		keyname = names[0]
		if spec["side"] == "right":
			L, R, lon, ron = other, made, ["rg"], [keyname]
		else:
			L, R, lon, ron = made, other, [keyname], ["rg"]
		for how, expect in spec["calls"]:
			judge_cell(chk, L, R, {"how": how, "expect": expect, "lon": lon, "ron": ron, "stratum": "cell-history", "variant": f"{src}-as-{spec['side']}", "key_mode": spec["key_mode"]})
		if src.startswith("aggregate") or src == "window":
			# ... and on the full key tuple, where the aggregate IS unique
			other2 = Table({"rg": ["n", "s", "n"], "pd": ["a", "a", "b"], "oid": [1, 2, 3]})
			if spec["side"] == "right":
				judge_cell(chk, other2, made, {"how": spec["calls"][0][0], "expect": spec["calls"][0][1], "lon": ["rg", "pd"], "ron": names[:2], "stratum": "cell-history", "variant": f"{src}-full-key", "key_mode": spec["key_mode"]})


RUNNERS.update({"library_results_as_operands": run_library_results_as_operands})


def run_directed_keys(chk, spec):
	"""key shapes a shortcut can get wrong: composite text keys whose cells contain separator characters (joined with any separator two different tuples read alike),
	bool keys with None (three values, not two), the None-padded key column of an earlier one_to_one left join"""
	import warnings
	what = spec["what"]
	with warnings.catch_warnings():
		warnings.simplefilter("ignore")
		if what == "separator-text":
			sep = spec["sep"]
			lk = [["a" + sep + "b", "a", "x", "a"], ["c", "b" + sep + "c", "y", "b"]]
			rk = [["a", "a" + sep + "b", "x" + sep, "q"], ["b" + sep + "c", "c", "y", sep + "y"]]
			L = Table({"k1": lk[0], "k2": lk[1], "lid": [0, 1, 2, 3]})
			R = Table({"r1": rk[0], "r2": rk[1], "rid": [10, 11, 12, 13]})
			lon, ron = ["k1", "k2"], ["r1", "r2"]
		elif what == "bool-with-none":
			nk = spec["nkeys"]
			import itertools
			tuples = list(itertools.product([True, False, None], repeat=nk))[: 3 ** nk if spec["n"] == "all" else 2 ** nk + 1]
			L = Table({**{f"k{j}": [t_[j] for t_ in tuples] for j in range(nk)}, "lid": list(range(len(tuples)))})
			R = Table({**{f"r{j}": [t_[j] for t_ in reversed(tuples)] for j in range(nk)}, "rid": list(range(len(tuples)))})
			lon, ron = [f"k{j}" for j in range(nk)], [f"r{j}" for j in range(nk)]
			for T_, nm in ((L, "k0"), (R, "r0")):
				if T_[nm].schema() is None or T_[nm].schema().kind is not bool:
					chk.skip("bool-key-not-typed-bool")
					return
		elif what == "object-keys-equal-across-classes":
			# keys that are equal but of different classes (1 / True / 1.0, 2 / 2.0, Decimal(3) / 3) in OBJECT-typed key columns are one key: they repeat
			from decimal import Decimal
			from fractions import Fraction
			lk = {"bool-int": [1, True, "x"], "int-float": [2, 2.0, "x"], "decimal": [Decimal(3), 3, "x"], "fraction": [Fraction(4), 4, "y"], "zero": [0, False, "z"], "unique": [1, 2, "x"]}[spec["pair"]]
			rk = [1, 2, 3, 4, 0, "x"]
			if spec["dup_side"] == "left":
				L = Table([Vector(list(lk), dtype=object, name="k"), Vector(list(range(len(lk))), name="lid")])
				R = Table([Vector(list(rk), dtype=object, name="r"), Vector(list(range(len(rk))), name="rid")])
			else:
				L = Table([Vector(list(rk), dtype=object, name="k"), Vector(list(range(len(rk))), name="lid")])
				R = Table([Vector(list(lk), dtype=object, name="r"), Vector(list(range(len(lk))), name="rid")])
			lon, ron = ["k"], ["r"]
		elif what == "self-join-with-namesake-key":
			# a table joined with ITSELF, the left key being a different vector that carries the right key column's name (a copy written to, a second column renamed alike)
			base = Table({"k": [1, 2, 3, 4], "p": ["a", "b", "c", "d"]})
			if spec["route"] == "copy-written":
				kv = base["k"].copy()
				kv[1] = 1            # the left key repeats; the table's own column (the right key) does not
				left_key = kv
			else:
				base = Table({"k": [1, 2, 3, 4], "j": [1, 1, 3, 4], "p": ["a", "b", "c", "d"]})
				base.rename_column("j", "k")
				left_key = base.cols()[1]
			cur_left = list(left_key._underlying)
			lu = len(set(cur_left)) == len(cur_left)
			for how, expect in spec["calls"]:
				fn = {"inner": base.inner_join, "left": base.join, "full": base.full_join}[how]
				o = call(fn, base, left_key, "k", expect=expect)
				chk.judged("cell-history", ("cell", how, expect, lu, True, what))
				need_l = expect in ("one_to_one", "one_to_many")
				if need_l and not lu and o.ok:
					chk.fail("the call raises when a required uniqueness fails", f"cardinality/accepted/{how}/{expect}/left-dup/right-unique", f"{spec!r}: self join with left key {cur_left!r} (a vector named like the right key column {list(base.cols()[0]._underlying)!r}) was accepted under {expect}")
					return
				if not (need_l and not lu) and not o.ok:
					chk.fail("the call does not raise when the expectation holds", f"cardinality/spurious-rejection/{how}/{expect}/self-join-namesake/{type(o.exc).__name__}", f"{spec!r}: {o!r}")
					return
			return
		else:
			a = Table({"k": [1, 2, 3, 4], "p": ["a", "b", "c", "d"]})
			b = Table({"rk": [1, 9], "q": ["x", "y"]})
			made = a.join(b, "k", "rk", expect="one_to_one")       # rows 2, 3, 4 are unmatched: the result's rk column holds None three times
			c = Table({"ck": [1, None, 7], "z": [0, 1, 2]})
			if spec["side"] == "left":
				L, R, lon, ron = made, c, ["rk"], ["ck"]
			else:
				L, R, lon, ron = c, made, ["ck"], ["rk"]
		for how, expect in spec["calls"]:
			judge_cell(chk, L, R, {"how": how, "expect": expect, "lon": lon, "ron": ron, "stratum": "cell-history", "variant": what, "key_mode": spec["key_mode"]})


RUNNERS.update({"directed_keys": run_directed_keys})


def realise(rng, lu, ru, variant, kind="int"):
	"""key columns (1 or 2 per side) realising (left unique?, right unique?) with the duplicate placed per variant"""
	from datetime import datetime as _dt
	dom = {"int": [1, 2, 3, 4, 5, 6], "str": ["a", "b", "c", "d", "e", "f"], "brace": ["{id}", "user_{n}", "{}", "{0}", "{{x", "}"], "hash": [-1, 7, -2, 3, 2**61 - 1, 0], "hugeint": [10 ** 5000, 10 ** 5000 + 1, -(10 ** 5000), 3, 10 ** 4400, 7],
		"datetime": [_dt(2020, 1, 31, 5, 0), _dt(2020, 1, 31, 17, 30), _dt(2020, 1, 31, 0, 0), _dt(2020, 1, 31, 5, 0, 1), _dt(2021, 2, 28, 9, 0), _dt(2021, 2, 28, 9, 1)]}[kind]     # hash(-1) == hash(-2), hash(0) == hash(2**61-1)
	m1, m2, lonly, ronly, lonly2, ronly2 = dom
	if variant == "composite":
		if kind == "hash":
			m1, m2, lonly, ronly = -1, -2, 0, 2**61 - 1
		# tuple-unique baseline with repeated components: (m1,x) (m1,y) (m2,x)
		L = [(m1, "x"), (m1, "y"), (m2, "x"), (lonly, "x")]
		R = [(m1, "x"), (m2, "x"), (m2, "y"), (ronly, "y")]
		if not lu:
			L.insert(rng.randrange(len(L) + 1), rng.choice(L))
		if not ru:
			R.insert(rng.randrange(len(R) + 1), rng.choice(R))
		return [[k[0] for k in L], [k[1] for k in L]], [[k[0] for k in R], [k[1] for k in R]]
	L = [m1, m2, lonly, lonly2]
	R = [m1, m2, ronly, ronly2]
	rng.shuffle(L)
	rng.shuffle(R)
	for side, uniq, matched, only in ((L, lu, [m1, m2], [lonly, lonly2]), (R, ru, [m1, m2], [ronly, ronly2])):
		if variant == "none":
			side.insert(rng.randrange(len(side) + 1), None)       # a single None is still unique
		if uniq:
			continue
		if variant == "matched":
			side.insert(rng.randrange(len(side) + 1), rng.choice(matched))
		elif variant == "unmatched":
			side.insert(rng.randrange(len(side) + 1), rng.choice(only))
		elif variant == "none":
			side.insert(rng.randrange(len(side) + 1), None)
		elif variant == "last":
			side.append(rng.choice(side[:-1]))
		elif variant == "first":
			side.insert(0, rng.choice(side[1:]))
		elif variant == "triple":
			k = rng.choice(side)
			side.insert(rng.randrange(len(side) + 1), k)
			side.append(k)
	return [L], [R]


def spec_from_keys(rng, lk, rk, how, expect, variant):
	nk = len(lk)
	nl, nr = len(lk[0]), len(rk[0])
	left = {"names": [f"k{i}" for i in range(nk)] + ["lid"], "cols": [list(c) for c in lk] + [[f"L{i}" for i in range(nl)]]}
	right = {"names": [f"r{i}" for i in range(nk)] + ["rid"], "cols": [list(c) for c in rk] + [[f"R{i}" for i in range(nr)]]}
	return {"how": how, "expect": expect, "left": left, "right": right, "lon": [f"k{i}" for i in range(nk)], "ron": [f"r{i}" for i in range(nk)],
		"variant": variant, "key_mode": rng.choice(["name", "vector"]), "scalar": rng.random() < 0.5}


def run(chk):
	recompute.add_cases(chk, "C11")
	rng = chk.rng
	for nr, nl in (((2048, 5), (4096, 3), (600, 40)) if chk.quick() else ((2048, 5), (2047, 5), (4096, 3), (600, 40), (512, 64), (3000, 300), (20000, 10))):
		for dup in ("unmatched", "matched", "none"):
			for kind in ("int", "str"):
				for left_dup in (False, True):
					hows = rng.sample(HOWS, len(HOWS))
					calls = [(hows[0], "one_to_one"), (hows[1 % len(hows)], "many_to_one"), (hows[2 % len(hows)], "many_to_many"), ("full", "one_to_one"), ("inner", "many_to_many"), ("left", "one_to_many"), ("inner", "many_to_one")]
					chk.case("big", {"nr": nr, "nl": nl, "dup": dup, "kind": kind, "left_dup": left_dup, "calls": calls, "seed": rng.randrange(10**9), "key_mode": rng.choice(["name", "vector"])}, "big")
	for how in HOWS:
		for expect in ("one_to_one", "one_to_many", "many_to_one", "many_to_many"):
			for duplicate in (True, False):
				for key_mode in ("name", "vector"):
					chk.case("promoted_key_history", {"how": how, "expect": expect, "duplicate": duplicate, "key_mode": key_mode}, "promoted-key-history")
	for how in HOWS:
		for why in ("unhashable", "left-duplicate"):
			for first_expect in ("one_to_one", "one_to_many", "many_to_one"):
				chk.case("after_rejected", {"how": how, "why": why, "first_expect": first_expect, "calls": [(h2, e2) for h2 in HOWS for e2 in ("one_to_one", "one_to_many")]}, "after-rejected")
	idx = 0
	for how in HOWS:
		for expect in EXPECTS:
			for lu in (True, False):
				for ru in (True, False):
					for variant in VARIANTS:
						for kind in ("int", "str", "hash", "datetime", "brace", "hugeint"):
							if kind in ("datetime", "brace", "hugeint") and variant == "composite":
								continue
							idx += 1
							if not chk.mine(idx):
								continue
							lk, rk = realise(rng, lu, ru, variant, kind)
							sp = spec_from_keys(rng, lk, rk, how, expect, variant)
							sp["dynamic_expect"] = idx % 3 != 0
							sp["stale_flags"] = idx % 4 == 1
							chk.case("cell", sp, f"cell-{how}")
		# empty sides are trivially unique
		for expect in EXPECTS:
			for lk, rk in (([[]], [[1, 1]]), ([[1, 1]], [[]]), ([[]], [[]])):
				chk.case("cell", spec_from_keys(rng, lk, rk, how, expect, "empty-side"), "cell-empty")
	for how in HOWS:
		for bad in INVALID:
			for lk, rk in (([[1, 2]], [[2, 3]]), ([[1, 1]], [[1, 1]]), ([[]], [[]])):
				s = spec_from_keys(rng, lk, rk, how, bad, "invalid")
				s["lon"], s["ron"] = s["lon"][0], s["ron"][0]
				chk.case("invalid", s, "invalid-expect")
				if lk == [[1, 1]]:
					chk.case("invalid", dict(s, positional=True), "invalid-expect-positional")
		for expect in EXPECTS:
			for lk, rk in (([[1, 1]], [[1, 2]]), ([[1, 2]], [[1, 1]]), ([[1, 2]], [[2, 3]])):
				chk.case("cell", dict(spec_from_keys(rng, lk, rk, how, expect, "positional"), positional=True), "cell-positional")
	for source in ("aggregate-2-keys", "aggregate-3-keys", "sorted", "sorted-desc", "window", "join-result"):
		for side in ("right", "left"):
			for other in ("unique", "dup", "partial"):
				for key_mode in ("name", "vector"):
					for handle_write in (False, True):
						calls = [(HOWS[(i + len(source)) % len(HOWS)], e) for i, e in enumerate(EXPECTS)]
						chk.case("library_results_as_operands", {"source": source, "side": side, "other": other, "key_mode": key_mode, "calls": calls, "handle_write": handle_write}, "cell-library-results")
	for n, at in ((4100, (0, 4096)), (4100, (4095, 4096)), (8200, (1, 8192)), (5000, (0, 4999)), (1030, (1023, 1024)), (300, (127, 256)), (4100, (100, 200))):
		for matched in ("matched", "unmatched"):
			chk.case("big_left", {"n": n, "at": at, "matched": matched, "key_mode": "name" if n % 2 else "vector", "calls": [("left", "one_to_one"), ("left", "one_to_many"), ("full", "one_to_one"), ("inner", "one_to_many"), ("left", "many_to_one")]}, "cell-big-left")
	for key_mode in ("name", "vector"):
		allcalls = [(h, e) for h in HOWS for e in EXPECTS]
		for sep in ("\x1f", "\x00", "|", ",", "\t", " ", "\x1e", "/", "::"):
			chk.case("directed_keys", {"what": "separator-text", "sep": sep, "calls": allcalls, "key_mode": key_mode}, "cell-directed-keys")
		for nkeys in (1, 2):
			for n in ("just-over-two-to-the-n", "all"):
				chk.case("directed_keys", {"what": "bool-with-none", "nkeys": nkeys, "n": n, "calls": allcalls, "key_mode": key_mode}, "cell-directed-keys")
		for side in ("left", "right"):
			chk.case("directed_keys", {"what": "padded-key-of-one_to_one-left-join", "side": side, "calls": allcalls, "key_mode": key_mode}, "cell-directed-keys")
		for pair in ("bool-int", "int-float", "decimal", "fraction", "zero", "unique"):
			for dup_side in ("left", "right"):
				chk.case("directed_keys", {"what": "object-keys-equal-across-classes", "pair": pair, "dup_side": dup_side, "calls": allcalls, "key_mode": key_mode}, "cell-directed-keys")
		for route in ("copy-written", "second-column-renamed-alike"):
			chk.case("directed_keys", {"what": "self-join-with-namesake-key", "route": route, "calls": allcalls, "key_mode": key_mode}, "cell-directed-keys")
	for how in HOWS:
		_c09.repeated_key_cases(chk, how, 40 if chk.quick() else 300, expects=EXPECTS)
	# key columns that differ only where hash() cannot tell (equal fingerprints), every fingerprint cached beforehand
	for how in HOWS:
		for expect in EXPECTS:
			for lk, rk in (([-1, -1, 5], [-1, -2, 5]), ([-1, -2, 5], [-1, -1, 5]), ([0, 0, 7], [0, 2 ** 61 - 1, 7]), ([-1, -2], [-2, -1]), ([-2, -2, -1], [-2, -1, -1])):
				sp = spec_from_keys(rng, [lk], [rk], how, expect, "equal-fingerprints")
				sp["prefingerprint"] = True
				chk.case("cell", sp, "cell-equal-fingerprints")
	# an object-typed payload column whose odd cell sits in one row: accepted calls return exactly the many_to_many result (values AND dtypes)
	for _ in range(80 if chk.quick() else 500):
		how = rng.choice(HOWS)
		lk, rk = realise(rng, True, True, rng.choice(["matched", "unmatched"]), "int")
		sp = spec_from_keys(rng, lk, rk, how, rng.choice(EXPECTS), "mixed-payload")
		for side in (sp["left"], sp["right"]):
			n = len(side["cols"][0])
			j = rng.randrange(n)
			side["names"].append("mix")
			side["cols"].append([("x" if i == j else i) for i in range(n)])
		chk.case("cell", sp, "cell-mixed-payload")
	# tables derived from a table whose keys an earlier call has verified
	for _ in range(100 if chk.quick() else 700):
		how = rng.choice(HOWS)
		lk, rk = realise(rng, True, True, rng.choice(["matched", "unmatched", "none"]), rng.choice(["int", "str"]))
		sp = spec_from_keys(rng, lk, rk, how, "one_to_one", "derived")
		fe = rng.choice(["one_to_one", "many_to_one", "one_to_many"])
		side = rng.choice(["right", "left"]) if fe == "one_to_one" else ("right" if fe == "many_to_one" else "left")      # the side whose keys the first call verifies
		sp.update({"first_expect": fe, "side": side, "derive": rng.choice(["gather", "gather-first-twice", "gather-first-twice", "stack", "copy", "slice", "mask"]),
			"then": [(how, fe), (rng.choice(HOWS), rng.choice(EXPECTS))], "seed": rng.randrange(10**9), "key_mode": rng.choice(["name", "vector"])})
		chk.case("gather_after_check", sp, "cell-derived")
	# prefix-related key lists against one long-lived right table
	for _ in range(60 if chk.quick() else 400):
		xs = [1, 1, 2, 2, 3]
		ys = ["p", "q", "p", "q", "p"]
		order = list(range(5))
		rng.shuffle(order)
		right = {"names": ["x", "y", "rid"], "cols": [[xs[i] for i in order], [ys[i] for i in order], [f"R{i}" for i in range(5)]]}
		nl = rng.choice([2, 3])
		left = {"names": ["a", "b", "lid"], "cols": [[rng.choice([1, 2, 3, 4]) for _ in range(nl)], [rng.choice(["p", "q"]) for _ in range(nl)], [f"L{i}" for i in range(nl)]]}
		calls = []
		for _k in range(rng.choice([2, 3, 4])):
			two = rng.random() < 0.5
			calls.append((["a", "b"] if two else ["a"], ["x", "y"] if two else ["x"], rng.choice(HOWS), rng.choice(EXPECTS)))
		chk.case("prefix", {"left": left, "right": right, "calls": calls, "key_mode": rng.choice(["name", "vector"])}, "cell-prefix")
	# histories: the same tables joined again after a key cell was edited in place
	for _ in range(200 if chk.quick() else 1200):
		how = rng.choice(HOWS)
		expect = rng.choice(EXPECTS[:3])
		lk, rk = realise(rng, True, True, rng.choice(["matched", "unmatched", "none"]), rng.choice(["int", "str"]))
		spec = spec_from_keys(rng, lk, rk, how, expect, "history")
		spec["key_mode"] = "name"
		steps = [{"op": "join", "how": how, "expect": expect}]
		for _k in range(rng.choice([1, 2, 3])):
			side = rng.choice(["L", "R"])
			ts = spec["left"] if side == "L" else spec["right"]
			col = (spec["lon"] if side == "L" else spec["ron"])[0]
			colvals = ts["cols"][ts["names"].index(col)]
			n = len(colvals)
			fresh = [x for x in ([7, 8, 9] if isinstance(next(v for v in colvals if v is not None), int) else ["x", "y", "z"])]
			value = rng.choice([v for v in colvals if v is not None] * 2 + fresh)
			steps.append({"op": "edit", "side": side, "via": rng.choice(["view", "item", "item"]), "col": col, "row": rng.randrange(n), "value": value})
			steps.append({"op": "join", "how": rng.choice([how, how, rng.choice(HOWS)]), "expect": rng.choice([expect, expect, rng.choice(EXPECTS)])})
		spec["steps"] = steps
		chk.case("cell_history", spec, "cell-history")
	for _ in range(400 if chk.quick() else 2500):
		ul = rng.choice([True, False, None])
		ur = rng.choice([True, False, None])
		spec = common.gen_join_spec(rng, max_rows=rng.choice([3, 6, 10]), unique_left=ul, unique_right=ur)
		# payload names are needed unique only for mk_table; key names come from the generator
		lens_l = {len(c) for c in spec["left"]["cols"]}
		lens_r = {len(c) for c in spec["right"]["cols"]}
		if len(lens_l) > 1 or len(lens_r) > 1:
			# forcing uniqueness changed the number of key rows: rebuild payload columns to match
			for side, pre in ((spec["left"], "L"), (spec["right"], "R")):
				nk = len(spec["lon"])
				keyidx = [side["names"].index(k) for k in (spec["lon"] if pre == "L" else spec["ron"])]
				n = len(side["cols"][keyidx[0]])
				side["cols"] = [side["cols"][i] for i in keyidx] + [[f"{pre}{i}" for i in range(n)]]
				side["names"] = [side["names"][i] for i in keyidx] + ["lid" if pre == "L" else "rid"]
		spec["expect"] = rng.choice(EXPECTS)
		spec["how"] = rng.choice(HOWS)
		spec["stratum"] = "sampled-cell"
		spec["variant"] = "sampled"
		spec["scalar"] = spec.get("single_as_scalar")
		if spec["key_mode"] == "external":
			spec["key_mode"] = "name"
		chk.case("cell", spec, "sampled-cell")
