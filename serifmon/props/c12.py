"""C12 - group-by aggregation: one row per key in first-appearance order, correct values, apply called once per group."""
import itertools
import re

from ..bind import Vector, Table
from ..core import call, short
from .. import models as M
from .. import values as V
from . import common
from . import joinmodel as J
from .c06 import close, textbook

from . import recompute

RULE = ("[plus the shared recompute-after-history monitor: this property's operations evaluated on long-lived objects between in-place writes / renames must equal the same operations on fresh objects rebuilt from the current contents] "
	"exhaustive: every key column over {None,'a','b'} of length 1-5 (363 columns) with value columns over {None, 1, 2.5, 0}; sampled: 1-3 keys "
	"by name / own column / external vector, interleaved groups, single-row and all-None groups, composite keys sharing a component, hash-colliding "
	"int keys, every subset of the six built-ins with 1-3 columns each (the same column up to three times) and 1-2 apply entries with order-"
	"sensitive / input-draining functions wrapped in call-recording spies. Oracle: grouping by list search with == (no hashing), textbook "
	"aggregates over the non-None values in row order; spies must see each group's values exactly once; vector reductions must agree with the "
	"single-group aggregate; replicas under several PYTHONHASHSEED values are compared case by case. distinct = (#keys, key modes, #groups class, "
	"functions requested, apply functions, None pattern).")
ASSUMPTIONS = [
	"the order in which apply is called across groups is free",
	"output columns after the key columns are matched as a multiset of value lists plus a name-to-function association where the name is unambiguous (their order and exact names belong to C18)",
	"float aggregates are compared with isclose(rel_tol=1e-9)",
]
EXHAUSTIVE = {"flag": True, "scope": "all single key columns over {None,'a','b'} up to length 5 (values sampled)"}
ANCHOR_FUNCS = ["table:Table.aggregate", "vector:Vector.sum", "vector:Vector.mean", "vector:Vector.stdev"]
REQUIRED_STRATA = {"recompute": 200, "aggregate": 800, "apply-spy": 200, "vector-agree": 100}

FN_RE = re.compile(r"_(sum|mean|min|max|count|stdev)\d*$")


def model_groups(keycols, n):
	keys = J.rows_from(keycols, n)
	groups = []
	for i, k in enumerate(keys):
		for g in groups:
			if J.key_eq(g[0], k):
				g[1].append(i)
				break
		else:
			groups.append((k, [i]))
	return groups


def agg_value(fn, vals):
	clean = [v for v in vals if v is not None]
	if fn == "sum":
		return sum(clean)
	if fn == "count":
		return len(clean)
	if fn == "stdev":
		return textbook("stdev", clean) if len(clean) >= 2 else None
	if not clean:
		return None
	return textbook(fn, clean)


def col_close(a, b):
	return len(a) == len(b) and all(close(x, y) if not isinstance(x, (tuple, list, str)) else M.same(x, y) for x, y in zip(a, b))


def expected_outputs(spec, groups, expand=None):
	"""list of (fn or 'apply:<name>', expected value list) for every requested output"""
	out = []
	for fn in common.AGG_FUNCS:
		for ref in spec["aggs"].get(fn, []):
			data = common.ref_values(spec, ref)
			vals = [agg_value(fn, [data[i] for i in rows]) for _, rows in groups]
			out.append((fn, vals))
	for a in spec["apply"]:
		data = common.ref_values(spec, a["col"])
		f = common.APPLY_FUNCS[a["fn"]]
		vals = [f([data[i] for i in rows]) for _, rows in groups]
		out.append(("apply:" + a["out"], vals))
	if expand is not None:
		out = [(fn, expand(vals)) for fn, vals in out]
	return out


class Spies:
	def __init__(self):
		self.calls = {}

	def __call__(self, name, fn):
		rec = self.calls.setdefault(name, [])

		def spy(vals):
			rec.append(tuple(vals))
			return fn(vals)
		return spy


def judge_outputs(chk, what, spec, names, cols, nkeys, expected, tagprefix):
	"""non-key output columns against the expected outputs (multiset of value lists + name/function association)"""
	got = cols[nkeys:]
	gotnames = names[nkeys:]
	if len(got) != len(expected):
		chk.fail(f"{what} returns one column per requested aggregate after the key columns", f"{tagprefix}/output-column-count",
			f"{spec!r}: {len(got)} output columns {gotnames!r}, expected {len(expected)}")
		return False
	remaining = list(expected)
	for nm, g in zip(gotnames, got):
		hit = None
		for k, (fn, e) in enumerate(remaining):
			if col_close(g, e):
				hit = k
				break
		if hit is None:
			# classify by the function named in the column header when there is one
			m = FN_RE.search(nm or "")
			fnname = m.group(1) if m else "unknown"
			chk.fail(f"every {what} output equals the textbook function over the group's non-None values in row order", f"{tagprefix}/value/{fnname}",
				f"{spec!r}: output column {nm!r} = {short(g, 200)} matches no expected output {short(remaining, 300)}")
			return False
		remaining.pop(hit)
	apply_names = {a["out"] for a in spec["apply"]}
	if not any(FN_RE.search(a) for a in apply_names):
		for nm, g in zip(gotnames, got):
			m = FN_RE.search(nm or "")
			if m and nm not in apply_names:
				fn = m.group(1)
				cands = [e for f, e in expected if f == fn]
				if cands and not any(col_close(g, e) for e in cands):
					chk.fail(f"a column named after a function holds that function's values", f"{tagprefix}/name-function-mismatch/{fn}",
						f"{spec!r}: column {nm!r} = {short(g, 160)} is not the {fn} of any requested column ({short(cands, 200)})")
					return False
	return True


def model_or_raise(spec, groups, expand=None):
	"""expected outputs, or the exception a custom function raises on some group's values (which the call must then let through)"""
	try:
		return expected_outputs(spec, groups, expand), None
	except Exception as exc:
		return None, exc


def apply_raises(chk, what, spec, o, exc):
	if o.ok:
		chk.fail("a custom apply function receives each group's values (None included) and its outcome is the call's outcome", f"{what}/apply-exception-swallowed/{type(exc).__name__}",
			f"{spec!r}: an apply function raises {type(exc).__name__}({exc}) on some group's values, but {what} returned {short(J.cells(o.value), 200)}")


def run_aggregate(chk, spec, table=None):
	spies = Spies()
	o, t = common.do_agg(spec, op="aggregate", spies=spies, table=table)
	n = spec["n"]
	keycols = [common.ref_values(spec, r) for r in spec["over"]]
	groups = model_groups(keycols, n)
	expected, model_exc = model_or_raise(spec, groups)
	fns = tuple(sorted(spec["aggs"])) + tuple(sorted(a["fn"] for a in spec["apply"]))
	chk.judged("aggregate", ("agg", len(keycols), tuple(r["mode"] for r in spec["over"]), min(len(groups), 4), fns,
		any(v is None for c in spec["table"]["cols"] for v in c)))
	if model_exc is not None:
		apply_raises(chk, "aggregate", spec, o, model_exc)
		# ... and no group was handed to a function twice on the way to that exception
		import collections
		for a in spec["apply"]:
			if a["fn"].startswith("builtin-"):
				continue
			data = common.ref_values(spec, a["col"])
			want = collections.Counter(repr(tuple(data[i] for i in rows)) for _, rows in groups)
			have = collections.Counter(repr(c) for c in spies.calls.get(a["out"], []))
			extra = {k: v for k, v in have.items() if v > want.get(k, 0)}
			if extra:
				chk.fail("a custom apply function receives each group's values in row order exactly once", f"aggregate/apply-call-count/{a['fn']}/before-its-exception",
					f"{spec!r}: apply {a['out']!r} raised {type(model_exc).__name__} for some group; calls made: {dict(have)!r}, groups: {dict(want)!r}")
				return
		return
	if not o.ok:
		chk.fail("aggregate computes every admissible request", f"aggregate/raises/{type(o.exc).__name__}", f"{spec!r} raised {o!r}")
		return
	r = o.value
	chk.observe(r, "aggregate")
	if not isinstance(r, Table):
		chk.fail("aggregate returns a table", "aggregate/not-a-table", f"{spec!r} -> {type(r).__name__}")
		return
	names, cols = J.cells(r)
	chk.feed_digest((names, cols))
	nrows = len(cols[0]) if cols else 0
	if nrows != len(groups):
		chk.fail("one row per distinct key tuple", f"aggregate/row-count/{'too-few' if nrows < len(groups) else 'too-many'}",
			f"{spec!r}: {nrows} rows, {len(groups)} distinct key tuples {[g[0] for g in groups]!r}")
		return
	nk = len(keycols)
	if len(cols) < nk:
		chk.fail("key columns come first", "aggregate/key-columns-missing", f"{spec!r}: columns {names!r}")
		return
	gotkeys = J.rows_from(cols[:nk], nrows)
	expkeys = [g[0] for g in groups]
	if not J.rows_same(gotkeys, expkeys):
		cls = "order" if sorted(map(repr, gotkeys)) == sorted(map(repr, expkeys)) else "values"
		chk.fail("rows follow first appearance of each key tuple, key columns first", f"aggregate/key-{cls}",
			f"{spec!r}: keys {gotkeys!r}, expected {expkeys!r}")
		return
	if not judge_outputs(chk, "aggregate", spec, names, cols, nk, expected, "aggregate"):
		return
	# apply spies: exactly once per group, with that group's values (None included) in row order
	for a in spec["apply"]:
		if a["fn"].startswith("builtin-"):
			continue      # passed unwrapped
		data = common.ref_values(spec, a["col"])
		want = sorted(repr(tuple(data[i] for i in rows)) for _, rows in groups)
		have = sorted(repr(c) for c in spies.calls.get(a["out"], []))
		chk.judged("apply-spy", ("spy", a["fn"], min(len(groups), 4)))
		if have != want:
			cls = "call-count" if len(have) != len(want) else "arguments"
			chk.fail("a custom apply function receives each group's values in row order exactly once", f"aggregate/apply-{cls}/{a['fn']}",
				f"{spec!r}: apply {a['out']!r} was called with {have}, expected {want}")
			return


def run_vector_agree(chk, spec):
	vals = list(spec["values"])
	v = Vector(list(vals), name="v")
	for idxs, news in spec.get("writes", []):
		# in-place writes first (index lists may name one cell twice: the last value wins, as in a Python loop)
		w = call(v.__setitem__, list(idxs) if spec.get("idx_form", "list") == "list" else Vector(list(idxs)), list(news))
		if not w.ok:
			chk.skip("vector-agree-write-refused")
			return
		for i, x in zip(idxs, news):
			vals[i] = x
	if not M.eq_list(list(v._underlying), vals):
		chk.skip("vector-agree-write-differs")      # (C08's subject)
		return
	if spec.get("presort") is not None:
		# the vector comes straight out of sort_by(): its reductions are still those of its values
		sv = call(v.sort_by, reverse=spec["presort"][0], na_last=spec["presort"][1])
		if not sv.ok or not isinstance(sv.value, Vector) or len(sv.value) != len(vals):
			chk.skip("vector-agree-presort-refused")
			return
		v = Vector(list(sv.value._underlying), name="v") if False else sv.value
		v.name = "v"
		vals = list(v._underlying)
	if all(x is None for x in vals):
		chk.skip("vector-agree-all-none")
		return
	t = Table([Vector([spec["key"]] * len(vals), name="k"), v])
	o = call(lambda: t.aggregate(over="k", sum_over="v", mean_over="v", min_over="v", max_over="v", stdev_over="v"))
	chk.judged("vector-agree", ("vagree", spec["kind"], len(vals), sum(1 for x in vals if x is None)))
	if not o.ok:
		chk.fail("aggregate computes every admissible request", f"aggregate/raises/{type(o.exc).__name__}", f"{spec!r} raised {o!r}")
		return
	names, cols = J.cells(o.value)
	byname = {nm: c[0] for nm, c in zip(names, cols)}
	for fn in ("sum", "mean", "min", "max", "stdev"):
		r = call(getattr(v, fn))
		a = byname.get(f"v_{fn}", "<missing>")
		if not r.ok:
			chk.fail("whole-column reductions agree with the single-group aggregate", f"vector-agree/raises/{fn}/{type(r.exc).__name__}", f"Vector({vals!r}).{fn}() raised {r!r}; aggregate gives {a!r}")
			return
		if isinstance(a, str) or not close(r.value, a):
			chk.fail("whole-column reductions agree with the single-group aggregate", f"vector-agree/differs/{fn}", f"Vector({vals!r}).{fn}() = {r.value!r} but the single-group aggregate gives {a!r}")
			return


def run_agg_chain(chk, spec):
	"""the table an aggregate / window returned is aggregated again AS IT IS (not rebuilt): the second stage is judged on the cells the first stage returned"""
	first, t = common.do_agg(spec["first"])
	if not first.ok or not isinstance(first.value, Table) or len(first.value) == 0:
		chk.skip("agg-chain-first-stage-empty")
		return
	mid = first.value
	names, cols = J.cells(mid)
	if len(set(map(repr, names))) != len(names) or any(not isinstance(nm, str) for nm in names):
		chk.skip("agg-chain-ambiguous-names")
		return
	nk = len(spec["first"]["over"])
	valcols = [nm for nm, c in zip(names[nk:], cols[nk:]) if all(x is None or (isinstance(x, (int, float)) and not isinstance(x, bool)) for x in c)]
	if not valcols or nk == 0:
		chk.skip("agg-chain-no-numeric-output")
		return
	import random
	rng = random.Random(len(names) * 31 + len(mid))
	target = rng.choice(valcols)
	fns = rng.sample(["sum", "mean", "min", "max", "count"], rng.choice([2, 3]))
	second = {"op": spec["second_op"], "table": {"names": names, "cols": cols}, "n": len(mid), "over": [{"mode": rng.choice(["name", "vector"]), "name": names[0]}], "scalar_over": rng.random() < 0.5,
		"aggs": {f: [{"mode": rng.choice(["name", "vector"]), "name": target}] for f in fns}, "apply": [{"out": "vals", "col": {"mode": "name", "name": target}, "fn": "tuple"}]}
	if spec["second_op"] == "aggregate":
		run_aggregate(chk, second, table=mid)
	else:
		from . import c13
		c13.run_window(chk, second, table=mid)


def run_label_keys(chk, spec):
	"""key and value columns whose labels are not strings, addressed by the sanitised spelling of their own label - whatever labels were sanitised earlier"""
	lab = {"1": 1, "True": True, "1.0": 1.0, "0": 0, "False": False}
	sp = {"1": "c1", "True": "true", "1.0": "c1_0", "0": "c0", "False": "false"}
	for first in spec["order"]:
		t0 = Table([Vector(["p", "q"], name=lab[first]), Vector([1, 2], name="z")])
		call(lambda: t0.aggregate(over=sp[first], sum_over="z"))
	kx, vx = spec["key_label"], spec["other_label"]
	keys = ["a", "b", "a", "c"]
	other = ["u", "u", "w", "w"]
	vals = [1, 2, 4, 8]
	t = Table([Vector(list(other), name=lab[vx]), Vector(list(keys), name=lab[kx]), Vector(list(vals), name="v")])
	o = call(lambda: getattr(t, spec["op"])(over=sp[kx], sum_over="v"))
	chk.judged("aggregate" if spec["op"] == "aggregate" else "window", ("label-keys", spec["op"], kx, vx, tuple(spec["order"])))
	if not o.ok:
		chk.fail(f"{spec['op']} computes every admissible request", f"{spec['op']}/raises/label-key/{type(o.exc).__name__}", f"{spec!r}: over={sp[kx]!r} (label {lab[kx]!r}) raised {o!r}")
		return
	names, cols = J.cells(o.value)
	exp_keys, exp_sums = (["a", "b", "c"], [5, 2, 8]) if spec["op"] == "aggregate" else (keys, [5, 2, 5, 8])
	if len(cols) < 2 or cols[0] != exp_keys or cols[-1] != exp_sums:
		chk.fail("one row per distinct key tuple / every row its group's value (the key is the column the caller named)", f"{spec['op']}/key-values/label-key", f"{spec!r}: over={sp[kx]!r} (label {lab[kx]!r}): {short(cols, 160)}, expected keys {exp_keys} sums {exp_sums}")

def directed_specs(op):
	"""requests whose shape - not their data - is the point: every built-in at once, one column asked for twice, key / apply labels that look like
	generated output names, two aggregated columns that differ only in cells Python's hash() cannot tell apart"""
	n = 6
	k = ["a", "b", "a", "b", "a", "c"]
	v = [3, 1, 4, 1, 5, 9]
	w = [2.5, None, 0.5, 4.0, None, 1.0]
	name = lambda nm: {"mode": "name", "name": nm}
	vec = lambda nm: {"mode": "vector", "name": nm}
	base = {"op": op, "n": n, "scalar_over": False, "apply": [], "over_form": "list", "aggs_form": "list"}
	out = []
	# all six built-ins in one call (column order of the result), on one and on two columns
	out.append(dict(base, table={"names": ["k", "v", "w"], "cols": [k, v, w]}, over=[name("k")], aggs={f: [name("v")] for f in ("sum", "mean", "min", "max", "count", "stdev")}))
	out.append(dict(base, table={"names": ["k", "v", "w"], "cols": [k, v, w]}, over=[name("k")], aggs={"stdev": [name("v"), vec("w")], "count": [name("w"), name("v")]}))
	out.append(dict(base, table={"names": ["k", "v", "w"], "cols": [k, v, w]}, over=[vec("k")], aggs={"count": [name("v")], "stdev": [name("v")]}, apply=[{"out": "v_count2", "col": name("w"), "fn": "builtin-len"}]))
	# labels that look like generated names
	out.append(dict(base, table={"names": ["v_sum2", "v"], "cols": [k, v]}, over=[name("v_sum2")], aggs={"sum": [name("v"), name("v")]}))
	out.append(dict(base, table={"names": ["v_sum2", "v", "v_sum"], "cols": [k, v, [1, 1, 2, 2, 3, 3]]}, over=[name("v_sum2"), name("v_sum")], aggs={"sum": [name("v"), vec("v"), name("v")]}))
	out.append(dict(base, table={"names": ["a2", "a", "v"], "cols": [k, [1, 1, 2, 2, 1, 1], v]}, over=[name("a2"), name("a"), {"mode": "external", "values": [0, 0, 0, 1, 1, 1], "name": "a"}], aggs={"max": [name("v")]}))
	out.append(dict(base, table={"names": ["k", "k2", "v"], "cols": [k, [1, 1, 2, 2, 1, 1], v]}, over=[name("k"), {"mode": "external", "values": [0, 0, 0, 1, 1, 1], "name": "k"}, name("k2")], aggs={"sum": [name("v")]}))
	out.append(dict(base, table={"names": ["k", "x"], "cols": [k, v]}, over=[name("k")], aggs={"sum": [name("x"), name("x")]}, apply=[{"out": "x_sum2", "col": name("x"), "fn": "builtin-max"}]))
	# ONE key column whose cells are tuples (plain, nested, of one element, empty), next to two-key requests over the same cells
	for tk in ([("a", 1), ("b", 2), ("a", 1), ("b", 3), ("a", 2), ()], [(1,), (2,), (1,), ((1,),), (1, None), (None,)], [((1, 2), 3), (1, (2, 3)), ((1, 2), 3), (1, 2, 3), (1, (2, 3)), ((1, 2), 3)]):
		out.append(dict(base, table={"names": ["k", "v", "w"], "cols": [tk, v, w]}, over=[name("k")], aggs={"sum": [name("v")], "count": [name("w")]}))
		out.append(dict(base, table={"names": ["k", "v", "w"], "cols": [tk, v, w]}, over=[vec("k")], aggs={"max": [name("v")]}, scalar_over=True))
		out.append(dict(base, table={"names": ["k", "g", "v"], "cols": [tk, [1, 1, 2, 2, 1, 1], v]}, over=[name("k"), name("g")], aggs={"sum": [name("v")]}))
	# ONE column asked for both its minimum and its maximum, with the extreme value occurring several times in cells that are equal but distinguishable
	# (1 / True / 1.0, 0.0 / -0.0, Decimal('2.5') / Decimal('2.50')): min() and max() each return the FIRST of their equal extremes
	from decimal import Decimal as _D
	for tv in ([1, True, 1.0, 0, False, 0.0], [True, 1, 1.0, 0.0, -0.0, 0], [0.0, -0.0, 0.0, 5, 5.0, True], [_D("2.5"), _D("2.50"), _D("1"), _D("1.0"), _D("1.00"), _D("3")], [2, 2.0, 1, 7.0, 7, 7.0]):
		kk = ["a", "a", "a", "b", "b", "b"]
		out.append(dict(base, table={"names": ["k", "v"], "cols": [kk, tv]}, over=[name("k")], aggs={"min": [name("v")], "max": [name("v")]}))
		out.append(dict(base, table={"names": ["k", "v"], "cols": [kk, tv]}, over=[name("k")], aggs={"max": [name("v")], "min": [vec("v")]}))
		out.append(dict(base, table={"names": ["k", "v"], "cols": [kk, tv]}, over=[name("k")], aggs={"max": [name("v"), vec("v")], "min": [name("v")], "sum": [name("v")]}))
		out.append(dict(base, table={"names": ["k", "v"], "cols": [["a"] * 6, tv]}, over=[name("k")], aggs={"min": [name("v")], "max": [name("v")]}))
	# an apply function that raises StopIteration for a group holding nothing but None (the exception must come out of the call, not end some internal loop quietly)
	out.append(dict(base, table={"names": ["k", "s", "v"], "cols": [k, [1, None, 2, None, 3, 4], v]}, over=[name("k")], aggs={"sum": [name("v")]}, apply=[{"out": "first", "col": name("s"), "fn": "next-non-none"}]))
	out.append(dict(base, table={"names": ["k", "s", "v"], "cols": [["a", "b", "a", "c", "a", "c"], [1, None, 2, 5, 3, 4], v]}, over=[name("k")], aggs={}, apply=[{"out": "n", "col": name("v"), "fn": "len"}, {"out": "first", "col": name("s"), "fn": "next-non-none"}, {"out": "m", "col": name("v"), "fn": "len"}]))
	# mean_over and stdev_over naming two DIFFERENT vectors that carry one label (a detached vector that kept its source's name): each is reduced over its own values
	out.append(dict(base, table={"names": ["k", "x"], "cols": [k, v]}, over=[name("k")], aggs={"mean": [name("x")], "stdev": [{"mode": "external", "values": [10, 40, 20, 10, 90, 5], "name": "x"}]}))
	out.append(dict(base, table={"names": ["k", "x"], "cols": [k, v]}, over=[name("k")], aggs={"stdev": [name("x")], "mean": [{"mode": "external", "values": [10, 40, 20, 10, 90, 5], "name": "x"}], "sum": [name("x")]}))
	out.append(dict(base, table={"names": ["k", "x"], "cols": [k, v]}, over=[name("k")], aggs={"mean": [{"mode": "external", "values": [1.5, 2.5, 3.5, 4.5, 5.5, 6.5], "name": None}], "stdev": [{"mode": "external", "values": [10, 40, 20, 10, 90, 5], "name": None}]}))
	# an apply function that raises AttributeError for some group
	out.append(dict(base, table={"names": ["k", "s", "v"], "cols": [k, ["x ", None, " y", "z", "q", None], v]}, over=[name("k")], aggs={"sum": [name("v")]}, apply=[{"out": "st", "col": name("s"), "fn": "strip-first"}]))
	out.append(dict(base, table={"names": ["k", "s", "v"], "cols": [k, [None, " p", " y", "z", "q", "r"], v]}, over=[name("k")], aggs={}, apply=[{"out": "st", "col": name("s"), "fn": "strip-first"}, {"out": "n", "col": name("v"), "fn": "len"}]))
	out.append(dict(base, table={"names": ["k", "s", "v"], "cols": [k, [1, 2, None, 4, 5, 6], v]}, over=[name("k")], aggs={}, apply=[{"out": "rs", "col": name("s"), "fn": "real-sum"}]))
	# columns that differ only in hash-colliding cells
	big = 2 ** 61 - 1
	for x, y in (([-1, 5, -1, 2, -1, 0], [-2, 5, -2, 2, -2, 0]), ([0, 7, 0, 1, 3, 3], [big, 7, big, 1, 3, 3]), ([1, 2, 3, 4, 5, 6], [1 + big, 2, 3, 4, 5, 6])):
		out.append(dict(base, table={"names": ["k", "x", "y"], "cols": [k, x, y]}, over=[name("k")], aggs={"sum": [name("x"), name("y")], "min": [vec("x"), vec("y")], "max": [name("y"), name("x")], "mean": [name("x"), name("y")]}))
		out.append(dict(base, table={"names": ["k", "x", "y"], "cols": [k, x, y]}, over=[name("k")], aggs={"count": [name("x"), name("y")], "stdev": [name("x"), name("y")]}))
	return out


def run_nested_apply(chk, spec):
	"""an apply function that itself asks the SAME table for another aggregate / window (other keys): the outer call's groups are its own"""
	op, inner = spec["op"], spec["inner"]
	k = ["a", "b", "a", "b", "a", "c"]
	g = [1, 1, 2, 2, 2, 1]
	v = [3, 1, 4, 1, 5, 9]
	t = Table({"k": list(k), "g": list(g), "v": list(v)})
	calls = []
	def nested(vals):
		r = getattr(t, inner)(over="g", sum_over="v", apply={"n": ("k", len)})
		calls.append(len(r))
		return len(vals)
	fn = getattr(t, op)
	o = call(lambda: fn(over="k", apply={"first": ("v", nested), "second": ("v", lambda vals: sum(vals)), "third": ("g", max)}, max_over="v", count_over="g"))
	chk.judged(op if op == "aggregate" else "aggregate", ("nested-apply", op, inner))
	if not o.ok:
		chk.fail(f"{op} computes every admissible request", f"{op}/raises/nested-apply/{type(o.exc).__name__}", f"{spec!r}: {o!r}")
		return
	groups = model_groups([k], 6)
	per = {key[0]: rows for key, rows in groups}
	exp = {"first": {kk: len(rows) for kk, rows in per.items()}, "second": {kk: sum(v[i] for i in rows) for kk, rows in per.items()}, "third": {kk: max(g[i] for i in rows) for kk, rows in per.items()},
		"v_max": {kk: max(v[i] for i in rows) for kk, rows in per.items()}, "g_count": {kk: len(rows) for kk, rows in per.items()}}
	names, cols = J.cells(o.value)
	keycol = cols[0]
	for nm, want in exp.items():
		if nm not in names:
			chk.fail(f"{op} returns one column per requested aggregate", f"{op}/nested-apply/column-missing", f"{spec!r}: {names!r} lacks {nm!r}")
			return
		got = cols[names.index(nm)]
		for r, kk in enumerate(keycol):
			if got[r] != want[kk]:
				chk.fail("every output equals the function over THIS call's groups (an apply function may itself call aggregate / window on the table)", f"{op}/value/nested-apply/{inner}/{nm}",
					f"{spec!r}: column {nm!r} row {r} (key {kk!r}) = {got[r]!r}, expected {want[kk]!r}; columns {short(dict(zip(names, cols)), 300)}")
				return

def run_same_function_twice(chk, spec):
	"""ONE function object under two apply names (same column by name, by name and by handle, or two columns): every entry is a call of its own per group - the function is
	called once per entry and group, and the cells the entries return are not one shared object"""
	import warnings
	op = spec["op"]
	calls = []
	def f(vals):
		calls.append(tuple(vals))
		return [len(calls), list(vals)] if spec["returns"] == "container" else len(calls)
	with warnings.catch_warnings():
		warnings.simplefilter("ignore")
		t = Table({"k": ["a", "b", "a"], "v": [1, 2, 3], "w": [4, 5, 6]})
		second = {"same-name": "v", "handle": t["v"], "other-column": "w"}[spec["second"]]
		o = call(lambda: getattr(t, op)(over="k", apply={"p": ("v", f), "q": (second, f)}))
	chk.judged("aggregate", ("same-function-twice", op, spec["second"], spec["returns"]))
	if not o.ok:
		chk.fail(f"{op} computes every admissible request", f"{op}/raises/same-function-twice/{type(o.exc).__name__}", f"{spec!r}: {o!r}")
		return
	if len(calls) != 4:
		chk.fail("a custom apply function receives each group's values in row order exactly once", f"{op}/apply-call-count/same-function-under-two-names/{spec['second']}", f"{spec!r}: two apply entries over 2 groups: the function was called {len(calls)} times with {calls!r}")
		return
	names, cols = J.cells(o.value)
	p_, q_ = cols[names.index("p")], cols[names.index("q")]
	if spec["returns"] == "container" and any(a is b for a, b in zip(p_, q_)):
		chk.fail("every output equals the function over the group's values", f"{op}/value/same-function-under-two-names/shared-result-objects", f"{spec!r}: columns p and q hold the very same result objects")
	elif spec["returns"] != "container" and sorted(list(p_) + list(q_)) != ([1, 2, 3, 4] if op == "aggregate" else sorted([x for x in p_] + [x for x in q_])):
		chk.fail("every output equals the function over the group's values", f"{op}/value/same-function-under-two-names", f"{spec!r}: p = {p_!r}, q = {q_!r}; the four calls returned 1, 2, 3, 4")


def run_repeated_name_after_other_table(chk, spec):
	"""a column asked for by a label the table carries TWICE is the first such column - whatever position that label had in another table an earlier call looked at"""
	import warnings
	op = spec["op"]
	with warnings.catch_warnings():
		warnings.simplefilter("ignore")
		p = spec["position"]
		names0 = ["k", "a", "b"]
		names0[p] = "v"
		other = Table([Vector(["x", "y", "x"], name=names0[0]), Vector([1, 2, 3], name=names0[1]), Vector([4, 5, 6], name=names0[2])])
		for f in (lambda: other.aggregate(over="k", sum_over="v"), lambda: other.window(over="k", max_over="v"), lambda: other.sort_by("v")):
			call(f)
		names = ["k", "v", "z"]
		cols = [["x", "y", "x"], [1, 2, 3], [10, 20, 30]]
		names[p if p else 2] = "v"
		if spec["role"] == "key":
			names = ["v", "n", "m"]
			cols = [["x", "y", "x"], [1, 2, 3], ["p", "p", "q"]]
			names[p if p else 2] = "v"
		T = Table([Vector(list(c), name=nm) for c, nm in zip(cols, names)])
		o = call(lambda: getattr(T, op)(over="k", sum_over="v") if spec["role"] == "value" else getattr(T, op)(over="v", count_over="n"))
	chk.judged("aggregate", ("repeated-name-after-other-table", op, p, spec["role"]))
	if not o.ok:
		chk.skip("repeated-name-request-refused")
		return
	got = list(o.value.cols()[-1]._underlying)
	if spec["role"] == "value":
		exp = [4, 2] if op == "aggregate" else [4, 2, 4]
	else:
		exp = [2, 1] if op == "aggregate" else [2, 1, 2]
	if got != exp:
		chk.fail("a repeated name resolves to its first occurrence", f"{op}/repeated-name-resolved-elsewhere-first/{spec['role']}", f"{spec!r}: table names {names!r}: result column {got!r}, expected {exp!r} (the FIRST column labelled 'v')")


def run_odd_eq_numbers(chk, spec):
	"""numbers whose == does not answer like a number's (answers True to everything, builds a truthy expression): None is recognised by IDENTITY, so every such cell is a value -
	counted by count and mean, summed by sum, and the whole-column reductions agree with the single-group aggregate"""
	import warnings
	class Yes(float):
		def __eq__(self, o): return True
		def __ne__(self, o): return False
		__hash__ = float.__hash__
	class Expr(float):
		def __eq__(self, o): return Expr(1.0)
		__hash__ = float.__hash__
		def __bool__(self): return True
	mk = {"yes": Yes, "expr": Expr}[spec["cls"]]
	vals = [mk(1.0), None, mk(3.0), mk(5.0)] if spec["gap"] else [mk(1.0), mk(3.0), mk(5.0)]
	plain = [None if x is None else float.__float__(x) for x in vals]
	nn = [x for x in plain if x is not None]
	exp = {"mean": sum(nn) / len(nn), "sum": sum(nn), "count": len(nn)}
	with warnings.catch_warnings():
		warnings.simplefilter("ignore")
		v = Vector(list(vals), dtype=object)
		t = Table([Vector(["g"] * len(vals), name="k"), Vector(list(vals), dtype=object, name="v")])
		whole = {"mean": call(v.mean), "sum": call(v.sum)}
		agg = call(lambda: t.aggregate(over="k", mean_over="v", sum_over="v", count_over="v"))
	chk.judged("aggregate", ("odd-eq-numbers", spec["cls"], spec["gap"]))
	for red, o in whole.items():
		if o.ok and (o.value is None or abs(float(o.value) - exp[red]) > 1e-9):
			chk.fail("whole-column reductions agree with aggregating that column as a single group", f"vector/{red}/odd-eq-cells", f"{spec!r}: Vector.{red}() = {o.value!r}, the values are {nn!r}")
			return
	if agg.ok:
		names, cols = J.cells(agg.value)
		for red in ("mean", "sum", "count"):
			got = cols[names.index(f"v_{red}")][0]
			if got is None or abs(float(got) - exp[red]) > 1e-9:
				chk.fail("each built-in aggregate equals the textbook function over that group's non-None values", f"aggregate/value/{red}/odd-eq-cells", f"{spec!r}: {red} = {got!r}, the values are {nn!r}")
				return


def run_key_forms_sequence(chk, spec):
	"""the same partition asked for twice in different spellings on one long-lived table: first with the key given as a vector (an UNNAMED column of the table
	or an outside vector), then by the column's positional accessor / by several names in their accessor or another-case spelling - both answers are the
	model's, and the table's names are what they were"""
	import warnings
	op = spec["op"]
	with warnings.catch_warnings():
		warnings.simplefilter("ignore")
		if spec["what"] == "uniform-key-then-written":
			# a key vector made by Vector.new (one value repeated) and written to afterwards is a key like any other
			k = Vector.new(spec.get("fill", "a"), 4)
			t = Table([Vector([1, 2, 3, 4], name="v"), Vector([9, 9, 8, 8], name="key")])
			names0 = t.column_names()
			first = call(lambda: getattr(t, op)(over=k, sum_over="v"))
			k[1] = "b"
			k[3] = "b"
			calls = [lambda: getattr(t, op)(over=k, sum_over="v"), lambda: getattr(t, op)(over=[k, "key"], sum_over="v")]
			keys = [["a", "b", "a", "b"], [("a", 9), ("b", 9), ("a", 8), ("b", 8)]]
		elif spec["what"] == "unnamed-then-accessor":
			k = ["a", "b", "a", "c"]
			t = Table([Vector(list(k)), Vector([1, 2, 3, 4], name="v"), Vector([9, 9, 8, 8], name="key")])
			names0 = t.column_names()
			calls = [lambda: getattr(t, op)(over=t.cols()[0], sum_over="v"), lambda: getattr(t, op)(over="col0_", sum_over="v"), lambda: getattr(t, op)(over="key", sum_over="v")]
			keys = [k, k, [9, 9, 8, 8]]
		else:
			yr, rg = [2020, 2021, 2020, 2021, 2020], ["n", "n", "s", "s", "n"]
			t = Table([Vector(list(yr), name="Year"), Vector(list(rg), name="Region Name"), Vector([1, 2, 3, 4, 5], name="Total Sales"), Vector([1, 1, 1, 1, 1], name="v")])
			names0 = t.column_names()
			spell = {"accessor": ["year", "region_name"], "upper": ["YEAR", "Region Name"], "mixed": ["Year", "region_name"], "exact": ["Year", "Region Name"], "three": ["year", "region_name", "total_sales"]}[spec["spelling"]]
			calls = [lambda: getattr(t, op)(over=list(spell), sum_over="v")]
			keycols = {"year": yr, "region_name": rg, "total_sales": [1, 2, 3, 4, 5]}
			keys = [[tuple(keycols[_sanit(nm)][i] for nm in spell) for i in range(5)]]
		v = [1, 2, 3, 4] if spec["what"] in ("unnamed-then-accessor", "uniform-key-then-written") else [1, 1, 1, 1, 1]
		chk.judged("aggregate", ("key-forms-sequence", op, spec["what"], spec.get("spelling")))
		for ci, (f, kc) in enumerate(zip(calls, keys)):
			o = call(f)
			if not o.ok:
				chk.fail(f"{op} computes every admissible request", f"{op}/raises/key-forms/{spec['what']}/{spec.get('spelling')}/call-{ci + 1}/{type(o.exc).__name__}", f"{spec!r}: call {ci + 1} raised {o!r}")
				return
			groups = {}
			for i, kk in enumerate(kc):
				groups.setdefault(kk, []).append(i)
			sums = {kk: sum(v[i] for i in rows) for kk, rows in groups.items()}
			names, cols = J.cells(o.value)
			got_sum = cols[-1]
			nk = len(cols) - 1
			gk = [tuple(c[r] for c in cols[:nk]) if nk > 1 else cols[0][r] for r in range(len(cols[0]))]
			exp = [sums.get(kk) for kk in gk] if op == "aggregate" else [sums.get(kk) for kk in gk]
			if got_sum != exp or (op == "aggregate" and len(gk) != len(groups)):
				chk.fail("every output equals the function over the group's values", f"{op}/value/key-forms/{spec['what']}/call-{ci + 1}", f"{spec!r}: call {ci + 1}: keys {gk!r} sums {got_sum!r}, expected {exp!r}")
				return
		if t.column_names() != names0:
			chk.fail("aggregate is a read: the table keeps its column names", f"{op}/key-forms/table-renamed", f"{spec!r}: {names0!r} -> {t.column_names()!r}", prop="C01")


def _sanit(nm):
	import re
	return re.sub(r"[^a-z0-9_]+", "_", nm.lower()).strip("_")


def run_reduce_mutable_cells(chk, spec):
	"""whole-column min / max over cells that can be changed in place (lists, bytearrays): after such a change the reduction is that of the cells as they are now -
	the single-group aggregate, which reads the cells afresh, agrees"""
	mk = {"list": lambda a: [a, a + 1], "bytearray": lambda a: bytearray([65 + a, 66])}[spec["cell"]]
	cells = [mk(3), mk(1), mk(2)]
	v = Vector(list(cells), name="v")
	first = call(getattr(v, spec["fn"]))
	# in-place edits of cells, no write through the vector
	if spec["cell"] == "list":
		cells[0][0] = 0 if spec["fn"] == "min" else 9
		cells[1][0] = 5
	else:
		cells[0][0] = 64 if spec["fn"] == "min" else 90
	second = call(getattr(v, spec["fn"]))
	chk.judged("vector-agree", ("reduce-mutable-cells", spec["cell"], spec["fn"]))
	exp = (min if spec["fn"] == "min" else max)(cells)
	if not second.ok:
		return
	if second.value != exp:
		chk.fail("whole-column reductions agree with aggregating that column as a single group (the cells as they are now)", f"vector-agree/stale-after-cell-edit/{spec['fn']}/{spec['cell']}", f"{spec!r}: cells now {cells!r}: {spec['fn']} gives {second.value!r}, expected {exp!r}")
		return
	t = Table([Vector([1, 1, 1], name="k"), v])
	a = call(lambda: t.aggregate(over="k", **{spec["fn"] + "_over": "v"}))
	if a.ok and list(a.value.cols()[1]._underlying)[0] != second.value:
		chk.fail("whole-column reductions agree with aggregating that column as a single group", f"vector-agree/differs/{spec['fn']}/mutable-cells", f"{spec!r}: vector {second.value!r}, aggregate {list(a.value.cols()[1]._underlying)[0]!r}")


RUNNERS = {"odd_eq_numbers": run_odd_eq_numbers, "same_function_twice": run_same_function_twice, "repeated_name_after_other_table": run_repeated_name_after_other_table, "key_forms_sequence": run_key_forms_sequence, "reduce_mutable_cells": run_reduce_mutable_cells, "nested_apply": run_nested_apply, "aggregate": run_aggregate, "vector_agree": run_vector_agree, "agg_chain": run_agg_chain, "label_keys": run_label_keys}
RUNNERS["recompute"] = recompute.runner("C12")


def exhaustive_specs(chk, op):
	rng = chk.rng
	idx = 0
	for n in range(1, 6):
		for keys in itertools.product([None, "a", "b"], repeat=n):
			idx += 1
			if not chk.mine(idx):
				continue
			if chk.quick() and n == 5 and idx % 3:
				continue
			v1 = [rng.choice([None, 1, 2.5, 0]) for _ in range(n)]
			v2 = [rng.choice([None, 3, -1, 0, False]) for _ in range(n)]
			fns = rng.sample(list(common.AGG_FUNCS), rng.choice([2, 3, 6]))
			yield {"op": op, "table": {"names": ["k", "v", "w"], "cols": [list(keys), v1, v2]}, "n": n,
				"over": [{"mode": rng.choice(["name", "vector", "external"]), "name": "k", "values": list(keys)}], "scalar_over": rng.random() < 0.5,
				"aggs": {f: [{"mode": "name", "name": rng.choice(["v", "w"])}] for f in fns},
				"apply": [{"out": "custom", "col": {"mode": "name", "name": "v"}, "fn": rng.choice(["tuple", "first", "drain"])}]}


def label_key_cases(chk, op):
	import itertools
	for kx, vx in list(itertools.permutations(["1", "True", "1.0"], 2)) + list(itertools.permutations(["0", "False"], 2)):
		for order in ([], [vx], [kx, vx], [vx, kx]):
			chk.case("label_keys", {"key_label": kx, "other_label": vx, "order": order, "op": op}, "label-keys")


def chain_cases(chk, second_op):
	rng = chk.rng
	for _ in range(150 if chk.quick() else 1000):
		n = rng.choice([3, 4, 6])
		k1 = [rng.choice(["a", "b"]) for _ in range(n)]
		k2 = [rng.choice([1, 2, 3]) for _ in range(n)]
		v = [rng.choice([None, 1, 5, 2.5, -3]) for _ in range(n)]
		if rng.random() < 0.5:
			v = [None if (a, b) == (k1[0], k2[0]) else x for a, b, x in zip(k1, k2, v)]      # an all-None group
		first = {"op": rng.choice(["aggregate", "aggregate", "window"]), "table": {"names": ["k1", "k2", "v"], "cols": [k1, k2, v]}, "n": n,
			"over": [{"mode": "name", "name": "k1"}, {"mode": "name", "name": "k2"}], "scalar_over": False,
			"aggs": {f: [{"mode": "name", "name": "v"}] for f in rng.sample(["min", "max", "sum", "mean", "count"], rng.choice([1, 2, 3]))}, "apply": []}
		chk.case("agg_chain", {"first": first, "second_op": second_op}, "agg-chain")


def key_form_cases(chk, op):
	if op == "aggregate":
		for cls in ("yes", "expr"):
			for gap in (False, True):
				chk.case("odd_eq_numbers", {"cls": cls, "gap": gap}, "odd-eq-numbers")
	for second in ("same-name", "handle", "other-column"):
		for returns in ("number", "container"):
			chk.case("same_function_twice", {"op": op, "second": second, "returns": returns}, "same-function-twice")
	for position in (1, 2):
		for role in ("value", "key"):
			chk.case("repeated_name_after_other_table", {"op": op, "position": position, "role": role}, "repeated-name-after-other-table")
	chk.case("key_forms_sequence", {"op": op, "what": "unnamed-then-accessor"}, "key-forms")
	chk.case("key_forms_sequence", {"op": op, "what": "uniform-key-then-written"}, "key-forms")
	for spelling in ("accessor", "upper", "mixed", "exact", "three"):
		chk.case("key_forms_sequence", {"op": op, "what": "spelled-names", "spelling": spelling}, "key-forms")


def run(chk):
	key_form_cases(chk, "aggregate")
	for cell in ("list", "bytearray"):
		for fn in ("min", "max"):
			chk.case("reduce_mutable_cells", {"cell": cell, "fn": fn}, "reduce-mutable-cells")
	for spec in directed_specs("aggregate"):
		chk.case("aggregate", spec, "aggregate-directed")
	for inner in ("aggregate", "window"):
		chk.case("nested_apply", {"op": "aggregate", "inner": inner}, "nested-apply")
	recompute.add_cases(chk, "C12")
	rng = chk.rng
	for spec in exhaustive_specs(chk, "aggregate"):
		chk.case("aggregate", spec, "aggregate-exhaustive")
	for _ in range(700 if chk.quick() else 4000):
		chk.case("aggregate", common.gen_agg_spec(rng, max_rows=rng.choice([6, 10]) if chk.quick() else rng.choice([6, 10, 40, 150]), op="aggregate"), "aggregate-sampled")
	chain_cases(chk, "aggregate")
	label_key_cases(chk, "aggregate")
	for _ in range(150 if chk.quick() else 800):
		kind = rng.choice(["int", "float", "bool"])
		n = rng.choice([1, 2, 3, 6])
		vals = V.column(rng, kind, n, rng.choice(["none", "low", "high", "first"]), small=True)
		if all(x is None for x in vals):
			vals[rng.randrange(n)] = V.pick(rng, kind, small=True)
		spec = {"values": vals, "kind": kind, "key": rng.choice(["g", None, 1])}
		if rng.random() < 0.5 and n > 1:
			writes = []
			for _w in range(rng.choice([1, 2])):
				i = rng.randrange(n)
				j = rng.choice([i, i - n, rng.randrange(n)])
				writes.append(([i, j], [rng.choice([None, V.pick(rng, kind, small=True)]), rng.choice([None, V.pick(rng, kind, small=True)])]))
			spec["writes"] = writes
			spec["idx_form"] = rng.choice(["list", "vector"])
		if rng.random() < 0.4:
			spec["presort"] = (rng.random() < 0.5, rng.random() < 0.5)
		chk.case("vector_agree", spec, "vector-agree")
	# a large offset with a small spread (timestamps, ids, money in cents): int data, int data that a write promoted to float in place, float data
	for base_ in (10 ** 8, 10 ** 9, 123456789012, 2 ** 53):
		for n in (3, 5, 12):
			vals = [base_ + rng.choice([0, 1, 2, 3, 5, 8]) for _ in range(n)]
			chk.case("vector_agree", {"values": vals, "kind": "int-large-offset", "key": "g"}, "vector-agree-ill-conditioned")
			chk.case("vector_agree", {"values": vals, "kind": "int-promoted-large-offset", "key": "g", "writes": [([0], [float(vals[0]) + 0.5])]}, "vector-agree-ill-conditioned")
			chk.case("vector_agree", {"values": vals, "kind": "int-promoted-large-offset", "key": "g", "writes": [([n - 1, 0], [None, float(base_) + 1.5])], "idx_form": "vector"}, "vector-agree-ill-conditioned")
			chk.case("vector_agree", {"values": [float(x) + 0.25 for x in vals], "kind": "float-large-offset", "key": "g"}, "vector-agree-ill-conditioned")
	for _ in range(60 if chk.quick() else 400):
		n = rng.choice([2, 3, 5])
		vals = [rng.choice([1, 1.0, True, 0, 0.0, False, 2, 2.0, None]) for _ in range(n)] if rng.random() < 0.5 else [rng.choice([2.0, float("nan"), 1.0, -3.5, None]) for _ in range(n)]
		if all(x is None for x in vals) or any(isinstance(x, float) and x != x for x in vals) and rng.random() < 0.0:
			continue
		if any(isinstance(x, float) and x != x for x in vals):
			continue      # (NaN has no place in an order: min / max of such data are not determined)
		chk.case("vector_agree", {"values": vals, "kind": "mixed-equal", "key": "g", "presort": (rng.random() < 0.5, rng.random() < 0.5)}, "vector-agree-presorted-mixed")
