"""Object-pool history machine: a pool of simultaneously live vectors, tables, live column
views and rows is driven through random histories of construct / derive / write / rename /
lifetime / read-only operations (including deliberately failing ones).  After every step,
at a quiescent point, the monitors run:

  frame (C01)   every handle outside the written object's may-change set is unchanged
  rect  (C02)   every live table is rectangular and its rows agree with its columns
  truth (C03)   every pooled / returned vector's schema is truthful
  alias (C15)   an AliasError is justified by a live sharer; sharers never see each other's writes
  fresh (C16)   fingerprint() equals the fingerprint of an object rebuilt from current contents

The machine reports every assertion under the id of the property it belongs to; a check only
counts its own (Check.fail drops the others)."""
import gc
import random
import weakref
from datetime import date

from .. import bind
from ..bind import Vector, Table, AliasError, Row, _ALIAS_TRACKER
from ..core import call, short, CaseTimeout
from .. import models as M
from .. import values as V

MAX_POOL = 12
KINDS = ["int", "float", "str", "bool", "date", "int", "float"]
NAMES = ["a", "b", "c", "x", "y", "Total $", "a", None, "sum", "k1"]


class Handle:
	__slots__ = ("hid", "obj", "kind", "prov", "parents", "owner", "shared_with", "fp_called")

	def __init__(self, hid, obj, kind, prov, parents=(), owner=None):
		self.hid, self.obj, self.kind, self.prov, self.parents, self.owner = hid, obj, kind, prov, tuple(parents), owner
		self.shared_with = None   # id of the caller tuple this vector was built over (C15 model)
		self.fp_called = False

	def __repr__(self):
		return f"h{self.hid}:{self.kind}<{self.prov}>"


def snap(h):
	if h.kind == "row":
		try:
			return ("R", tuple((type(x).__name__, M._freeze(x)) for x in h.obj))
		except Exception as exc:
			return ("R-unreadable", type(exc).__name__)
	try:
		return M.snap_any(h.obj)
	except Exception as exc:
		return ("unsnappable", type(exc).__name__, str(exc)[:80])


def is_table(o):
	return isinstance(o, Table)


def is_vec(o):
	return isinstance(o, Vector) and not isinstance(o, Table) and not isinstance(o, Row)


# --------------------------------------------------------------------------- census (hook on Vector.__init__)
class Census:
	def __init__(self):
		self.refs = []
		self.created = 0
		self.installed = False
		self.limit = 4000
		self.hold = None          # when a list: strong references to everything created (pytest calibration plugin only)

	def install(self):
		if self.installed:
			return
		orig = Vector.__init__
		census = self

		def init(self, *a, **k):
			orig(self, *a, **k)
			census.created += 1
			if census.hold is not None:
				census.hold.append(self)
			try:
				census.refs.append(weakref.ref(self))
			except TypeError:
				pass
			if len(census.refs) > census.limit:
				census.refs = [r for r in census.refs if r() is not None]
				census.limit = max(4000, 2 * len(census.refs))     # amortised: never rescan a mostly-live list on every creation

		Vector.__init__ = init
		self.installed = True
		install_tracker_hooks()

	def live(self):
		out = []
		for r in self.refs:
			o = r()
			if o is not None:
				out.append(o)
		return out


CENSUS = Census()

# vectors the driver itself built over a caller-supplied tuple: id(vector) -> (weakref, key of the tuple).
# Only these may legitimately share storage (and be refused writes while they do).
CALLER_BUILT = {}


def mark_caller_built(vec, key):
	CALLER_BUILT[id(vec)] = (weakref.ref(vec), key)


def caller_key(vec):
	ent = CALLER_BUILT.get(id(vec))
	if ent is None or ent[0]() is not vec:
		return None
	return ent[1]


def storage_groups():
	"""live vectors grouped by the identity of their (non-empty) storage tuple"""
	groups = {}
	for o in CENSUS.live():
		if isinstance(o, Row):
			continue
		st = o.__dict__.get("_underlying")
		if st is None or len(st) == 0:
			continue
		groups.setdefault(id(st), []).append(o)
	return groups

# shadow index of the alias tracker: id(obj) -> (weakref, {tuple ids it was registered under}); maintained by hooks
TRACKER_SHADOW = {}
TRACKER_EVENTS = {"register": 0, "unregister": 0, "check_writable": 0}


def install_tracker_hooks():
	cls = type(_ALIAS_TRACKER)
	if getattr(cls, "_serifmon_hooked", False):
		return
	o_reg, o_unreg, o_chk = cls.register, cls.unregister, cls.check_writable

	def register(self, vec, tuple_id):
		TRACKER_EVENTS["register"] += 1
		ent = TRACKER_SHADOW.get(id(vec))
		if ent is None or ent[0]() is not vec:
			try:
				ent = (weakref.ref(vec), set())
			except TypeError:
				return o_reg(self, vec, tuple_id)
			TRACKER_SHADOW[id(vec)] = ent
		ent[1].add(tuple_id)
		return o_reg(self, vec, tuple_id)

	def unregister(self, vec, tuple_id):
		TRACKER_EVENTS["unregister"] += 1
		ent = TRACKER_SHADOW.get(id(vec))
		if ent is not None and ent[0]() is vec:
			ent[1].discard(tuple_id)
		return o_unreg(self, vec, tuple_id)

	def check_writable(self, vec, tuple_id):
		TRACKER_EVENTS["check_writable"] += 1
		return o_chk(self, vec, tuple_id)

	cls.register, cls.unregister, cls.check_writable = register, unregister, check_writable
	cls._serifmon_hooked = True


class Machine:
	def __init__(self, chk, seed, nsteps, profile="mixed"):
		self.chk = chk
		self.rng = random.Random(seed)
		self.nsteps = nsteps
		self.profile = profile
		self.pool = []
		self.next_id = 0
		self.trace = []
		self.tuples = {}          # shared caller tuples kept alive by the "caller"
		self.stop = False

	# ------------------------------------------------------------------ pool
	def add(self, obj, prov, parents=(), owner=None):
		if isinstance(obj, Row):
			kind = "row"
		elif is_table(obj):
			kind = "table"
		elif isinstance(obj, Vector):
			kind = "vector"
		else:
			return None
		h = Handle(self.next_id, obj, kind, prov, [p.hid for p in parents], owner)
		self.next_id += 1
		self.pool.append(h)
		while len(self.pool) > MAX_POOL:
			victim = self.rng.randrange(len(self.pool) - 1)
			self.drop(self.pool[victim])
		return h

	def drop(self, h):
		if h in self.pool:
			self.pool.remove(h)
		for o in self.pool:
			if o.owner and o.owner[0] is h:
				# dropping a table handle does not detach its views: they keep the table alive through nothing,
				# but the column object they hold stays a column of that (now unreachable) table; they become free vectors
				o.owner = None
		h.obj = None

	def pick(self, pred):
		c = [h for h in self.pool if pred(h)]
		return self.rng.choice(c) if c else None

	def vectors(self):
		return [h for h in self.pool if h.kind == "vector"]

	def tables(self):
		return [h for h in self.pool if h.kind == "table"]

	def family(self, h):
		"""handles that may legitimately change when writing through h"""
		fam = {h.hid}
		if h.prov.startswith("view"):
			# the same column object handed out twice by view operations is one object, not an alias
			for o in self.pool:
				if o.obj is h.obj and o.prov.startswith("view"):
					fam.add(o.hid)
		if h.kind == "vector" and h.owner:
			t, pos = h.owner
			fam.add(t.hid)
			for o in self.pool:
				if o.owner and o.owner[0] is t and o.owner[1] == pos:
					fam.add(o.hid)
		if h.kind == "table":
			for o in self.pool:
				if o.owner and o.owner[0] is h:
					fam.add(o.hid)
		return fam

	# ------------------------------------------------------------ generators
	def values(self, kind, n, none=None):
		none = none if none is not None else self.rng.choice(["none", "none", "low", "high", "first"])
		return V.column(self.rng, kind, n, none, small=True)

	def op_new_vector(self):
		kind = self.rng.choice(KINDS)
		n = self.rng.choice([0, 1, 2, 3, 3, 4, 5])
		vals = self.values(kind, n)
		name = self.rng.choice(NAMES)
		o = call(lambda: Vector(vals, name=name) if name is not None else Vector(vals))
		self.log("new_vector", kind=kind, values=vals, name=name, out=o)
		if o.ok:
			self.add(o.value, "new")
		return set()

	def op_new_table(self):
		ncols = self.rng.choice([1, 2, 2, 3, 4])
		n = self.rng.choice([0, 1, 2, 3, 3, 4])
		names = [self.rng.choice(NAMES) for _ in range(ncols)]
		cols = [self.values(self.rng.choice(KINDS), n) for _ in range(ncols)]
		form = self.rng.choice(["list", "dict", "vector-of-vectors"])
		if form == "dict" and (len(set(names)) != len(names) or None in names):
			form = "list"
		if form == "dict":
			o = call(lambda: Table({nm: c for nm, c in zip(names, cols)}))
		else:
			vs = [Vector(c, name=nm) if nm is not None else Vector(c) for c, nm in zip(cols, names)]
			o = call(lambda: Table(vs) if form == "list" else Vector(vs))
		self.log("new_table", form=form, names=names, cols=cols, out=o)
		if o.ok:
			self.add(o.value, "new_table:" + form)
		return set()

	def op_shared_tuple(self):
		kind = self.rng.choice(["int", "float", "str"])
		n = self.rng.choice([1, 2, 3, 4])
		tup = tuple(self.values(kind, n, "none"))
		key = id(tup)
		self.tuples[key] = tup
		hs = []
		for _ in range(self.rng.choice([2, 2, 3])):
			o = call(lambda: Vector(tup))
			if o.ok:
				h = self.add(o.value, "shared-tuple")
				if h:
					h.shared_with = key
					mark_caller_built(o.value, key)
					hs.append(h)
		self.log("shared_tuple", values=list(tup), count=len(hs))
		return set()

	def op_table_from_pool(self):
		vs = [h for h in self.vectors()]
		if not vs:
			return self.op_new_vector()
		first = self.rng.choice(vs)
		same = [h for h in vs if len(h.obj) == len(first.obj)]
		picks = [first] + [self.rng.choice(same) for _ in range(self.rng.choice([0, 1, 2]))]
		form = self.rng.choice(["Table", "Vector", "rshift"])
		if form == "Table":
			o = call(lambda: Table([h.obj for h in picks]))
		elif form == "Vector":
			o = call(lambda: Vector([h.obj for h in picks]))
		else:
			def chain():
				acc = picks[0].obj
				for h in picks[1:] or [picks[0]]:
					acc = acc >> h.obj
				return acc
			o = call(chain)
		self.log("table_from_pool", form=form, picks=[h.hid for h in picks], out=o)
		if o.ok:
			self.add(o.value, "table-from-vectors:" + form, picks)
		return set()

	# derive ---------------------------------------------------------------
	def op_derive_vector(self):
		h = self.pick(lambda h: h.kind == "vector")
		if not h:
			return self.op_new_vector()
		v = h.obj
		n = len(v)
		rng = self.rng
		choice = rng.choice(["copy", "slice", "mask", "T", "arith-scalar", "arith-vector", "compare", "sort", "fillna", "dropna", "cast", "unary", "radd", "lshift", "isna", "unique", "to_object", "copy-rename"])
		if choice == "copy":
			f = lambda: v.copy()
		elif choice == "copy-rename":
			f = lambda: v.copy(name="cp")
		elif choice == "slice":
			s = slice(rng.choice([None, 0, 1, -1, 5]), rng.choice([None, 0, 2, -1, 9]), rng.choice([None, 1, 2, -1]))
			f = lambda: v[s]
		elif choice == "mask":
			bits = [rng.random() < 0.5 for _ in range(n)]
			f = (lambda: v[Vector(bits)]) if (rng.random() < 0.5 and n) else (lambda: v[bits])
		elif choice == "T":
			f = lambda: v.T
		elif choice == "arith-scalar":
			k = rng.choice([1, 2, 0.5, True])
			f = rng.choice([lambda: v + k, lambda: v * k, lambda: k - v, lambda: v / 2, lambda: k * v])
		elif choice == "arith-vector":
			w = self.pick(lambda o: o.kind == "vector" and len(o.obj) == n)
			wv = w.obj if w else v
			f = rng.choice([lambda: v + wv, lambda: v * wv, lambda: v - wv, lambda: v + v])
		elif choice == "compare":
			f = rng.choice([lambda: v == v, lambda: v < 2, lambda: v != 1, lambda: v >= v])
		elif choice == "sort":
			f = lambda: v.sort_by(reverse=rng.random() < 0.5)
		elif choice == "fillna":
			fill = rng.choice([0, 1.5, "z", None, True])
			f = lambda: v.fillna(fill)
		elif choice == "dropna":
			f = lambda: v.dropna()
		elif choice == "cast":
			tgt = rng.choice([float, str, int])
			f = lambda: v.cast(tgt)
		elif choice == "unary":
			f = rng.choice([lambda: -v, lambda: +v, lambda: abs(v)])
		elif choice == "radd":
			k = rng.choice([1.5, 1, "p", True])
			f = lambda: k + v
		elif choice == "lshift":
			extra = rng.choice([[1.5], [None], ["s"], [1, 2], 7, None])
			f = lambda: v << extra
		elif choice == "isna":
			f = lambda: v.isna()
		elif choice == "unique":
			f = lambda: v.unique()
		else:
			f = lambda: v.to_object()
		o = call(f)
		self.log("derive_vector", h=h.hid, how=choice, out=o)
		if o.ok and isinstance(o.value, Vector):
			self.add(o.value, "derive:" + choice, [h])
		return set()

	def op_derive_table(self):
		h = self.pick(lambda h: h.kind == "table")
		if not h:
			return self.op_new_table()
		t = h.obj
		rng = self.rng
		n = len(t)
		names = [nm for nm in t.column_names() if isinstance(nm, str)]
		choice = rng.choice(["rowslice", "rowmask", "select", "rshift-vector", "rshift-dict", "rshift-table", "lshift", "T", "sort", "join", "aggregate", "window", "arith", "copy", "compare", "self-join"])
		parents = [h]
		if choice == "rowslice":
			s = slice(rng.choice([None, 0, 1, -1]), rng.choice([None, 1, 2, -1, 9]), rng.choice([None, 1, -1]))
			f = lambda: t[s]
		elif choice == "rowmask":
			bits = [rng.random() < 0.6 for _ in range(n)]
			f = (lambda: t[Vector(bits)]) if (rng.random() < 0.5 and n) else (lambda: t[bits])
			if not n:
				f = lambda: t[0:0]
		elif choice == "select":
			if not names:
				return set()
			sel = tuple(rng.choice(names) for _ in range(rng.choice([1, 2, 2, 3])))
			f = lambda: t[sel]
		elif choice == "rshift-vector":
			w = self.pick(lambda o: o.kind == "vector" and len(o.obj) == n)
			if w:
				parents.append(w)
				f = lambda: t >> w.obj
			else:
				vals = self.values("int", n)
				f = lambda: t >> vals
		elif choice == "rshift-dict":
			w = self.pick(lambda o: o.kind == "vector" and len(o.obj) == n)
			if w and rng.random() < 0.7:
				parents.append(w)
				f = lambda: t >> {"added": w.obj}
			else:
				vals = self.values("int", n + rng.choice([0, 0, 0, 1]))
				f = lambda: t >> {"added": vals, "more": vals}
		elif choice == "rshift-table":
			w = self.pick(lambda o: o.kind == "table" and len(o.obj) == n)
			wt = w.obj if w else t
			if w:
				parents.append(w)
			f = lambda: t >> wt
		elif choice == "lshift":
			row = [rng.choice([1, 2, "s", None, 2.5]) for _ in range(len(t.cols()) + rng.choice([0, 0, 0, 1, -1]))]
			f = lambda: t << row
		elif choice == "T":
			f = lambda: t.T
		elif choice == "sort":
			if not names:
				return set()
			key = rng.choice(names)
			f = lambda: t.sort_by(key, reverse=rng.random() < 0.5)
		elif choice in ("join", "self-join"):
			w = h if choice == "self-join" else (self.pick(lambda o: o.kind == "table") or h)
			wn = [nm for nm in w.obj.column_names() if isinstance(nm, str)]
			if not names or not wn:
				return set()
			parents.append(w)
			lk, rk = rng.choice(names), rng.choice(wn)
			fn = rng.choice(["inner_join", "join", "full_join"])
			f = lambda: getattr(t, fn)(w.obj, lk, rk, expect="many_to_many")
		elif choice in ("aggregate", "window"):
			if len(names) < 1:
				return set()
			key = rng.choice(names)
			val = rng.choice(names)
			f = lambda: getattr(t, choice)(over=key, count_over=val, apply={"vals": (val, lambda vs: len(vs))})
		elif choice == "arith":
			k = rng.choice([1, 2, 0.5])
			f = rng.choice([lambda: t * k, lambda: t + k, lambda: t + t])
		elif choice == "copy":
			f = lambda: t.copy()
		else:
			f = lambda: t == t
		o = call(f)
		self.log("derive_table", h=h.hid, how=choice, out=o)
		if o.ok and isinstance(o.value, Vector):
			self.add(o.value, "derive:" + choice, parents)
		return set()

	def op_view(self):
		h = self.pick(lambda h: h.kind == "table" and len(h.obj.cols()) > 0)
		if not h:
			return self.op_new_table()
		t = h.obj
		rng = self.rng
		pos = rng.randrange(len(t.cols()))
		how = rng.choice(["cols", "name", "attr", "row"])
		if how == "row":
			if len(t) == 0:
				return set()
			i = rng.randrange(len(t))
			o = call(lambda: t[i])
			self.log("row", h=h.hid, i=i, out=o)
			if o.ok and isinstance(o.value, Row):
				self.add(o.value, "row", [h])
			return set()
		col = t.cols()[pos]
		if how == "cols":
			o = call(lambda: t.cols()[pos])
		elif how == "name":
			nm = col.name
			if not isinstance(nm, str):
				return set()
			o = call(lambda: t[nm])
		else:
			acc = accessor_for(t, pos)
			if acc is None:
				return set()
			o = call(lambda: getattr(t, acc))
		self.log("view", h=h.hid, pos=pos, how=how, out=o)
		if o.ok and is_vec(o.value):
			# the real position of the returned object decides ownership (by-name lookups return the first match)
			real = [i for i, c in enumerate(t.cols()) if c is o.value]
			if real:
				self.add(o.value, "view:" + how, [h], owner=(h, real[0]))
		return set()

	# writes -----------------------------------------------------------------
	def gen_key_value(self, n, vobj, allow_fail=True):
		rng = self.rng
		form = rng.choice(["int", "int", "slice", "mask", "idxlist", "idxvec", "maskvec"])
		kindvals = [x for x in vobj._underlying if x is not None] if n else []
		proto = kindvals[0] if kindvals else rng.choice([1, 2.5, "s"])

		def val():
			r = rng.random()
			if r < 0.55:
				return rng.choice(kindvals) if kindvals and rng.random() < 0.5 else make_like(rng, proto)
			if r < 0.7:
				return None
			if r < 0.85:
				return wider(proto)
			return rng.choice(["zz", 3, 2.5, date(2020, 1, 1)])
		if form == "int":
			key = rng.randrange(-n, n) if n else 0
			if allow_fail and rng.random() < 0.1:
				key = n + 1
			count = None
		elif form == "slice":
			key = slice(rng.choice([None, 0, 1]), rng.choice([None, n, 2, -1]), rng.choice([None, 1, 2]))
			count = len(range(*key.indices(n)))
		elif form in ("mask", "maskvec"):
			bits = [rng.random() < 0.5 for _ in range(n if not (allow_fail and rng.random() < 0.1) else n + 1)]
			count = sum(bits)
			key = bits if form == "mask" or not bits else Vector(bits)
		else:
			m = rng.choice([1, 2, 3])
			idx = [rng.randrange(-n, n) if n else 0 for _ in range(m)]
			if allow_fail and rng.random() < 0.1:
				idx[-1] = n + 2
			count = len(idx)
			key = idx if form == "idxlist" or not idx else Vector(idx)
		if count is None or rng.random() < 0.4:
			value = val()
		else:
			m = count if not (allow_fail and rng.random() < 0.1) else count + 1
			value = [val() for _ in range(m)]
			if rng.random() < 0.2:
				value = Vector(value) if value and not all(isinstance(x, Vector) for x in value) else value
		return form, key, value

	def op_write_vector(self):
		h = self.pick(lambda h: h.kind == "vector")
		if not h:
			return self.op_new_vector()
		v = h.obj
		n = len(v)
		form, key, value = self.gen_key_value(n, v)
		if self.rng.random() < 0.05:
			value = v         # self as value
		pre_sharers = self.true_sharers(v)
		o = call(lambda: v.__setitem__(key, value))
		self.log("write_vector", h=h.hid, form=form, key=key, value=value, out=o)
		self.after_write(h, o, "vector-setitem:" + form, pre_sharers)
		return self.family(h)

	def op_write_table(self):
		h = self.pick(lambda h: h.kind == "table" and len(h.obj.cols()) > 0)
		if not h:
			return self.op_new_table()
		t = h.obj
		rng = self.rng
		n = len(t)
		nc = len(t.cols())
		how = rng.choice(["cell", "cell", "row", "column", "region", "attr-list", "attr-vector", "attr-wrong-length", "rename_column", "rename_columns", "rename-fail", "cell-by-name",
			"attr-unknown", "rename_column-missing", "cell-bad-column"])
		pos = rng.randrange(nc)
		col = t.cols()[pos]
		proto = next((x for x in col._underlying if x is not None), 1)
		if how in ("cell", "cell-by-name"):
			i = rng.randrange(-n, n) if n else 0
			ck = pos if how == "cell" else (col.name if isinstance(col.name, str) else pos)
			val = rng.choice([make_like(rng, proto), None, wider(proto), "zz"])
			f = lambda: t.__setitem__((i, ck), val)
		elif how == "row":
			i = rng.randrange(n) if n else 0
			vals = [make_like(rng, next((x for x in c._underlying if x is not None), 1)) for c in t.cols()]
			if rng.random() < 0.2:
				vals = vals[:-1]
			if rng.random() < 0.2 and vals:
				vals[-1] = "zz"
			f = lambda: t.__setitem__(i, vals)
		elif how == "column":
			vals = [make_like(rng, proto) for _ in range(n + rng.choice([0, 0, 0, 1]))]
			f = lambda: t.__setitem__((slice(None), pos), vals)
		elif how == "region":
			r0 = rng.randrange(n) if n else 0
			r1 = min(n, r0 + rng.choice([1, 2]))
			c1 = min(nc, pos + rng.choice([1, 2]))
			if rng.random() < 0.25:
				r0, r1, pos, c1 = 0, n, 0, nc      # the whole table
			extra = rng.choice([0, 0, 0, 1, -1]) if (r1 - r0) > 0 else 0      # sometimes a source with the wrong number of rows
			block = [[make_like(rng, next((x for x in t.cols()[c]._underlying if x is not None), 1)) for _ in range(max(0, r1 - r0 + extra))] for c in range(pos, c1)]
			if rng.random() < 0.5 and block and block[0]:
				o2 = call(lambda: Table([Vector(b) for b in block]))
				src = o2.value if o2.ok else block
			else:
				src = block
			key = (slice(r0, r1), slice(pos, c1))
			if (r0, r1, pos, c1) == (0, n, 0, nc) and rng.random() < 0.5:
				key = slice(None)
			f = lambda: t.__setitem__(key, src)
		elif how in ("attr-list", "attr-vector", "attr-wrong-length"):
			acc = accessor_for(t, pos)
			if acc is None:
				return set()
			m = n + (1 if how == "attr-wrong-length" else 0)
			vals = [make_like(rng, proto) for _ in range(m)]
			if how != "attr-vector" and rng.random() < 0.3:
				vals = rng.choice([(x for x in list(vals)), iter(list(vals)), map(lambda x: x, list(vals))])     # unsized iterables
			if how == "attr-vector":
				donor = self.pick(lambda o: o.kind == "vector" and len(o.obj) == n)
				src = donor.obj if donor else Vector(list(vals))
			else:
				src = vals
			target = getattr(t, acc, None)
			realpos = next((i for i, c in enumerate(t.cols()) if c is target), pos)

			def f():
				setattr(t, acc, src)
			o = call(f)
			self.log("write_table", h=h.hid, how=how, acc=acc, out=o)
			if o.ok:
				for other in self.pool:
					if other.owner and other.owner[0] is h and other.owner[1] == realpos:
						other.owner = None    # the old column object is no longer part of the table
			self.after_write(h, o, "table:" + how, set())
			return self.family(h)
		elif how == "attr-unknown":
			f = lambda: setattr(t, "no_such_column_xyz", [1] * n)
		elif how == "rename_column-missing":
			f = lambda: t.rename_column("no-such-column", "x")
		elif how == "cell-bad-column":
			f = lambda: t.__setitem__((0, "no_such_column_xyz"), 1)
		elif how == "rename_column":
			nm = col.name
			new = rng.choice(["renamed", "b", "New Name", "sum"])
			f = lambda: t.rename_column(nm, new)
		elif how == "rename_columns":
			nms = t.column_names()
			k = rng.choice([1, 2])
			olds = [rng.choice(nms) for _ in range(k)]
			news = [rng.choice(["r1", "r2", "a"]) for _ in range(k)]
			f = lambda: t.rename_columns(olds, news)
		else:
			nms = t.column_names()
			olds = [rng.choice(nms), "no-such-column"]
			f = lambda: t.rename_columns(olds, ["q1", "q2"])
		o = call(f)
		self.log("write_table", h=h.hid, how=how, out=o)
		self.after_write(h, o, "table:" + how, set())
		return self.family(h)

	def op_rename_vector(self):
		h = self.pick(lambda h: h.kind == "vector")
		if not h:
			return set()
		v = h.obj
		new = self.rng.choice(["n1", "b", None, "Total $", "x"])
		how = self.rng.choice(["name", "alias"])
		if how == "alias":
			o = call(lambda: v.alias(new if new is not None else "al"))
		else:
			o = call(lambda: setattr(v, "name", new))
		self.log("rename_vector", h=h.hid, how=how, new=new, out=o)
		return self.family(h)

	# read-only --------------------------------------------------------------
	def op_read(self):
		h = self.pick(lambda h: h.kind in ("vector", "table"))
		if not h:
			return set()
		x = h.obj
		what = self.rng.choice(["repr", "fingerprint", "dir", "iter", "len-shape", "reductions", "index", "bool-fail", "bad-key", "mismatch-arith", "schema", "column_names", "hash-fail"])
		if what == "repr":
			f = lambda: repr(x)
		elif what == "fingerprint":
			f = lambda: x.fingerprint()
			h.fp_called = True
		elif what == "dir":
			f = lambda: dir(x)
		elif what == "iter":
			f = lambda: [list(r) if isinstance(r, Vector) else r for r in x]
		elif what == "len-shape":
			f = lambda: (len(x), x.shape)
		elif what == "reductions":
			f = lambda: [call(getattr(x, m)) for m in ("sum", "mean", "max", "min", "any", "all")]
		elif what == "index":
			f = lambda: x[0]
		elif what == "bool-fail":
			f = lambda: bool(x)
		elif what == "bad-key":
			f = lambda: x["no-such"] if is_table(x) else x[{"bad": 1}]
		elif what == "mismatch-arith":
			f = lambda: x + [1] * (len(x) + 1)
		elif what == "schema":
			f = lambda: x.schema()
		elif what == "column_names":
			f = lambda: x.column_names() if is_table(x) else x.name
		else:
			f = lambda: hash(x)
		o = call(f)
		self.log("read", h=h.hid, what=what, ok=o.ok)
		return set()

	# lifetime ---------------------------------------------------------------
	def op_lifetime(self):
		what = self.rng.choice(["drop", "drop", "gc", "cycle-drop", "gc-disable", "gc-enable", "drop-tuple"])
		if what == "drop" and self.pool:
			h = self.rng.choice(self.pool)
			self.log("drop", h=h.hid)
			self.drop(h)
		elif what == "gc":
			gc.collect()
			self.log("gc")
		elif what == "cycle-drop" and self.pool:
			h = self.rng.choice(self.pool)
			box = [h.obj]
			box.append(box)     # unreachable cycle holding the object until the collector runs
			self.log("cycle-drop", h=h.hid)
			self.drop(h)
			del box
		elif what == "gc-disable":
			gc.disable()
			self.log("gc-disable")
		elif what == "gc-enable":
			gc.enable()
			self.log("gc-enable")
		elif what == "drop-tuple" and self.tuples:
			k = self.rng.choice(list(self.tuples))
			del self.tuples[k]
			self.log("drop-caller-tuple")
		return set()

	# ------------------------------------------------------------------ C15
	def true_sharers(self, v):
		"""other live vectors whose storage IS v's storage (ground truth through the census)"""
		st = v._underlying
		return [w for w in CENSUS.live() if w is not v and not isinstance(w, Row) and w.__dict__.get("_underlying") is st]

	def after_write(self, h, o, label, pre_sharers):
		chk = self.chk
		if h.kind != "vector":
			if not o.ok and isinstance(o.exc, AliasError):
				# a table's columns are private copies: a refusal inside a table write can only be spurious
				self.judge_refusal(h, label, None)
			return
		v = h.obj
		chk.counters["alias:writes"] += 1
		if not o.ok and isinstance(o.exc, AliasError):
			self.judge_refusal(h, label, v)

	def judge_refusal(self, h, label, v):
		chk = self.chk
		chk.counters["alias:refusals"] += 1
		if v is None:
			if len(h.obj) == 0:
				# every zero-length vector holds the interpreter's one empty tuple: that is not storage shared with another vector
				chk.judged("alias-refusal", ("refusal", "table-write", "zero-rows"))
				chk.fail("a write is refused only while another live vector shares the storage", "alias/spurious-refusal/zero-length", f"{label} on a zero-row table raised AliasError; trace {self.tail()}", prop="C15")
				return
			chk.judged("alias-refusal", ("refusal", "table-write"))
			chk.fail("a write is refused only while another live vector shares the storage", f"alias/spurious-refusal/{label.split(':')[0]}-write",
				f"{label} raised AliasError although table columns are private copies; trace {self.tail()}", prop="C15")
			return
		if len(v) == 0:
			chk.judged("alias-refusal", ("refusal", "zero-length"))
			chk.fail("a write is refused only while another live vector shares the storage", "alias/spurious-refusal/zero-length", f"{label} on a zero-length vector raised AliasError (all empty vectors hold the one empty tuple; nothing is shared); trace {self.tail()}", prop="C15")
			return
		gc.collect()
		sharers = self.true_sharers(v)
		chk.judged("alias-refusal", ("refusal", h.prov.split(":")[0], bool(sharers)))
		if sharers:
			k = caller_key(v)
			if k is not None and all(caller_key(w) == k for w in sharers):
				chk.counters["alias:justified-refusals"] += 1
				return
			chk.fail("copies, slices, operation results and table columns share storage with no other live vector and are always writable",
				f"alias/library-result-shares-storage/{h.prov.split(':')[-1]}",
				f"{label} on {h!r} raised AliasError because it shares its storage tuple with {len(sharers)} other live vector(s) that the caller did not build over one tuple; trace {self.tail()}", prop="C15")
			return
		# retry once after collection: a refusal that persists without any live sharer is spurious
		probe = call(lambda: v.__setitem__(0, v._underlying[0]))
		if not probe.ok and isinstance(probe.exc, AliasError):
			chk.fail("a write is refused only while another live vector shares the storage", f"alias/spurious-refusal/{h.prov.split(':')[0]}",
				f"{label} on {h!r} raised AliasError and still does after gc.collect(), but no other live vector shares its storage; trace {self.tail()}", prop="C15")
		else:
			chk.counters["alias:refusal-cleared-by-gc"] += 1

	def registry_walk(self):
		"""registrants filed under an id that is not their current storage (evidence + steers the identity-reuse attack).
		Uses the shadow of the tracker kept by the register/unregister hooks, so the cost is O(live objects)."""
		stale = []
		dead = []
		for oid, (ref, keys) in TRACKER_SHADOW.items():
			o = ref()
			if o is None:
				dead.append(oid)
				continue
			if isinstance(o, Row):
				continue
			st = o.__dict__.get("_underlying")
			if st is None:
				continue
			for key in keys:
				if key != id(st):
					# confirm against the real registry (the shadow is only an index)
					refs = _ALIAS_TRACKER._registry.get(key) or []
					if any(r() is o for r in refs):
						stale.append((key, o))
		for oid in dead:
			TRACKER_SHADOW.pop(oid, None)
		return stale

	def attack_stale(self, stale):
		"""allocate fresh vectors until one receives a stale identity, then write to it"""
		chk = self.chk
		keys = {k for k, _ in stale}
		widths = sorted({len(o._underlying) for _, o in stale if hasattr(o, "_underlying")}) or [1, 2, 3]
		chk.counters["alias:stale-registrations-seen"] += len(stale)
		keep = []
		hit = None
		for attempt in range(400):
			w = widths[attempt % len(widths)]
			for width in (w, max(1, w - 1), w + 1):
				vv = Vector(list(range(width)) or [0])
				keep.append(vv)
				if id(vv._underlying) in keys:
					hit = vv
					break
			if hit is not None:
				break
		if hit is None:
			chk.counters["alias:attack-no-identity-reuse"] += 1
			return
		chk.counters["alias:attack-identity-reused"] += 1
		o = call(lambda: hit.__setitem__(0, 99))
		chk.judged("alias-attack", ("attack", len(hit)))
		if not o.ok and isinstance(o.exc, AliasError):
			sharers = self.true_sharers(hit)
			if not sharers:
				chk.fail("a vector that shares storage with no other live vector is always writable", "alias/spurious-refusal/fresh-vector-after-identity-reuse",
					f"a fresh Vector whose storage tuple reused the identity of freed storage (still registered for a live object) refused a write; trace {self.tail()}", prop="C15")

	# --------------------------------------------------------------- monitors
	def check_rect(self, h, origin):
		t = h.obj
		chk = self.chk
		o = call(lambda: rect_violation(t))
		chk.counters["rect:tables-checked"] += 1
		msg = o.value if o.ok else ("table-unreadable/" + type(o.exc).__name__, f"reading the table raised {o!r}")
		if msg:
			chk.fail("every table is rectangular and its rows agree with its columns", "rect/" + msg[0], f"{h!r} after {origin}: {msg[1]}; trace {self.tail()}", prop="C02")

	def check_truth(self, h):
		chk = self.chk
		x = h.obj
		vecs = list(x.cols()) if is_table(x) else [x]
		for vec in vecs:
			if not isinstance(vec, Vector) or isinstance(vec, (Table, Row)):
				continue
			chk.counters["truth:vectors-checked"] += 1
			msg = M.truthful(list(vec._underlying), vec.schema())
			if msg:
				chk.fail("the reported dtype is truthful", f"truth/{h.prov}", f"{h!r}: {msg}; trace {self.tail()}", prop="C03")
		if is_table(x) and len(x) and x.cols() and all(isinstance(c, Vector) and not isinstance(c, Table) for c in x.cols()):
			# a row is a vector too: the dtype it reports (and hands on to row.copy() / row[a:b]) must cover its cells
			i = self.rng.randrange(len(x))
			o = call(lambda: (x[i], x[i].copy()))
			if o.ok:
				for r, lab in zip(o.value, ("row", "row.copy()")):
					vals = list(r)
					if any(isinstance(e, Vector) for e in vals):
						continue
					chk.counters["truth:rows-checked"] += 1
					msg = M.truthful(vals, r.schema())
					if msg:
						chk.fail("the reported dtype is truthful", f"truth/{lab}/{h.prov}", f"{h!r}: {lab} {i} = {short(vals, 120)} reports {r.schema()!r}: {msg}; trace {self.tail()}", prop="C03")
						break

	def check_fresh(self, h):
		chk = self.chk
		x = h.obj
		o = call(x.fingerprint)
		if not o.ok:
			chk.counters["fresh:fingerprint-raised"] += 1
			return
		r = call(lambda: rebuild(x).fingerprint())
		if not r.ok:
			chk.counters["fresh:rebuild-raised"] += 1
			return
		chk.counters["fresh:compared"] += 1
		if o.value != r.value:
			chk.fail("fingerprint() equals the fingerprint of a freshly built object with the same contents",
				f"fingerprint/stale/{h.kind}/{'cached-before' if h.fp_called else 'not-cached-before'}/{self.last_op}",
				f"{h!r}: fingerprint {o.value} but rebuilt object gives {r.value}; contents {short(snap(h), 200)}; trace {self.tail()}", prop="C16")
		h.fp_called = True

	# ------------------------------------------------------------------ drive
	def log(self, op, **kw):
		rec = {"op": op}
		for k, v in kw.items():
			rec[k] = short(v, 120) if not isinstance(v, (int, str, bool, type(None))) else v
		self.trace.append(rec)
		self.last_op = op if "how" not in kw else f"{op}:{kw['how']}"
		if op in ("write_vector",):
			self.last_op = f"{op}:{kw.get('form')}"

	def tail(self, n=12):
		return self.trace[-n:]

	OPS = {
		"mixed": [("new_vector", 6), ("new_table", 5), ("shared_tuple", 3), ("table_from_pool", 5), ("derive_vector", 10), ("derive_table", 12),
			("view", 10), ("write_vector", 16), ("write_table", 14), ("rename_vector", 3), ("read", 8), ("lifetime", 8)],
		"alias": [("new_vector", 5), ("new_table", 4), ("shared_tuple", 8), ("table_from_pool", 8), ("derive_vector", 6), ("derive_table", 14),
			("view", 8), ("write_vector", 20), ("write_table", 10), ("rename_vector", 1), ("read", 2), ("lifetime", 14)],
		"tables": [("new_vector", 4), ("new_table", 10), ("table_from_pool", 10), ("derive_table", 22), ("view", 10), ("write_vector", 8),
			("write_table", 22), ("rename_vector", 2), ("read", 6), ("lifetime", 6)],
	}

	def run(self):
		chk = self.chk
		ops = self.OPS[self.profile]
		names = [n for n, _ in ops]
		weights = [w for _, w in ops]
		gc_was = gc.isenabled()
		try:
			for step in range(self.nsteps):
				before = {h.hid: snap(h) for h in self.pool}
				name = self.rng.choices(names, weights)[0]
				self.last_op = name
				may_change = getattr(self, "op_" + name)()
				chk.counters["steps:" + name] += 1
				# attack stale registrations at once, before the monitors allocate tuples that could take over the freed identity
				stale = self.registry_walk()
				if stale:
					self.attack_stale(stale)
				self.quiescent(before, may_change or set(), name)
				if self.stop:
					break
		finally:
			if gc_was:
				gc.enable()
			else:
				gc.disable()
			for h in list(self.pool):
				h.obj = None
			self.pool.clear()
			self.tuples.clear()
			gc.collect()

	def quiescent(self, before, may_change, opname):
		def _holds_vector_cells(o):
			try:
				cells = o._underlying
			except Exception:
				return False
			if isinstance(o, Table):
				return any(isinstance(c, Table) or any(isinstance(x, Vector) for x in c._underlying) for c in cells if isinstance(c, Vector))
			inner = [x for x in cells if isinstance(x, Vector)]
			if not inner:
				return False
			# (equal-length plain vectors as the ONLY cells is what a table is made of: a result of that shape which is not a Table is judged - it should have been
			# one; ragged lengths, tables or other values among the cells make it the legitimately non-table kind)
			return any(isinstance(x, Table) for x in inner) or len(inner) != len(cells) or len({len(x) for x in inner}) > 1
		chk = self.chk
		last = self.trace[-1] if self.trace else {}
		refused_alias = "AliasError" in str(last.get("out", ""))
		hmap = {h.hid: h for h in self.pool}
		writer = last.get("h")
		for hid, old in before.items():
			h = hmap.get(hid)
			if h is None or h.obj is None:
				continue
			new = snap(h)
			if new == old:
				continue
			if hid in may_change and not refused_alias:
				continue
			if _holds_vector_cells(h.obj):
				# (a ragged `>>` result - a warning plus a NON-table vector whose cells are the operands themselves - or any other vector holding vectors as cells shows
				# what its cells show: vectors as cells are outside every domain, DESIGN section 6)
				chk.skip("bystander-holds-vectors-as-cells")
				continue
			w = hmap.get(writer)
			rel = relation(hmap, w, h) if w is not None else "unknown"
			if hid in may_change and refused_alias:
				chk.fail("a write refused with AliasError changes nothing", f"frame/refused-write-changed-target/{self.last_op}",
					f"{h!r} changed although the write was refused: {short(old, 160)} -> {short(new, 160)}; trace {self.tail()}", prop="C01")
				continue
			kind = "write" if opname.startswith(("write", "rename")) else "read-only"
			both_shared = w is not None and w.shared_with is not None and w.shared_with == h.shared_with
			if both_shared:
				chk.fail("two live vectors built over the same caller tuple never observe each other's writes", f"alias/leaked-write/{self.last_op}",
					f"write through {w!r} changed {h!r}: {short(old, 160)} -> {short(new, 160)}; trace {self.tail()}", prop="C15")
			chk.fail("a write changes only the written object; read-only operations change nothing" , f"frame/{kind}/{self.last_op}/victim-{rel}",
				f"{self.last_op} through {w!r} changed bystander {h!r}: {short(old, 200)} -> {short(new, 200)}; trace {self.tail()}", prop="C01")
		chk.judged("steps", (opname, self.last_op, len(self.pool) > 3))
		groups = storage_groups()
		for h in self.pool:
			if h.kind != "vector" or h.obj is None or isinstance(h.obj, Row):
				continue
			st = h.obj.__dict__.get("_underlying")
			if not st:
				continue
			g = groups.get(id(st), ())
			if len(g) > 1:
				k = caller_key(h.obj)
				if k is None or any(caller_key(w) != k for w in g):
					others = [w for w in g if w is not h.obj]
					chk.fail("copies, slices, operation results and table columns share storage with no other live vector",
						f"alias/library-result-shares-storage/{h.prov.split(':')[-1]}",
						f"{h!r} shares its storage tuple with {len(others)} other live vector(s) although it was not built by the caller over a shared tuple; trace {self.tail()}", prop="C15")
				else:
					chk.counters["alias:caller-shared-groups-seen"] += 1
		for h in self.pool:
			if h.obj is None or h.kind == "row":
				continue
			if h.kind == "table":
				self.check_rect(h, self.last_op)
			self.check_truth(h)
			if self.rng.random() < 0.5 or hmap.get(writer) is h:
				self.check_fresh(h)


# ------------------------------------------------------------------------- helpers
def relation(hmap, w, h):
	"""how the changed bystander h relates to the written handle w (provenance only)"""
	if w is None:
		return "unknown"
	if h.hid in w.parents:
		return f"parent-of-writer({w.prov})"
	if w.hid in h.parents:
		return f"derived-from-writer({h.prov})"
	if h.owner and h.owner[0] is w:
		return "view-of-writer"
	if w.owner and w.owner[0] is h:
		return "owner-of-writer"
	wp = w.owner[0] if w.owner else None
	if wp is not None:
		if h.hid in wp.parents:
			return f"parent-of-writers-table({wp.prov})"
		if wp.hid in h.parents:
			return f"derived-from-writers-table({h.prov})"
	if set(w.parents) & set(h.parents):
		return f"sibling({h.prov})"
	return f"unrelated({h.prov})"


def accessor_for(t, pos):
	"""an attribute name that dir(t) advertises and that resolves to column pos (None when there is none)"""
	try:
		cands = [a for a in dir(t) if a not in _TABLE_DIR]
	except Exception:
		return None
	col = t.cols()[pos]
	for a in cands:
		try:
			if getattr(t, a) is col:
				return a
		except Exception:
			continue
	return None


_TABLE_DIR = set()
try:
	_TABLE_DIR = set(dir(Table()))
except Exception:
	pass


def make_like(rng, proto):
	if isinstance(proto, bool):
		return rng.choice([True, False])
	if isinstance(proto, int):
		return rng.choice([0, 1, 5, -2, 9])
	if isinstance(proto, float):
		return rng.choice([0.5, 1.5, -2.0, 9.25])
	if isinstance(proto, str):
		return rng.choice(["p", "q", "", "zz"])
	if isinstance(proto, date):
		return rng.choice([date(2020, 1, 1), date(2022, 2, 2)])
	return proto


def wider(proto):
	if isinstance(proto, bool):
		return 2
	if isinstance(proto, int):
		return 2.5
	if isinstance(proto, float):
		return 1 + 2j
	if isinstance(proto, date):
		from datetime import datetime
		return datetime(2020, 1, 1, 5, 0)
	return 3


def rect_violation(t):
	"""None or (class, message) - direct recomputation from the columns"""
	cols = list(t._underlying)
	if not all(isinstance(c, Vector) for c in cols):
		return None    # not a table of column vectors (nested / higher-dimensional): not judged
	if any(isinstance(c, Table) for c in cols):
		return None
	if any(isinstance(x, Vector) for c in cols for x in c._underlying):
		return None    # a cell that holds a vector makes the object higher-dimensional by design: not judged
	lens = [len(c) for c in cols]
	n = len(t)
	if len(set(lens)) > 1:
		return ("ragged-columns", f"column lengths {lens}")
	if lens and lens[0] != n:
		return ("len-disagrees-with-columns", f"len(t) = {n} but columns have {lens[0]} elements")
	shape = t.shape
	exp = (n, len(cols)) if n else (0, len(cols))
	if tuple(shape) != exp:
		return ("shape", f"shape {shape} but {n} rows x {len(cols)} columns")
	colvals = [list(c._underlying) for c in cols]
	rows = [tuple(c[i] for c in colvals) for i in range(n)]
	it = [tuple(r) for r in t]
	if len(it) != n or any(not M.same_list(a, b) for a, b in zip(it, rows)):
		return ("iteration-disagrees-with-columns", f"iterated rows {short(it, 160)} vs columns {short(rows, 160)}")
	if cols and n:
		# the rows of one iteration used AS VECTORS (slice, isna): these go through the row's materialised cells, not the raw columns
		k = len(cols)
		o = call(lambda: [(tuple(r[0:k]), tuple(r.isna())) for r in t])
		if o.ok:
			for i, (sl, na) in enumerate(o.value):
				if not M.same_list(sl, rows[i]) or list(na) != [x is None for x in rows[i]]:
					return ("iterated-row-as-vector-disagrees-with-columns", f"row {i} of one iteration: row[0:{k}] = {sl!r}, row.isna() = {na!r} vs columns {rows[i]!r}")
		if n > 1 and hasattr(Row, "set_index"):
			def moved():
				r = t[0]
				r.isna()
				r.set_index(n - 1)
				return tuple(r[0:k]), tuple(r)
			o = call(moved)
			if o.ok and not (M.same_list(o.value[0], rows[n - 1]) and M.same_list(o.value[1], rows[n - 1])):
				return ("moved-row-disagrees-with-columns", f"t[0] used, then set_index({n - 1}): row[0:{k}] = {o.value[0]!r}, tuple(row) = {o.value[1]!r} vs columns {rows[n - 1]!r}")
	for i in ([0, n - 1, n // 2] if n else []):
		r = tuple(t[i])
		if not M.same_list(r, rows[i]):
			return ("row-index-disagrees-with-columns", f"t[{i}] = {r!r} vs columns {rows[i]!r}")
		rneg = tuple(t[i - n])
		if not M.same_list(rneg, rows[i]):
			return ("row-index-disagrees-with-columns", f"t[{i - n}] = {rneg!r} vs columns {rows[i]!r}")
		row = t[i]
		byidx = tuple(row[j] for j in range(len(cols)))
		if len(row) != len(cols) or not M.same_list(byidx, rows[i]):
			return ("row-element-access-disagrees-with-columns", f"t[{i}][j] gives {byidx!r} (len {len(row)}) vs columns {rows[i]!r}")
	return None


def rebuild(x):
	"""a fresh object with the same plain contents and names"""
	if is_table(x):
		return Table([rebuild(c) for c in x._underlying])
	from .recompute import fresh_value
	vals = [rebuild(e) if isinstance(e, Vector) else fresh_value(e) for e in x._underlying]      # equal contents made of new objects (distinct NaN / float objects)
	if x.name is not None:
		return Vector(vals, name=x.name)
	return Vector(vals)
