"""C13 - window functions keep every row in place and agree with aggregate."""
from ..bind import Vector, Table
from ..core import call, short
from .. import models as M
from .. import values as V
from . import common
from . import joinmodel as J
from . import c12
from .c06 import close

from . import recompute

RULE = ("[plus the shared recompute-after-history monitor: this property's operations evaluated on long-lived objects between in-place writes / renames must equal the same operations on fresh objects rebuilt from the current contents] "
	"the C12 workloads (all single key columns over {None,'a','b'} up to length 5; sampled 1-3 keys by name / column / external vector, interleaved "
	"groups, one-value and all-None groups, None keys, hash-colliding int keys, falsy values next to None, every combination of built-ins and "
	"order-sensitive apply functions, two aggregated vectors sharing one name) are run through window(); the result must have the input's row "
	"count, reproduce the key columns in row order, and give every row the value that (a) the list-search model and (b) the real aggregate() "
	"joined back on the key give its group. distinct = (#keys, key modes, #groups class, functions, None pattern).")
ASSUMPTIONS = c12.ASSUMPTIONS + ["window and aggregate outputs are paired by position when their column-name lists agree, otherwise only the model decides"]
EXHAUSTIVE = {"flag": True, "scope": "all single key columns over {None,'a','b'} up to length 5 (values sampled)"}
ANCHOR_FUNCS = ["table:Table.window", "table:Table.aggregate"]
REQUIRED_STRATA = {"recompute": 200, "window": 800, "window-vs-aggregate": 500}


def run_window(chk, spec, table=None):
	o, t = common.do_agg(spec, op="window", table=table)
	n = spec["n"]
	keycols = [common.ref_values(spec, r) for r in spec["over"]]
	groups = c12.model_groups(keycols, n)
	fns = tuple(sorted(spec["aggs"])) + tuple(sorted(a["fn"] for a in spec["apply"]))
	chk.judged("window", ("win", len(keycols), tuple(r["mode"] for r in spec["over"]), min(len(groups), 4), fns,
		any(v is None for c in spec["table"]["cols"] for v in c)))
	group_of = {}
	for gi, (_, rows) in enumerate(groups):
		for i in rows:
			group_of[i] = gi
	expand = lambda vals: [vals[group_of[i]] for i in range(n)]
	expected, model_exc = c12.model_or_raise(spec, groups, expand)
	if model_exc is not None:
		c12.apply_raises(chk, "window", spec, o, model_exc)
		return
	if not o.ok:
		chk.fail("window computes every admissible request", f"window/raises/{type(o.exc).__name__}", f"{spec!r} raised {o!r}")
		return
	r = o.value
	chk.observe(r, "window")
	if not isinstance(r, Table):
		chk.fail("window returns a table", "window/not-a-table", f"{spec!r} -> {type(r).__name__}")
		return
	names, cols = J.cells(r)
	chk.feed_digest((names, cols))
	nrows = len(cols[0]) if cols else 0
	if nrows != n:
		chk.fail("window returns the same number of rows as its input", "window/row-count", f"{spec!r}: {nrows} rows for {n} input rows")
		return
	nk = len(keycols)
	if len(cols) < nk or not all(M.same_list(g, e) for g, e in zip(cols[:nk], keycols)):
		chk.fail("window reproduces the partition key columns unchanged, in row order", "window/key-columns", f"{spec!r}: key columns {short(cols[:nk], 200)} vs {short(keycols, 200)}")
		return
	if not c12.judge_outputs(chk, "window", spec, names, cols, nk, expected, "window"):
		return
	# rows of one group receive identical values
	for nm, c in zip(names[nk:], cols[nk:]):
		for _, rows in groups:
			if any(not M.same(c[rows[0]], c[i]) and not close(c[rows[0]], c[i]) for i in rows[1:]):
				chk.fail("rows of one group receive identical values", "window/group-not-uniform", f"{spec!r}: column {nm!r} = {short(c, 200)}")
				return
	# independent second reference: the real aggregate joined back on the key
	a, _t = common.do_agg(spec, op="aggregate", table=table)
	chk.judged("window-vs-aggregate", ("wva", len(keycols), min(len(groups), 4), fns))
	if not a.ok:
		chk.fail("aggregate accepts what window accepts", f"window/aggregate-raises/{type(a.exc).__name__}", f"{spec!r}: window returned but aggregate raised {a!r}")
		return
	anames, acols = J.cells(a.value)
	if anames != names or len(acols) != len(cols):
		# the same request: the same columns under the same names in the same order (a joined-back aggregate has exactly aggregate's header)
		chk.fail("window's output equals aggregate's output joined back to the rows on the partition key", f"window/header-differs-from-aggregate/{'order' if sorted(map(repr, anames)) == sorted(map(repr, names)) else 'names'}",
			f"{spec!r}: window columns {names!r}, aggregate columns {anames!r}")
		return
	arows = len(acols[0]) if acols else 0
	akeys = J.rows_from(acols[:nk], arows)
	rowkeys = J.rows_from(keycols, n)
	for j in range(nk, len(cols)):
		for i in range(n):
			hit = [g for g in range(arows) if J.key_eq(akeys[g], rowkeys[i])]
			if len(hit) != 1:
				chk.counters["window_aggregate_key_lookup_failed"] += 1
				return
			av = acols[j][hit[0]]
			wv = cols[j][i]
			if not (M.same(av, wv) or close(av, wv)):
				chk.fail("window's output equals aggregate's output joined back to the rows on the partition key", "window/differs-from-aggregate",
					f"{spec!r}: column {names[j]!r} row {i}: window {wv!r}, aggregate for key {rowkeys[i]!r} gives {av!r}")
				return


	# ... and, the cells being the same values, each output column is the kind of column aggregate produces (both are typed from their values)
	if n and arows:
		for j in range(nk, len(cols)):
			ws, as_ = r.cols()[j].schema(), a.value.cols()[j].schema()
			if ws is not None and as_ is not None and (ws.kind is not as_.kind or ws.nullable != as_.nullable):
				chk.fail("window's output equals aggregate's output joined back to the rows on the partition key", f"window/column-kind-differs-from-aggregate/{names[j].rsplit('_', 1)[-1] if isinstance(names[j], str) else 'col'}",
					f"{spec!r}: column {names[j]!r} holds {short(cols[j], 100)} typed {ws!r}; aggregate's column holds {short(acols[j], 100)} typed {as_!r}")
				return


def _renamed_last(agg, over, t0):
	"""the aggregate result with the columns k, g, v (a key that was not grouped on is added as a constant column)"""
	import warnings
	with warnings.catch_warnings():
		warnings.simplefilter("ignore")
		for nm, fill in (("k", "a"), ("g", 1)):
			if nm not in over:
				agg = agg >> Vector([fill] * len(agg), name=nm)
	return agg


def run_window_history(chk, spec):
	"""a table that came out of sort_by (or an earlier window call) is an ordinary table: after its key cells are written in place, window() partitions by the
	keys it holds NOW"""
	import random
	rng = random.Random(spec["seed"])
	n = spec["n"]
	k = [rng.choice(["a", "b", "c"]) for _ in range(n)]
	g = [rng.choice([1, 2]) for _ in range(n)]
	v = [rng.choice([1, 2, 5, None]) for _ in range(n)]
	t0 = Table([Vector(k, name="k"), Vector(g, name="g"), Vector(v, name="v")])
	how = spec["prepare"]
	o = call(lambda: {"sort-k": lambda: t0.sort_by("k"), "sort-kg": lambda: t0.sort_by(["k", "g"]), "sort-gk": lambda: t0.sort_by(["g", "k"]), "plain": lambda: t0, "window-first": lambda: (t0.window(over="k", count_over="v"), t0)[1],
		# the table IS the result of an aggregate over the very keys it is partitioned by next (every key tuple distinct - until a key cell is written)
		"aggregate-result": lambda: _renamed_last(t0.aggregate(over=spec["over"], apply={"v": ("v", lambda xs: next((x for x in xs if x is not None), None))}), spec["over"], t0)}[how]())
	if not o.ok or not isinstance(o.value, Table):
		chk.skip("window-history-prepare-failed")
		return
	t = o.value
	n = len(t)
	if n == 0:
		chk.skip("window-history-empty")
		return
	vw = spec.get("value_write")
	if vw == "none-and-float":
		i, j = rng.sample(range(n), 2) if n > 1 else (0, 0)
		call(lambda: t["v"].__setitem__([i, j], [None, 2.5]))
	elif vw == "cancelling-floats" and n >= 3:
		call(lambda: t["v"].__setitem__(slice(0, 3), [1e16, 1.0, -1e16]))
		call(lambda: t["k"].__setitem__(slice(0, 3), ["a", "a", "a"]))
	elif vw == "tenths" and n >= 3:
		call(lambda: t["v"].__setitem__(slice(0, 3), [0.1, 0.2, 0.3]))
		call(lambda: t["k"].__setitem__(slice(0, 3), ["b", "b", "b"]))
	for _w in range(spec["writes"]):
		i = rng.randrange(n)
		col = rng.choice(["k", "k", "g"])
		val = rng.choice(["a", "b", "c"]) if col == "k" else rng.choice([1, 2])
		via = rng.choice(["view-attr", "view-item", "cols", "cell"])
		call(lambda: {"view-attr": lambda: getattr(t, col).__setitem__(i, val), "view-item": lambda: t[col].__setitem__(i, val), "cols": lambda: t.cols()[0 if col == "k" else 1].__setitem__(i, val),
			"cell": lambda: t.__setitem__((i, col), val)}[via]())
	names, cols = J.cells(t)
	over = spec["over"]
	s2 = {"op": spec["op"], "table": {"names": names, "cols": cols}, "n": n, "over": [{"mode": spec["key_mode"], "name": nm} for nm in over], "scalar_over": len(over) == 1 and rng.random() < 0.5,
		"aggs": {"sum": [{"mode": "name", "name": "v"}], "count": [{"mode": "name", "name": "v"}]}, "apply": [{"out": "vals", "col": {"mode": "name", "name": "v"}, "fn": "tuple"}]}
	if spec["op"] == "window":
		run_window(chk, s2, table=t)
	else:
		c12.run_aggregate(chk, s2, table=t)


RUNNERS = {"same_function_twice": c12.run_same_function_twice, "repeated_name_after_other_table": c12.run_repeated_name_after_other_table, "key_forms_sequence": c12.run_key_forms_sequence, "nested_apply": c12.run_nested_apply, "window": run_window, "window_history": run_window_history, "agg_chain": c12.run_agg_chain, "label_keys": c12.run_label_keys}
RUNNERS["recompute"] = recompute.runner("C13")

def run_writing_callback(chk, spec):
	"""an apply function that WRITES to the aggregated column - a cell of a group not yet reached - while the call runs: window gives every row what aggregate computes with the very
	same function on an equal table (both read the column as it was when its aggregation started, or both do not: they agree)"""
	import warnings
	def build():
		return Table({"k": ["a", "b", "a", "c", "b", "c"], "v": [1, 2, 3, 4, 5, 6]})
	def make(t):
		state = {"done": False}
		def f(vals):
			if not state["done"]:
				state["done"] = True
				col = t["v"]
				{"last-row": lambda: col.__setitem__(5, 100), "all-later-rows": lambda: col.__setitem__(slice(1, 6), [20, 3, 40, 50, 60]), "table-cell": lambda: t.__setitem__((3, "v"), 400), "promoting": lambda: col.__setitem__(5, 6.5)}[spec["write"]]()
			return sum(vals)
		return f
	with warnings.catch_warnings():
		warnings.simplefilter("ignore")
		ta, tw = build(), build()
		extra = {"sum_over": "v"} if spec["with_builtin"] else {}
		a = call(lambda: ta.aggregate(over="k", apply={"s": ("v", make(ta))}, **extra))
		w = call(lambda: tw.window(over="k", apply={"s": ("v", make(tw))}, **extra))
	chk.judged("window-vs-aggregate", ("writing-callback", spec["write"], spec["with_builtin"]))
	if a.ok != w.ok:
		chk.fail("window's output equals aggregate's output joined back to the rows on the partition key", f"window/writing-callback/{'window-raises' if a.ok else 'aggregate-raises'}", f"{spec!r}: aggregate {short(a, 120)}; window {short(w, 120)}")
		return
	if not a.ok:
		return
	an, ac = J.cells(a.value)
	wn, wc = J.cells(w.value)
	per = dict(zip(ac[0], zip(*ac[1:])))
	for i, key in enumerate(wc[0]):
		wrow = tuple(c[i] for c in wc[1:])
		if wrow != per.get(key):
			chk.fail("window's output equals aggregate's output joined back to the rows on the partition key", f"window/writing-callback/differs-from-aggregate/{spec['write']}", f"{spec!r}: row {i} (key {key!r}): window {wrow!r}, aggregate {per.get(key)!r}; columns {wn!r}")
			return


RUNNERS["writing_callback"] = run_writing_callback


def run_label_value_columns(chk, spec):
	"""several window calls in one process over aggregated columns whose labels compare equal without being the same (True, 1, 1.0 ...): each call's header is the
	header aggregate gives for the same request - whatever labels earlier calls have seen"""
	from fractions import Fraction
	from decimal import Decimal
	lab = {"1": 1, "True": True, "1.0": 1.0, "0": 0, "False": False, "0.0": 0.0, "Decimal(1)": Decimal(1), "Fraction(1)": Fraction(1), "2.5": 2.5, "Fraction(5, 2)": Fraction(5, 2)}
	for x in spec["sequence"]:
		t = Table([Vector(["a", "b", "a"], name="k"), Vector([1, 2, 3], name=lab[x])])
		fn = spec["fn"]
		w = call(lambda: t.window(over="k", **{fn + "_over": t.cols()[1]}))
		a = call(lambda: t.aggregate(over="k", **{fn + "_over": t.cols()[1]}))
		chk.judged("window-vs-aggregate", ("label-value-columns", x, tuple(spec["sequence"]), fn))
		if not (w.ok and a.ok):
			continue
		if w.value.column_names() != a.value.column_names():
			chk.fail("window's output equals aggregate's output joined back to the rows on the partition key", "window/header-differs-from-aggregate/look-alike-labels", f"{spec!r}: label {lab[x]!r}: window columns {w.value.column_names()!r}, aggregate columns {a.value.column_names()!r}")
			return


RUNNERS["label_value_columns"] = run_label_value_columns


def run(chk):
	import itertools as _it
	for seq in list(_it.permutations(["1", "True", "1.0"])) + list(_it.permutations(["0", "False", "0.0"])) + [("Decimal(1)", "1"), ("1", "Fraction(1)"), ("2.5", "Fraction(5, 2)"), ("Fraction(5, 2)", "2.5")]:
		for fn in ("sum", "max"):
			chk.case("label_value_columns", {"sequence": list(seq), "fn": fn}, "label-value-columns")
	c12.key_form_cases(chk, "window")
	for write in ("last-row", "all-later-rows", "table-cell", "promoting"):
		for with_builtin in (False, True):
			chk.case("writing_callback", {"write": write, "with_builtin": with_builtin}, "writing-callback")
	for spec in c12.directed_specs("window"):
		chk.case("window", spec, "window-directed")
	for inner in ("aggregate", "window"):
		chk.case("nested_apply", {"op": "window", "inner": inner}, "nested-apply")
	recompute.add_cases(chk, "C13")
	rng = chk.rng
	for spec in c12.exhaustive_specs(chk, "window"):
		chk.case("window", spec, "window-exhaustive")
	c12.chain_cases(chk, "window")
	c12.label_key_cases(chk, "window")
	for _ in range(200 if chk.quick() else 1500):
		chk.case("window_history", {"seed": rng.randrange(10**9), "n": rng.choice([3, 4, 6, 8]), "prepare": rng.choice(["sort-k", "sort-kg", "sort-gk", "plain", "window-first", "aggregate-result", "aggregate-result"]), "writes": rng.choice([0, 1, 2, 3]),
			"over": rng.choice([["k"], ["k", "g"], ["g"], ["g", "k"]]), "key_mode": rng.choice(["name", "vector"]), "op": rng.choice(["window", "window", "aggregate"]),
			"value_write": rng.choice([None, None, "none-and-float", "cancelling-floats", "tenths"])}, "window-history")
	for _ in range(700 if chk.quick() else 4000):
		spec = common.gen_agg_spec(rng, max_rows=rng.choice([6, 10]) if chk.quick() else rng.choice([6, 10, 40, 150]), op="window")
		chk.case("window", spec, "window-sampled")
	# two different aggregated vectors that carry the same name, every row its own group, falsy values
	for _ in range(200 if chk.quick() else 1200):
		n = rng.choice([1, 2, 3, 5])
		unique_keys = rng.random() < 0.5
		keys = list(range(n)) if unique_keys else [rng.choice([1, 2, None]) for _ in range(n)]
		if unique_keys and n > 1 and rng.random() < 0.4:
			keys[rng.randrange(n)] = None
		a = [rng.choice([None, 0, 1, 2, False, 0.0]) for _ in range(n)]
		b = [rng.choice([None, 0, 5, -1]) for _ in range(n)]
		fns = rng.sample(list(common.AGG_FUNCS), rng.choice([1, 2, 3, 6]))
		aggs = {}
		for f in fns:
			aggs[f] = [{"mode": "name", "name": "amount"}, {"mode": "external", "values": b, "name": "amount"}] if rng.random() < 0.6 else [{"mode": "name", "name": "amount"}]
		spec = {"op": "window", "table": {"names": ["k", "amount"], "cols": [keys, a]}, "n": n, "over": [{"mode": "name", "name": "k"}], "scalar_over": rng.random() < 0.5,
			"aggs": aggs, "apply": [] if rng.random() < 0.6 else [{"out": "custom", "col": {"mode": "external", "values": b, "name": "amount"}, "fn": rng.choice(["tuple", "first"])}]}
		chk.case("window", spec, "window-same-name")
