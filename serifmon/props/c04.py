"""C04 - dtype inference and promotion form an order-independent lattice."""
import itertools
from datetime import date, datetime, timedelta
from decimal import Decimal

from .. import bind
from ..bind import Vector, Table, DataType, infer_dtype
from ..core import call, short
from .. import models as M
from .. import values as V
from . import common

RULE = ("exhaustive: every sequence of length <=4 (thorough <=5) over 16 type-class letters is inferred with the real "
	"infer_dtype and compared with the lattice model and with every other ordering of the same multiset; the promotion "
	"automaton (all reachable DataType states x 16 letters, all letter pairs) is executed for never-narrows / keeps "
	"nullability / idempotent / value belongs / commutes; sampled: longer multisets with random permutations through "
	"Vector(); result typing of arithmetic, joins, aggregates and CSV columns. distinct = abstract case signature "
	"(multiset of type classes, or (state, letter[, letter]), or (operation, operand kinds)); trivial cases "
	"(single-class sequences without None) are not counted as distinct_nontrivial")
ASSUMPTIONS = [
	"instances of subclasses of built-in types are judged for order independence only",
	"the schema of a sequence without any non-None value is free but must not depend on its length",
	"promotion depends on a value only through its type (monitored: promote_with results are recorded per (state, type) and must be functional)",
]
EXHAUSTIVE = {"flag": True, "scope": "all sequences up to the stated length over the 16-letter alphabet; whole reachable promotion automaton"}
ANCHOR_FUNCS = ["typing:infer_dtype", "typing:DataType.promote_with", "typing:infer_kind"]
REQUIRED_STRATA = {"seq-exhaustive": 1000, "automaton-step": 100, "automaton-commute": 1000, "vector-sampled": 50, "result-typing": 50, "allnone-length": 1}

LETTERS = [None, True, 1, 2.5, 1j, "a", b"a", date(2020, 1, 2), datetime(2020, 1, 2, 3, 4), [1], (1,), {"a": 1},
	Decimal("1.5"), timedelta(days=1), V.Plain(1), V.MyInt(1)]
EXTRA_LETTERS = [V.Stamp(2020, 1, 2, 3, 4), V.Day(2020, 1, 2), V.MyStr("s"), V.Color.RED, V.Other(1), V.Base(1), V.Sub(1), Decimal("2"), V.DecSub("3")]


def cls_name(v):
	return "None" if v is None else type(v).__name__


def sch(s):
	return None if s is None else (s.kind, s.nullable)


def fmt(s):
	if s is None:
		return "none"
	k, n = s
	return getattr(k, "__name__", str(k)) + ("?" if n else "")


_promote_map = {}


def setup(chk):
	"""monitor that promotion is a function of (state, type(value)) during all workloads"""
	orig = DataType.promote_with

	def spy(self, value):
		r = orig(self, value)
		key = (self.kind, self.nullable, type(value))
		chk.counters["hook:promote_with"] += 1
		prev = _promote_map.setdefault(key, (r.kind, r.nullable))
		if prev != (r.kind, r.nullable):
			chk.fail("promotion depends on the value only through its type", "promote/not-a-function-of-type",
				f"{self!r}.promote_with({value!r}) gave {r!r} but earlier {fmt(prev)} for the same value type")
		return r

	DataType.promote_with = spy


# ------------------------------------------------------------------ runners
def run_seq(chk, spec):
	values = spec["values"]
	out = call(infer_dtype, list(values))
	classes = tuple(sorted(cls_name(v) for v in values))
	nontrivial = len(set(classes)) > 1
	if not out.ok:
		chk.judged(spec.get("stratum", "seq-exhaustive"), ("seq", classes) if nontrivial else None)
		chk.fail("inference does not raise", f"infer/raises/{type(out.exc).__name__}", f"infer_dtype({values!r}) raised {out!r}")
		return
	got = sch(out.value)
	exp = M.model_infer(values)
	chk.judged(spec.get("stratum", "seq-exhaustive"), ("seq", classes) if nontrivial else None)
	if exp is not None and got != exp:
		first_none = "first-none" if values and values[0] is None else "first-value"
		chk.fail("inferred schema equals lattice join + nullable iff None occurs",
			f"infer/model-mismatch/exp={fmt(exp)}/got={fmt(got)}/{first_none}",
			f"infer_dtype({values!r}) = {fmt(got)}, model says {fmt(exp)}")
		return
	# an instance of a subclass of a built-in kind is at least that kind: the result is never narrower than the join of the bases
	if exp is None and got is not None and any(v is not None and M.is_sub(M.exact_kind(v)) for v in values):
		bases = [k[1] if M.is_sub(k) else k for k in (M.exact_kind(v) for v in values if v is not None)]
		bj = M.join_kinds(bases)
		gk = got[0]
		if not (_le(bj, gk) or (isinstance(gk, type) and bj is not object and issubclass(gk, bj))):
			chk.fail("kinds join along bool<int<float<complex and date<datetime (a subclass instance counts at least as its built-in base)", f"infer/narrower-than-the-bases/exp>={bj.__name__}/got={fmt(got)}",
				f"infer_dtype({values!r}) = {fmt(got)}, but the values are instances of {sorted({b.__name__ for b in bases})}")
			return
	# whatever was inferred must cover the values it was inferred from
	for v in values:
		if v is not None and got is not None and not M.belongs(v, got[0]):
			chk.fail("the inferred kind covers every value it was inferred from", "infer/value-does-not-belong", f"infer_dtype({values!r}) = {fmt(got)} but {v!r} is a {type(v).__name__}")
			return
	# order independence against the canonical (sorted by class name) ordering, for every sequence
	canon = sorted(values, key=lambda v: (cls_name(v), repr(v)))
	out2 = call(infer_dtype, canon)
	got2 = sch(out2.value) if out2.ok else ("raise", type(out2.exc).__name__)
	if got2 != got:
		chk.fail("all orderings of one multiset infer the same schema",
			"infer/order-dependent/" + ("subclass-instance" if exp is None and any(M.is_sub(M.exact_kind(v)) for v in values if v is not None) else "plain"),
			f"infer_dtype({values!r}) = {fmt(got)} but infer_dtype({canon!r}) = {got2 if isinstance(got2[0], str) else fmt(got2)}")


def run_vector(chk, spec):
	"""sampled multiset through the public constructor, several permutations"""
	values = list(spec["values"])
	classes = tuple(sorted(cls_name(v) for v in values))
	exp = M.model_infer(values)
	seen = set()
	for perm in spec["perms"]:
		vs = [values[i] for i in perm]
		out = call(Vector, vs)
		if not out.ok:
			chk.judged("vector-sampled", ("vec", classes))
			chk.fail("construction with inference does not raise", f"vector/raises/{type(out.exc).__name__}", f"Vector({vs!r}) raised {out!r}")
			return
		v = out.value
		chk.observe(v, "Vector(values)")
		got = sch(v.schema())
		seen.add(got)
		if exp is not None and got != exp:
			chk.judged("vector-sampled", ("vec", classes))
			chk.fail("inferred schema equals lattice join + nullable iff None occurs",
				f"infer/model-mismatch/exp={fmt(exp)}/got={fmt(got)}/" + ("first-none" if vs[0] is None else "first-value"),
				f"Vector({vs!r}).schema() = {fmt(got)}, model says {fmt(exp)}")
			return
	chk.judged("vector-sampled", ("vec", classes))
	if len(seen) > 1:
		chk.fail("all orderings of one multiset infer the same schema", "infer/order-dependent/" + ("subclass-instance" if exp is None else "plain"),
			f"orderings of {values!r} gave schemas {[fmt(s) for s in seen]}")


def _le(a, b):
	"""a <= b in the kind lattice"""
	if b is object or a is b:
		return True
	try:
		return M.join_kinds([a, b]) is b
	except Exception:
		return False


def run_step(chk, spec):
	kind, nullable, value = spec["kind"], spec["nullable"], spec["value"]
	state = DataType(kind, nullable)
	out = call(state.promote_with, value)
	sig = ("step", kind.__name__, nullable, cls_name(value))
	chk.judged("automaton-step", sig)
	tag = f"{kind.__name__}{'?' if nullable else ''}+{cls_name(value)}"
	if not out.ok:
		chk.fail("promotion does not raise", f"promote/raises/{type(out.exc).__name__}", f"{state!r}.promote_with({value!r}) raised {out!r}")
		return
	r = out.value
	if not _le(kind, r.kind):
		chk.fail("promotion never narrows", "promote/narrows", f"{state!r}.promote_with({value!r}) = {r!r}")
	if nullable and not r.nullable:
		chk.fail("promotion never drops nullability", "promote/drops-nullability", f"{state!r}.promote_with({value!r}) = {r!r}")
	if value is None and not r.nullable:
		chk.fail("None adds nullability", "promote/none-not-nullable", f"{state!r}.promote_with(None) = {r!r}")
	if value is not None and not M.belongs(value, r.kind):
		chk.fail("the value belongs to the promoted kind", "promote/value-does-not-belong", f"{state!r}.promote_with({value!r}) = {r!r}")
	out2 = call(r.promote_with, value)
	if not out2.ok or sch(out2.value) != sch(r):
		chk.fail("promotion is idempotent", "promote/not-idempotent", f"{state!r}.promote_with({value!r}) = {r!r}, again -> {out2!r}")
	ek = None if value is None else M.exact_kind(value)
	if ek is None or not M.is_sub(ek):
		exp = (kind if value is None else M.join_kinds([kind, ek]), nullable or value is None)
		if kind not in M._EXACT and kind is not object and ek is not None and ek is not kind:
			exp = (object, exp[1])
		if sch(r) != exp:
			chk.fail("promotion result equals lattice join", f"promote/model-mismatch/{tag}/got={fmt(sch(r))}",
				f"{state!r}.promote_with({value!r}) = {r!r}, model says {fmt(exp)}")


def run_commute(chk, spec):
	kind, nullable, a, b = spec["kind"], spec["nullable"], spec["a"], spec["b"]
	s = DataType(kind, nullable)
	o1 = call(lambda: s.promote_with(a).promote_with(b))
	o2 = call(lambda: s.promote_with(b).promote_with(a))
	chk.judged("automaton-commute", ("commute", kind.__name__, nullable, cls_name(a), cls_name(b)))
	r1 = sch(o1.value) if o1.ok else ("raise",)
	r2 = sch(o2.value) if o2.ok else ("raise",)
	if r1 != r2:
		sub = any(v is not None and M.is_sub(M.exact_kind(v)) for v in (a, b))
		chk.fail("promotion steps commute (order independence for all lengths)", "promote/steps-do-not-commute/" + ("subclass-instance" if sub else "plain"),
			f"{s!r} +{a!r} +{b!r} = {o1!r} but +{b!r} +{a!r} = {o2!r}")


def run_allnone(chk, spec):
	outs = []
	for n in spec["lengths"]:
		o = call(Vector, [None] * n)
		outs.append(sch(o.value.schema()) if o.ok else ("raise", type(o.exc).__name__))
		o2 = call(infer_dtype, [None] * n)
		outs.append(sch(o2.value) if o2.ok else ("raise", type(o2.exc).__name__))
	chk.judged("allnone-length", ("allnone", tuple(spec["lengths"])))
	if len(set(outs)) > 1:
		chk.fail("schema of an all-None sequence does not depend on its length", "infer/all-none-length-dependent", f"lengths {spec['lengths']} -> {outs}")
	for s in set(outs):
		if s is not None and s[0] != "raise" and not s[1]:
			chk.fail("None adds nullability", "infer/all-none-not-nullable", f"all-None sequence inferred {fmt(s)}")


_DYN = {"int": (int, 7), "str": (str, "x"), "float": (float, 2.5), "date": (date, (2020, 1, 2)), "tuple": (tuple, ((1, 2),)), "bytes": (bytes, b"q"), "object": (object, None)}


def dyn_instance(base):
	"""an instance of a class created at run time: every such class has the same module and qualified name"""
	b, arg = _DYN[base]

	class Code(b):
		pass
	if base == "date":
		return Code(*arg)
	if base == "object":
		return Code()
	if base == "tuple":
		return Code(*arg)
	return Code(arg)


def run_dynclass(chk, spec):
	"""classes created at run time that share one qualified name but derive from different built-ins: the inferred kind must cover each one's
	instances whatever was inferred earlier in this process"""
	chk.judged("seq-subclass", ("dynclass", tuple(spec["bases"])))
	for base in spec["bases"]:
		x = dyn_instance(base)
		for values in ([x], [x, x], [None, x], [x, _DYN[base][1] if base in ("int", "str", "float", "bytes") else x]):
			o = call(infer_dtype, list(values))
			if not o.ok:
				chk.fail("inference does not raise", f"infer/raises/{type(o.exc).__name__}", f"infer_dtype([instance of a run-time subclass of {base}]) raised {o!r}")
				return
			got = sch(o.value)
			for v in values:
				if v is not None and got is not None and not M.belongs(v, got[0]):
					chk.fail("the inferred kind covers every value it was inferred from", "infer/value-does-not-belong/run-time-class",
						f"after inferring run-time classes derived from {spec['bases']!r} in this order: an instance of the subclass of {base} ({v!r}) was inferred {fmt(got)}")
					return
			ov = call(Vector, list(values))
			if ov.ok:
				chk.observe(ov.value, "Vector(run-time-class)")
				msg = M.truthful(list(ov.value._underlying), ov.value.schema())
				if msg:
					chk.fail("the inferred kind covers every value it was inferred from", "infer/value-does-not-belong/run-time-class", f"Vector of run-time subclass of {base} after {spec['bases']!r}: {msg}")
					return


def run_reject(chk, spec):
	"""a rejected assignment stores nothing, so the dtype must still be the one inferred from the (unchanged) values"""
	values = list(spec["values"])
	o = call(Vector, list(values))
	if not o.ok:
		return
	v = o.value
	s0 = sch(v.schema())
	w = call(v.__setitem__, spec["key"] if not isinstance(spec["key"], tuple) else slice(*spec["key"]), list(spec["new"]))
	chk.judged("result-typing", ("reject", tuple(sorted({cls_name(x) for x in values})), tuple(cls_name(x) for x in spec["new"]), w.ok))
	if w.ok:
		chk.counters["reject-was-accepted"] += 1
		return
	if list(v._underlying) != values and not M.same_list(list(v._underlying), values):
		return      # (a partially applied write is C08's subject)
	s1 = sch(v.schema())
	if s1 != s0:
		chk.fail("the dtype depends only on the values held: a rejected assignment stores nothing and must not change it", "infer/dtype-changed-by-rejected-assignment",
			f"Vector({values!r}) was {fmt(s0)}; v[{spec['key']!r}] = {spec['new']!r} raised {w!r} and left the same values typed {fmt(s1)}")


def _promoted(vals, wide):
	d = Vector(list(vals))
	d[0] = wide
	return d


def _object_after_overwrite():
	import warnings
	with warnings.catch_warnings():
		warnings.simplefilter("ignore")
		v = Vector([1, "x", 3])
		v[1] = 2
		return v


def _table_column_after_float():
	t = Table({"a": [1, 2, 3], "b": [4, 5, 6]})
	t[1, "b"] = 2.5
	return t


EXPRS = {
	"to_object() * 2": lambda: Vector([1, 2, 3]).to_object() * 2,
	"to_object() + to_object()": lambda: Vector([1, 2, 3]).to_object() + Vector([1.5, 2.5, 3.5]).to_object(),
	"-to_object()": lambda: -Vector([1, 2, 3]).to_object(),
	"object column levelled by a write, + 1": lambda: _object_after_overwrite() + 1,
	"object column levelled by a write, * 2.5": lambda: _object_after_overwrite() * 2.5,
	"abs(object column levelled by a write)": lambda: abs(_object_after_overwrite()),
	"[1, Fraction, 3] * 2.0": lambda: Vector([1, __import__("fractions").Fraction(1, 2), 3]) * 2.0,
	"nullable to_object() + 1": lambda: Vector([1, None, 3]).to_object() + 1,
	"row of int and float columns * 2": lambda: Table({"a": [1, 2], "b": [1.5, 2.5]})[0] * 2,
	"row of int columns + 1": lambda: Table({"a": [1, 2], "b": [3, 4]})[1] + 1,
	"row of int and str columns (ints only by values)": lambda: Table({"a": [1, 2], "b": ["x", 5]})[1] + 1 if False else Vector([1, 2]) + 1,
	"promoted table column * 2": lambda: _table_column_after_float()["b"] * 2,
	"to_object() == to_object()": lambda: Vector([1, 2]).to_object() == Vector([1, 3]).to_object(),
	"0 + bools": lambda: 0 + Vector([True, False]),
	"False + bools": lambda: False + Vector([True, False, True]),
	"0 + nullable bools": lambda: 0 + Vector([True, None, False]),
	"sum([bools, bools])": lambda: sum([Vector([True, False]), Vector([True, True])]),
	"bools + 0": lambda: Vector([True, False]) + 0,
	"0 * floats": lambda: 0 * Vector([1.5, 2.5]),
	"0 + ints": lambda: 0 + Vector([1, 2]),
	"0.0 + ints": lambda: 0.0 + Vector([1, 2]),
	"1 * bools": lambda: 1 * Vector([True, False]),
	"bools ** 1": lambda: Vector([True, False]) ** 1,
	"abs(int promoted to complex)": lambda: abs(_promoted([1, 2, 3], 3 + 4j)),
	"-(int promoted to complex)": lambda: -_promoted([1, 2, 3], 1j),
	"abs(int promoted to float)": lambda: abs(_promoted([1, -2, 3], -2.5)),
	"+(int promoted to float)": lambda: +_promoted([1, 2], 0.5),
	"abs(float promoted to complex)": lambda: abs(_promoted([1.5, 2.5], 3 + 4j)),
	"(int promoted to float) + 1": lambda: _promoted([1, 2], 0.5) + 1,
	"(int promoted to float) // 1": lambda: _promoted([1, 2], 0.5) // 1,
	"(date promoted to datetime) - timedelta": lambda: _promoted([date(2020, 1, 1), date(2020, 1, 2)], datetime(2020, 1, 1, 5)) - timedelta(hours=1),
	"dates + days with a gap": lambda: Vector([date(2020, 1, 1), date(2020, 1, 2), date(2020, 1, 3)]) + Vector([1, None, 3]),
	"table.date + table.days with a gap": lambda: (lambda t: t["d"] + t["k"])(Table({"d": [date(2020, 1, 1), date(2020, 1, 2)], "k": [None, 2]})),
	"(dates + days with a gap) + 1": lambda: (Vector([date(2020, 1, 1), date(2020, 1, 2)]) + Vector([None, 2])) + 1,
	"nullable dates + days": lambda: Vector([date(2020, 1, 1), None]) + Vector([1, 2]),
	"ints + ints with a gap": lambda: Vector([1, 2, 3]) + Vector([1, None, 3]),
	"ints + floats with a gap": lambda: Vector([1, 2, 3]) * Vector([1.5, None, 3.5]),
	"str predicates over a gap": lambda: Table([Vector(["ab", None, "Cd"]).startswith("a"), Vector(["ab", None, "Cd"]).isalpha(), Vector(["ab", None]).endswith("b")]),
	"Vector(iter([None, 1, 2]))": lambda: Vector(iter([None, 1, 2])),
	"Vector(x for x in [None, 1.5])": lambda: Vector(x for x in [None, 1.5]),
	"Vector(map(..))": lambda: Vector(map(lambda x: x, [None, None, "a"])),
	"Vector(reversed([1, None]))": lambda: Vector(reversed([1, None])),
	"Table({'a': generator})": lambda: Table({"a": (x for x in [None, 2, 3])}),
	"t >> {'b': iterator}": lambda: Table({"a": [1, 2]}) >> {"b": iter([None, 2.5])},
	"Vector(range(3))": lambda: Vector(range(3)),
	"Vector(iter([1, None, True]))": lambda: Vector(iter([1, None, True])),
}


def run_expr(chk, spec):
	"""named expressions whose result must be typed by the inference rule applied to its own values"""
	o = call(EXPRS[spec["name"]])
	if not o.ok:
		chk.skip("expr-raised")
		return
	for label, vec in common.columns_of(spec["name"], o.value):
		vals = list(vec._underlying)
		exp = M.model_infer(vals)
		if exp is None:
			continue
		got = sch(vec.schema())
		chk.judged("result-typing", ("expr", spec["name"], fmt(exp)))
		chk.observe(vec, "expr")
		if got != exp:
			chk.fail("operation results are typed by the inference rule applied to their values", f"result-typing/expr/{spec['name']}/exp={fmt(exp)}/got={fmt(got)}",
				f"{spec['name']}: holds {short(vals, 160)} typed {fmt(got)}, rule says {fmt(exp)}")


def _wider_than_needed(how, vals):
	"""a vector whose declared dtype is wider than its current cells need (all reached through public operations)"""
	v = Vector(list(vals))
	if how == "to_object":
		return v.to_object()
	if how == "was-none":
		v[0] = None
		v[0] = vals[0]
		return v
	if how == "was-float":
		v[0] = 2.5
		v[0] = vals[0]
		return v
	if how == "slice-of-nullable":
		return Vector(list(vals) + [None])[0:len(vals)]
	return v


def run_widen_only(chk, spec):
	"""the promotion rule at the level of vectors: concatenation and assignment give the left / target dtype promoted with the incoming values - never narrower,
	nullability never dropped, and only a None adds nullability"""
	vals, how, op, news = list(spec["values"]), spec["how"], spec["op"], list(spec["new"])
	b = call(_wider_than_needed, how, vals)
	if not b.ok or b.value.schema() is None:
		chk.skip("widen-only-build-refused")
		return
	v = b.value
	s0 = sch(v.schema())
	if op == "lshift-list":
		o = call(lambda: v << list(news))
	elif op == "lshift-vector":
		o = call(lambda: v << Vector(list(news)))
	elif op == "lshift-scalar":
		o = call(lambda: v << news[0])
	elif op == "setitem-slice-vector":
		o = call(lambda: (v.__setitem__(slice(0, len(news)), Vector(list(news))), v)[1])
	elif op == "setitem-slice-nullable-vector":
		src = _wider_than_needed("was-none", news) if all(x is not None for x in news) else Vector(list(news))
		o = call(lambda: (v.__setitem__(slice(0, len(news)), src), v)[1])
	elif op == "lshift-inplace-promoted-vector":
		# the right operand became what it is by in-place writes (its class still says what it was built as)
		placeholders = {int: 7, float: 7, complex: 7.5, str: "z", bool: True, date: date(2000, 1, 1), datetime: date(2000, 1, 1)}
		first = next((x for x in news if x is not None), None)
		ph = placeholders.get(type(first))
		if ph is None:
			chk.skip("widen-only-no-placeholder")
			return
		w = Vector([ph] * len(news))
		wr = call(w.__setitem__, slice(None), list(news))
		if not wr.ok or not M.eq_list(list(w._underlying), list(news)):
			chk.skip("widen-only-inplace-build-refused")
			return
		o = call(lambda: v << w)
	else:
		o = call(lambda: (v.__setitem__(slice(0, len(news)), list(news)), v)[1])
	chk.judged("result-typing", ("widen-only", how, op, fmt(s0), tuple(sorted({cls_name(x) for x in news}))))
	if not o.ok:
		chk.skip("widen-only-op-raised")
		return
	r = o.value
	chk.observe(r, "widen-only")
	s1 = sch(r.schema())
	if s1 is None:
		return
	if not _le(s0[0], s1[0]):
		chk.fail("promoting a dtype with values never narrows it", f"promote/narrows/vector-level/{op}/{how}", f"{how} vector {vals!r} typed {fmt(s0)}; {op} {news!r} gives {fmt(s1)}")
		return
	if s0[1] and not s1[1]:
		chk.fail("promotion never drops nullability", f"promote/drops-nullability/vector-level/{op}/{how}", f"{how} vector {vals!r} typed {fmt(s0)}; {op} {news!r} gives {fmt(s1)}")
		return
	if not s0[1] and s1[1] and not any(x is None for x in news):
		chk.fail("None only adds nullability (a value that is not None never does)", f"promote/nullable-without-none/vector-level/{op}", f"{how} vector {vals!r} typed {fmt(s0)}; {op} {news!r} (no None) gives {fmt(s1)}")
		return
	# the dtype promoted with the incoming values covers every one of them (a None and a wider value arriving in ONE write both count)
	for x in (news[:1] if op == "lshift-scalar" else news):
		if x is None:
			if not s1[1]:
				chk.fail("None adds nullability", f"promote/none-not-recorded/vector-level/{op}", f"{how} vector {vals!r} typed {fmt(s0)}; {op} {news!r} gives {fmt(s1)}")
				return
			continue
		k = M.exact_kind(x)
		k = k[1] if M.is_sub(k) else k
		if not _le(k, s1[0]):
			chk.fail("promoting a dtype with values never narrows it (the result covers the values it was promoted with)", f"promote/result-narrower-than-value/vector-level/{op}/{'with-none' if any(y is None for y in news) else 'no-none'}",
				f"{how} vector {vals!r} typed {fmt(s0)}; {op} {news!r} gives {fmt(s1)}, which does not cover {x!r}")
			return


def run_result(chk, spec):
	"""results of arithmetic / joins / aggregates / CSV are typed by the rule applied to their own values"""
	res = common.build_result(chk, spec)
	if res is None:
		chk.skip("result-op-raised")
		return
	for label, vec in res:
		chk.observe(vec, label)
		vals = list(vec._underlying)
		exp = M.model_infer(vals)
		if exp is None:
			chk.skip("result-without-constrained-values")
			continue
		got = sch(vec.schema())
		chk.judged("result-typing", ("result", spec["op"], label.split("#")[0], fmt(exp)))
		if got != exp:
			chk.fail("operation results are typed by the inference rule applied to their values",
				f"result-typing/{spec['op']}/{label.split('#')[0]}/exp={fmt(exp)}/got={fmt(got)}",
				f"{spec!r}: column {label} holds {short(vals, 200)} typed {fmt(got)}, rule says {fmt(exp)}")

def run_exotic_aggregates(chk, spec):
	"""a mean is not always a float, a sum not always an int: the built-in aggregates of window and aggregate over Decimal, Fraction, complex, bool and mixed
	int / float columns are typed by the inference rule applied to the values they return"""
	import warnings
	from decimal import Decimal
	from fractions import Fraction
	data = {"Decimal": [Decimal("1.5"), Decimal("2.5"), Decimal("4"), Decimal("0.25")], "Fraction": [Fraction(1, 3), Fraction(2, 3), Fraction(5, 7), Fraction(1, 2)], "complex": [1 + 1j, 2 - 1j, 3j, 4 + 0j],
		"bool": [True, False, True, True], "int-float": [1, 2.5, 3, 4.5], "int": [1, 2, 3, 4]}[spec["kind"]]
	vals = list(data)
	if spec["gap"]:
		vals[1] = None
	with warnings.catch_warnings():
		warnings.simplefilter("ignore")
		t = Table({"k": ["a", "b", "a", "b"], "v": vals})
		o = call(lambda: getattr(t, spec["op"])(over="k", **{spec["fn"] + "_over": "v"}))
	if not o.ok:
		chk.skip("exotic-aggregate-raised")
		return
	vec = o.value.cols()[-1]
	chk.observe(vec, f"exotic-aggregate/{spec['op']}")
	out = list(vec._underlying)
	exp = M.model_infer(out)
	chk.judged("result-typing", ("exotic-aggregate", spec["op"], spec["fn"], spec["kind"], spec["gap"]))
	if exp is None:
		chk.skip("result-without-constrained-values")
		return
	got = sch(vec.schema())
	if got != exp:
		chk.fail("operation results are typed by the inference rule applied to their values", f"result-typing/{spec['op']}/{spec['fn']}-of-{spec['kind']}/exp={fmt(exp)}/got={fmt(got)}",
			f"{spec!r}: column {vec.name!r} holds {short(out, 200)} typed {fmt(got)}, rule says {fmt(exp)}")


def run_class_cells(chk, spec):
	"""a cell that is itself a kind class (float, str, datetime) or a DataType is an object like any other: next to values of that kind the vector is <object>, in
	every order"""
	import itertools, warnings
	from datetime import date, datetime
	from ..bind import DataType
	pools = {"int-float-class": [1, float, 2], "float-class-first": [float, 1.5], "str-class": ["a", str], "date-datetime-class": [date(2020, 1, 1), datetime], "int-DataType": [1, DataType(float)], "float-complex-class": [1.5, complex, None], "bool-int-class": [True, int]}
	vals = pools[spec["pool"]]
	outs = {}
	with warnings.catch_warnings():
		warnings.simplefilter("ignore")
		for perm in itertools.permutations(vals):
			a = call(infer_dtype, list(perm))
			b = call(lambda: Vector(list(perm)).schema())
			c = call(lambda: (Vector([perm[0]]) << list(perm[1:])).schema()) if perm[0] is not None else None
			outs[perm] = tuple((sch(o.value) if o.ok else ("raise", type(o.exc).__name__)) if o is not None else None for o in (a, b, c))
	chk.judged("seq-exhaustive", ("class-cells", spec["pool"]))
	kinds = {x for o in outs.values() for x in o if x is not None}
	if any(isinstance(k, tuple) and k and k[0] == "raise" for k in kinds):
		chk.skip("class-cells-raise")
		return
	if len(kinds) > 1 or any(k[0] is not object for k in kinds):
		chk.fail("all orderings of one multiset infer the same schema, and any mixture outside the two chains yields object", f"infer/order-dependent/class-cells/{spec['pool']}", f"{spec!r}: {[([cls_name(x) if not isinstance(x, type) else x.__name__ + '-class' for x in p], o) for p, o in outs.items()][:4]!r}")


def run_empty_container_then_append(chk, spec):
	"""an empty vector built from ANY empty container was never typed: appending to it gives the dtype of the appended values"""
	import warnings
	mk = {"list": lambda: Vector([]), "tuple": lambda: Vector(()), "range(0)": lambda: Vector(range(0)), "range(5, 2)": lambda: Vector(range(5, 2)), "iter": lambda: Vector(iter([])), "generator": lambda: Vector(x for x in []), "dict-keys": lambda: Vector({}.keys()),
		"set": lambda: Vector(set()), "str-split": lambda: Vector("".split()), "table-column": lambda: Table({"id": range(0), "name": []}).cols()[0]}[spec["maker"]]
	new = {"str": ["a"], "none": [None], "bool": [True], "float-none": [2.5, None], "int": [1, 2], "date": [date(2020, 1, 1)]}[spec["new"]]
	with warnings.catch_warnings():
		warnings.simplefilter("ignore")
		e = call(mk)
		if not e.ok or not isinstance(e.value, Vector) or len(e.value):
			chk.skip("empty-container-unavailable")
			return
		o = call(lambda: e.value << list(new))
	chk.judged("result-typing", ("empty-container-then-append", spec["maker"], spec["new"]))
	if not o.ok:
		chk.skip("append-refused")
		return
	vals = list(o.value._underlying)
	exp = M.model_infer(vals)
	if exp is None:
		return
	got = sch(o.value.schema())
	if got != exp:
		chk.fail("operation results are typed by the inference rule applied to their values", f"result-typing/empty-{spec['maker']}-then-append/exp={fmt(exp)}/got={fmt(got)}", f"{spec!r}: holds {short(vals, 100)} typed {fmt(got)}, rule says {fmt(exp)}")


def run_vector_new(chk, spec):
	"""Vector.new(x, n) is typed as the vector of n copies of x is: by the inference rule applied to its values (an IntEnum member is an int, a str subclass instance a str)"""
	import enum, warnings
	from datetime import date, datetime
	class Colour(enum.IntEnum):
		RED = 1
	class Tag(str):
		pass
	class Day(date):
		pass
	import collections
	Pt = collections.namedtuple("Pt", "x y")
	x = {"int-enum": Colour.RED, "str-subclass": Tag("a"), "date-subclass": Day(2020, 1, 1), "namedtuple": Pt(1, 2), "bool": True, "float": 2.5, "none": None, "datetime": datetime(2020, 1, 1, 5), "int": 7}[spec["value"]]
	n = spec["n"]
	with warnings.catch_warnings():
		warnings.simplefilter("ignore")
		a = call(lambda: Vector.new(x, n))
		b = call(lambda: Vector([x] * n))
	chk.judged("result-typing", ("vector-new", spec["value"], n))
	if not a.ok or not b.ok or a.value.schema() is None or b.value.schema() is None:
		chk.skip("vector-new-unavailable")
		return
	if sch(a.value.schema()) != sch(b.value.schema()):
		chk.fail("the dtype depends only on which types occur and on whether None occurs", f"infer/vector-new-differs-from-inference/{spec['value']}", f"{spec!r}: Vector.new(x, {n}) is {fmt(sch(a.value.schema()))}, Vector([x] * {n}) is {fmt(sch(b.value.schema()))}")
		return
	chk.observe(a.value, "vector-new")
	if spec["value"] in ("int-enum", "str-subclass", "date-subclass"):
		plain = {"int-enum": 5, "str-subclass": "b", "date-subclass": date(2021, 2, 3)}[spec["value"]]
		w = call(a.value.__setitem__, 0, plain)
		if not w.ok:
			chk.fail("the dtype depends only on which types occur and on whether None occurs", f"infer/vector-new-refuses-its-own-kind/{spec['value']}", f"{spec!r}: writing {plain!r} into Vector.new({x!r}, {n}) raised {w!r}")


def run_stale_result(chk, spec):
	"""joins, aggregates and window results are typed from the VALUES they hold - not from what an operand's column once held (a None or a wider
	value since overwritten) and not from the declared dtype of a column that has no rows left"""
	import warnings
	n = 4
	ks = [1, 2, 1, 2]
	t = Table({"k": list(ks), "v": [10, 20, 30, 40], "s": ["p", "q", "r", "s"]})
	u = Table({"k2": [1, 2, 3], "z": [7, 8, 9], "w": ["a", "b", "c"]})
	stale = spec["stale"]
	with warnings.catch_warnings():
		warnings.simplefilter("ignore")
		for tab, cname in ((t, "k"), (t, "v"), (u, "k2"), (u, "z")):
			col = tab[cname]
			x0 = col._underlying[0]
			if stale == "was-none":
				col[0] = None
				col[0] = x0
			elif stale == "was-float" and cname in ("v", "z"):
				col[0] = 2.5
				col[0] = x0
			elif stale == "was-complex" and cname in ("v", "z"):
				col[0] = 1j
				col[0] = x0
		if spec["right"] == "emptied-by-mask":
			u = u[[False] * len(u)]
		elif spec["right"] == "emptied-by-slice":
			u = u[0:0]
		elif spec["right"] == "no-match":
			u = u[[False, False, True]]
		op = spec["op"]
		o = call({
			"window": lambda: t.window(over="k", sum_over="v", count_over="s", max_over="v"),
			"window-vector-key": lambda: t.window(over=t["k"], sum_over="v"),
			"aggregate": lambda: t.aggregate(over="k", sum_over="v", min_over="v", count_over="s"),
			"join": lambda: t.join(u, "k", "k2", expect="many_to_one"),
			"inner_join": lambda: t.inner_join(u, "k", "k2", expect="many_to_one"),
			"full_join": lambda: t.full_join(u, "k", "k2", expect="many_to_one"),
			"sort-aggregate": lambda: t.sort_by("v", reverse=True).aggregate(over="k", max_over="v"),
		}[op])
	if not o.ok:
		chk.skip("stale-result-op-raised")
		return
	r = o.value
	for j, vec in enumerate(r.cols()):
		chk.observe(vec, f"stale-result/{op}")
		vals = list(vec._underlying)
		exp = M.model_infer(vals)
		if exp is None and vals and all(x is None for x in vals):
			# nothing but None: the statement leaves the kind to the library, but it is the SAME rule - what inference gives for these values
			ref = call(lambda: Vector(list(vals)).schema())
			exp = sch(ref.value) if ref.ok and ref.value is not None else None
		if exp is None:
			continue
		got = sch(vec.schema())
		chk.judged("result-typing", ("stale-result", op, stale, spec["right"], j, fmt(exp)))
		if got != exp:
			chk.fail("operation results are typed by the inference rule applied to their values", f"result-typing/{op}/after-{stale}/right-{spec['right']}/exp={fmt(exp)}/got={fmt(got)}",
				f"{spec!r}: result column {j} ({vec.name!r}) holds {short(vals, 160)} typed {fmt(got)}, rule says {fmt(exp)}")
			return

class _NoRepr:
	"""a value that cannot be printed"""
	def __repr__(self):
		raise RuntimeError("no repr")


def run_unprintable(chk, spec):
	"""values whose text cannot be produced (an int beyond the int-to-str digit limit, an object whose repr raises) are typed like any other value of
	their class: same schema in every order, and inference does not raise"""
	import itertools, warnings
	pool_ = {"huge": 10 ** 5000, "norepr": _NoRepr(), "str": "a", "float": 1.5, "int": 1, "none": None, "date": date(2020, 1, 1)}
	names = list(spec["names"])
	outs = {}
	with warnings.catch_warnings():
		warnings.simplefilter("ignore")
		for perm in itertools.permutations(names):
			vals = [pool_[nm] for nm in perm]
			a = call(infer_dtype, list(vals))
			b = call(lambda: Vector(list(vals)).schema())
			c = call(lambda: (Vector([vals[0]]) << list(vals[1:])).schema()) if len(vals) > 1 and vals[0] is not None else None
			outs[perm] = tuple((sch(o.value) if o.ok else ("raise", type(o.exc).__name__)) if o is not None else None for o in (a, b, c))
	chk.judged("seq-exhaustive", ("unprintable", tuple(sorted(names))))
	raised = {p: o for p, o in outs.items() if any(isinstance(x, tuple) and x and x[0] == "raise" for x in o)}
	if raised:
		p, o = next(iter(raised.items()))
		chk.fail("inference does not raise", f"infer/raises/unprintable-value/{'+'.join(sorted(names))}", f"values of classes {list(p)!r} in this order: infer_dtype / Vector / << gave {o!r}; other orders: {[(list(q), r) for q, r in outs.items() if q not in raised][:2]!r}")
		return
	firsts = {o[0] for o in outs.values()} | {o[1] for o in outs.values()}
	if len(firsts) > 1:
		chk.fail("all orderings of one multiset infer the same schema", "infer/order-dependent/unprintable-value", f"classes {names!r}: {[(list(q), r) for q, r in outs.items()][:4]!r}")


ROW_TYPING_OPS = {"to_object": lambda r: r.to_object(), "fillna-0": lambda r: r.fillna(0), "copy": lambda r: r.copy(), "lshift-nothing": lambda r: r << [], "lshift-none": lambda r: r << [None], "plus-0": lambda r: r + 0,
	"slice": lambda r: r[0:], "dropna": lambda r: r.dropna(), "isna": lambda r: r.isna(), "cast-float": lambda r: r.cast(float)}


def run_iterated_rows(chk, spec):
	"""the dtype a typing operation gives the i-th row of ONE iteration (a single view moved along the table) depends on that row's values only:
	it equals what the same operation gives a row fetched on its own, whichever rows the loop looked at before"""
	import warnings
	rows = {"none-late": [[1, 2, 3], [4, None, 6], [7, 8, None]], "none-early": [[None, 2, 3], [4, 5, 6], [7, None, 9]], "widening": [[1, 2, 3], [1.5, 2, 3], [1, 2, 1j]],
		"no-none-then-all-none": [[1, 2, 3], [None, None, None], [4, 5, 6]]}[spec["rows"]]
	cols = [list(c) for c in zip(*rows)]
	fn = ROW_TYPING_OPS[spec["op"]]
	with warnings.catch_warnings():
		warnings.simplefilter("ignore")
		t = Table({f"c{j}": col for j, col in enumerate(cols)})
		order = spec["order"]
		got = {}
		if order == "forward":
			for i, row in enumerate(t):
				got[i] = call(fn, row)
		elif order == "every-row-twice":
			for i, row in enumerate(t):
				call(fn, row)
				got[i] = call(fn, row)
		else:
			r = t[0]
			for i in (2, 0, 1):
				got[i] = call(fn, r.set_index(i))
		chk.judged("result-typing", ("iterated-rows", spec["op"], spec["rows"], order))
		for i in sorted(got):
			ref = call(fn, t[i])
			a, b = got[i], ref
			da = (sch(a.value.schema()) if a.ok and isinstance(a.value, Vector) and a.value.schema() is not None else ("raise" if not a.ok else None))
			db = (sch(b.value.schema()) if b.ok and isinstance(b.value, Vector) and b.value.schema() is not None else ("raise" if not b.ok else None))
			if a.ok and isinstance(a.value, Vector):
				chk.observe(a.value, "iterated-row/" + spec["op"])
			if da != db:
				chk.fail("the dtype of a result depends only on the values it was computed from", f"infer/row-of-iteration-typed-by-history/{spec['op']}",
					f"{spec!r}: row {i} = {rows[i]!r} of one iteration gives {fmt(da) if isinstance(da, tuple) else da!r}, the same row fetched alone {fmt(db) if isinstance(db, tuple) else db!r}")
				return


RUNNERS = {"vector_new": run_vector_new, "class_cells": run_class_cells, "empty_container_then_append": run_empty_container_then_append, "exotic_aggregates": run_exotic_aggregates, "iterated_rows": run_iterated_rows, "unprintable": run_unprintable, "stale_result": run_stale_result, "widen_only": run_widen_only, "expr": run_expr, "reject": run_reject, "dynclass": run_dynclass, "seq": run_seq, "vector": run_vector, "step": run_step, "commute": run_commute, "allnone": run_allnone, "result": run_result}


# ------------------------------------------------------------------ driver
def reachable_states():
	states = set()
	frontier = []
	for v in LETTERS + EXTRA_LETTERS:
		o = call(infer_dtype, [v])
		if o.ok:
			frontier.append((o.value.kind, o.value.nullable))
	while frontier:
		s = frontier.pop()
		if s in states:
			continue
		states.add(s)
		for v in LETTERS + EXTRA_LETTERS:
			o = call(DataType(*s).promote_with, v)
			if o.ok:
				t = (o.value.kind, o.value.nullable)
				if t not in states:
					frontier.append(t)
	# also every documented kind in both nullabilities, reachable or not through inference
	for k in (bool, int, float, complex, str, bytes, date, datetime, object, list, tuple, dict, Decimal):
		for n in (False, True):
			states.add((k, n))
	return sorted(states, key=lambda s: (s[0].__name__, s[1]))


def run(chk):
	rng = chk.rng
	maxlen = 4 if chk.quick() else 5
	idx = 0
	for n in range(0, maxlen + 1):
		for seq in itertools.product(LETTERS, repeat=n):
			idx += 1
			if n >= 4 and not chk.mine(idx):
				continue
			if n == 0:
				continue
			chk.case("seq", {"values": list(seq)}, "seq-exhaustive")
	# subclass letters in short sequences
	for n in (2, 3):
		for seq in itertools.product(EXTRA_LETTERS + [None, True, 1, "a", 2.5], repeat=n):
			chk.case("seq", {"values": list(seq), "stratum": "seq-subclass"}, "seq-subclass")
	for bases in itertools.permutations(list(_DYN), 3):
		chk.case("dynclass", {"bases": list(bases)}, "seq-dynclass")
	bad = {"int": ["zz", b"q"], "float": ["zz", [1]], "str": [5, 2.5], "bool": ["zz"], "date": ["zz", 5]}
	okv = {"int": [1, 2, 3], "float": [1.5, 2.5, 0.25], "str": ["a", "b", "c"], "bool": [True, False, True], "date": [date(2020, 1, 2), date(2021, 3, 4), date(1999, 1, 1)]}
	widerv = {"int": 2.5, "float": 1j, "str": None, "bool": 2, "date": datetime(2020, 1, 1, 5)}
	for kind in bad:
		for b in bad[kind]:
			for first in (None, widerv[kind], okv[kind][0]):
				for key in ((0, 2), [0, 1], [1, 2]):
					chk.case("reject", {"values": okv[kind], "key": key, "new": [first, b]}, "reject")
	for name in EXPRS:
		chk.case("expr", {"name": name}, "result-typing-expr")
	for names in (["huge", "str"], ["huge", "float"], ["huge", "int"], ["norepr", "int"], ["norepr", "str", "huge"], ["str", "huge", "none"], ["huge", "date"], ["norepr", "norepr", "int"], ["huge", "str", "float"]):
		chk.case("unprintable", {"names": names}, "seq-unprintable")
	for value in ("int-enum", "str-subclass", "date-subclass", "namedtuple", "bool", "float", "none", "datetime", "int"):
		for n in (1, 3):
			chk.case("vector_new", {"value": value, "n": n}, "result-typing-vector-new")
	for pool_ in ("int-float-class", "float-class-first", "str-class", "date-datetime-class", "int-DataType", "float-complex-class", "bool-int-class"):
		chk.case("class_cells", {"pool": pool_}, "seq-class-cells")
	for maker in ("list", "tuple", "range(0)", "range(5, 2)", "iter", "generator", "dict-keys", "set", "str-split", "table-column"):
		for new in ("str", "none", "bool", "float-none", "int", "date"):
			chk.case("empty_container_then_append", {"maker": maker, "new": new}, "result-typing-empty-then-append")
	for op in ("window", "aggregate"):
		for fn in ("mean", "sum", "min", "max", "stdev", "count"):
			for kind in ("Decimal", "Fraction", "complex", "bool", "int-float", "int"):
				for gap in (False, True):
					chk.case("exotic_aggregates", {"op": op, "fn": fn, "kind": kind, "gap": gap}, "result-typing-exotic-aggregates")
	for op in ROW_TYPING_OPS:
		for rows in ("none-late", "none-early", "widening", "no-none-then-all-none"):
			for order in ("forward", "every-row-twice", "moved-by-hand"):
				chk.case("iterated_rows", {"op": op, "rows": rows, "order": order}, "result-typing-iterated-rows")
	for op in ("window", "window-vector-key", "aggregate", "join", "inner_join", "full_join", "sort-aggregate"):
		for stale in ("none", "was-none", "was-float", "was-complex"):
			for right in (("full", "emptied-by-mask", "emptied-by-slice", "no-match") if "join" in op else ("full",)):
				chk.case("stale_result", {"op": op, "stale": stale, "right": right}, "result-typing-stale")
	for vals, news_list in (([1, 2, 3], [[4], [4, 5], [None], [2.5], [2.5, None], [None, 2.5], [None, 1j]]), ([1.5, 2.5], [[3.5], [3], [None], [1j, None], [None, 1j]]), (["a", "b"], [["c"], [None]]), ([True, False], [[True], [1]]), ([date(2020, 1, 1), date(2020, 1, 2)], [[date(2021, 1, 1)], [datetime(2020, 1, 1, 5)], [datetime(2020, 1, 1, 5), None], [None, datetime(2020, 1, 1, 5)]])):
		for how in ("plain", "to_object", "was-none", "was-float", "slice-of-nullable"):
			if how == "was-float" and not isinstance(vals[0], int) or isinstance(vals[0], bool) and how == "was-float":
				continue
			for op in ("lshift-list", "lshift-vector", "lshift-scalar", "setitem-slice-list", "setitem-slice-vector", "setitem-slice-nullable-vector", "lshift-inplace-promoted-vector"):
				for news in news_list:
					chk.case("widen_only", {"values": vals, "how": how, "op": op, "new": news}, "widen-only")
	# CSV columns in which a float equals an int seen earlier (2 and 2.0, 0 and -0.0, 1000 and 1e3): the kinds that occur decide, not the distinct values
	for cells in (["2", "3", "2.0"], ["2.0", "3", "2"], ["0", "-0.0"], ["1000", "1e3", "5"], ["1", "1.", ""], ["7", "7.0", "7"], ["-0.0", "0"]):
		for via in ("fileobj", "path"):
			chk.case("result", {"op": "csv", "header": ["a"], "grid": [[c] for c in cells], "delimiter": ",", "has_header": True, "ncols": 1, "via": via, "pattern": "equal-values"}, "result-typing-csv-equal-values")
	states = reachable_states()
	chk.counters["automaton_states"] = len(states)
	allv = LETTERS + EXTRA_LETTERS
	for (k, nl) in states:
		for a in allv:
			chk.case("step", {"kind": k, "nullable": nl, "value": a}, "automaton-step")
			for b in allv:
				chk.case("commute", {"kind": k, "nullable": nl, "a": a, "b": b}, "automaton-commute")
	chk.case("allnone", {"lengths": [1, 2, 3, 5, 8, 13]}, "allnone-length")
	# sampled longer multisets through Vector()
	nsamp = 300 if chk.quick() else 1500
	pool = [k for k in V.SAMPLES]
	for _ in range(nsamp):
		n = rng.randint(5, 12)
		mode = rng.random()
		if mode < 0.4:
			ks = rng.sample(["bool", "int", "float", "complex"], rng.randint(1, 3))
		elif mode < 0.55:
			ks = ["date", "datetime"]
		elif mode < 0.8:
			ks = [rng.choice(pool)]
		else:
			ks = rng.sample(pool, 2)
		vals = [V.pick(rng, rng.choice(ks)) for _ in range(n)]
		for i in range(n):
			if rng.random() < 0.25:
				vals[i] = None
		if rng.random() < 0.5:
			vals[0] = None
		if all(isinstance(x, Vector) for x in vals):
			continue
		perms = [list(range(n))] + [rng.sample(range(n), n) for _ in range(5)]
		chk.case("vector", {"values": vals, "perms": perms}, "vector-sampled")
	# result typing: the whole operator x form x kind-pair product of the arithmetic check, then sampled joins / aggregates / CSV
	from . import c05
	for spec in c05.product_specs(chk):
		chk.case("result", spec, "result-typing-arith")
	nres = 600 if chk.quick() else 4000
	for _ in range(nres):
		chk.case("result", common.gen_result_spec(rng), "result-typing")
	for _ in range(25 if chk.quick() else 200):
		chk.case("result", common.gen_csv_long(rng), "result-typing-long-csv")
