"""C07 - masks and indexing follow Python sequence semantics and compose."""
import itertools

from ..bind import Vector, Table
from ..core import call, short
from .. import models as M
from .. import values as V
from . import common
from .common import do_arith, CMP_OPS, LOG_OPS, ARITH_VALUES
from .c06 import cmp_expected

from . import recompute

RULE = ("[plus the shared recompute-after-history monitor: this property's operations evaluated on long-lived objects between in-place writes / renames must equal the same operations on fresh objects rebuilt from the current contents] "
	"exhaustive: every slice with start, stop in {None, -7..7} and step in {None, +-1, +-2, +-3, +-7} on vectors of length 0-5, every "
	"integer index -7..7, every boolean mask of length n and n+-1 for n<=5 (as Vector and as list) are applied to the real Vector and "
	"compared with the same operation on list(v), including name and dtype kind; comparisons / logical operators over dtype pairs must give "
	"non-nullable bool vectors equal to Python's elementwise comparison; tables of 0-4 rows x 1-4 columns: row slices and masks apply to "
	"every column alike, missing column names raise, t[rows][cols] == t[cols][rows] in cells and names. distinct = (operation, length, key).")
ASSUMPTIONS = [
	"index-list getitem is not part of the statement and is not judged; the two-axis form t[rows, cols] is judged for row slices only",
	"masks that are nullable or contain None may be rejected; zero-length masks are not generated",
	"a column name counts as missing only when it matches no stored name, sanitised name or accessor",
	"zero-row results are compared on names only when both sides carry columns",
]
EXHAUSTIVE = {"flag": True, "scope": "all slices / indices / masks in the stated ranges on lengths 0..5 (element values sampled)"}
ANCHOR_FUNCS = ["vector:Vector.__getitem__", "vector:Vector._elementwise_compare", "table:Table.__getitem__", "vector:Vector.copy"]
REQUIRED_STRATA = {"rows-held": 100, "recompute": 200, "slice": 10000, "index": 60, "mask": 200, "compare": 300, "table-rows": 200, "table-commute": 200, "table-missing": 20}

STARTS = [None] + list(range(-7, 8))
STEPS = [None, 1, -1, 2, -2, 3, -3, 7, -7]


def mkvec(spec):
	return Vector(list(spec["values"]), name=spec.get("name"))


def kind_of(v):
	s = v.schema()
	return None if s is None else s.kind


class _Pos(int):
	"""an int subclass (like an IntEnum member): a list takes it as an index"""


def run_index(chk, spec):
	vals, i = spec["values"], spec["i"]
	if spec.get("as") == "int-subclass":
		i = _Pos(i)
	elif spec.get("as") == "bool" and i in (0, 1):
		i = bool(i)
	elif spec.get("as") == "intenum":
		import enum
		i = enum.IntEnum("Pos", {"P": i}).P if i != 0 else enum.IntEnum("Pos", {"Z": 0}).Z
	v = mkvec(spec)
	o = call(lambda: v[i])
	chk.judged("index", ("index", len(vals), i))
	try:
		exp = vals[i]
	except IndexError:
		if o.ok:
			chk.fail("an out-of-range index raises", "index/out-of-range-accepted", f"Vector({vals!r})[{i}] returned {o.value!r}")
		return
	if not o.ok:
		chk.fail("v[i] is the i-th element", f"index/raises/{type(o.exc).__name__}", f"Vector({vals!r})[{i}] raised {o!r}")
	elif not M.same(o.value, exp):
		chk.fail("v[i] is the i-th element", "index/wrong-element", f"Vector({vals!r})[{i}] = {o.value!r}, list gives {exp!r}")


def check_selection(chk, what, tag, v, r, exp, spec):
	"""r = v[key] must hold exp, keep name and dtype kind"""
	if not isinstance(r, Vector) or isinstance(r, Table):
		chk.fail(f"{what} returns a vector", f"{tag}/not-a-vector", f"{spec!r} -> {type(r).__name__}")
		return
	got = list(r._underlying)
	if not M.same_list(got, exp):
		cls = "expected-empty-got-nonempty" if not exp and got else ("expected-nonempty-got-empty" if exp and not got else "wrong-elements")
		chk.fail(f"{what} equals the list operation", f"{tag}/{cls}", f"{spec!r}: serif {short(got, 120)} vs list {short(exp, 120)}")
		return
	if r.name != v.name:
		chk.fail(f"{what} keeps the name", f"{tag}/name-lost", f"{spec!r}: name {r.name!r} vs {v.name!r}")
	if kind_of(v) is not None and kind_of(r) is not kind_of(v):
		chk.fail(f"{what} keeps the dtype kind", f"{tag}/kind-changed/{'empty' if not exp else 'nonempty'}", f"{spec!r}: kind {kind_of(r)} vs {kind_of(v)}")
	if r is v:
		chk.fail(f"{what} returns a new vector", f"{tag}/returns-self", f"{spec!r}")


def run_slice(chk, spec):
	vals = spec["values"]
	s = slice(*spec["s"])
	v = mkvec(spec)
	o = call(lambda: v[s])
	chk.judged("slice", ("slice", len(vals), spec["s"]))
	exp = vals[s]
	if not o.ok:
		chk.fail("v[slice] equals list slicing", f"slice/raises/{type(o.exc).__name__}", f"Vector({vals!r})[{s}] raised {o!r}")
		return
	chk.observe(o.value, "slice")
	check_selection(chk, "v[slice]", "slice", v, o.value, exp, {"values": vals, "slice": spec["s"]})


def run_mask(chk, spec):
	vals, bits, how = spec["values"], spec["mask"], spec["as"]
	v = mkvec(spec)
	key = Vector(list(bits)) if how == "vector" else list(bits)
	o = call(lambda: v[key])
	chk.judged("mask", ("mask", len(vals), tuple(bits), how))
	if len(bits) != len(vals):
		if o.ok:
			chk.fail("a mask of the wrong length raises", f"mask/wrong-length-accepted/{how}/{'longer' if len(bits) > len(vals) else 'shorter'}",
				f"Vector({vals!r})[{bits!r} as {how}] returned {short(list(o.value), 100)}")
		return
	exp = [x for x, m in zip(vals, bits) if m]
	if not o.ok:
		chk.fail("v[mask] keeps the True positions", f"mask/raises/{how}/{type(o.exc).__name__}", f"Vector({vals!r})[{bits!r} as {how}] raised {o!r}")
		return
	chk.observe(o.value, "mask")
	check_selection(chk, "v[mask]", f"mask/{how}", v, o.value, exp, {"values": vals, "mask": bits, "as": how})


def run_compare(chk, spec):
	exp = cmp_expected(spec)
	a, b = spec["a"], spec["b"]
	if exp is None:
		if spec["form"] in ("vv", "vl", "lv") and isinstance(b, list) and len(a) != len(b):
			o = do_arith(spec)
			chk.judged("compare", ("cmp-len", spec["opname"], spec["form"]))
			if o.ok:
				chk.fail("comparing different lengths raises", f"compare/length-mismatch-accepted/{spec['form']}", f"{spec!r} returned {short(list(o.value), 100)}")
			return
		chk.skip("compare-python-undefined")
		return
	o = do_arith(spec)
	chk.judged("compare", ("cmp", spec["opname"], spec["form"], spec.get("ka"), spec.get("kb"), len(a)))
	tag = f"{spec['opname']}/{spec['form']}"
	if not o.ok:
		chk.fail("comparison is computed elementwise by Python's comparison", f"compare/raises/{tag}/{type(o.exc).__name__}", f"{spec!r}: expected {exp} but raised {o!r}")
		return
	r = o.value
	chk.observe(r, "compare")
	if not isinstance(r, Vector) or isinstance(r, Table):
		chk.fail("comparison returns a vector", f"compare/not-a-vector/{tag}", f"{spec!r} -> {type(r).__name__}")
		return
	got = list(r._underlying)
	if not M.same_list(got, exp):
		chk.fail("comparison is computed elementwise by Python's comparison (False at None)", f"compare/value/{tag}", f"{spec!r}: serif {got} vs python {exp}")
		return
	sch = r.schema()
	if sch is None or sch.kind is not bool or sch.nullable:
		chk.fail("comparison result is a non-nullable bool vector", f"compare/schema/{tag}", f"{spec!r}: schema {sch!r}")


def rows_key(rows):
	if rows[0] == "slice":
		return slice(*rows[1])
	bits = list(rows[1])
	return Vector(bits) if rows[2] == "vector" else bits


def apply_rows_model(col, rows):
	if rows[0] == "slice":
		return col[slice(*rows[1])]
	return [x for x, m in zip(col, rows[1]) if m]


def table_cells(t):
	return [list(c._underlying) for c in t._underlying]


def run_table_rows(chk, spec):
	ts, rows = spec["table"], spec["rows"]
	t = common.mk_table(ts)
	n = len(ts["cols"][0])
	o = call(lambda: t[rows_key(rows)])
	chk.judged("table-rows", ("trows", n, len(ts["cols"]), rows[0], rows[1] if rows[0] == "slice" else tuple(rows[1])))
	if rows[0] == "mask" and len(rows[1]) != n:
		if o.ok:
			chk.fail("a row mask of the wrong length raises", f"table-rows/wrong-length-mask-accepted/{rows[2]}", f"{spec!r} -> {short(o.value, 120)}")
		return
	exp = [apply_rows_model(c, rows) for c in ts["cols"]]
	if not o.ok:
		chk.fail("row selection applies to every column", f"table-rows/raises/{rows[0]}/{type(o.exc).__name__}", f"{spec!r} raised {o!r}")
		return
	r = o.value
	chk.observe(r, "table-rows")
	nexp = len(exp[0])
	if not isinstance(r, Table):
		chk.fail("row selection returns a table", f"table-rows/not-a-table/{rows[0]}/{'empty' if nexp == 0 else 'nonempty'}", f"{spec!r} -> {type(r).__name__} {short(r, 100)}")
		return
	got = table_cells(r)
	if nexp == 0 and len(r) == 0 and len(got) in (0, len(exp)):
		pass   # zero rows: columns optional
	elif len(got) != len(exp) or any(not M.same_list(g, e) for g, e in zip(got, exp)):
		cls = "expected-empty-got-nonempty" if nexp == 0 and len(r) else "wrong-cells"
		chk.fail("the same row selection is applied to every column", f"table-rows/{cls}/{rows[0]}", f"{spec!r}: serif {short(got, 160)} vs {short(exp, 160)}")
		return
	if got and r.column_names() != ts["names"]:
		chk.fail("row selection keeps the column names", f"table-rows/names/{rows[0]}", f"{spec!r}: names {r.column_names()!r}")


def run_table_commute(chk, spec):
	ts, rows, cols = spec["table"], spec["rows"], tuple(spec["cols"])
	t = common.mk_table(ts)
	a = call(lambda: t[rows_key(rows)][cols])
	b = call(lambda: t[cols][rows_key(rows)])
	chk.judged("table-commute", ("commute", len(ts["cols"][0]), len(ts["cols"]), rows[0], len(cols)))
	# model: first occurrence of each requested stored name, then the row selection
	exp_cols = []
	for nm in cols:
		exp_cols.append(apply_rows_model(ts["cols"][ts["names"].index(nm)], rows))
	for label, o in (("rows-then-cols", a), ("cols-then-rows", b)):
		if not o.ok:
			chk.fail("row and column selection compose", f"table-commute/raises/{label}/{type(o.exc).__name__}", f"{spec!r}: {label} raised {o!r}")
			return
		chk.observe(o.value, "table-commute")
		if not isinstance(o.value, Table):
			chk.fail("composed selection returns a table", f"table-commute/not-a-table/{label}", f"{spec!r}: {label} -> {type(o.value).__name__}")
			return
	ca, cb = table_cells(a.value), table_cells(b.value)
	nexp = len(exp_cols[0]) if exp_cols else 0
	if nexp == 0 and len(a.value) == 0 and len(b.value) == 0:
		if ca and cb and a.value.column_names() != b.value.column_names():
			chk.fail("t[rows][cols] equals t[cols][rows] (names)", "table-commute/names-differ/empty", f"{spec!r}: {a.value.column_names()} vs {b.value.column_names()}")
		return
	if len(ca) != len(cb) or any(not M.same_list(x, y) for x, y in zip(ca, cb)):
		chk.fail("t[rows][cols] equals t[cols][rows] (cells)", "table-commute/cells-differ", f"{spec!r}: {short(ca, 160)} vs {short(cb, 160)}")
		return
	if len(ca) != len(exp_cols) or any(not M.same_list(x, y) for x, y in zip(ca, exp_cols)):
		chk.fail("composed selection equals the list model", "table-commute/model-mismatch", f"{spec!r}: {short(ca, 160)} vs model {short(exp_cols, 160)}")
		return
	if a.value.column_names() != b.value.column_names() or a.value.column_names() != list(cols):
		chk.fail("t[rows][cols] equals t[cols][rows] (names)", "table-commute/names-differ", f"{spec!r}: {a.value.column_names()} vs {b.value.column_names()} (requested {cols})")


def run_table_missing(chk, spec):
	ts, cols = spec["table"], spec["cols"]
	t = common.mk_table(ts)
	ren = spec.get("rename")
	if ren:
		# the requested (missing) name is the OLD name of a column renamed just before: it no longer exists
		if ren.get("touch_first"):
			call(lambda: getattr(t, ren["accessor"]))
		if ren["via"] == "view":
			o = call(lambda: setattr(t[ren["old"]], "name", ren["new"]))
		elif ren["via"] == "rename_column":
			o = call(lambda: t.rename_column(ren["old"], ren["new"]))
		else:
			o = call(lambda: t.rename_columns([ren["old"]], [ren["new"]]))
		if not o.ok or t.column_names().count(ren["old"]) != 0:
			chk.skip("missing-rename-not-applied")
			return
	key = cols[0] if spec["single"] else tuple(cols)
	o = call(lambda: t[key])
	chk.judged("table-missing", ("missing", len(cols), spec["single"], spec["pos"], (ren or {}).get("via"), (ren or {}).get("touch_first")))
	if o.ok:
		chk.fail("a requested column that does not exist is an error", f"table-missing/accepted/{'single' if spec['single'] else 'tuple'}" + ("/after-rename-" + ren["via"] if ren else ""),
			f"{spec!r} returned {short(o.value, 160)} (names {o.value.column_names() if isinstance(o.value, Table) else None})")


RUNNERS = {"index": run_index, "slice": run_slice, "mask": run_mask, "compare": run_compare, "table_rows": run_table_rows,
	"table_commute": run_table_commute, "table_missing": run_table_missing}
RUNNERS["recompute"] = recompute.runner("C07")

CMP_PAIRS = [("int", "int"), ("int", "float"), ("float", "int"), ("bool", "int"), ("float", "float"), ("str", "str"), ("date", "date"),
	("datetime", "datetime"), ("bytes", "bytes"), ("complex", "complex"), ("int", "str"), ("bool", "bool"), ("timedelta", "timedelta"), ("tuple", "tuple")]


def gen_table(rng, nrows=None, ncols=None):
	nrows = rng.choice([0, 1, 2, 3, 4]) if nrows is None else nrows
	ncols = rng.choice([1, 2, 3, 4]) if ncols is None else ncols
	pool = ["a", "b", "c", "d"]
	names = pool[:ncols]
	if ncols > 1 and rng.random() < 0.3:
		names[rng.randrange(1, ncols)] = names[0]
	cols = [V.column(rng, rng.choice(["int", "float", "str", "bool", "date"]), nrows, rng.choice(["none", "none", "low", "high"]), small=True) for _ in range(ncols)]
	return {"names": names, "cols": cols}


def gen_rows(rng, n, allow_wrong=False):
	if rng.random() < 0.55 or n == 0:
		return ("slice", (rng.choice(STARTS), rng.choice(STARTS), rng.choice(STEPS)))
	m = n
	if allow_wrong and rng.random() < 0.2:
		m = n + rng.choice([1, -1]) if n > 1 else n + 1
	bits = [rng.random() < 0.5 for _ in range(m)]
	return ("mask", bits, rng.choice(["vector", "list"]))


def run_rows_held(chk, spec):
	"""t[i] is the i-th row: several rows obtained one after the other and read afterwards (after further reads of the table) are still their rows"""
	ts = spec["table"]
	t = Table([Vector(list(c), name=n) for c, n in zip(ts["cols"], ts["names"])])
	n = len(ts["cols"][0])
	model = [tuple(c[i] for c in ts["cols"]) for i in range(n)]
	idxs = spec["idxs"]
	o = call(lambda: [t[i] for i in idxs])
	chk.judged("rows-held", ("rows-held", n, len(idxs), spec["touch"]))
	if not o.ok:
		chk.fail("t[i] is the i-th row", f"row-index/raises/{type(o.exc).__name__}", f"{spec!r} raised {o!r}")
		return
	rows = o.value
	if spec["touch"] == "shape":
		t.shape
	elif spec["touch"] == "cell":
		t[0, 0]
	elif spec["touch"] == "iterate":
		for _ in t:
			pass
	elif spec["touch"] == "other-row":
		t[(idxs[0] + 1) % n]
	for i, r in zip(idxs, rows):
		got = tuple(r)
		if not M.same_list(got, model[i]):
			chk.fail("t[i] is the i-th row (also when it is read after other rows were obtained)", f"row-index/held-row-changed/{spec['touch']}",
				f"{spec!r}: the row obtained as t[{i}] now reads {got!r}, the table's row {i} is {model[i]!r}")
			return


def nullable_none_free(vals, how):
	"""a vector that holds no None at the moment but whose dtype is nullable"""
	if how == "was-none":
		v = Vector(list(vals))
		v[0] = None
		v[0] = vals[0]
		return v
	if how == "slice":
		return Vector(list(vals) + [None])[0:len(vals)]
	if how == "mask":
		w = Vector(list(vals) + [None])
		return w[[True] * len(vals) + [False]]
	return Vector(list(vals))


def run_compare_history(chk, spec):
	"""compare, store a None (or overwrite one), compare again: every comparison is Python's on the values held at that moment"""
	vals = list(spec["values"])
	v = call(nullable_none_free, vals, spec["how"])
	if not v.ok or not M.same_list(list(v.value._underlying), vals):
		chk.skip("compare-history-build-refused")
		return
	v = v.value
	other = spec["other"]
	chk.judged("compare", ("cmp-history", spec["how"], spec["opname"], type(other).__name__, tuple(spec["writes"])))
	cur = list(vals)
	for step, (pos, val) in enumerate([(None, None)] + [tuple(w) for w in spec["writes"]]):
		if pos is not None:
			kind_before = v.schema().kind if v.schema() is not None else None
			w = call(v.__setitem__, pos, val)
			if not w.ok:
				chk.skip("compare-history-write-refused")
				return
			cur[pos] = val
			kind_now = v.schema().kind if v.schema() is not None else None
			if kind_now is not kind_before:
				cur = [M.widen(x, kind_now) for x in cur]      # a promoting write converts the elements already stored (a later narrower value is stored as given)
		others = other if isinstance(other, list) else [other]
		if any(isinstance(x, V.date) and isinstance(y, V.date) and isinstance(x, V.datetime) != isinstance(y, V.datetime) for x in cur for y in others):
			continue      # date against datetime is serif's own midnight rule (C06 judges it metamorphically), not Python's comparison
		for opname in (spec["opname"], "ne"):
			form = "vl" if isinstance(other, list) else "vs"
			exp = cmp_expected({"opname": opname, "form": form, "a": cur, "b": other})
			if exp is None:
				continue
			op = CMP_OPS[opname]
			o = call(lambda: op(v, Vector(list(other)) if isinstance(other, list) else other))
			if not o.ok:
				chk.fail("comparison is computed elementwise by Python's comparison (False at None)", f"compare/raises-after-writes/{opname}/{type(o.exc).__name__}",
					f"{spec!r}: after {step} writes the vector holds {cur!r}; {opname} raised {o!r}, expected {exp}")
				return
			got = list(o.value._underlying)
			if not M.same_list(got, exp):
				chk.fail("comparison is computed elementwise by Python's comparison (False at None)", f"compare/value-after-writes/{opname}",
					f"{spec!r}: after {step} writes the vector holds {cur!r}; {opname} gave {got}, python {exp}")
				return


def run_bigmask(chk, spec):
	"""more than 1000 elements, masks with 0 / 1 / 2 / many True positions"""
	n, kind, true_at, how = spec["n"], spec["kind"], spec["true_at"], spec["as"]
	gen = {"int": lambda i: i * 7 % 1013, "str": lambda i: f"s{i % 97}", "float": lambda i: i / 4.0, "date": lambda i: V.D0.replace(day=1 + i % 28)}[kind]
	vals = [gen(i) for i in range(n)]
	bits = [False] * n
	for k in true_at:
		bits[k % n] = True
	exp = [x for x, m in zip(vals, bits) if m]
	chk.judged("mask", ("bigmask", n > 1000, kind, min(len(true_at), 3), how, spec["target"]))
	if spec["target"] == "vector":
		v = Vector(list(vals), name="nm")
		o = call(lambda: v[Vector(list(bits)) if how == "vector" else list(bits)])
		if not o.ok:
			chk.fail("v[mask] keeps the True positions", f"mask/raises/{how}/{type(o.exc).__name__}", f"{n}-element {kind} vector, mask True at {true_at!r} ({how}) raised {o!r}")
			return
		check_selection(chk, "v[mask]", f"mask/{how}", v, o.value, exp, {"n": n, "kind": kind, "true_at": true_at, "as": how})
	else:
		t = Table([Vector(list(vals), name="a"), Vector(list(range(n)), name="id")])
		o = call(lambda: t[Vector(list(bits)) if how == "vector" else list(bits)])
		if not o.ok:
			chk.fail("a row mask keeps the True rows of every column", f"table-rows/raises/mask/{type(o.exc).__name__}", f"{n}-row table, mask True at {true_at!r} ({how}) raised {o!r}")
			return
		r = o.value
		cells = [list(c._underlying) for c in r._underlying] if isinstance(r, Table) else None
		ids = [i for i, m in enumerate(bits) if m]
		if cells is None or (exp and (len(cells) != 2 or not M.same_list(cells[0], exp) or not M.same_list(cells[1], ids))):
			chk.fail("a row mask keeps the True rows of every column", "table-rows/wrong-cells/mask", f"{n}-row table, mask True at {true_at!r} ({how}): {short(cells, 160)} vs {short([exp, ids], 160)}")


def run_table_2d(chk, spec):
	"""the two-axis form t[rows, cols] / t[cols, rows] with a row slice: the same cells as t[rows][cols]"""
	ts = spec["table"]
	t = common.mk_table(ts)
	s = slice(*spec["s"])
	form, cols = spec["colform"], spec["cols"]
	names = ts["names"]
	if form == "name":
		ckey, idxs, single = names[cols[0]], [names.index(names[cols[0]])], True
	elif form == "int":
		ckey, idxs, single = cols[0], [cols[0]], True
	elif form == "names":
		ckey, idxs, single = tuple(names[c] for c in cols), [names.index(names[c]) for c in cols], False
	else:
		cs = slice(*cols)
		ckey, idxs, single = cs, list(range(len(names)))[cs], False
	key = (s, ckey) if spec["order"] == "rows-first" or not isinstance(ckey, str) else (ckey, s)
	exp = [ts["cols"][i][s] for i in idxs]
	o = call(lambda: t[key])
	chk.judged("table-commute", ("t2d", len(ts["cols"][0]), spec["s"], form, spec["order"]))
	if not o.ok:
		chk.fail("t[rows, cols] selects the same cells as t[rows][cols]", f"table-2d/raises/{form}/{type(o.exc).__name__}", f"{spec!r}: t[{key!r}] raised {o!r}; expected {short(exp, 120)}")
		return
	r = o.value
	chk.observe(r, "table-2d")
	if single:
		got = [list(r._underlying)] if isinstance(r, Vector) and not isinstance(r, Table) else None
	else:
		got = table_cells(r) if isinstance(r, Table) else None
	nexp = len(exp[0]) if exp else 0
	if got is None:
		if nexp == 0 and isinstance(r, Vector) and len(r) == 0:
			return
		chk.fail("t[rows, cols] selects the same cells as t[rows][cols]", f"table-2d/wrong-type/{form}", f"{spec!r}: t[{key!r}] -> {type(r).__name__} {short(r, 100)}")
		return
	if nexp == 0 and all(len(g) == 0 for g in got):
		return
	if len(got) != len(exp) or any(not M.same_list(g, e) for g, e in zip(got, exp)):
		cls = "expected-nonempty-got-empty" if nexp and all(len(g) == 0 for g in got) else "wrong-cells"
		chk.fail("t[rows, cols] selects the same cells as t[rows][cols]", f"table-2d/{cls}/{form}", f"{spec!r}: t[{key!r}] gives {short(got, 160)}, list model {short(exp, 160)}")


def run_empty_selection(chk, spec):
	"""a selection that keeps nothing is still a vector of its own carrying its SOURCE's name and kind: select nothing, rename / alias the result, select
	nothing again (from the same vector and from an equal one)"""
	vals, how = spec["values"], spec["how"]
	n = len(vals)

	def empty_of(v):
		if how == "mask":
			return v[[False] * n]
		if how == "mask-vector":
			return v[Vector([False] * n)]
		if how == "slice":
			return v[n + 2:n + 5]
		return v[1:1]
	v = Vector(list(vals), name=spec["name"])
	first = call(empty_of, v)
	chk.judged("mask", ("empty-selection", how, spec["rename"], kind_of(v).__name__ if kind_of(v) else None))
	if not first.ok or not isinstance(first.value, Vector):
		chk.skip("empty-selection-raised")
		return
	e1 = first.value
	if spec["rename"] == "name":
		call(lambda: setattr(e1, "name", "scratch"))
	elif spec["rename"] == "alias":
		call(lambda: e1.alias("scratch"))
	for label, src in (("same-vector", v), ("equal-vector", Vector(list(vals), name=spec["name"]))):
		o = call(empty_of, src)
		if not o.ok:
			chk.fail("v[mask] / v[slice] that keep nothing return an empty vector", f"mask/empty-selection/raises/{type(o.exc).__name__}", f"{spec!r}: second empty selection ({label}) raised {o!r}")
			return
		check_selection(chk, "an empty selection", f"mask/empty-selection/{label}", src, o.value, [], spec)
		if o.value is e1:
			chk.fail("a selection returns a new vector", f"mask/empty-selection/{label}/same-object-as-an-earlier-result", f"{spec!r}")
			return


def run_none_scalar(chk, spec):
	"""== and != against the scalar None are Python's own comparison elementwise (x != None is True for every value), False where the element is None"""
	vals = spec["values"]
	v = Vector(list(vals))
	chk.judged("compare", ("none-scalar", spec["opname"], kind_of(v).__name__ if kind_of(v) else None, len(vals)))
	op = CMP_OPS[spec["opname"]]
	import warnings
	with warnings.catch_warnings():
		warnings.simplefilter("ignore")
		o = call(lambda: op(v, None) if spec["form"] == "vs" else op(None, v))
	exp = [False if x is None else bool(op(x, None)) for x in vals]
	if not o.ok:
		chk.fail("comparison is computed elementwise by Python's comparison (False at None)", f"compare/raises/{spec['opname']}/none-scalar/{type(o.exc).__name__}", f"Vector({vals!r}) {spec['opname']} None raised {o!r}; expected {exp}")
		return
	got = list(o.value._underlying) if isinstance(o.value, Vector) else o.value
	if got != exp:
		chk.fail("comparison is computed elementwise by Python's comparison (False at None)", f"compare/value/{spec['opname']}/none-scalar", f"Vector({vals!r}) {spec['opname']} None gave {got!r}, Python elementwise gives {exp}")
		return
	if spec["opname"] == "ne":
		sel = call(lambda: v[o.value])
		if sel.ok and not M.same_list(list(sel.value._underlying), [x for x in vals if x is not None]):
			chk.fail("v[mask] keeps exactly the positions where the mask is True", "mask/none-scalar-mask/wrong-elements", f"Vector({vals!r})[v != None] = {list(sel.value)!r}")


def run_label_select(chk, spec):
	"""columns whose labels are not strings are selected by the sanitised spelling of THEIR label, whatever was sanitised earlier in the process"""
	lab = {"1": 1, "True": True, "1.0": 1.0, "0": 0, "False": False, "2023": 2023}
	sp = {"1": "c1", "True": "true", "1.0": "c1_0", "0": "c0", "False": "false", "2023": "c2023"}
	for first in spec["order"]:
		t0 = Table([Vector([9, 9], name=lab[first])])
		call(lambda: t0[sp[first]])
		call(dir, t0)
	labels = spec["labels"]
	t = Table([Vector([10 * j, 10 * j + 1], name=lab[x]) for j, x in enumerate(labels)])
	chk.judged("table-missing", ("label-select", tuple(labels), tuple(spec["order"])))
	for j, x in enumerate(labels):
		for form in ("str", "row"):      # (the tuple form of selection takes stored names only)
			o = call(lambda: t[sp[x]] if form == "str" else t[1][sp[x]])
			if not o.ok:
				chk.fail("a requested column that exists is found (by the sanitised spelling of its own label)", f"table-select/label-spelling/raises/{form}/{type(o.exc).__name__}", f"{spec!r}: label {lab[x]!r} requested as {sp[x]!r} ({form}) raised {o!r}")
				return
			val = o.value if form == "row" else list(o.value._underlying)[1]
			if val != 10 * j + 1:
				chk.fail("a requested column that exists is found (by the sanitised spelling of its own label)", f"table-select/label-spelling/wrong-column/{form}", f"{spec!r}: label {lab[x]!r} requested as {sp[x]!r} ({form}) gave the column holding {val!r}")
				return


RUNNERS.update({"none_scalar": run_none_scalar, "label_select": run_label_select, "empty_selection": run_empty_selection, "table_2d": run_table_2d, "rows_held": run_rows_held, "compare_history": run_compare_history, "bigmask": run_bigmask})

def run_table_index(chk, spec):
	# t[i] follows Python sequence semantics too: the i-th row for -n <= i < n, IndexError otherwise - at the indexing, not later when
	# a cell of the returned row is read
	ts, i = spec["table"], spec["i"]
	t = common.mk_table(ts)
	n = len(ts["cols"][0])
	o = call(lambda: t[i])
	chk.judged("table-rows", ("tindex", n, len(ts["cols"]), i))
	if not -n <= i < n:
		if o.ok:
			chk.fail("an out-of-range row index raises", "table-index/out-of-range-accepted", f"{spec!r}: t[{i}] returned {type(o.value).__name__} of length {call(lambda: len(o.value))!r}")
		elif not isinstance(o.exc, IndexError):
			chk.fail("an out-of-range row index raises IndexError", f"table-index/out-of-range/{type(o.exc).__name__}", f"{spec!r}: t[{i}] raised {o!r}")
		return
	if not o.ok:
		chk.fail("t[i] is the i-th row", f"table-index/raises/{type(o.exc).__name__}", f"{spec!r}: t[{i}] raised {o!r}")
		return
	got = call(lambda: list(o.value))
	exp = [c[i] for c in ts["cols"]]
	if not got.ok or not M.same_list(got.value, exp):
		chk.fail("t[i] is the i-th row", "table-index/wrong-row", f"{spec!r}: t[{i}] -> {got!r}, columns give {exp!r}")


RUNNERS.update({"table_index": run_table_index})


def run_table_key_kinds(chk, spec):
	"""every kind of row key a vector takes selects the same rows from every column of a table; a key no vector takes is refused by the
	table too - no key is answered with None"""
	import warnings
	ts = spec["table"]
	n = len(ts["cols"][0])
	kind = spec["key"]
	idxs = [n - 1, 0, 0] if n else []
	keys = {"int-list": lambda: list(idxs), "int-list-negative": lambda: [-1] if n else [], "int-vector": lambda: Vector(list(idxs)) if idxs else None, "float": lambda: 1.5, "none": lambda: None,
		"float-list": lambda: [0.0], "str-list": lambda: ["0"], "set": lambda: {0}, "nullable-mask-with-none": lambda: Vector([True if i % 2 else None for i in range(n)]) if n else None, "bytes": lambda: b"a", "range": lambda: range(0, n)}
	k = keys[kind]()
	if k is None and kind != "none":
		chk.skip("table-key-not-available")
		return
	with warnings.catch_warnings():
		warnings.simplefilter("ignore")
		t = common.mk_table(ts)
		per_col = [call(lambda c=c: Vector(list(c))[keys[kind]()]) for c in ts["cols"]]
		o = call(lambda: t[k])
	chk.judged("table-rows", ("table-key-kind", kind, min(n, 3), len(ts["cols"])))
	if o.ok and o.value is None:
		chk.fail("a row selection gives rows or an error", f"table-key/answered-with-None/{kind}", f"{spec!r}: t[{k!r}] returned None (a vector answers {per_col[0]!r})")
		return
	if all(p.ok for p in per_col):
		if not o.ok:
			chk.fail("the same row selection is applied to every column alike", f"table-key/raises/{kind}/{type(o.exc).__name__}", f"{spec!r}: t[{k!r}] raised {o!r}; each column alone gives {short([list(p.value) for p in per_col], 160)}")
			return
		got = [list(c._underlying) for c in o.value._underlying] if isinstance(o.value, Table) else None
		exp = [list(p.value._underlying) for p in per_col]
		if got is None or len(got) != len(exp) or any(not M.same_list(g, e) for g, e in zip(got, exp)):
			if not (not exp[0] and (got is None or not got or not got[0])):
				chk.fail("the same row selection is applied to every column alike", f"table-key/wrong-rows/{kind}", f"{spec!r}: t[{k!r}] gave {short(got if got is not None else o.value, 160)}; each column alone gives {short(exp, 160)}")
	elif not any(p.ok for p in per_col) and o.ok:
		chk.fail("a key no column accepts is not a row selection", f"table-key/accepted/{kind}", f"{spec!r}: t[{k!r}] returned {short(o.value, 120)} though every column refuses that key ({per_col[0]!r})")


RUNNERS.update({"table_key_kinds": run_table_key_kinds})


def run_empty_compare(chk, spec):
	"""a typed empty vector (what a filter leaves) compared with an empty vector that was never typed: zero answers, not an exception from looking at a schema that is not there"""
	import operator
	from datetime import date
	kinds = {"date": [date(2020, 1, 1)], "int": [1], "str": ["a"], "datetime-promoted": [date(2020, 1, 1)]}
	src = Vector(list(kinds[spec["kind"]]))
	if spec["kind"] == "datetime-promoted":
		from datetime import datetime
		src[0] = datetime(2020, 1, 1, 5)
	typed = src[0:0]
	untyped = Vector([])
	op = getattr(operator, spec["opname"])
	a, b = (typed, untyped) if spec["side"] == "typed-left" else (untyped, typed)
	o = call(op, a, b)
	chk.judged("compare", ("empty-compare", spec["kind"], spec["opname"], spec["side"]))
	if not o.ok:
		if isinstance(o.exc, (AttributeError, IndexError)):
			chk.fail("comparisons return boolean vectors computed elementwise", f"compare/raises/empty-typed-vs-untyped/{spec['kind']}/{type(o.exc).__name__}", f"{spec!r}: two operands of length 0: {o!r}")
		return
	if isinstance(o.value, Vector) and len(o.value) != 0:
		chk.fail("a comparison has one answer per element", "compare/length/empty-typed-vs-untyped", f"{spec!r}: {o.value!r}")


RUNNERS.update({"empty_compare": run_empty_compare})


def run_optimized_interpreter(chk, spec):
	"""the same refusals under `python -O`, where `assert` statements are compiled away: a wrong-length mask (or operand, or column) is still refused - by a real check"""
	import json, os, subprocess, sys
	from .. import bind
	script = os.path.join(os.path.dirname(os.path.dirname(os.path.abspath(__file__))), "optimized_probe.py")
	outs = {}
	for flag in ("-O", ""):
		cmd = [sys.executable] + ([flag] if flag else []) + [script, bind.REPO_SRC]
		try:
			p = subprocess.run(cmd, capture_output=True, text=True, timeout=120, env=dict(os.environ, PYTHONDONTWRITEBYTECODE="1", PYTHONOPTIMIZE="" if not flag else "1"))
			outs[flag] = json.loads((p.stdout.strip().splitlines() or ["{}"])[-1])
		except Exception:
			chk.skip("optimized-probe-no-report")
			return
	if not outs[""].get("outcomes") or not outs["-O"].get("outcomes") or outs["-O"].get("debug") is not False:
		chk.skip("optimized-probe-no-report")
		return
	chk.judged("table-rows", ("optimized-interpreter", len(outs["-O"]["outcomes"])))
	for label, plain in outs[""]["outcomes"].items():
		opt = outs["-O"]["outcomes"].get(label)
		if plain.startswith("raises:") and opt is not None and not opt.startswith("raises:"):
			chk.fail("a wrong-length mask / operand is refused", f"optimized-interpreter/refusal-rests-on-assert/{label.replace(' ', '-')}", f"{label}: a normal interpreter {plain}; under python -O it {opt}")
			return
		if plain.startswith("returned:") and opt != plain:
			chk.fail("results do not depend on the interpreter's optimisation flag", f"optimized-interpreter/differs/{label.replace(' ', '-')}", f"{label}: a normal interpreter {plain}; under python -O {opt}")
			return


RUNNERS.update({"optimized_interpreter": run_optimized_interpreter})


def run_promoted_right_operand(chk, spec):
	"""a date vector that an in-place write promoted to <datetime> (its class is still the date vector class) as the RIGHT operand of a comparison with a date vector: the
	answers are those a freshly built vector of the same cells gives"""
	import operator
	from datetime import date, datetime
	days = [date(2020, 1, 1), date(2020, 1, 2), None, date(2020, 1, 4)]
	stamps = [date(2020, 1, 1), date(2020, 1, 3), date(2020, 1, 3), None]
	left = Vector(list(days))
	right = Vector(list(stamps))
	w = call(right.__setitem__, spec["at"], datetime(2020, 1, 2, 0, 0) if spec["midnight"] else datetime(2020, 1, 2, 9, 30))
	if not w.ok:
		chk.skip("promotion-refused")
		return
	cells = list(right._underlying)
	fresh = Vector(list(cells))
	op = getattr(operator, spec["opname"])
	pairs = {"vector": (lambda: op(left, right), lambda: op(left, fresh)), "reflected": (lambda: op(right, left), lambda: op(fresh, left)), "mask-select": (lambda: left[op(left, right)], lambda: left[op(left, fresh)])}[spec["form"]]
	a, b = call(pairs[0]), call(pairs[1])
	chk.judged("compare", ("promoted-right-operand", spec["opname"], spec["form"], spec["at"], spec["midnight"]))
	if a.ok != b.ok or (a.ok and list(a.value._underlying) != list(b.value._underlying)):
		chk.fail("comparisons are computed elementwise by Python's own comparison", f"compare/promoted-date-operand-differs-from-rebuilt/{spec['form']}/{spec['opname']}",
			f"{spec!r}: right operand cells {cells!r}: long-lived operand gives {short(a, 120)}, a vector rebuilt from its cells gives {short(b, 120)}")
		return
	if a.ok and spec["form"] != "mask-select":
		exp = []
		for x, y in zip(days, cells):
			if x is None or y is None:
				exp.append(False)
				continue
			xx = datetime.combine(x, datetime.min.time()) if isinstance(y, datetime) and not isinstance(x, datetime) else x
			yy = datetime.combine(y, datetime.min.time()) if not isinstance(y, datetime) else y
			xx = xx if isinstance(xx, datetime) else datetime.combine(xx, datetime.min.time())
			exp.append(bool(op(xx, yy)) if spec["form"] == "vector" else bool(op(yy, xx)))
		if list(a.value._underlying) != exp:
			chk.fail("comparisons are computed elementwise by Python's own comparison", f"compare/promoted-date-operand/wrong/{spec['form']}/{spec['opname']}", f"{spec!r}: {list(a.value._underlying)!r}, expected {exp!r}")


RUNNERS.update({"promoted_right_operand": run_promoted_right_operand})

def run_self_compare(chk, spec):
	# x <op> x, the object itself on both sides (a vector, a row kept from a table, a whole table): the same answer as x <op> (an equal,
	# separate object) - the library copies an operand that is the left operand itself, and that copy has to work for every kind of vector
	import operator, warnings
	op = getattr(operator, spec["opname"])
	ts = spec["table"]
	t = common.mk_table(ts)
	target = spec["target"]
	with warnings.catch_warnings():
		warnings.simplefilter("ignore")
		if target == "table":
			x, twin = t, common.mk_table(ts)
		elif target == "row":
			x, twin = t[spec["i"]], common.mk_table(ts)[spec["i"]]
		else:
			x, twin = t.cols()[spec["i"] % len(ts["cols"])], common.mk_table(ts).cols()[spec["i"] % len(ts["cols"])]
		o = call(lambda: op(x, x))
		e = call(lambda: op(x, twin))
	chk.judged("compare", ("self-compare", target, spec["opname"], len(ts["cols"]), len(ts["cols"][0])))
	flat = (lambda r: [list(c) for c in r.cols()]) if target == "table" else (lambda r: list(r))
	if not e.ok:
		if o.ok:
			chk.fail("x <op> x answers as x <op> an equal object does", f"compare/self/accepted/{target}", f"{spec!r}: with an equal object it raises {e!r}, with itself it gives {short(o.value, 100)}")
		return
	if not o.ok:
		chk.fail("comparison is computed elementwise by Python's comparison", f"compare/self/raises/{target}/{type(o.exc).__name__}", f"{spec!r}: x {spec['opname']} x raised {o!r}; with an equal separate object: {short(flat(e.value), 120)}")
		return
	if flat(o.value) != flat(e.value):
		chk.fail("x <op> x answers as x <op> an equal object does", f"compare/self/value/{target}", f"{spec!r}: {short(flat(o.value), 120)} vs {short(flat(e.value), 120)}")


RUNNERS.update({"self_compare": run_self_compare})

def run_rows_iter(chk, spec):
	"""every row handed out by iteration is a vector: row[slice], row[mask] and row[j] equal list slicing / masking / indexing of THAT row"""
	ts = spec["table"]
	t = common.mk_table(ts)
	nc = len(ts["cols"])
	n = len(ts["cols"][0])
	rows = [[c[i] for c in ts["cols"]] for i in range(n)]
	sl = slice(*spec["s"])
	mask = [(i + spec["phase"]) % 2 == 0 for i in range(nc)]
	chk.judged("rows-held", ("rows-iter", n, nc, spec["s"], spec["what"]))
	got = []
	def body():
		for r in t:
			if spec["what"] == "slice":
				got.append(list(r[sl]))
			elif spec["what"] == "mask":
				got.append(list(r[mask]))
			elif spec["what"] == "slice-then-index":
				got.append((list(r[sl]), [r[j] for j in range(nc)]))
			else:
				got.append((r.copy()._underlying if hasattr(r.copy(), "_underlying") else tuple(r.copy()), list(r[sl])))
	o = call(body)
	if not o.ok:
		chk.fail("row selection follows Python sequence semantics", f"rows-iter/raises/{spec['what']}/{type(o.exc).__name__}", f"{spec!r}: {o!r}")
		return
	for i, g in enumerate(got):
		row = rows[i]
		exp = {"slice": lambda: row[sl], "mask": lambda: [x for x, m in zip(row, mask) if m], "slice-then-index": lambda: (row[sl], list(row)), "copy-then-slice": lambda: (tuple(row), row[sl])}[spec["what"]]()
		ok = M.same_list(g, exp) if spec["what"] in ("slice", "mask") else (M.same_list(list(g[0]), list(exp[0])) and M.same_list(list(g[1]), list(exp[1])))
		if not ok:
			chk.fail("v[slice] equals list slicing (for every row an iteration hands out)", f"rows-iter/wrong/{spec['what']}/{'first-row' if i == 0 else 'later-row'}", f"{spec!r}: row {i} = {row!r}: got {g!r}, expected {exp!r}")
			return


RUNNERS.update({"rows_iter": run_rows_iter})

def run_repeated_selection(chk, spec):
	"""t[(a, b, a)]: a name asked for twice gives two columns with the same cells - two separate columns: a write to one is not a write to the other (nor to
	the source table), exactly as for t[rows][cols] with the same names"""
	ts = spec["table"]
	t = common.mk_table(ts)
	key = tuple(spec["cols"])
	before = [list(c._underlying) for c in t.cols()]
	o = call(lambda: t[key] if spec["rows"] is None else (t[slice(*spec["rows"]), key] if spec["order"] == "rows-first" else t[key, slice(*spec["rows"])]))
	chk.judged("table-commute", ("repeated-selection", len(key), spec["rows"] is None, spec["order"]))
	if not o.ok or not isinstance(o.value, Table) or len(o.value) == 0:
		chk.skip("repeated-selection-unavailable")
		return
	sel = o.value
	cols = sel.cols()
	if any(cols[i] is cols[j] for i in range(len(cols)) for j in range(i + 1, len(cols))):
		chk.fail("a selection of several columns is a table of separate columns", "table-select/one-column-object-twice", f"{spec!r}: two positions of t[{key!r}] hold the same column object")
		return
	snap0 = [list(c._underlying) for c in cols]
	first = key.index(spec["dup"])
	w = call(lambda: sel.__setitem__((0, first), None))
	if not w.ok:
		chk.counters["repeated-selection:write-refused"] += 1
		if type(w.exc).__name__ == "AliasError":
			chk.fail("selections are tables of their own and take writes", "table-select/write-refused-alias", f"{spec!r}: writing cell (0, {first}) of t[{key!r}] raised {w!r}", prop="C15")
		return
	now = [list(c._underlying) for c in sel.cols()]
	for j in range(len(key)):
		if j != first and now[j] != snap0[j]:
			chk.fail("the same row selection is applied to every column alike - the selected columns are separate columns", "table-select/write-reaches-twin-column", f"{spec!r}: writing cell (0, {first}) of t[{key!r}] changed column {j}: {snap0[j]!r} -> {now[j]!r}")
			return
	if [list(c._underlying) for c in t.cols()] != before:
		chk.fail("a selection is a new table", "table-select/write-reaches-source", f"{spec!r}: the source table changed")


RUNNERS.update({"repeated_selection": run_repeated_selection})

class _Opaque:
	"""a value compared by identity (no __eq__ of its own)"""


def run_self_compare_identity(chk, spec):
	"""v == v on cells that are compared by identity: Python's own comparison of each cell WITH ITSELF (True for ==, False for !=) - the copy the library
	takes of an operand that is the left operand itself must be a copy of the vector, not of its cells"""
	import operator
	n = spec["n"]
	cells = [_Opaque() if i % 2 == 0 or spec["all"] else ("s", i) for i in range(n)]
	if spec["target"] == "vector":
		x = Vector(list(cells))
		flat = lambda r: list(r)
	elif spec["target"] == "row":
		x = Table([Vector([c, c], name=f"c{i}") for i, c in enumerate(cells)])[0]
		flat = lambda r: list(r)
	else:
		x = Table({"a": list(cells), "b": list(range(n))})
		flat = lambda r: list(r.cols()[0])
	op = getattr(operator, spec["opname"])
	o = call(lambda: op(x, x))
	chk.judged("compare", ("self-compare-identity", spec["target"], spec["opname"], n))
	exp = [op(c, c) for c in cells]
	if not o.ok:
		chk.fail("comparison is computed elementwise by Python's comparison", f"compare/self/raises/{spec['target']}/{type(o.exc).__name__}", f"{spec!r}: {o!r}")
		return
	got = flat(o.value)
	if got != exp:
		chk.fail("comparison is computed elementwise by Python's own comparison", f"compare/self/identity-cells/{spec['target']}/{spec['opname']}", f"{spec!r}: x {spec['opname']} x gave {got!r}; each cell compared with itself gives {exp!r}")


RUNNERS.update({"self_compare_identity": run_self_compare_identity})

def run_row_as_mask_after_write(chk, spec):
	"""a row of booleans kept from a table is a boolean vector of ITS cells: after another row of the table received a None (or a column was promoted), the
	kept row still works as a mask and its slices keep its kind"""
	nc = spec["nc"]
	t = Table({f"c{j}": [(j + 0) % 2 == 0, (j + 1) % 3 == 0, True] for j in range(nc)})
	r = t[0]
	cells = [(j + 0) % 2 == 0 for j in range(nc)]
	if spec["read_first"]:
		call(lambda: r[0:1])
	w = call({"none-other-row": lambda: t.__setitem__((1, "c0"), None), "none-view": lambda: t["c0"].__setitem__(2, None), "none-row": lambda: t.__setitem__(2, [None] * nc), "nothing": lambda: None}[spec["write"]])
	v = Vector(list(range(10, 10 + nc)))
	o = call(lambda: v[r])
	chk.judged("mask", ("row-as-mask-after-write", nc, spec["write"], spec["read_first"]))
	exp = [x for x, m in zip(range(10, 10 + nc), cells) if m]
	if not o.ok:
		chk.fail("v[mask] keeps exactly the positions where the mask is True", f"mask/raises/kept-bool-row/{spec['write']}/{type(o.exc).__name__}", f"{spec!r}: the row {cells!r} obtained before the write is refused as a mask: {o!r}")
		return
	if list(o.value) != exp:
		chk.fail("v[mask] keeps exactly the positions where the mask is True", f"mask/wrong-elements/kept-bool-row/{spec['write']}", f"{spec!r}: {list(o.value)!r} vs {exp!r}")
		return
	s1 = call(lambda: r[0:nc].schema())
	if s1.ok and s1.value is not None and (s1.value.kind is not bool or s1.value.nullable):
		chk.fail("v[slice] keeps the dtype kind", f"slice/kept-row-dtype-follows-later-writes/{spec['write']}", f"{spec!r}: the slice of the kept row {cells!r} reports {s1.value!r}")


def run_inplace_logical(chk, spec):
	"""m &= c, m |= c, m ^= c: logical operators RETURN a new non-nullable boolean vector - the object the name was bound to before (a table column, a mask
	someone else holds) is left as it was"""
	import operator
	a = list(spec["a"])
	b = list(spec["b"])
	if spec["holder"] == "table-column":
		t = Table({"flag": list(a), "x": list(range(len(a)))})
		m = t["flag"]
	else:
		t = None
		m = Vector(list(a))
	alias = m
	before = (list(alias._underlying), alias.schema().kind, alias.schema().nullable)
	other = Vector(list(b)) if spec["other"] == "vector" else list(b)
	iop = {"and": operator.iand, "or": operator.ior, "xor": operator.ixor}[spec["opname"]]
	op = {"and": operator.and_, "or": operator.or_, "xor": operator.xor}[spec["opname"]]
	exp = call(lambda: list(op(Vector(list(a)), Vector(list(b)) if spec["other"] == "vector" else list(b))._underlying))
	o = call(lambda: iop(m, other))
	chk.judged("compare", ("inplace-logical", spec["opname"], spec["holder"], spec["other"], any(x is None for x in a)))
	if not o.ok or not exp.ok:
		return
	after = (list(alias._underlying), alias.schema().kind, alias.schema().nullable)
	if after != before:
		chk.fail("logical operators return a new vector (their operands are left as they were)", f"compare/inplace-logical-rewrites-operand/{spec['opname']}/{spec['holder']}", f"{spec!r}: the vector the name was bound to changed {before!r} -> {after!r}")
		return
	r = o.value
	if list(r._underlying) != exp.value:
		chk.fail("comparison and logical operators are computed elementwise", f"compare/inplace-logical-value/{spec['opname']}", f"{spec!r}: {list(r._underlying)!r} vs {exp.value!r}")
		return
	sch = r.schema()
	if sch is not None and (sch.kind is not bool or sch.nullable):
		chk.fail("logical operators return non-nullable boolean vectors", f"compare/inplace-logical-schema/{spec['opname']}", f"{spec!r}: {sch!r}")


def run_date_vs_text(chk, spec):
	"""a date vector compared with ISO strings: a position where the date side is None is never compared - whatever text stands opposite - and is False"""
	from datetime import date
	import operator
	D = [date(2020, 1, 1), date(2021, 6, 15), date(1999, 12, 31)]
	dates = [None if m else D[i % 3] for i, m in enumerate(spec["none_at"])]
	texts = spec["texts"]
	v = Vector(list(dates)) if any(x is not None for x in dates) else Vector([D[0]] + list(dates))[1:]
	op = getattr(operator, spec["opname"])
	other = (Vector(list(texts)) if spec["form"] == "vector" else list(texts)) if isinstance(texts, list) else texts
	o = call(lambda: op(v, other))
	chk.judged("compare", ("date-vs-text", spec["opname"], spec["form"], tuple(spec["none_at"])))
	def parse(s_):
		return date.fromisoformat(s_)
	try:
		exp = [False if d is None or (isinstance(texts, list) and texts[i] is None) else bool(op(d, parse(texts[i] if isinstance(texts, list) else texts))) for i, d in enumerate(dates)]
	except Exception:
		return      # some text opposite a real date is not ISO: not constrained
	if not o.ok:
		chk.fail("comparison returns a non-nullable boolean vector, False wherever an operand is None", f"compare/raises/date-vs-text/{spec['opname']}/{type(o.exc).__name__}", f"{spec!r}: dates {dates!r} vs {texts!r}: {o!r}; expected {exp!r}")
		return
	if list(o.value._underlying) != exp:
		chk.fail("comparison is computed elementwise (False at None)", f"compare/value/date-vs-text/{spec['opname']}", f"{spec!r}: {list(o.value._underlying)!r} vs {exp!r}")


RUNNERS.update({"row_as_mask_after_write": run_row_as_mask_after_write, "inplace_logical": run_inplace_logical, "date_vs_text": run_date_vs_text})

def run_accessor_lookalike(chk, spec):
	import warnings
	names = spec["names"]
	with warnings.catch_warnings():
		warnings.simplefilter("ignore")
		t = Table([Vector([100 * j, 100 * j + 1], name=nm) if nm is not None else Vector([100 * j, 100 * j + 1]) for j, nm in enumerate(names)])
		ask = spec["ask"]
		o = call({"single": lambda: t[ask], "tuple": lambda: t[(ask,)], "tuple-with-other": lambda: t[(ask, "c")] if "c" in names else t[(ask, ask)], "two-axis": lambda: t[0:2, (ask,)]}[spec["form"]])
	chk.judged("table-missing", ("accessor-lookalike", tuple(map(str, names)), spec["form"]))
	if not o.ok:
		chk.fail("a column selected by its stored name is that column", f"table-select/lookalike-raises/{spec['form']}/{type(o.exc).__name__}", f"{spec!r}: {o!r}")
		return
	col = o.value.cols()[0] if isinstance(o.value, Table) else o.value
	got = col._underlying[0] // 100
	if got != spec["want"]:
		chk.fail("a column selected by its stored name is that column (the stored name wins over the positional accessor of another column)", f"table-select/lookalike-wrong-column/{spec['form']}", f"{spec!r}: t[{ask!r}] ({spec['form']}) is column {got}, the column named {ask!r} is column {spec['want']}")


RUNNERS.update({"accessor_lookalike": run_accessor_lookalike})


def run(chk):
	recompute.add_cases(chk, "C07")
	rng = chk.rng
	kinds = ["int", "float", "str", "bool", "date", "complex", "bytes", "datetime"]
	idx = 0
	for n in range(0, 6):
		for start in STARTS:
			for stop in STARTS:
				for step in STEPS:
					idx += 1
					if not chk.mine(idx):
						continue
					kind = kinds[idx % len(kinds)]
					vals = V.column(rng, kind, n, ["none", "low", "none", "high"][idx % 4], small=True)
					chk.case("slice", {"values": vals, "name": [None, "nm"][idx % 2], "s": (start, stop, step)}, "slice")
		for i in range(-7, 8):
			vals = V.column(rng, rng.choice(kinds), n, "low", small=True)
			chk.case("index", {"values": vals, "name": None, "i": i}, "index")
			if i in (-1, 0, 1, 2, 7):
				for how in ("int-subclass", "bool", "intenum"):
					chk.case("index", {"values": vals, "name": None, "i": i, "as": how}, "index-int-subclass")
		if n >= 1:
			for m in (n - 1, n, n + 1):
				if m == 0:
					continue
				for bits in itertools.product([False, True], repeat=m):
					for how in ("vector", "list"):
						if how == "vector" and len(set(bits)) == 1 and False:
							continue
						vals = V.column(rng, rng.choice(kinds), n, rng.choice(["none", "low"]), small=True)
						chk.case("mask", {"values": vals, "name": rng.choice([None, "nm"]), "mask": list(bits), "as": how}, "mask")
	# comparisons over dtype pairs
	for opname in list(CMP_OPS) + list(LOG_OPS):
		for form in ("vv", "vs", "sv", "vl", "lv"):
			for ka, kb in CMP_PAIRS:
				if opname in LOG_OPS and not (ka in ("bool", "int") and kb in ("bool", "int")):
					continue
				for n in (0, 1, 3):
					a = common.arith_column(rng, ka, n, rng.choice(["none", "none", "first", "low"]))
					if form in ("vs", "sv"):
						b = rng.choice(ARITH_VALUES[kb])
					else:
						m = n if rng.random() < 0.9 else n + 1
						b = common.arith_column(rng, kb, m, rng.choice(["none", "last"]))
					chk.case("compare", {"op": "arith", "opname": opname, "form": form, "a": a, "b": b, "ka": ka, "kb": kb}, "compare")
	# vectors that are equal except for a pair Python's hash() cannot tell apart, or that share a NaN (== must still be elementwise)
	collide = [(-1, -2), (0, 2**61 - 1), (-1.0, -2.0), (1, 2**61), (float("nan"), float("nan")), (0.0, -0.0), (True, 1), ("a", "a")]
	for opname in ("eq", "ne", "le", "lt"):
		for x, y in collide:
			for n in (1, 2, 4):
				for pos in range(n):
					for form in ("vv", "vl", "lv"):
						base = [rng.choice([3, 4, 5]) if not isinstance(x, str) else rng.choice(["p", "q"]) for _ in range(n)]
						if isinstance(x, float):
							base = [float(b) for b in base]
						a, b = list(base), list(base)
						a[pos], b[pos] = x, y
						chk.case("compare", {"op": "arith", "opname": opname, "form": form, "a": a, "b": b, "ka": "near-equal", "kb": type(x).__name__}, "compare-near-equal")
	# logical operators over every small pair of bool vectors with None on either side (False wherever a None is)
	for n in (1, 2):
		for a in itertools.product([True, False, None], repeat=n):
			for b in itertools.product([True, False, None], repeat=n):
				if all(x is None for x in a) or all(x is None for x in b):
					continue
				for opname in LOG_OPS:
					for form in ("vv", "vl", "lv"):
						chk.case("compare", {"op": "arith", "opname": opname, "form": form, "a": list(a), "b": list(b), "ka": "bool", "kb": "bool-none"}, "compare-logical-none")
	for kind in ("int", "str", "float", "date", "bool"):
		for n in (1, 3):
			for npat in ("none", "first", "low"):
				for opname in ("eq", "ne"):
					for form in ("vs", "sv"):
						chk.case("none_scalar", {"values": common.arith_column(rng, kind, n, npat), "opname": opname, "form": form}, "compare-none-scalar")
	import itertools as _it
	for labels in list(_it.permutations(["1", "True", "1.0"], 2)) + list(_it.permutations(["0", "False"], 2)) + [("2023",), ("True",), ("1",)]:
		for order in ([], [labels[-1]], list(labels), [x for x in ("1", "True", "1.0", "0", "False") if x not in labels][:2]):
			chk.case("label_select", {"labels": list(labels), "order": order}, "label-select")
	# byte buffers are scalars in comparisons too
	for a, b in (([bytearray(b"ab"), bytearray(b"cd")], bytearray(b"ab")), ([b"ab", b"cd"], bytearray(b"cd")), ([bytearray(b"ab"), None], bytearray(b"ab")), ([bytearray(b"x")], bytearray(b"xyz"))):
		for opname in CMP_OPS:
			for form in ("vs", "sv"):
				chk.case("compare", {"op": "arith", "opname": opname, "form": form, "a": a, "b": b, "ka": "bytes", "kb": "bytearray"}, "compare-bytearray")
	for kind in ("int", "str", "float", "date"):
		for how in ("mask", "mask-vector", "slice", "slice-inner"):
			for rename in ("name", "alias", "none"):
				for name in (None, "nm"):
					chk.case("empty_selection", {"values": [rng.choice(ARITH_VALUES[kind]) for _ in range(rng.choice([1, 3]))], "how": how, "rename": rename, "name": name}, "empty-selection")
	# float columns against ints that no float represents exactly (Python compares these exactly)
	B = 2 ** 53
	for opname in CMP_OPS:
		for a in ([float(B), 1.5, -float(B)], [float(B)], [float(B), None], [1e308, -1e308, 0.0]):
			for b in (B + 1, -B - 1, B, 10 ** 400, -(10 ** 400), B + 2):
				for form in ("vs", "sv"):
					chk.case("compare", {"op": "arith", "opname": opname, "form": form, "a": a, "b": b, "ka": "float", "kb": "bigint"}, "compare-bigint")
			for form in ("vv", "vl", "lv"):
				chk.case("compare", {"op": "arith", "opname": opname, "form": form, "a": a, "b": [rng.choice([B + 1, -B - 1, 10 ** 400]) for _ in a], "ka": "float", "kb": "bigint"}, "compare-bigint")
	# compare - write - compare histories on nullable vectors that hold no None at first
	for _ in range(250 if chk.quick() else 1500):
		kind = rng.choice(["int", "float", "str", "date"])
		n = rng.choice([1, 2, 3, 4])
		vals = [rng.choice(ARITH_VALUES[kind]) for _ in range(n)]
		writes = []
		for _k in range(rng.choice([1, 2, 3])):
			writes.append((rng.randrange(n), rng.choice([None, None, rng.choice(ARITH_VALUES[kind])])))
		other = rng.choice(ARITH_VALUES[kind]) if rng.random() < 0.5 else [rng.choice(ARITH_VALUES[kind]) for _ in range(n)]
		if kind in ("date", "int") and rng.random() < 0.5:
			# a write that promotes the vector (date -> datetime, int -> float); afterwards it is compared with values of the wider kind
			wide = V.datetime(2020, 1, 31, 12, 30) if kind == "date" else 2.5
			writes.insert(rng.randrange(len(writes) + 1), (rng.randrange(n), wide))
			other = wide if rng.random() < 0.5 else [rng.choice([wide, V.datetime(2021, 2, 28, 0, 0) if kind == "date" else 1.0]) for _ in range(n)]
		chk.case("compare_history", {"values": vals, "how": rng.choice(["was-none", "slice", "mask", "plain"]), "opname": rng.choice(list(CMP_OPS)), "other": other, "writes": writes}, "compare-history")
	# rows that are kept while the table is used again
	for _ in range(150 if chk.quick() else 800):
		ts = gen_table(rng, nrows=rng.choice([2, 3, 4]))
		n = len(ts["cols"][0])
		idxs = [rng.randrange(n) for _ in range(rng.choice([2, 2, 3]))]
		if len(set(idxs)) == 1:
			idxs[0] = (idxs[0] + 1) % n
		chk.case("rows_held", {"table": ts, "idxs": idxs, "touch": rng.choice(["nothing", "shape", "cell", "iterate", "other-row"])}, "rows-held")
	for _ in range(120 if chk.quick() else 600):
		ts = gen_table(rng, nrows=rng.choice([2, 3, 4]), ncols=rng.choice([2, 3, 4]))
		chk.case("rows_iter", {"table": ts, "s": (rng.choice(STARTS), rng.choice(STARTS), rng.choice(STEPS)), "phase": rng.choice([0, 1]), "what": rng.choice(["slice", "mask", "slice-then-index", "copy-then-slice"])}, "rows-iter")
	# long vectors / tables (library fast paths by size)
	for n in ((1001, 1500) if chk.quick() else (1000, 1001, 1002, 1500, 4000)):
		for kind in ("int", "str", "float", "date"):
			for true_at in ([], [rng.randrange(n)], [0], [n - 1], [3, 700], sorted(rng.sample(range(n), 40))):
				for how in ("vector", "list"):
					for target in ("vector", "table"):
						if chk.quick() and target == "table" and kind in ("float", "date"):
							continue
						chk.case("bigmask", {"n": n, "kind": kind, "true_at": true_at, "as": how, "target": target}, "bigmask")
	# tables
	nt = 600 if chk.quick() else 3000
	for _ in range(nt):
		ts = gen_table(rng)
		n = len(ts["cols"][0])
		chk.case("table_rows", {"table": ts, "rows": gen_rows(rng, n, allow_wrong=True)}, "table-rows")
		if n and len(set(ts["names"])) == len(ts["names"]):
			chk.case("self_compare", {"table": ts, "target": rng.choice(["table", "row", "column"]), "i": rng.randrange(n), "opname": rng.choice(["eq", "ne", "lt", "le", "gt", "ge"])}, "compare")
		if _ == 0:
			chk.case("optimized_interpreter", {}, "optimized-interpreter")
			for opname in ("eq", "ne", "lt", "le", "gt", "ge"):
				for form in ("vector", "mask-select"):      # (promoted operand on the right; with it on the LEFT Python's own datetime-with-date comparison decides, see DESIGN section 7)
					for at in (1, 3):
						for midnight in (False, True):
							chk.case("promoted_right_operand", {"opname": opname, "form": form, "at": at, "midnight": midnight}, "compare-promoted-right-operand")
			for kind in ("date", "int", "str", "datetime-promoted"):
				for opname in ("eq", "ne", "lt", "ge"):
					for side in ("typed-left", "typed-right"):
						chk.case("empty_compare", {"kind": kind, "opname": opname, "side": side}, "compare-empty")
		if n and len(set(ts["names"])) == len(ts["names"]):
			chk.case("table_key_kinds", {"table": ts, "key": rng.choice(["int-list", "int-list-negative", "int-vector", "float", "none", "float-list", "str-list", "set", "nullable-mask-with-none", "bytes", "range"])}, "table-key-kinds")
		if n:
			chk.case("table_index", {"table": ts, "i": rng.choice([-n - 2, -n - 1, -n, -1, 0, n - 1, n, n + 1, n + 5, rng.randrange(-n, n)])}, "table-rows")
		rows = gen_rows(rng, n)
		k = rng.choice([1, 1, 2, 3])
		cols = [rng.choice(ts["names"]) for _ in range(k)]
		chk.case("table_commute", {"table": ts, "rows": rows, "cols": cols}, "table-commute")
	# two-axis selection with every kind of row slice
	for _ in range(700 if chk.quick() else 5000):
		ts = gen_table(rng, nrows=rng.choice([1, 2, 3, 4, 5]))
		nc = len(ts["names"])
		ts["names"] = [f"n{j}" for j in range(nc)]
		form = rng.choice(["name", "int", "names", "slice"])
		cols = [rng.randrange(nc)] if form in ("name", "int") else ([rng.randrange(nc) for _ in range(rng.choice([1, 2]))] if form == "names" else (rng.choice([None, 0, 1]), rng.choice([None, nc, 1]), None))
		chk.case("table_2d", {"table": ts, "s": (rng.choice(STARTS), rng.choice(STARTS), rng.choice(STEPS)), "colform": form, "cols": cols, "order": rng.choice(["rows-first", "cols-first"])}, "table-2d")
	for _ in range(60 if chk.quick() else 400):
		ts = gen_table(rng, nrows=rng.choice([1, 2, 3]), ncols=rng.choice([2, 3, 4]))
		ts["names"] = ["a", "b", "c", "d"][:len(ts["names"])]
		dup = rng.choice(ts["names"])
		cols = [dup, rng.choice(ts["names"]), dup][:rng.choice([2, 3])]
		if cols.count(dup) < 2:
			cols = [dup, dup]
		rng.shuffle(cols)
		chk.case("repeated_selection", {"table": ts, "cols": cols, "dup": dup, "rows": rng.choice([None, None, (None, None, None), (0, None, None)]), "order": rng.choice(["rows-first", "cols-first"])}, "repeated-selection")
	for target in ("vector", "row", "table"):
		for opname in ("eq", "ne"):
			for n in (1, 2, 4):
				for all_ in (True, False):
					chk.case("self_compare_identity", {"target": target, "opname": opname, "n": n, "all": all_}, "self-compare-identity")
	for nc in (2, 3, 5):
		for write in ("none-other-row", "none-view", "none-row", "nothing"):
			for read_first in (False, True):
				chk.case("row_as_mask_after_write", {"nc": nc, "write": write, "read_first": read_first}, "row-as-mask")
	for opname in ("and", "or", "xor"):
		for holder in ("vector", "table-column"):
			for other in ("vector", "list"):
				for a, b in (([True, False, True], [True, True, False]), ([True, None, False], [True, True, True]), ([False, False], [True, False])):
					chk.case("inplace_logical", {"opname": opname, "holder": holder, "other": other, "a": a, "b": b}, "inplace-logical")
	for opname in ("eq", "ne", "lt", "ge"):
		for form in ("vector",):      # (the ISO reading applies to a str VECTOR or a str scalar; a plain list of strings is compared as Python compares date with str)
			for none_at, texts in (([False, True, False], ["2020-01-01", "n/a", "1999-12-31"]), ([True, True], ["", "not a date"]), ([False, True, True], ["2020-01-02", "n/a", None]), ([False, False], ["2020-01-01", "2021-06-15"])):
				chk.case("date_vs_text", {"opname": opname, "form": form, "none_at": none_at, "texts": texts}, "date-vs-text")
		for none_at in ([True, True], [True], []):
			chk.case("date_vs_text", {"opname": opname, "form": "scalar", "none_at": none_at, "texts": "n/a"}, "date-vs-text")
	# a stored name spelled like the positional accessor of a column to its LEFT: the stored name wins, in every lookup form
	for names, ask, want in (([None, "col0_", "c"], "col0_", 1), (["x", "x__0", "c"], "x__0", 1), (["x", "y", "x__1"], "x__1", 2), ([None, None, "col1_"], "col1_", 2)):
		for form in ("single", "tuple", "tuple-with-other", "two-axis"):
			chk.case("accessor_lookalike", {"names": names, "ask": ask, "want": want, "form": form}, "accessor-lookalike")
	near = {"names": ["amt", "amt", "a b", "c"], "cols": [[1, 2], [3, 4], [5, 6], [7, 8]]}
	for missing in ("amt__01", "amt__\u0661", "a b__2", "amt__2", "amt__3", "amt__-1", "amt__1 ", " amt__1", "a-b__2", "a_b__02", "amt__1__1", "amt___1", "col0_", "col_0", "c__03", "amt__+1", "amt__1.0"):
		chk.case("table_missing", {"table": near, "cols": [missing], "single": True, "pos": "first"}, "table-missing-near-accessor")
		chk.case("table_missing", {"table": near, "cols": [missing], "single": False, "pos": "first"}, "table-missing-near-accessor")
		chk.case("table_missing", {"table": near, "cols": ["c", missing], "single": False, "pos": "last"}, "table-missing-near-accessor")
	for _ in range(60 if chk.quick() else 300):
		ts = gen_table(rng, nrows=rng.choice([1, 2, 3]))
		k = rng.choice([1, 2, 3])
		cols = [rng.choice(ts["names"]) for _ in range(k)]
		pos = rng.randrange(k)
		cols[pos] = rng.choice(["zzz", "missing", "a b c", "q"])
		chk.case("table_missing", {"table": ts, "cols": cols, "single": k == 1 and rng.random() < 0.5, "pos": ("first" if pos == 0 else "last" if pos == k - 1 else "mid")}, "table-missing")
		# same request after a rename: the old name must be gone for every lookup path
		ts2 = gen_table(rng, nrows=rng.choice([1, 2, 3]), ncols=rng.choice([2, 3, 4]))
		ts2["names"] = ["id", "score", "c", "d"][:len(ts2["names"])]
		old = rng.choice(ts2["names"])
		k = rng.choice([1, 2, 3])
		cols2 = [rng.choice([nm for nm in ts2["names"] if nm != old]) for _ in range(k)]
		pos = rng.randrange(k)
		cols2[pos] = old
		chk.case("table_missing", {"table": ts2, "cols": cols2, "single": k == 1 and rng.random() < 0.5, "pos": ("first" if pos == 0 else "last" if pos == k - 1 else "mid"),
			"rename": {"old": old, "new": rng.choice(["points", "renamed", "New Name"]), "via": rng.choice(["view", "view", "rename_column", "rename_columns"]),
				"touch_first": rng.random() < 0.5, "accessor": old}}, "table-missing-after-rename")
