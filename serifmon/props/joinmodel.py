"""Nested-loop reference model for inner / left / full joins, and the common
oracle that compares a real join result with it.  No hashing anywhere."""
from ..bind import Vector, Table, SerifValueError
from ..core import call, short
from .. import models as M


def cells(t):
	"""current plain contents of a real table: (names, columns as lists)"""
	cols = list(t._underlying)
	return [c._name for c in cols], [list(c._underlying) for c in cols]


def key_eq(a, b):
	"""key tuples are equal (None equals None); identity-safe"""
	if len(a) != len(b):
		return False
	for x, y in zip(a, b):
		if x is None or y is None:
			if x is not y:
				return False
			continue
		try:
			if not (x == y):
				return False
		except Exception:
			return False
	return True


def model_pairs(how, lkeys, rkeys):
	"""list of (left index | None, right index | None) in the documented order"""
	out = []
	matched = set()
	index = None
	if len(rkeys) > 64 and _plain(rkeys) and _plain(lkeys):
		# (large, plainly hashable keys: the same nested-loop pairs, found through a dict)
		index = {}
		for j, rk in enumerate(rkeys):
			index.setdefault(rk, []).append(j)
	for i, lk in enumerate(lkeys):
		ms = index.get(lk, []) if index is not None else [j for j, rk in enumerate(rkeys) if key_eq(lk, rk)]
		if ms:
			for j in ms:
				out.append((i, j))
				matched.add(j)
		elif how in ("left", "full"):
			out.append((i, None))
	if how == "full":
		for j in range(len(rkeys)):
			if j not in matched:
				out.append((None, j))
	return out


def _plain(keys):
	"""every cell of every key is an int or a str (exact types): == and hash agree, a set decides"""
	return all(type(x) in (int, str) for k in keys for x in k)


def unique_keys(keys):
	if len(keys) > 64 and _plain(keys):
		return len(set(keys)) == len(keys)
	for i in range(len(keys)):
		for j in range(i + 1, len(keys)):
			if key_eq(keys[i], keys[j]):
				return False
	return True


def rows_from(cols, n):
	return [tuple(c[i] for c in cols) for i in range(n)]


def expected_rows(how, lcols, rcols, lkeys, rkeys):
	nl = len(lkeys)
	nr = len(rkeys)
	lrows = rows_from(lcols, nl)
	rrows = rows_from(rcols, nr)
	pairs = model_pairs(how, lkeys, rkeys)
	lpad = (None,) * len(lcols)
	rpad = (None,) * len(rcols)
	return [(lrows[i] if i is not None else lpad) + (rrows[j] if j is not None else rpad) for i, j in pairs], pairs


def result_rows(t):
	names, cols = cells(t)
	n = len(cols[0]) if cols else 0
	return names, rows_from(cols, n)


def rows_same(a, b):
	return len(a) == len(b) and all(M.same_list(x, y) for x, y in zip(a, b))


def refusal_allowed(lkeycols, rkeycols, lschemas=None, rschemas=None):
	"""may the library refuse this join at all? (kinds differ / float key / undetermined kind).  The kinds are the model kinds of the
	current values and, when given, the kinds the key columns DECLARE (a column that was int and now happens to hold only bools is
	still an int column: comparing it with a bool column may be refused)"""
	for ls, rs in zip(lschemas or [], rschemas or []):
		if ls is not None and rs is not None and (ls.kind is not rs.kind or ls.kind is float or rs.kind is float):
			return True
	for lc, rc in zip(lkeycols, rkeycols):
		ml, mr = M.model_infer(lc), M.model_infer(rc)
		if ml is None or mr is None:
			if (ml is None and lc) or (mr is None and rc):
				return True      # a non-empty all-None (or subclass) key column: kind not settled by the statement
			continue
		if ml[0] is not mr[0] or ml[0] is float:
			return True
	return False


def describe_diff(got, exp):
	if len(got) != len(exp):
		extra = [r for r in got if not any(M.same_list(r, e) for e in exp)]
		missing = [e for e in exp if not any(M.same_list(r, e) for r in got)]
		if extra and not missing:
			return "extra-rows"
		if missing and not extra:
			return "missing-rows"
		if not extra and not missing:
			return "row-multiplicity"
		return "wrong-rows"
	if sorted(map(repr, got)) == sorted(map(repr, exp)):
		return "row-order"
	return "wrong-rows"


def check_join(chk, prop, stratum, how, L, R, lnames, rnames, key_mode="name", expect="many_to_many", single_as_scalar=False, label="", sig=None, digest=True, strict=False):
	"""run one join on real tables L, R (keys by stored column name lists) and judge it against the model.
	returns the Out of the call"""
	ln, lc = cells(L)
	rn, rc = cells(R)
	lkeycols = [lc[ln.index(k)] for k in lnames]
	rkeycols = [rc[rn.index(k)] for k in rnames]
	if key_mode == "named-derived":
		from .common import derive_key
		lkeycols = [derive_key(c) for c in lkeycols]      # the key VECTOR's values decide, whatever name it carries
	nl = len(lc[0]) if lc else 0
	nr = len(rc[0]) if rc else 0
	lkeys = rows_from(lkeycols, nl)
	rkeys = rows_from(rkeycols, nr)
	exp, pairs = expected_rows(how, lc, rc, lkeys, rkeys)
	lon, ron = list(lnames), list(rnames)
	if key_mode == "vector":
		lon, ron = [L.cols()[ln.index(k)] for k in lon], [R.cols()[rn.index(k)] for k in ron]
	elif key_mode == "crossed":
		# names and vectors alternate, the other way round on the other side: the i-th left key still meets the i-th right key
		lon = [k if i % 2 == 0 else L.cols()[ln.index(k)] for i, k in enumerate(lon)]
		ron = [R.cols()[rn.index(k)] if i % 2 == 0 else k for i, k in enumerate(ron)]
	elif key_mode == "named-derived":
		lon = [Vector(list(c), name=k) for c, k in zip(lkeycols, lnames)]
		ron = [Vector(list(c), name=k) for c, k in zip(rkeycols, rnames)]
	elif key_mode == "external":
		lon = [Vector(list(c)) for c in lkeycols]
		ron = [Vector(list(c)) for c in rkeycols]
	if len(lon) == 1 and single_as_scalar == "left-only":
		lon = lon[0]      # a bare key on one side, a one-element list on the other
	elif len(lon) == 1 and single_as_scalar == "right-only":
		ron = ron[0]
	elif len(lon) == 1 and single_as_scalar:
		lon, ron = lon[0], ron[0]
	before = (M.snap_table(L), M.snap_table(R))
	fn = {"inner": L.inner_join, "left": L.join, "full": L.full_join}[how]
	o = call(fn, R, lon, ron, expect=expect)
	after = (M.snap_table(L), M.snap_table(R))
	chk.judged(stratum, sig or ("join", how, len(lnames), key_mode, min(nl, 4), min(nr, 4), len(pairs) > 0))
	tag = f"{how}/{label}" if label else how
	if before != after:
		chk.fail("a join does not modify its inputs", f"join/input-modified/{how}", f"{how} join changed an input table: {short(before, 200)} -> {short(after, 200)}", prop=prop)
	if not o.ok:
		lsch = [L.cols()[ln.index(k)].schema() for k in lnames]
		rsch = [R.cols()[rn.index(k)].schema() for k in rnames]
		# (strict: both tables are fresh results / fresh constructions, so their declared kinds are the kinds of their values)
		if refusal_allowed(lkeycols, rkeycols, None if strict else lsch, None if strict else rsch):
			chk.skip("join-refusal-allowed")
			return o
		chk.fail("the join is computed for every admissible input", f"join/raises/{tag}/{type(o.exc).__name__}",
			f"{how} join of L={short((ln, lc), 200)} R={short((rn, rc), 200)} on {lnames}/{rnames} ({key_mode}) raised {o!r}", prop=prop)
		return o
	r = o.value
	chk.observe(r, f"join-{how}")
	if not isinstance(r, Table):
		chk.fail("a join returns a table", f"join/not-a-table/{how}", f"{how} join returned {type(r).__name__}", prop=prop)
		return o
	names, got = result_rows(r)
	if digest is True:
		chk.feed_digest((how, names, got))
	elif isinstance(digest, list):
		digest.append((how, names, got))
	if not exp and not got:
		return o     # zero rows: columns optional
	if not rows_same(got, exp):
		chk.fail("join rows equal the nested-loop definition, in the documented order", f"join/{describe_diff(got, exp)}/{tag}",
			f"{how} join L={short((ln, lc), 240)} R={short((rn, rc), 240)} on {lnames}/{rnames} ({key_mode}, expect={expect}): "
			f"serif rows {short(got, 300)} vs model {short(exp, 300)}", prop=prop)
		return o
	if names != ln + rn:
		chk.fail("output carries all left columns then all right columns under their original names", f"join/column-names/{how}",
			f"{how} join names {names!r}, expected {ln + rn!r}", prop=prop)
	return o
