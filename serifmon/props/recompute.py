"""Recompute-after-history monitor (shared by many properties).

A result of a pure operation depends only on the CURRENT contents of its operands.  A small world of long-lived objects (a
table, a partner table, vectors of several kinds, a mask vector, a caller-owned key list, an external key vector) is driven
through rounds of  evaluate-operation / mutate-in-place ; every evaluation on the long-lived objects is compared with the
same operation evaluated on FRESH objects rebuilt from the current plain contents (same values, names and declared dtypes).
Any cache, memo, flag or retained reference that survives a write - or state left in a caller-owned argument - makes the
two disagree.  Each property registers the operations it owns (FAMILIES[pid]) and gets the violation under its own id."""
import random
from datetime import date, datetime

from ..bind import Vector, Table, Row, DataType
from ..core import call, short
from .. import models as M

D = [date(2020, 1, 31), date(2021, 2, 28), date(1999, 12, 31), date(2020, 3, 1)]


def fresh_value(x):
	"""a structurally equal value made of new objects where that is possible (floats, containers)"""
	if isinstance(x, float):
		return float.fromhex(x.hex()) if x == x else float("nan")
	if isinstance(x, list):
		return [fresh_value(e) for e in x]
	if isinstance(x, tuple) and type(x) is tuple:
		return tuple(fresh_value(e) for e in x)
	if isinstance(x, dict):
		return {k: fresh_value(v) for k, v in reversed(list(x.items()))}      # an EQUAL dict with another insertion order
	return x


def fresh_vector(v):
	vals = [fresh_value(x) for x in v._underlying]
	kw = {}
	if v.name is not None:
		kw["name"] = v.name
	sch = v.schema()
	if sch is not None:
		kw["dtype"] = DataType(sch.kind, sch.nullable)     # the live object's own (truthful) declaration, so dtype history is not a difference
	return Vector(vals, **kw)


def fresh_table(t):
	return Table([fresh_vector(c) for c in t._underlying])


def norm(x):
	"""plain comparable form of any result"""
	if isinstance(x, Row):
		return ("row",) + tuple(norm(e) for e in x)
	if isinstance(x, Vector):
		try:
			return M.snap_any(x)
		except Exception as exc:
			return ("unsnappable", type(exc).__name__)
	if isinstance(x, (list, tuple)):
		return (type(x).__name__,) + tuple(norm(e) for e in x)
	if isinstance(x, dict):
		return ("dict",) + tuple(sorted((repr(k), norm(v)) for k, v in x.items()))
	if isinstance(x, float):
		return ("float", "nan" if x != x else x.hex())
	if isinstance(x, (set, frozenset)):
		return ("set",) + tuple(sorted(map(repr, x)))
	return (type(x).__name__, M._freeze(x))


class World:
	def __init__(self, rng, n):
		self.rng = rng
		self.n = n
		r = rng
		self.t = Table([
			Vector([r.choice(["x", "y", "z", None]) for _ in range(n)], name="k"),
			Vector([r.choice([1, 2, 3]) for _ in range(n)], name="g"),
			Vector([r.choice([0, 1, 5, -2, None]) for _ in range(n)], name="a"),
			Vector([r.choice([0.5, 1.5, -2.0, 3.0]) for _ in range(n)], name="b"),
			Vector([r.choice(D) for _ in range(n)], name="d"),
		])
		m = r.choice([2, 3, 4])
		self.u = Table([
			Vector([r.choice([1, 2, 3, 4]) for _ in range(m)], name="g2"),
			Vector([r.choice(["x", "y", "q"]) for _ in range(m)], name="k2"),
			Vector([r.choice([10, 20, 30]) for _ in range(m)], name="z"),
		])
		self.v = Vector([r.choice([1, 2, 3, 255, 7]) for _ in range(n)], name="v")
		self.f = Vector([r.choice([1.0, 2.5, 3.0, -0.25]) for _ in range(n)], name="f")
		self.dv = Vector([r.choice(D) for _ in range(n)], name="dv")
		self.sv = Vector([r.choice(["ab", "Cd", "e f", ""]) for _ in range(n)], name="sv")
		self.m = Vector([r.random() < 0.5 for _ in range(n)])
		if not any(self.m):
			self.m = Vector([True] + [False] * (n - 1))
		self.keys = ["k", "a"]                       # a caller-owned list reused across calls
		self.lon, self.ron = ["g"], ["g2"]           # caller-owned join key lists
		self.over, self.over2, self.aggcols = ["k"], ["g", "k"], ["a", "b"]
		self.ext = Vector([r.choice(["p", "q"]) for _ in range(n)], name="ext")    # an external key vector, not stored in the table
		self.ext2 = Vector([r.choice([1, 2]) for _ in range(n)])                   # an unnamed external key vector
		self.writes = []

	def rebuild(self):
		w = World.__new__(World)
		w.rng, w.n = self.rng, self.n
		w.t, w.u = fresh_table(self.t), fresh_table(self.u)
		for nm in ("v", "f", "dv", "sv", "m", "ext", "ext2"):
			setattr(w, nm, fresh_vector(getattr(self, nm)))
		w.keys = ["k", "a"]
		w.lon, w.ron = ["g"], ["g2"]
		w.over, w.over2, w.aggcols = ["k"], ["g", "k"], ["a", "b"]
		w.writes = []
		return w

	ARG_LISTS = ("keys", "lon", "ron", "over", "over2", "aggcols")

	def arg_snapshot(self):
		return {nm: (getattr(self, nm), list(getattr(self, nm))) for nm in self.ARG_LISTS}

	def arg_changed(self, snap):
		out = []
		for nm, (obj, items) in snap.items():
			cur = getattr(self, nm)
			if cur is not obj or len(cur) != len(items) or any(a is not b for a, b in zip(cur, items)):
				out.append(nm)
		return out

	def reset_args(self):
		self.keys = ["k", "a"]
		self.lon, self.ron = ["g"], ["g2"]
		self.over, self.over2, self.aggcols = ["k"], ["g", "k"], ["a", "b"]

	def names(self):
		return self.t.column_names()

	def col(self, pos):
		return self.t.cols()[pos]

	# ------------------------------------------------------------- mutations
	def mutate(self):
		r = self.rng
		n = self.n
		i = r.randrange(n)
		kind = r.choice(["cell-item", "cell-view", "cell-attr-view", "row", "column-slice", "attr-replace", "rename-view", "rename_column", "rename_columns-swap",
			"v-write", "v-promote", "v-none", "f-write", "dv-write", "sv-write", "mask-write", "mask-write-twice", "ext-replace", "ext-write", "u-cell", "u-rename-move",
			"t-rename-move", "key-write", "key-none", "derived-rename", "derived-write", "derived-rename",
			"f-promote-complex", "dv-promote-datetime", "v-write-twice", "v-int-into-float", "f-none", "sv-none", "t-col-promote", "t-col-none", "key-write-twice",
			"rename_column", "rename_column", "rename-view", "rename_columns-swap", "t-rename-move", "attr-replace", "cell-item"])      # (renames and table-level writes weigh more: most library memos hang on them)
		t = self.t
		names = t.column_names()

		def valfor(pos):
			proto = next((x for x in t.cols()[pos]._underlying if x is not None), None)
			if isinstance(proto, str):
				return r.choice(["x", "y", "z", "w"])
			if isinstance(proto, float):
				return r.choice([0.5, 9.25, -1.5])
			if isinstance(proto, date):
				return r.choice(D)
			return r.choice([0, 1, 2, 3, 9])
		pos = r.randrange(len(names))
		nm = names[pos]
		o = None
		if kind == "cell-item":
			o = call(t.__setitem__, (i, pos), valfor(pos))
		elif kind == "cell-view":
			o = call(lambda: t.cols()[pos].__setitem__(i, valfor(pos)))
		elif kind == "cell-attr-view":
			o = call(lambda: t[nm].__setitem__(i, valfor(pos))) if isinstance(nm, str) else None
		elif kind == "row":
			o = call(t.__setitem__, i, [valfor(p) for p in range(len(names))])
		elif kind == "column-slice":
			o = call(t.__setitem__, (slice(None), pos), [valfor(pos) for _ in range(n)])
		elif kind == "attr-replace":
			o = call(lambda: setattr(t, "g", [r.choice([1, 2, 3]) for _ in range(n)])) if "g" in names else None
		elif kind == "rename-view":
			new = r.choice(["bb", "b", "Total $", "mean"])
			tgt = next((p for p, x in enumerate(names) if x in ("b", "bb", "Total $", "mean")), None)
			o = call(lambda: setattr(t.cols()[tgt], "name", new)) if tgt is not None else None
		elif kind == "rename_column":
			fam = r.choice([("d", "dd", "when"), ("b", "bb", "Total $", "mean")])
			tgt = next((x for x in names if x in fam), None)
			o = call(t.rename_column, tgt, r.choice(fam)) if tgt else None
		elif kind == "rename_columns-swap":
			if "a" in names and "g" in names:
				o = call(t.rename_columns, ["a", "g", "tmp_"], ["tmp_", "a", "g"])      # the swap idiom: net effect is a permutation of existing names
		elif kind == "t-rename-move":
			# move a name from one column to another through the column vectors
			if "a" in names and "g" in names:
				ca, cg = t["a"], t["g"]
				o = call(lambda: (setattr(ca, "name", "a_old"), setattr(cg, "name", "a")))
			elif "a_old" in names and "a" in names:
				ca, cg = t["a_old"], t["a"]
				o = call(lambda: (setattr(cg, "name", "g"), setattr(ca, "name", "a")))
		elif kind in ("derived-rename", "derived-write"):
			# a table derived from t is renamed / written: t itself (contents, names AND accessors) must not notice
			how = r.choice(["copy", "rowslice", "sort", "select", "mask", "rshift"])
			d = call({"copy": lambda: t.copy(), "rowslice": lambda: t[0:n], "sort": lambda: t.sort_by(t.cols()[1]), "select": lambda: t[tuple(x for x in names if isinstance(x, str))[:2]],
				"mask": lambda: t[[True] * n], "rshift": lambda: t >> {"extra": [0] * n}}[how])
			if d.ok and isinstance(d.value, Table) and len(d.value.cols()):
				dt = d.value
				dn = dt.column_names()
				if kind == "derived-rename":
					o = call(dt.rename_column, dn[0], r.choice(["renamed", "cost", "x1"])) if r.random() < 0.6 else call(lambda: setattr(dt.cols()[0], "name", "viewrenamed"))
				else:
					o = call(dt.__setitem__, (0, 0), dt.cols()[0]._underlying[-1])
				self.keepalive = getattr(self, "keepalive", [])[-3:] + [dt]
			kind = f"{kind}-of-{how}"
		elif kind == "key-write":
			kp = next((p for p, x in enumerate(names) if x == "k"), None)
			o = call(lambda: t.cols()[kp].__setitem__(i, r.choice(["x", "y", "z"]))) if kp is not None else None
		elif kind == "key-none":
			kp = next((p for p, x in enumerate(names) if x == "k"), None)
			o = call(lambda: t.cols()[kp].__setitem__(i, None)) if kp is not None else None
		elif kind == "v-write":
			o = call(self.v.__setitem__, i, r.choice([1, 4, 1000, 0]))
		elif kind == "v-promote":
			o = call(self.v.__setitem__, i, 7.5)
		elif kind == "v-none":
			o = call(self.v.__setitem__, i, None)
		elif kind == "v-write-twice":
			o = call(self.v.__setitem__, i, r.choice([1, 4, 1000, 0]))
			o = call(self.v.__setitem__, r.randrange(n), r.choice([2, 6, 0]))
		elif kind == "v-int-into-float":
			o = call(self.f.__setitem__, i, r.choice([3, 7, True]))
		elif kind == "f-promote-complex":
			o = call(self.f.__setitem__, i, 1 + 2j)
		elif kind == "dv-promote-datetime":
			o = call(self.dv.__setitem__, i, datetime(2020, 5, 5, 6, 30))
		elif kind == "f-none":
			o = call(self.f.__setitem__, i, None)
		elif kind == "sv-none":
			o = call(self.sv.__setitem__, i, None)
		elif kind == "t-col-promote":
			gp = next((p for p, x in enumerate(names) if x in ("g",)), None)
			o = call(lambda: t.cols()[gp].__setitem__(i, 2.5)) if gp is not None else None
		elif kind == "t-col-none":
			bp = next((p for p, x in enumerate(names) if x in ("b", "bb")), None)
			o = call(lambda: t.cols()[bp].__setitem__(i, None)) if bp is not None else None
		elif kind == "key-write-twice":
			kp = next((p for p, x in enumerate(names) if x == "k"), None)
			if kp is not None:
				o = call(lambda: t.cols()[kp].__setitem__(i, r.choice(["x", "y", "z"])))
				o = call(lambda: t.cols()[kp].__setitem__(r.randrange(n), r.choice(["x", "y", "z"])))
		elif kind == "f-write":
			o = call(self.f.__setitem__, slice(0, 1), [r.choice([0.25, 4.0])])
		elif kind == "dv-write":
			o = call(self.dv.__setitem__, i, r.choice(D))
		elif kind == "sv-write":
			o = call(self.sv.__setitem__, i, r.choice(["zz", "Q", "a b"]))
		elif kind in ("mask-write", "mask-write-twice"):
			o = call(self.m.__setitem__, i, not self.m[i])
			if kind == "mask-write-twice":
				j = r.randrange(n)
				o = call(self.m.__setitem__, j, not self.m[j])
		elif kind == "ext-replace":
			self.ext = Vector([r.choice(["p", "q", "r"]) for _ in range(n)], name="ext")
			self.ext2 = Vector([r.choice([1, 2, 3]) for _ in range(n)])
		elif kind == "ext-write":
			o = call(self.ext.__setitem__, i, r.choice(["p", "q", "r"]))
		elif kind == "u-cell":
			j = r.randrange(len(self.u))
			o = call(self.u.__setitem__, (j, 0), r.choice([1, 2, 3, 4]))
		elif kind == "u-rename-move":
			un = self.u.column_names()
			if "g2" in un and "z" in un:
				cg, cz = self.u["g2"], self.u["z"]
				o = call(lambda: (setattr(cg, "name", "g2_old"), setattr(cz, "name", "g2")))
			elif "g2_old" in un and "g2" in un:
				cg, cz = self.u["g2_old"], self.u["g2"]
				o = call(lambda: (setattr(cz, "name", "z"), setattr(cg, "name", "g2")))
		self.writes.append(kind if (o is None or o.ok) else kind + "(refused)")


def _first(t, wanted):
	"""first stored name among wanted that exists in t (the world renames columns)"""
	names = t.column_names()
	for w in wanted:
		if w in names:
			return w
	return names[0]


def _kname(w):
	return _first(w.t, ["k"])


def _aname(w):
	return _first(w.t, ["a", "a_old", "tmp_"])


def _gname(w):
	return _first(w.t, ["g", "a"])


def _bname(w):
	return _first(w.t, ["b", "bb", "Total $", "mean"])


def _dname(w):
	return _first(w.t, ["d", "dd", "when"])


def _ug(w):
	return _first(w.u, ["g2"])


def accessor_view(t):
	base = set(dir(Table()))
	out = {}
	for a in dir(t):
		if a in base:
			continue
		try:
			c = getattr(t, a)
		except Exception as exc:
			out[a] = type(exc).__name__
			continue
		hits = [i for i, x in enumerate(t.cols()) if x is c]
		out[a] = hits[0] if hits else "not-a-column"
	return out


def dot_row(t):
	for ln in repr(t).split("\n")[:3]:
		toks = ln.split()
		if toks and all(tk.startswith(".") for tk in toks):
			return toks
	return None


FAMILIES = {
	"C02": [
		("T", lambda w: w.t.T), ("T.T", lambda w: w.t.T.T), ("rows", lambda w: [tuple(r) for r in w.t]), ("row0", lambda w: tuple(w.t[0])), ("row-1", lambda w: tuple(w.t[-1])),
		("shape", lambda w: (len(w.t), w.t.shape)), ("rowslice", lambda w: w.t[0:2]), ("lshift-row", lambda w: w.t << [list(r) for r in w.t][0]),
		("lshift-table", lambda w: w.t << w.t[0:1]), ("cell", lambda w: w.t[w.n - 1, 1]),
		("iter-row-sums", lambda w: [r.sum() for r in w.t[_gname(w), _bname(w)]]), ("iter-row-slices", lambda w: [list(r[0:2]) for r in w.t]), ("iter-row-math", lambda w: [list(r * 2) for r in w.t[_gname(w), _bname(w)]]),
		("two-rows-held", lambda w: (lambda a, b: (tuple(a), tuple(b)))(w.t[0], w.t[w.n - 1])), ("row-held-across-shape", lambda w: (lambda r: (w.t.shape, tuple(r)))(w.t[-1])),
		("col-by-name", lambda w: [list(w.t[nm]) for nm in w.t.column_names() if isinstance(nm, str)]), ("col-by-name-twice", lambda w: [(list(w.t[nm]), list(w.t[nm])) for nm in w.t.column_names() if isinstance(nm, str)][:2]),
		("sort-by-name-cells", lambda w: w.t.sort_by(_gname(w))), ("T-of-sorted", lambda w: w.t.sort_by(_bname(w)).T),
		("row-by-name", lambda w: [w.t[0][nm] for nm in w.t.column_names() if isinstance(nm, str) and nm.isidentifier() and nm == nm.lower() and not hasattr(Row, nm)]), ("rows-after-set_index", lambda w: [tuple(r.copy()) for r in w.t]),
	],
	"C05": [
		("bit_length", lambda w: w.v.bit_length()), ("to_bytes", lambda w: w.v.to_bytes(4, "big")), ("conjugate", lambda w: w.v.conjugate()), ("is_integer", lambda w: w.f.is_integer()),
		("hex", lambda w: w.f.hex()), ("year", lambda w: w.dv.year), ("isoformat", lambda w: w.dv.isoformat()), ("upper", lambda w: w.sv.upper()), ("v+1", lambda w: w.v + 1),
		("v*f", lambda w: w.v * w.f), # (date + int days: on a vector promoted to datetime in place the live object must answer as the rebuilt
		# datetime vector does - it used to apply the day arithmetic of dates to the datetimes and drop their time of day, F44)
		("dv+1", lambda w: w.dv + 1), ("dv+v", lambda w: w.dv + Vector([1] * w.n)), ("2-v", lambda w: 2 - w.v), ("t.a*2", lambda w: w.t[_gname(w), _bname(w)] * 2),
		("real", lambda w: w.v.real), ("as_integer_ratio", lambda w: w.f.as_integer_ratio()),
		("f+1.0", lambda w: w.f + 1.0), ("1.5*f", lambda w: 1.5 * w.f), ("f/f", lambda w: w.f / (w.f + 10.0)), ("v.is_integer", lambda w: w.v.is_integer()), ("f.real", lambda w: w.f.real), ("f.imag", lambda w: w.f.imag),
		("dv+timedelta", lambda w: w.dv + __import__("datetime").timedelta(hours=6)), ("dv-timedelta", lambda w: w.dv - __import__("datetime").timedelta(days=1, hours=1)), ("dv.day", lambda w: w.dv.day),
		("t.col+1.0", lambda w: w.t[_gname(w)] + 1.0), ("t.col.real", lambda w: w.t[_gname(w)].real),
	],
	"C06": [
		("mean", lambda w: w.t[_aname(w)].mean()), ("stdev", lambda w: w.t[_aname(w)].stdev()), ("sum", lambda w: w.t[_aname(w)].sum()), ("max", lambda w: w.t[_aname(w)].max()),
		("min", lambda w: w.t[_aname(w)].min()), ("v.mean", lambda w: w.v.mean()), ("v.stdev", lambda w: w.v.stdev()), ("v.sum", lambda w: w.v.sum()), ("isna", lambda w: w.v.isna()),
		("dropna", lambda w: w.v.dropna()), ("fillna", lambda w: w.v.fillna(0)), ("v<2", lambda w: w.v < 2), ("v==list", lambda w: w.v == list(w.v)), ("any", lambda w: w.v.any()), ("all", lambda w: w.v.all()),
		("lshift-none-sum", lambda w: (w.v << Vector([1, None])).sum()), ("lshift-none-dropna", lambda w: (w.v << Vector([1, None])).dropna()), ("v!=list-none", lambda w: w.v != [None] * w.n),
	],
	"C07": [
		("v[m]", lambda w: w.v[w.m]), ("t[m]", lambda w: w.t[w.m]), ("sv[m]", lambda w: w.sv[w.m]), ("t[cols][m]", lambda w: w.t[_gname(w), _bname(w)][w.m]), ("t[m][cols]", lambda w: w.t[w.m][_gname(w), _bname(w)]),
		("v[0:2]", lambda w: w.v[0:2]), ("v==v", lambda w: w.v == fresh_vector(w.v)), ("v<f", lambda w: w.v < w.f), ("t[list-mask]", lambda w: w.t[list(w.m)]), ("v[-1]", lambda w: w.v[-1]),
	],
	"C09": [
		("inner-by-lists", lambda w: w.t.inner_join(w.u, w.lon, w.ron, expect="many_to_many")),
		("inner-by-name", lambda w: w.t.inner_join(w.u, _gname(w), _ug(w), expect="many_to_many")), ("inner-by-vector", lambda w: w.t.inner_join(w.u, w.t[_gname(w)], w.u[_ug(w)], expect="many_to_many")),
		("inner-two-keys", lambda w: w.t.inner_join(w.u, [_gname(w), _kname(w)], [_ug(w), _first(w.u, ["k2"])], expect="many_to_many")),
		("inner-self", lambda w: w.t.inner_join(w.t, _kname(w), _kname(w), expect="many_to_many")),
	],
	"C10": [
		("left-by-lists", lambda w: w.t.join(w.u, w.lon, w.ron, expect="many_to_many")), ("full-by-lists", lambda w: w.t.full_join(w.u, w.lon, w.ron, expect="many_to_many")),
		("full-swapped-lists", lambda w: w.u.full_join(w.t, w.ron, w.lon, expect="many_to_many")),
		("left-by-name", lambda w: w.t.join(w.u, _gname(w), _ug(w), expect="many_to_many")), ("full-by-name", lambda w: w.t.full_join(w.u, _gname(w), _ug(w), expect="many_to_many")),
		("full-swapped", lambda w: w.u.full_join(w.t, _ug(w), _gname(w), expect="many_to_many")), ("left-by-vector", lambda w: w.t.join(w.u, w.t[_gname(w)], w.u[_ug(w)], expect="many_to_many")),
		("left-of-full", lambda w: w.t.join(w.t.full_join(w.u, _gname(w), _ug(w), expect="many_to_many"), _kname(w), _kname(w), expect="many_to_many")),
	],
	"C11": [
		("self-join-then-dups", lambda w: (call(lambda: w.t.inner_join(w.t, _kname(w), _kname(w), expect="one_to_one")).ok, call(lambda: w.t.join(w.u, w.lon, w.ron, expect="one_to_one")).ok,
			call(lambda: w.u.full_join(w.t, w.ron, w.lon, expect="one_to_many")).ok)),
	] + [
		(f"{how}-{exp}", (lambda how, exp: lambda w: getattr(w.t, how)(w.u, _gname(w), _ug(w), expect=exp))(how, exp))
		for how in ("inner_join", "join", "full_join") for exp in ("one_to_one", "many_to_one", "one_to_many")
	] + [
		(f"{how}-{exp}-lists", (lambda how, exp: lambda w: getattr(w.t, how)(w.u, w.lon, w.ron, expect=exp))(how, exp))
		for how in ("inner_join", "join", "full_join") for exp in ("one_to_one", "one_to_many")
	],
	"C12": [
		("agg-by-lists", lambda w: w.t.aggregate(over=w.over, sum_over=w.aggcols, count_over=w.aggcols)), ("agg-by-lists2", lambda w: w.t.aggregate(over=w.over2, mean_over=w.aggcols)),
		("agg-of-sorted-by-lists", lambda w: w.t.sort_by(_bname(w)).aggregate(over=w.over, max_over=w.aggcols)),
		("v.sum-max", lambda w: (w.v.sum(), w.v.max(), w.v.min(), w.v.mean(), w.v.stdev())), ("col.sum-max", lambda w: (lambda c: (c.sum(), c.max(), c.min(), c.mean()))(w.t[_gname(w)])),
		("agg-by-name", lambda w: w.t.aggregate(over=_kname(w), sum_over=_aname(w), count_over=_aname(w), mean_over=_bname(w))),
		("agg-by-ext", lambda w: w.t.aggregate(over=w.ext, sum_over=_aname(w), max_over=_bname(w))),
		("agg-by-unnamed-ext", lambda w: w.t.aggregate(over=w.ext2, count_over=_aname(w), apply={"vals": (_aname(w), tuple)})),
		("agg-two-keys", lambda w: w.t.aggregate(over=[_kname(w), w.ext], min_over=_bname(w), stdev_over=_bname(w))),
		("agg-by-vector", lambda w: w.t.aggregate(over=w.t[_gname(w)], sum_over=[_aname(w), _aname(w)])),
	],
	"C13": [
		("win-by-lists", lambda w: w.t.window(over=w.over, sum_over=w.aggcols, count_over=w.aggcols)), ("win-of-sorted-by-lists", lambda w: w.t.sort_by(_bname(w)).window(over=w.over2, max_over=w.aggcols)),
		("win-two-applies", lambda w: w.t.window(over=_kname(w), apply={"first": (_aname(w), lambda vs: vs[0]), "n": (_bname(w), len), "tup": (_gname(w), tuple)})),
		("win-by-name", lambda w: w.t.window(over=_kname(w), sum_over=_aname(w), count_over=_aname(w), mean_over=_bname(w))),
		("win-by-vector", lambda w: w.t.window(over=w.t[_kname(w)], max_over=_bname(w), apply={"vals": (_aname(w), tuple)})),
		("win-by-ext", lambda w: w.t.window(over=w.ext, sum_over=_aname(w))),
		("win-two-keys", lambda w: w.t.window(over=[_gname(w), w.ext2], min_over=_bname(w))),
	],
	"C14": [
		("sort-keys-list", lambda w: w.t.sort_by(w.keys)), ("sort-keys-list-rev", lambda w: w.t.sort_by(w.keys, reverse=[True, False])), ("sort-name", lambda w: w.t.sort_by(_kname(w), reverse=True)),
		("sort-vector", lambda w: w.t.sort_by(w.t[_bname(w)])), ("sort-ext", lambda w: w.t.sort_by(w.ext2, na_last=False)), ("sort-sorted", lambda w: w.t.sort_by(w.keys).sort_by(w.keys)),
		("v.sort_by", lambda w: w.v.sort_by(reverse=True)), ("resort-after-view-write", lambda w: (lambda r: (call(r.cols()[2].__setitem__, 0, 99).ok, norm(r.sort_by(_aname(w)))))(w.t.sort_by(_aname(w)))),
		("sort-exact-name-vs-vector", lambda w: (norm(w.t.sort_by(_bname(w))), norm(w.t.sort_by(w.t[_bname(w)])))), ("sort-repeated-key", lambda w: w.t.sort_by([_gname(w), _kname(w), _gname(w)], reverse=[False, True, True])),
	],
	"C16": [("fp-table", lambda w: w.t.fingerprint()), ("fp-v", lambda w: w.v.fingerprint()), ("fp-slice", lambda w: w.v[0:2].fingerprint()), ("fp-rowslice", lambda w: w.t[0:2].fingerprint()),
		("fp-column", lambda w: w.t.cols()[2].fingerprint()), ("fp-mask", lambda w: w.v[w.m].fingerprint())],
	"C17": [("accessors", lambda w: accessor_view(w.t)), ("dot-row", lambda w: dot_row(w.t)), ("row-attr", lambda w: getattr(w.t[0], "g", "<missing>") if "g" in w.t.column_names() else None),
		("getitem-name", lambda w: [w.t.cols().index(w.t[nm]) if False else next(i for i, c in enumerate(w.t.cols()) if c is w.t[nm]) for nm in w.t.column_names() if isinstance(nm, str)])],
	"C18": [
		("agg-names", lambda w: w.t.aggregate(over=_kname(w), sum_over=[_aname(w), _bname(w)], mean_over=_bname(w)).column_names()),
		("win-names", lambda w: w.t.window(over=_kname(w), max_over=_dname(w), count_over=_aname(w)).column_names()),
		("sort-names", lambda w: w.t.sort_by(_kname(w)).column_names()), ("mask-names", lambda w: w.t[w.m].column_names()), ("v.sort_by.name", lambda w: w.t[_aname(w)].sort_by().name),
		("join-names", lambda w: w.t.join(w.u, _gname(w), _ug(w), expect="many_to_many").column_names()),
	],
	"C20": [("repr-table", lambda w: repr(w.t)), ("repr-v", lambda w: repr(w.v)), ("repr-slice", lambda w: repr(w.t[0:2])), ("repr-f", lambda w: repr(w.f))],
	"C01": [("T-twice-then-write", lambda w: (lambda a, b: (call(a.__setitem__, (0, 0), a.cols()[0]._underlying[-1]).ok, norm(b), norm(w.t.T)))(w.t.T, w.t.T)),
		("slice-twice-then-write", lambda w: (lambda a, b: (call(a.__setitem__, (0, 0), a.cols()[0]._underlying[-1]).ok, norm(b)))(w.t[0:2], w.t[0:2])),
		("sort-twice-then-write", lambda w: (lambda a, b: (call(a.__setitem__, (0, 1), 3).ok, norm(b)))(w.t.sort_by(_kname(w)), w.t.sort_by(_kname(w)))),
		("to_object-twice-then-write", lambda w: (lambda a, b: (call(a.__setitem__, 0, "changed").ok, norm(b), norm(w.sv)))(w.sv.to_object().to_object(), w.sv.to_object())),
		("copy-of-zero-rows-rename", lambda w: (lambda z, c: (call(c.rename_column, c.column_names()[0], "renamed").ok, z.column_names()))(w.t[w.n:w.n], w.t[w.n:w.n].copy())),
		("accessors", lambda w: accessor_view(w.t)), ("copy-then-names", lambda w: w.t.copy().column_names()), ("u-accessors", lambda w: accessor_view(w.u))],
	"C03": [("schemas", lambda w: [repr(c.schema()) for c in w.t.cols()]), ("lshift-vector-none", lambda w: w.v << Vector([1, None])), ("fillna-integral", lambda w: w.t[_aname(w)].fillna(0.0)),
		("agg-stdev-schema", lambda w: w.t.aggregate(over=_kname(w), stdev_over=_bname(w)))],
}


def run_recompute(chk, spec, family=None):
	family = family or spec["family"]
	rng = random.Random(spec["seed"])
	w = World(rng, spec.get("n", rng.choice([3, 4, 5, 6])))
	ops = FAMILIES[family]
	stratum = "recompute"
	for rnd in range(spec.get("rounds", 6)):
		name, fn = rng.choice(ops)
		snap = w.arg_snapshot()
		live = call(fn, w)
		ref = call(fn, w.rebuild())
		chk.judged(stratum, ("recompute", family, name, tuple(w.writes[-2:])))
		hist = "+".join(sorted(set(x.split("(")[0] for x in w.writes[-3:]))) or "fresh"
		changed = w.arg_changed(snap)
		if changed:
			chk.fail("operations never change their operands (a caller-owned argument list was modified)", f"recompute/{name}/caller-argument-modified",
				f"{family} {name}: the caller's list argument(s) {changed} were rewritten: {short({nm: getattr(w, nm) for nm in changed}, 160)}", prop=family)
			w.reset_args()
		if live.ok != ref.ok:
			chk.fail("an operation's outcome depends only on the current contents of its operands", f"recompute/{name}/outcome-differs-from-fresh-objects/after-{hist}",
				f"{family} {name} on long-lived objects -> {live!r}; on fresh objects with the same contents -> {ref!r}; writes so far {w.writes}", prop=family)
			return
		if live.ok:
			chk.observe(live.value, f"recompute-{name}")
			a, b = norm(live.value), norm(ref.value)
			if a != b:
				chk.fail("an operation's result depends only on the current contents of its operands", f"recompute/{name}/differs-from-fresh-objects/after-{hist}",
					f"{family} {name} on long-lived objects -> {short(a, 300)}; on fresh objects with the same contents -> {short(b, 300)}; writes so far {w.writes}", prop=family)
				return
		elif type(live.exc) is not type(ref.exc):
			chk.counters["recompute-different-exception-types"] += 1
		for _ in range(rng.choice([1, 2, 2, 3])):
			w.mutate()


def runner(family):
	def run(chk, spec):
		run_recompute(chk, spec, family)
	return run


def add_cases(chk, family, quick=120, thorough=1500):
	rng = chk.rng
	for _ in range(quick if chk.quick() else thorough):
		chk.case("recompute", {"family": family, "seed": rng.randrange(10**9), "rounds": rng.choice([4, 6, 8])}, "recompute")
