"""C05 - elementwise operations equal the Python scalar operation, shape preserved."""
import itertools
from datetime import date, datetime, timedelta

from ..bind import Vector, Table
from ..core import call, short
from .. import models as M
from .. import values as V
from . import common
from .common import py_elementwise, do_arith, BIN_OPS, UN_OPS, ARITH_VALUES

from . import recompute

RULE = ("[plus the shared recompute-after-history monitor: this property's operations evaluated on long-lived objects between in-place writes / renames must equal the same operations on fresh objects rebuilt from the current contents] "
	"every arithmetic operator x operand form (vector, scalar, list/tuple, reflected scalar, reflected list, unary) x dtype pair x "
	"length {0,1,2,5} x None pattern is executed on the real Vector and compared, type-aware, with the Python operator applied to the "
	"i-th operands in written order; unequal lengths must raise; table-with-scalar / table-with-table must equal the per-column vector "
	"operation; every public str/int/float/bool/date/datetime method or property reachable through attribute broadcasting is called with "
	"an argument table at sizes 1/3/40 with None placements; dates + days. A case is counted only when Python itself defines the scalar "
	"operation for every element pair (constrained); distinct = (operator, form, kind pair, length class, None pattern) or (kind, method, "
	"argument tuple, size).")
ASSUMPTIONS = [
	"cases where Python raises for some element pair are unconstrained (including serif's tuple fallback)",
	"str % vector and bytes % vector are Python formatting and are not generated",
	"class/static methods of the element types (today, fromisoformat, maketrans, fromhex, from_bytes ...) are excluded",
	"reflected table forms (scalar op table) are not judged",
]
EXHAUSTIVE = {"flag": False, "scope": "operator x form x kind-pair product is complete; values are sampled"}
ANCHOR_FUNCS = ["vector:Vector._elementwise_operation", "vector:Vector.__radd__", "vector:Vector._unary_operation",
	"table:Table._table_elementwise_operation", "vector:MethodProxy.__call__", "vector:Vector.__getattr__", "vector:_Date.__add__"]
REQUIRED_STRATA = {"recompute": 200, "arith-value": 2000, "arith-len-mismatch": 50, "table-arith": 50, "method": 300, "date-days": 20}


def kinds_sig(vals):
	ks = sorted({type(v).__name__ for v in vals if v is not None})
	return "+".join(ks) if ks else "none"


def none_sig(vals):
	if not vals:
		return "empty"
	flags = [v is None for v in vals]
	if all(flags):
		return "all"
	if not any(flags):
		return "no"
	return ("first" if flags[0] else "") + ("last" if flags[-1] else "") or "mid"


def run_arith(chk, spec):
	kind, exp = py_elementwise(spec)
	opname, form = spec["opname"], spec["form"]
	a = spec["a"]
	b = spec.get("b")
	ka = kinds_sig(a)
	kb = kinds_sig(b) if isinstance(b, list) else type(b).__name__
	tag = f"{opname}/{form}/{ka}x{kb}" if form != "unary" else f"{opname}/unary/{ka}"
	if kind == "unconstrained":
		chk.skip(exp.split()[0] if exp else "x")
		o = do_arith(spec)   # still executed: the universal observers see the result
		if o.ok:
			chk.observe(o.value, "arith-unconstrained")
		return
	o = do_arith(spec)
	if kind == "len-error":
		chk.judged("arith-len-mismatch", ("len", opname, form))
		if o.ok:
			chk.fail("operands of different length raise", f"arith/length-mismatch-accepted/{form}",
				f"{spec!r} returned {short(list(o.value), 200)} for lengths {len(a)} and {len(b)}")
		return
	chk.judged("arith-value", ("arith", opname, form, ka, kb, min(len(a), 3), none_sig(a), none_sig(b) if isinstance(b, list) else "s"))
	if not o.ok:
		chk.fail("serif computes what Python defines", f"arith/raises-where-python-defines/{tag}/{type(o.exc).__name__}",
			f"{spec!r}: python gives {short(exp, 200)} but serif raised {o!r}")
		return
	r = o.value
	chk.observe(r, "arith")
	if not isinstance(r, Vector) or isinstance(r, Table):
		chk.fail("result is a vector", f"arith/result-not-a-vector/{tag}", f"{spec!r} -> {type(r).__name__}")
		return
	got = list(r._underlying)
	if len(got) != len(a):
		chk.fail("result has the operand length", f"arith/length-changed/{tag}", f"{spec!r}: length {len(got)} for operands of length {len(a)}")
		return
	d = M.first_diff(got, exp)
	if d:
		chk.fail("element i is exactly what Python computes for the i-th operands in written order", f"arith/element-mismatch/{tag}",
			f"{spec!r}: serif {short(got, 200)} vs python {short(exp, 200)}: {d}")


def run_identity(chk, spec):
	"""the result of an operation is a NEW vector, also when the operation leaves every value as it is (+v, v + 0, v * 1, abs of non-negatives ...):
	it is not the operand, and a write to it does not reach the operand"""
	import operator
	vals = list(spec["values"])
	v = Vector(list(vals), name="v")
	name = spec["expr"]
	f = {"+v": lambda: +v, "v+0": lambda: v + 0, "0+v": lambda: 0 + v, "v*1": lambda: v * 1, "1*v": lambda: 1 * v, "v-0": lambda: v - 0, "v/1": lambda: v / 1, "v**1": lambda: v ** 1,
		"abs(v)": lambda: abs(v), "v//1": lambda: v // 1, "-(-v)": lambda: -(-v), "v+[0..]": lambda: v + [0] * len(v), "v|0": lambda: v | 0 if all(isinstance(x, int) for x in vals) else v + 0,
		"v+0.0": lambda: v + 0.0, "False+v": lambda: False + v}[name]
	o = call(f)
	chk.judged("arith-value", ("identity", name, kinds_sig(vals), len(vals)))
	if not o.ok:
		chk.skip("identity-raised")
		return
	r = o.value
	chk.observe(r, "identity")
	if r is v:
		chk.fail("the result of an operation is a new vector", f"arith/returns-its-operand/{name}", f"Vector({vals!r}): {name} is the operand itself")
		return
	py = {"+v": lambda x: +x, "v+0": lambda x: x + 0, "0+v": lambda x: 0 + x, "v*1": lambda x: x * 1, "1*v": lambda x: 1 * x, "v-0": lambda x: x - 0, "v/1": lambda x: x / 1, "v**1": lambda x: x ** 1,
		"abs(v)": abs, "v//1": lambda x: x // 1, "-(-v)": lambda x: -(-x), "v+[0..]": lambda x: x + 0, "v|0": (lambda x: x | 0) if all(isinstance(x, int) for x in vals) else (lambda x: x + 0),
		"v+0.0": lambda x: x + 0.0, "False+v": lambda x: False + x}[name]
	try:
		exp = [None if x is None else py(x) for x in vals]
	except Exception:
		exp = None
	if exp is not None and isinstance(r, Vector):
		d = M.first_diff(list(r._underlying), exp)
		if d:
			chk.fail("element i is exactly what Python computes for the i-th operands in written order", f"arith/element-mismatch/identity/{name}", f"Vector({vals!r}): {name} gives {short(list(r._underlying), 160)}, python {short(exp, 160)}: {d}")
			return
	if isinstance(r, Vector) and len(r):
		before = M.snap_vector(v)
		call(r.__setitem__, 0, r._underlying[-1] if len(r) > 1 and not M.same(r._underlying[0], r._underlying[-1]) else None)
		if M.snap_vector(v) != before:
			chk.fail("the result of an operation is a new vector", f"arith/result-shares-with-operand/{name}", f"Vector({vals!r}): writing into the result of {name} changed the operand")


def run_row_arith(chk, spec):
	"""rows are vectors: arithmetic on rows that were obtained one after the other and kept"""
	cols = spec["cols"]
	n = len(cols[0])
	t = Table([Vector(list(c), name=f"c{j}") for j, c in enumerate(cols)])
	i, k = spec["i"], spec["k"]
	rows = [tuple(c[r] for c in cols) for r in range(n)]
	a = t[i]
	if spec["touch"] == "other-row":
		b = t[k]
	elif spec["touch"] == "shape":
		b = None
		t.shape
	else:
		b = None
	chk.judged("arith-value", ("row-arith", spec["expr"], spec["touch"], n, len(cols)))
	exprs = {"a*2": (lambda: a * 2, lambda: [x * 2 for x in rows[i]]), "1000-a": (lambda: 1000 - a, lambda: [1000 - x for x in rows[i]]), "-a": (lambda: -a, lambda: [-x for x in rows[i]]),
		"a+b": (lambda: a + b, lambda: [x + y for x, y in zip(rows[i], rows[k])]), "a+list": (lambda: a + [1] * len(cols), lambda: [x + 1 for x in rows[i]]),
		"b-a": (lambda: b - a, lambda: [y - x for x, y in zip(rows[i], rows[k])]),
		# one row as both operands (the library copies an operand that is the vector itself)
		"a-a": (lambda: a - a, lambda: [x - x for x in rows[i]]), "a*a": (lambda: a * a, lambda: [x * x for x in rows[i]])}
	if spec["expr"] in ("a+b", "b-a") and b is None:
		chk.skip("row-arith-needs-two-rows")
		return
	f, m = exprs[spec["expr"]]
	o = call(f)
	exp = m()
	if not o.ok:
		chk.fail("serif computes what Python defines", f"arith/raises-where-python-defines/row/{spec['expr']}/{type(o.exc).__name__}", f"{spec!r}: rows {rows[i]!r} / {rows[k]!r}: {o!r}, python {exp!r}")
		return
	got = list(o.value) if isinstance(o.value, Vector) else None
	if got is None or M.first_diff(got, exp):
		chk.fail("element i is exactly what Python computes for the i-th operands in written order", f"arith/element-mismatch/row/{spec['expr']}", f"{spec!r}: a = t[{i}] = {rows[i]!r}" + (f", b = t[{k}] = {rows[k]!r}" if b is not None else "") + f": {spec['expr']} gives {got!r}, python {exp!r}")

def run_symbolic(chk, spec):
	"""operands that record the order in which Python combined them (values.Sym): element i of every operator, in every operand form,
	is the operation applied to the i-th operands in the WRITTEN order - also where the operator happens to be commutative for numbers"""
	from ..values import Sym
	n, form, opname = spec["n"], spec["form"], spec["opname"]
	op = BIN_OPS[opname]
	if spec["other"] == "symx":
		# operands whose == builds an expression instead of answering (every such expression is truthy): they are values like any other,
		# and only `is None` - never `== None` - may declare a cell missing
		class SymX(Sym):
			def __eq__(self, other):
				return SymX(f"({Sym._t(self)}=={Sym._t(other)})")
			def __ne__(self, other):
				return SymX(f"({Sym._t(self)}!={Sym._t(other)})")
			__hash__ = Sym.__hash__
			def __bool__(self):
				return True
		mk = SymX
	else:
		mk = Sym
	xs = [mk(f"x{i}") for i in range(n)]
	ys = [mk(f"y{i}") if spec["other"] in ("sym", "symx") else (i + 2) for i in range(n)]
	k = mk("k") if spec["other"] in ("sym", "symx") else 3
	v = Vector(list(xs))
	forms = {
		"vv": (lambda: op(v, Vector(list(ys))), lambda: [op(a, b) for a, b in zip(xs, ys)]),
		"vs": (lambda: op(v, k), lambda: [op(a, k) for a in xs]),
		"sv": (lambda: op(k, v), lambda: [op(k, a) for a in xs]),
		"vl": (lambda: op(v, list(ys)), lambda: [op(a, b) for a, b in zip(xs, ys)]),
		"lv": (lambda: op(list(ys), v), lambda: [op(b, a) for a, b in zip(xs, ys)]),
		"tv": (lambda: op(tuple(ys), v), lambda: [op(b, a) for a, b in zip(xs, ys)]),
	}
	f, m = forms[form]
	o = call(f)
	exp = m()
	chk.judged("arith-value", ("symbolic", opname, form, spec["other"], n))
	if not o.ok:
		chk.fail("serif computes what Python defines", f"arith/raises-where-python-defines/symbolic/{opname}/{form}/{type(o.exc).__name__}", f"{spec!r}: {o!r}; python {exp!r}")
		return
	got = list(o.value._underlying) if isinstance(o.value, Vector) else None
	txt = lambda xs_: None if xs_ is None else [getattr(x, "text", x) for x in xs_]
	if txt(got) != txt(exp):
		chk.fail("element i is exactly what Python computes for the i-th operands in written order", f"arith/operand-order/{opname}/{form}", f"{spec!r}: serif {got!r}, python {exp!r}")

def run_table_columnwise(chk, spec):
	"""arithmetic with a table as left operand is THE SAME operation applied column by column - the operation the column itself performs, typed
	vector classes included (a date column adds days): every result column equals what the bare column gives with the matching operand"""
	import warnings
	n = spec["n"]
	D0 = date(2020, 1, 30)
	cols = {"d": [None if spec["none"] and i == 1 else D0 + timedelta(days=i) for i in range(n)], "k": [i + 1 for i in range(n)], "x": [i + 0.5 for i in range(n)], "s": [f"s{i}" for i in range(n)]}
	use = list(spec["use"])
	t = Table({c: list(cols[c]) for c in use})
	opname = spec["opname"]
	op = BIN_OPS[opname]
	kind = spec["other"]
	if kind == "int":
		other, per = 7, [7] * len(use)
	elif kind == "intvec":
		other = Vector([i % 3 for i in range(n)])
		per = [other] * len(use)
	elif kind == "intlist":
		other = [i % 3 for i in range(n)]
		per = [other] * len(use)
	else:
		other = Table({f"o{j}": [(i + j) % 3 + 1 for i in range(n)] for j in range(len(use))})
		per = list(other.cols())
	with warnings.catch_warnings():
		warnings.simplefilter("ignore")
		o = call(lambda: op(t, other))
		refs = [call(lambda c=c, p=p: op(t[c], p)) for c, p in zip(use, per)]
	chk.judged("arith-value", ("table-columnwise", opname, kind, tuple(use), n, spec["none"]))
	if any(not r.ok for r in refs):
		if o.ok and all(r.ok for r in refs) is False and kind != "intvec":
			chk.fail("table arithmetic is the vector operation applied column by column", f"table-arith/accepted-where-column-raises/{opname}/{kind}", f"{spec!r}: columns give {[repr(r) for r in refs]!r}, table gives {short(o.value, 120)}")
		return
	if not o.ok:
		chk.fail("table arithmetic is the vector operation applied column by column", f"table-arith/raises-where-columns-work/{opname}/{kind}/{type(o.exc).__name__}", f"{spec!r}: {o!r}; the columns alone give {[short(list(r.value), 60) for r in refs]!r}")
		return
	if not isinstance(o.value, Table) or len(o.value.cols()) != len(use):
		chk.fail("table arithmetic is the vector operation applied column by column", f"table-arith/shape/{opname}/{kind}", f"{spec!r}: {short(o.value, 160)}")
		return
	for c, got, ref in zip(use, o.value.cols(), refs):
		g, e = list(got._underlying), list(ref.value._underlying)
		if M.first_diff(g, e):
			chk.fail("table arithmetic is the vector operation applied column by column", f"table-arith/differs-from-column-operation/{opname}/{kind}/{c}", f"{spec!r}: column {c!r}: table gives {short(g, 120)}, the column alone {short(e, 120)}")
			return


def run_unsized(chk, spec):
	"""an operand that has no len() (generator, iterator, map object): lengths that differ raise - nothing is truncated; equal lengths either raise or
	give exactly the element-wise result"""
	vals = list(spec["values"])
	m = spec["m"]
	items = [(i % 3) + 1 for i in range(m)]
	mk = {"generator": lambda: (x for x in items), "iterator": lambda: iter(items), "map": lambda: map(int, items), "zip-first": lambda: (a for a, _ in zip(items, items))}[spec["form"]]
	op = BIN_OPS[spec["opname"]]
	v = Vector(list(vals))
	o = call(lambda: op(mk(), v) if spec["reflected"] else op(v, mk()))
	chk.judged("arith-value", ("unsized", spec["opname"], spec["form"], spec["reflected"], len(vals), m))
	if m != len(vals):
		if o.ok:
			chk.fail("lengths that differ raise an error - nothing is truncated, recycled or broadcast", f"arith/length-mismatch-accepted/unsized-{spec['form']}/{'reflected' if spec['reflected'] else 'plain'}", f"{spec!r}: Vector of {len(vals)} with {m} items gave {short(o.value, 120)}")
		return
	if o.ok and isinstance(o.value, Vector):
		exp = [None if a is None else (op(b, a) if spec["reflected"] else op(a, b)) for a, b in zip(vals, items)]
		if M.first_diff(list(o.value._underlying), exp):
			chk.fail("element i is exactly what Python computes for the i-th operands in written order", f"arith/element-mismatch/unsized-{spec['form']}", f"{spec!r}: {short(list(o.value._underlying), 120)} vs {short(exp, 120)}")

def run_table_unary(chk, spec):
	"""-t, +t, abs(t): the unary operation applied column by column - same shape, every result column what the bare column gives, names kept"""
	import operator, warnings
	n = spec["n"]
	from decimal import Decimal
	from fractions import Fraction
	cols = {"k": [(-1) ** i * (i + 1) for i in range(n)], "x": [(-1) ** (i + 1) * (i + 0.5) for i in range(n)], "z": [complex(i, -i) for i in range(n)], "b": [i % 2 == 0 for i in range(n)],
		"dec": [Decimal(i) - Decimal("1.5") for i in range(n)], "frac": [Fraction(i, 3) - 1 for i in range(n)], "td": [timedelta(days=i - 1, hours=3) for i in range(n)], "obj": [(-1) ** i * (i + 2) for i in range(n)]}
	if spec["none"] and n > 1:
		cols["k"][1] = None
	use = list(spec["use"])
	t = Table({c: list(cols[c]) for c in use})
	if "obj" in use:
		t.obj = t.obj.to_object()       # ints in a column that is typed <object>: the cells still negate
	op = {"neg": operator.neg, "pos": operator.pos, "abs": operator.abs}[spec["opname"]]
	with warnings.catch_warnings():
		warnings.simplefilter("ignore")
		o = call(op, t)
		refs = [call(op, t[c]) for c in use]
	chk.judged("arith-value", ("table-unary", spec["opname"], tuple(use), n, spec["none"]))
	if any(not r.ok for r in refs):
		return
	if not o.ok:
		chk.fail("table arithmetic is the vector operation applied column by column", f"table-arith/unary-raises/{spec['opname']}/{type(o.exc).__name__}", f"{spec!r}: {o!r}")
		return
	r = o.value
	if not isinstance(r, Table) or len(r.cols()) != len(use) or len(r) != n:
		chk.fail("table arithmetic is the vector operation applied column by column (shape preserved)", f"table-arith/unary-shape/{spec['opname']}", f"{spec!r}: result shape {getattr(r, 'shape', None)!r} for a {n}x{len(use)} table: {short(r, 160)}")
		return
	for c, got, ref in zip(use, r.cols(), refs):
		if M.first_diff(list(got._underlying), list(ref.value._underlying)):
			chk.fail("table arithmetic is the vector operation applied column by column", f"table-arith/unary-differs-from-column-operation/{spec['opname']}/{c}", f"{spec!r}: column {c!r}: {short(list(got._underlying), 100)} vs {short(list(ref.value._underlying), 100)}")
			return
	if r.column_names() != use:
		chk.fail("a unary operation on a table keeps every column name", f"table-arith/unary-names/{spec['opname']}", f"{spec!r}: names {r.column_names()!r}", prop="C18")

def run_call_write_call(chk, spec):
	"""an operation, then one to three writes with no operation in between, then the operation again: element i is the operation applied to the element the
	vector holds NOW (storage identities may repeat after two writes: nothing remembered under such an identity may answer)"""
	import random
	rng = random.Random(spec["seed"])
	D = [date(2020, 1, 1) + timedelta(days=7 * i) for i in range(12)]
	kind = spec["kind"]
	n = spec["n"]
	P61 = 2 ** 61 - 1
	from fractions import Fraction
	pool_ = {"int-twins": [-1, -2, 0, P61, 5, 5 + P61, -1 - P61, 2 * P61], "fraction-twins": [Fraction(-1), Fraction(-2), Fraction(1, 3), Fraction(1, 3) + P61, Fraction(0), Fraction(P61)], "float-twins": [0.0, -0.0, 2.0, float(2 + P61 * 4), -1.0, -2.0],
		"date": D, "int": list(range(3, 40, 3)), "str": ["ab", "Cd", "e f", "zz", "Q", "mn"], "float": [0.5, 1.5, -2.0, 3.25, 8.0, 1e3]}[kind]
	vals = [rng.choice(pool_) for _ in range(n)]
	v = Vector(list(vals))
	ops = {"date": {"+7": (lambda x: x + 7, lambda e: e + timedelta(days=7)), "+intvec": (lambda x: x + Vector([1] * n), lambda e: e + timedelta(days=1)), "year": (lambda x: x.year, lambda e: e.year), "isoformat": (lambda x: x.isoformat(), lambda e: e.isoformat()),
			"+timedelta": (lambda x: x + timedelta(days=2), lambda e: e + timedelta(days=2))},
		"int-twins": {"real": (lambda x: x.real, lambda e: e.real), "numerator": (lambda x: x.numerator, lambda e: e.numerator), "denominator": (lambda x: x.denominator, lambda e: e.denominator), "imag": (lambda x: x.imag, lambda e: e.imag),
			"bit_length": (lambda x: x.bit_length(), lambda e: e.bit_length()), "-v": (lambda x: -x, lambda e: -e)},
		"fraction-twins": {"numerator": (lambda x: x.numerator, lambda e: e.numerator), "denominator": (lambda x: x.denominator, lambda e: e.denominator), "*2": (lambda x: x * 2, lambda e: e * 2)},
		"float-twins": {"real": (lambda x: x.real, lambda e: e.real), "hex": (lambda x: x.hex(), lambda e: e.hex()), "-v": (lambda x: -x, lambda e: -e)},
		"int": {"*2": (lambda x: x * 2, lambda e: e * 2), "bit_length": (lambda x: x.bit_length(), lambda e: e.bit_length()), "2-v": (lambda x: 2 - x, lambda e: 2 - e), "-v": (lambda x: -x, lambda e: -e)},
		"str": {"upper": (lambda x: x.upper(), lambda e: e.upper()), "+s": (lambda x: x + "!", lambda e: e + "!"), "*2": (lambda x: x * 2, lambda e: e * 2), "zfill": (lambda x: x.zfill(4), lambda e: e.zfill(4))},
		"float": {"hex": (lambda x: x.hex(), lambda e: e.hex()), "/2": (lambda x: x / 2, lambda e: e / 2), "is_integer": (lambda x: x.is_integer(), lambda e: e.is_integer())}}[kind]
	f, m = ops[spec["op"]]
	first = call(f, v)
	cur = list(vals)
	for _ in range(spec["writes"]):
		i = rng.randrange(n)
		x = rng.choice(pool_)
		how = rng.choice(["item", "slice", "mask", "idx"])
		w = call({"item": lambda: v.__setitem__(i, x), "slice": lambda: v.__setitem__(slice(i, i + 1), [x]), "mask": lambda: v.__setitem__([j == i for j in range(n)], x), "idx": lambda: v.__setitem__([i], [x])}[how])
		if w.ok:
			cur[i] = x
	second = call(f, v)
	chk.judged("arith-value", ("call-write-call", kind, spec["op"], spec["writes"], n))
	if not M.same_list(list(v._underlying), cur):
		chk.skip("call-write-call-writes-differ")
		return
	exp = [m(e) for e in cur]
	if not second.ok:
		chk.fail("serif computes what Python defines", f"arith/raises-where-python-defines/after-writes/{kind}/{spec['op']}/{type(second.exc).__name__}", f"{spec!r}: {second!r}")
		return
	got = list(second.value._underlying)
	if M.first_diff(got, exp):
		chk.fail("element i of the result is the operation applied to element i", f"arith/stale-after-writes/{kind}/{spec['op']}/{spec['writes']}-writes", f"{spec!r}: vector now {cur!r}: {spec['op']} gives {short(got, 160)}, expected {short(exp, 160)}")


def run_row_method(chk, spec):
	"""a row of a table is a vector: the broadcast methods and properties of its cells' type work through it exactly as through a column"""
	kind = spec["kind"]
	cells = {"str": [["alpha", "banana", "cat a"], ["a1", "ba", "aaa"]], "int": [[5, 255, 1024], [0, 7, 9]], "date": [[date(2020, 1, 31), date(2021, 2, 28), date(1999, 12, 31)], [date(2000, 1, 1), date(2024, 2, 29), date(2010, 6, 15)]]}[kind]
	t = Table({f"c{j}": [cells[0][j], cells[1][j]] for j in range(3)})
	name, args = spec["method"]
	rows = [t[spec["i"]]] if spec["via"] == "index" else [r for r in t]
	if spec["via"] == "iter":
		rows = None
	chk.judged("method", ("row-method", kind, name, spec["via"]))
	def one(r, i):
		attr = call(getattr, r, name)
		if not attr.ok:
			return attr
		return call(attr.value, *args) if callable(attr.value) and not isinstance(attr.value, Vector) else attr
	results = []
	if spec["via"] == "index":
		results.append((spec["i"], one(t[spec["i"]], spec["i"])))
	else:
		for i, r in enumerate(t):
			o = one(r, i)
			results.append((i, call(lambda: list(o.value)) if o.ok and isinstance(o.value, Vector) else o))
	for i, o in results:
		row = cells[i]
		try:
			exp = [getattr(c, name)(*args) if callable(getattr(type(c), name, None)) or callable(getattr(c, name)) else getattr(c, name) for c in row]
		except Exception:
			continue
		if not o.ok:
			chk.fail("a broadcast method applies to every element", f"method/raises/row/{kind}.{name}/{type(o.exc).__name__}", f"{spec!r}: row {i} = {row!r}: {o!r}; per cell {exp!r}")
			return
		got = list(o.value) if isinstance(o.value, (Vector, list)) else o.value
		if got != exp:
			chk.fail("element i of the result is the method applied to element i", f"method/element-mismatch/row/{kind}.{name}", f"{spec!r}: row {i} = {row!r}: got {got!r}, per cell {exp!r}")
			return


def run_str_format_sequence(chk, spec):
	"""strings % sequence: a tuple is a plain sequence like a list - element-wise for equal lengths, an error otherwise"""
	fmts = list(spec["fmts"])
	args = spec["args"]
	v = Vector(list(fmts))
	for form, mk in (("tuple", tuple), ("list", list), ("vector", lambda a: Vector(list(a)))):
		if form == "vector" and any(isinstance(a, tuple) for a in args):
			continue
		o = call(lambda: v % mk(args))
		chk.judged("arith-value", ("str-format-sequence", form, len(fmts), len(args)))
		if len(args) != len(fmts):
			if o.ok:
				chk.fail("lengths that differ raise an error - nothing is truncated, recycled or broadcast", f"arith/length-mismatch-accepted/str-mod-{form}", f"{spec!r}: {short(o.value, 120)}")
				return
			continue
		try:
			exp = [None if f is None else f % a for f, a in zip(fmts, args)]
		except Exception:
			continue
		if not o.ok:
			chk.fail("serif computes what Python defines", f"arith/raises-where-python-defines/str-mod-{form}/{type(o.exc).__name__}", f"{spec!r}: {o!r}; python {exp!r}")
			return
		if list(o.value._underlying) != exp:
			chk.fail("element i is exactly what Python computes for the i-th operands in written order", f"arith/element-mismatch/str-mod-{form}", f"{spec!r}: {list(o.value._underlying)!r} vs {exp!r}")
			return


def run_table_arith(chk, spec):
	"""table (op) scalar / table (op) table equals the vector operation per column"""
	opname = spec["opname"]
	op = BIN_OPS[opname]
	cols = spec["cols"]
	other = spec["other"]
	exps = []
	mismatch_cols = isinstance(other, dict) and len(other["cols"]) != len(cols)
	if not mismatch_cols:
		for i, c in enumerate(cols):
			if isinstance(other, dict):
				k, e = py_elementwise({"opname": opname, "form": "vv", "a": c, "b": other["cols"][i]})
			else:
				k, e = py_elementwise({"opname": opname, "form": "vs", "a": c, "b": other})
			if k != "value":
				chk.skip("table-" + k)
				return
			exps.append(e)
	t = Table([Vector(list(c), name=n) for c, n in zip(cols, spec["names"])])
	rhs = other
	if isinstance(other, dict):
		rhs = Table([Vector(list(c), name=n) for c, n in zip(other["cols"], other["names"])])
	o = call(op, t, rhs)
	chk.judged("table-arith", ("table", opname, "tt" if isinstance(other, dict) else "ts", len(cols), len(cols[0])))
	if mismatch_cols:
		if o.ok:
			chk.fail("tables of different width raise", "table-arith/width-mismatch-accepted", f"{spec!r} returned {short(o.value, 200)}")
		return
	tag = f"{opname}/{'tt' if isinstance(other, dict) else 'ts'}"
	if not o.ok:
		chk.fail("table arithmetic is the vector operation per column", f"table-arith/raises/{tag}/{type(o.exc).__name__}", f"{spec!r} raised {o!r}")
		return
	r = o.value
	chk.observe(r, "table-arith")
	if not isinstance(r, Table) or len(r._underlying) != len(cols):
		chk.fail("table arithmetic returns a table of the same width", f"table-arith/shape/{tag}", f"{spec!r} -> {short(r, 200)}")
		return
	for i, e in enumerate(exps):
		got = list(r._underlying[i]._underlying)
		d = M.first_diff(got, e)
		if d:
			chk.fail("table arithmetic is the vector operation per column", f"table-arith/column-mismatch/{tag}",
				f"{spec!r}: column {i} is {short(got, 200)}, per-column python gives {short(e, 200)}: {d}")
			return


METHOD_ARGS = {
	"str": {
		"center": [(5,), (4, "*")], "count": [("a",), ("",)], "encode": [(), ("utf-8",)], "endswith": [("c",), (("a", "c"),)],
		"expandtabs": [(), (2,)], "find": [("b",), ("z",)], "format": [(), (1,)], "format_map": [({},)], "index": [("",)],
		"join": [(["x", "y"],), ("pq",)], "ljust": [(5,), (4, "-")], "lstrip": [(), ("a ",)], "partition": [("b",), (" ",)],
		"removeprefix": [("a",)], "removesuffix": [("c",)], "replace": [("a", "z"), ("b", "", 1)], "rfind": [("b",)], "rindex": [("",)],
		"rjust": [(5,), (4, "0")], "rpartition": [("b",)], "rsplit": [(), ("b",), (None, 1)], "rstrip": [(), ("c ",)], "split": [(), ("b",), (None, 1)],
		"splitlines": [(), (True,)], "startswith": [("a",), (("x", "A"),)], "strip": [(), ("ac ",)], "translate": [({97: "Z"},)], "zfill": [(5,)],
	},
	"int": {"to_bytes": [(16, "big", ), ], "bit_length": [()], "bit_count": [()], "conjugate": [()], "as_integer_ratio": [()], "is_integer": [()],
		"__format__": [("x",)]},
	"float": {"hex": [()], "is_integer": [()], "as_integer_ratio": [()], "conjugate": [()]},
	"bool": {"bit_length": [()], "conjugate": [()], "to_bytes": [(1, "big")], "bit_count": [()], "as_integer_ratio": [()], "is_integer": [()]},
	"date": {"replace": [(2000,), ], "strftime": [("%Y/%m",), ("%j",)], "isoformat": [()], "__format__": [("%d",)]},
	"datetime": {"replace": [(2000,)], "strftime": [("%H:%M",)], "isoformat": [(), (" ",)], "astimezone": None, "timestamp": None, "utctimetuple": [()],
		"__format__": [("%d",)]},
}
EXCLUDED = {
	"str": {"maketrans"},
	"int": {"from_bytes"},
	"float": {"fromhex"},
	"bool": {"from_bytes"},
	"date": {"today", "fromisoformat", "fromordinal", "fromtimestamp", "fromisocalendar"},
	"datetime": {"today", "fromisoformat", "fromordinal", "fromtimestamp", "fromisocalendar", "now", "utcnow", "utcfromtimestamp",
		"combine", "strptime", "astimezone", "timestamp"},   # the last two depend on the local time zone database
}
METHOD_VALUES = {
	"str": ["abc", "a b c", "", "Abc", "  pad ", "tab\tx", "l1\nl2", "10", "éa", "{}", "\u00b2", "\u2460", "\u2075\u2076", "\u0663\u0664", "\u00bd", "\u216b", "\u01c5x", "\u00df"],
	"int": [0, 1, -1, 5, 255, 2**40, -7],
	"float": [0.0, 1.5, -2.25, 3.0, 1e10, -0.0],
	"bool": [True, False],
	"date": [V.D0, date(2021, 2, 28), date(1999, 12, 31)],
	"datetime": [V.DT0, datetime(2021, 2, 28, 0, 0, 5), datetime(1999, 12, 31, 23, 59, 59, 123)],
}


def method_table():
	"""(kind, name, args|None for property)"""
	vec_attrs = set(dir(Vector))
	out = []
	for kname, typ in (("str", str), ("int", int), ("float", float), ("bool", bool), ("date", date), ("datetime", datetime)):
		for name in dir(typ):
			if name.startswith("_") and name != "__format__":
				continue
			if name in EXCLUDED[kname]:
				continue
			if name in vec_attrs:
				continue  # shadowed by a Vector attribute: not reachable through broadcasting
			attr = getattr(typ, name)
			if name in ("min", "max", "resolution"):
				continue  # class-level constants, not per-element methods/properties
			if callable(attr):
				arglist = METHOD_ARGS.get(kname, {}).get(name, [()])
				if arglist is None:
					continue
				for args in arglist:
					out.append((kname, name, args))
			else:
				out.append((kname, name, None))
	return out


def run_method(chk, spec):
	kname, name, args, vals = spec["kind"], spec["name"], spec["args"], spec["values"]
	exp = []
	for x in vals:
		if x is None:
			exp.append(None)
			continue
		try:
			exp.append(getattr(x, name) if args is None else getattr(x, name)(*args))
		except Exception:
			chk.skip("method-python-raises")
			return
	v = Vector(list(vals))
	if args is None:
		o = call(getattr, v, name)
	else:
		o = call(lambda: getattr(v, name)(*args))
	chk.judged("method", ("method", kname, name, repr(args), len(vals) if len(vals) < 4 else 40, none_sig(vals)))
	tag = f"{kname}.{name}"
	if not o.ok:
		chk.fail("broadcast method equals the method applied per element", f"method/raises/{tag}/{type(o.exc).__name__}",
			f"Vector({short(vals, 120)}).{name}{'' if args is None else args} raised {o!r}; python per element gives {short(exp, 120)}")
		return
	r = o.value
	chk.observe(r, "method")
	if not isinstance(r, Vector):
		chk.fail("broadcast method returns a vector", f"method/not-a-vector/{tag}", f"{spec!r} -> {short(r, 100)}")
		return
	got = list(r._underlying) if not isinstance(r, Table) else None
	if got is None or len(got) != len(vals):
		chk.fail("broadcast method keeps the length", f"method/length/{tag}", f"{spec!r} -> {short(r, 200)}")
		return
	d = M.first_diff(got, exp)
	if d:
		chk.fail("element i of the result is the method applied to element i, None staying None", f"method/element-mismatch/{tag}",
			f"Vector({short(vals, 120)}).{name}{'' if args is None else args}: serif {short(got, 160)} vs python {short(exp, 160)}: {d}")


def run_date_days(chk, spec):
	vals, other, form = spec["values"], spec["other"], spec["form"]
	v = Vector(list(vals))
	if form == "int":
		exp = [None if d is None else d + timedelta(days=other) for d in vals]
		o = call(lambda: v + other)
	elif form == "intvec":
		if len(other) != len(vals):
			o = call(lambda: v + Vector(list(other)))
			chk.judged("date-days", ("date-days", "len"))
			if o.ok:
				chk.fail("operands of different length raise", "arith/length-mismatch-accepted/dates+intvec", f"{spec!r} returned {short(o.value, 100)}")
			return
		exp = [None if (d is None or k is None) else d + timedelta(days=k) for d, k in zip(vals, other)]
		o = call(lambda: v + Vector(list(other)))
	elif form == "introw":
		# the days come as a ROW of an all-int table (a vector of kind int, though not an instance of the int vector class)
		t = Table({f"c{j}": [0, k if k is not None else 0, 5] for j, k in enumerate(other)}) if other else None
		if t is None or any(k is None for k in other) or len(other) != len(vals):
			chk.skip("date-days-row-unavailable")
			return
		exp = [None if d is None else d + timedelta(days=k) for d, k in zip(vals, other)]
		o = call(lambda: v + t[1])
	elif form == "timedelta":
		exp = [None if d is None else d + other for d in vals]
		o = call(lambda: v + other)
	elif form == "sub-timedelta":
		exp = [None if d is None else d - other for d in vals]
		o = call(lambda: v - other)
	else:
		raise ValueError(form)
	chk.judged("date-days", ("date-days", form, none_sig(vals), min(len(vals), 3)))
	if not o.ok:
		chk.fail("dates + days is defined per element", f"date-days/raises/{form}/{type(o.exc).__name__}", f"{spec!r} raised {o!r}")
		return
	chk.observe(o.value, "date-days")
	got = list(o.value._underlying)
	d = M.first_diff(got, exp)
	if d:
		chk.fail("dates + days: element i is date_i plus the days", f"date-days/element-mismatch/{form}", f"{spec!r}: {short(got, 160)} vs {short(exp, 160)}: {d}")


def run_helper(chk, spec):
	"""serif-specific broadcast helpers whose meaning is documented per element: before/after/before_last/after_last (str), eomonth (date)"""
	import calendar
	name, vals, sep = spec["name"], spec["values"], spec.get("sep")
	ref = {
		"before": lambda x: x.partition(sep)[0], "after": lambda x: x.partition(sep)[2], "before_last": lambda x: x.rpartition(sep)[0], "after_last": lambda x: x.rpartition(sep)[2],
		"eomonth": lambda x: x.replace(day=calendar.monthrange(x.year, x.month)[1]),
	}[name]
	exp = [None if x is None else ref(x) for x in vals]
	v = Vector(list(vals))
	o = call(lambda: getattr(v, name)(sep) if sep is not None else getattr(v, name)())
	chk.judged("method", ("helper", name, len(vals) if len(vals) < 4 else 40, none_sig(vals)))
	if not o.ok:
		chk.fail("broadcast method equals the method applied per element", f"method/raises/helper.{name}/{type(o.exc).__name__}", f"Vector({short(vals, 120)}).{name}({sep!r}) raised {o!r}")
		return
	chk.observe(o.value, "method")
	got = list(o.value._underlying)
	d = M.first_diff(got, exp)
	if d:
		chk.fail("element i of the result is the method applied to element i, None staying None", f"method/element-mismatch/helper.{name}",
			f"Vector({short(vals, 120)}).{name}({sep!r}): serif {short(got, 160)} vs documented {short(exp, 160)}: {d}")


def run_namesake_broadcast(chk, spec):
	"""whether a broadcast attribute is a method or a property is a fact about the CLASS of the cells: a vector of some other class that merely carries the
	same name (a user class called 'date' whose year is a method, an 'int' whose bit_length is a property) does not change what the built-in kind answers afterwards"""
	kind, order = spec["kind"], spec["order"]
	if kind == "date":
		ns = type("date", (), {"year": lambda self: 1999, "isoformat": property(lambda self: "prop")})
		real = [date(2020, 1, 31), None, date(2021, 2, 28)]
		probes = [("year", None, [2020, None, 2021]), ("isoformat", (), ["2020-01-31", None, "2021-02-28"])]
	elif kind == "int":
		ns = type("int", (), {"bit_length": property(lambda self: 7), "real": lambda self: 0})
		real = [5, None, 255]
		probes = [("bit_length", (), [3, None, 8]), ("real", None, [5, None, 255])]
	else:
		ns = type("str", (), {"upper": property(lambda self: "P"), "lower": property(lambda self: "p")})
		real = ["ab", None, "Cd"]
		probes = [("upper", (), ["AB", None, "CD"]), ("lower", (), ["ab", None, "cd"])]
	def touch_namesake():
		w = Vector([ns(), ns()], dtype=object) if spec["typed"] == "object" else Vector([ns(), ns()])
		for attr, args, _ in probes:
			o = call(getattr, w, attr)
			if o.ok and args is not None:
				call(lambda: o.value())
	def ask():
		out = []
		v = Vector(list(real))
		for attr, args, exp in probes:
			o = call(getattr, v, attr)
			if o.ok and args is not None:
				o = call(lambda: o.value(*args))
			out.append((attr, o, exp))
		return out
	if order == "namesake-first":
		touch_namesake()
		res = ask()
	else:
		ask()
		touch_namesake()
		res = ask()
	chk.judged("method", ("namesake-broadcast", kind, order, spec["typed"]))
	for attr, o, exp in res:
		if not o.ok:
			chk.fail("element i of the result is the method applied to element i", f"method/namesake-class-changes-broadcast/{kind}.{attr}/raises", f"{spec!r}: {attr} on a real {kind} vector raised {o!r} after a vector of a class merely NAMED {kind} was used")
			return
		got = list(o.value._underlying) if isinstance(o.value, Vector) else o.value
		if got != exp:
			chk.fail("element i of the result is the method applied to element i", f"method/namesake-class-changes-broadcast/{kind}.{attr}/wrong", f"{spec!r}: {attr} on {real!r} gave {short(got, 120)}, expected {exp!r}")
			return


def run_empty_typed_vs_untyped(chk, spec):
	"""operands of the same length - zero - give the empty result, also when one is a typed empty vector (what a filter leaves) and the other an empty vector that
	was never typed"""
	import operator
	kinds = {"date": [date(2020, 1, 1)], "int": [1], "str": ["a"], "float": [1.5]}
	typed = Vector(list(kinds[spec["kind"]]))[0:0]
	untyped = Vector([])
	op = {"add": operator.add, "sub": operator.sub, "mul": operator.mul}[spec["opname"]]
	a, b = (typed, untyped) if spec["side"] == "typed-left" else (untyped, typed)
	o = call(op, a, b)
	chk.judged("arith-value", ("empty-typed-vs-untyped", spec["kind"], spec["opname"], spec["side"]))
	if not o.ok:
		if isinstance(o.exc, (AttributeError, IndexError)):
			chk.fail("serif computes what Python defines", f"arith/raises-where-python-defines/empty-typed-vs-untyped/{spec['kind']}/{type(o.exc).__name__}", f"{spec!r}: two operands of length 0: {o!r}")
		return
	if isinstance(o.value, Vector) and len(o.value) != 0:
		chk.fail("the result has the length of the operands", "arith/length/empty-typed-vs-untyped", f"{spec!r}: {o.value!r}")


class _Rec:
	"""an operand that answers both spellings of +, -, * and says which one was used"""
	def __init__(self, tag):
		self.tag = tag
	def __add__(self, o): return ("left+", self.tag, o)
	def __radd__(self, o): return ("right+", self.tag, o)
	def __sub__(self, o): return ("left-", self.tag, o)
	def __rsub__(self, o): return ("right-", self.tag, o)
	def __mul__(self, o): return ("left*", self.tag, o)
	def __rmul__(self, o): return ("right*", self.tag, o)


def run_typed_right_operand(chk, spec):
	"""a plain vector of objects on the LEFT of a typed vector (dates, ints, floats, strings) on the right: element i is left_i (op) right_i - the typed operand's own
	reflected method, where its class has one, must not turn the operands round"""
	import operator, warnings
	op = {"add": operator.add, "sub": operator.sub, "mul": operator.mul}[spec["opname"]]
	right_vals = {"date": [date(2020, 1, 1), date(2021, 2, 3)], "int": [3, 4], "float": [1.5, 2.5], "str": ["a", "b"], "date-with-none": [date(2020, 1, 1), None]}[spec["right"]]
	lefts = [_Rec("p"), _Rec("q")]
	with warnings.catch_warnings():
		warnings.simplefilter("ignore")
		left = Vector(list(lefts), dtype=object) if spec["left_typed"] == "object" else Vector(list(lefts))
		right = Vector(list(right_vals))
		o = call(op, left, right)
	chk.judged("arith-value", ("typed-right-operand", spec["opname"], spec["right"], spec["left_typed"]))
	exp = [None if y is None else op(x, y) for x, y in zip(lefts, right_vals)]
	if not o.ok:
		chk.fail("serif computes what Python defines", f"arith/raises-where-python-defines/typed-right-operand/{spec['right']}/{type(o.exc).__name__}", f"{spec!r}: {o!r}")
		return
	got = list(o.value._underlying)
	if got != exp:
		chk.fail("element i is exactly what Python computes for the i-th operands in written order", f"arith/operand-order/{spec['opname']}/object-vector-with-{spec['right']}-vector", f"{spec!r}: serif {short(got, 160)}, python {short(exp, 160)}")


def run_iterated_row_arith(chk, spec):
	"""arithmetic on the rows of ONE iteration (a single view moved along the table): element i of each result is the operation on that row's i-th cell, None staying None - whatever
	the rows looked at before held"""
	import operator, warnings
	rows = {"none-later": [[1, 2, 3], [4, None, 6], [None, 8, 9]], "none-first": [[None, 2, 3], [4, 5, 6], [7, None, 9]], "floats": [[1.5, 2.5], [None, 1.0], [3.0, None]]}[spec["rows"]]
	cols = [list(c) for c in zip(*rows)]
	width = len(rows[0])
	ops = {"+1": lambda r: r + 1, "2*": lambda r: 2 * r, "neg": lambda r: -r, "abs": lambda r: abs(r), "+list": lambda r: r + list(range(width)), "list-": lambda r: list(range(width)) - r, "+vector": lambda r: r + Vector(list(range(width))), "pos": lambda r: +r, "**2": lambda r: r ** 2}
	model = {"+1": lambda x, i: x + 1, "2*": lambda x, i: 2 * x, "neg": lambda x, i: -x, "abs": lambda x, i: abs(x), "+list": lambda x, i: x + i, "list-": lambda x, i: i - x, "+vector": lambda x, i: x + i, "pos": lambda x, i: +x, "**2": lambda x, i: x ** 2}
	f, m = ops[spec["op"]], model[spec["op"]]
	with warnings.catch_warnings():
		warnings.simplefilter("ignore")
		t = Table({f"c{j}": col for j, col in enumerate(cols)})
		got = {}
		if spec["order"] == "iteration":
			for i, row in enumerate(t):
				got[i] = call(f, row)
		elif spec["order"] == "iteration-twice-per-row":
			for i, row in enumerate(t):
				call(f, row)
				got[i] = call(f, row)
		else:
			r = t[0]
			for i in (0, 2, 1):
				got[i] = call(f, r.set_index(i))
	chk.judged("arith-value", ("iterated-row-arith", spec["op"], spec["rows"], spec["order"]))
	for i in sorted(got):
		exp = [None if x is None else m(x, k) for k, x in enumerate(rows[i])]
		o = got[i]
		if not o.ok:
			chk.fail("serif computes what Python defines", f"arith/raises-where-python-defines/row-of-iteration/{spec['op']}/{type(o.exc).__name__}", f"{spec!r}: row {i} = {rows[i]!r}: {o!r}")
			return
		g = list(o.value._underlying)
		if M.first_diff(g, exp):
			chk.fail("element i of the result is the operation applied to element i, None staying None", f"arith/element-mismatch/row-of-iteration/{spec['op']}", f"{spec!r}: row {i} = {rows[i]!r}: {short(g, 120)}, expected {short(exp, 120)}")
			return


def run_empty_typed_length(chk, spec):
	"""an empty operand that still carries a dtype (what a filter leaves) against a NON-empty one: lengths differ, so the operation raises - in every operand form"""
	import operator, warnings
	op = {"add": operator.add, "sub": operator.sub, "mul": operator.mul, "truediv": operator.truediv}[spec["opname"]]
	src = {"int": [1, 2, 3], "date": [date(2020, 1, 1)], "str": ["a"], "float": [1.5, None]}[spec["kind"]]
	with warnings.catch_warnings():
		warnings.simplefilter("ignore")
		v = Vector(list(src))
		e = {"slice": lambda: v[0:0], "mask": lambda: v[[False] * len(src)], "dropna-of-nones": lambda: v[0:0].dropna(), "earlier-arith": lambda: Vector([]) + 1, "table": lambda: Table({"a": list(src), "b": list(src)})[0:0]}[spec["how"]]()
		other = {"list": [1, 2], "vector": Vector([1, 2, 3]), "tuple": (1,), "table": Table({"x": [1, 2], "y": [3, 4]})}[spec["other"]]
		o = call(op, e, other) if spec["side"] == "left" else call(op, other, e)
	chk.judged("arith-value", ("empty-typed-length", spec["kind"], spec["how"], spec["other"], spec["opname"], spec["side"]))
	if o.ok:
		chk.fail("operands of different length raise", f"arith/length-mismatch-accepted/empty-typed-operand/{spec['how']}/{spec['other']}", f"{spec!r}: returned {short(o.value, 100)}")


RUNNERS = {"typed_right_operand": run_typed_right_operand, "iterated_row_arith": run_iterated_row_arith, "empty_typed_length": run_empty_typed_length, "empty_typed_vs_untyped": run_empty_typed_vs_untyped, "namesake_broadcast": run_namesake_broadcast, "call_write_call": run_call_write_call, "row_method": run_row_method, "str_format_sequence": run_str_format_sequence, "table_unary": run_table_unary, "table_columnwise": run_table_columnwise, "unsized": run_unsized, "symbolic": run_symbolic, "identity": run_identity, "row_arith": run_row_arith, "helper": run_helper, "arith": run_arith, "table_arith": run_table_arith, "method": run_method, "date_days": run_date_days, "recompute": recompute.runner("C05")}

PAIRS = [("int", "int"), ("int", "float"), ("float", "int"), ("bool", "int"), ("int", "complex"), ("float", "float"), ("str", "str"),
	("str", "int"), ("date", "timedelta"), ("datetime", "timedelta"), ("timedelta", "timedelta"), ("timedelta", "int"), ("list", "list"),
	("date", "date"), ("timedelta", "float"), ("bool", "bool"), ("complex", "float"), ("bytes", "bytes"), ("int", "str"), ("list", "int")]


def product_specs(chk):
	rng = chk.rng
	idx = 0
	for opname in BIN_OPS:
		for form in ("vv", "vs", "sv", "vl", "lv"):
			for ka, kb in PAIRS:
				for n in (0, 1, 2, 5):
					for npat in ("none", "first", "last", "all"):
						idx += 1
						if not chk.mine(idx):
							continue
						if n == 0 and npat != "none":
							continue
						a = common.arith_column(rng, ka, n, npat, big=(opname != "pow" and rng.random() < 0.1))
						if form in ("vs", "sv"):
							b = rng.choice(ARITH_VALUES[kb])
						else:
							b = common.arith_column(rng, kb, n, rng.choice(["none", "none", "last", "first"]))
						if opname == "pow":
							small = [0, 1, 2, 3, -1, 0.5]
							if form in ("vs",):
								b = rng.choice(small)
							elif form == "sv":
								a = common.apply_none(rng, [rng.choice(small) for _ in range(n)], npat)
							elif form in ("vv", "vl"):
								b = [rng.choice(small) for _ in range(n)]
							else:
								a = common.apply_none(rng, [rng.choice(small) for _ in range(n)], npat)
						if form in ("vl", "lv") and rng.random() < 0.3:
							b = tuple(b)
							b = list(b)
						yield {"op": "arith", "opname": opname, "form": form, "a": a, "b": b}
	for opname in UN_OPS:
		for ka in ("bool", "int", "float", "complex", "timedelta"):
			for n in (0, 1, 2, 5):
				for npat in ("none", "first", "last", "all"):
					if n == 0 and npat != "none":
						continue
					yield {"op": "arith", "opname": opname, "form": "unary", "a": common.arith_column(rng, ka, n, npat, big=rng.random() < 0.2)}


def run(chk):
	recompute.add_cases(chk, "C05")
	rng = chk.rng
	for spec in product_specs(chk):
		chk.case("arith", spec, "arith-" + spec["form"])
	for opname in ("add", "sub", "mul"):
		for right in ("date", "int", "float", "str", "date-with-none"):
			for left_typed in ("object", "inferred"):
				chk.case("typed_right_operand", {"opname": opname, "right": right, "left_typed": left_typed}, "arith-typed-right-operand")
	for op in ("+1", "2*", "neg", "abs", "+list", "list-", "+vector", "pos", "**2"):
		for rows in ("none-later", "none-first", "floats"):
			for order in ("iteration", "iteration-twice-per-row", "moved-by-hand"):
				chk.case("iterated_row_arith", {"op": op, "rows": rows, "order": order}, "arith-iterated-rows")
	for kind in ("int", "date", "str", "float"):
		for how in ("slice", "mask", "dropna-of-nones", "earlier-arith", "table"):
			for other in ("list", "vector", "tuple", "table"):
				for opname in ("add", "mul"):
					for side in ("left", "right"):
						if (how == "table") != (other == "table") and other == "table":
							continue
						chk.case("empty_typed_length", {"kind": kind, "how": how, "other": other, "opname": opname, "side": side}, "arith-empty-typed-length")
	for kind in ("date", "int", "str", "float"):
		for opname in ("add", "sub", "mul"):
			for side in ("typed-left", "typed-right"):
				chk.case("empty_typed_vs_untyped", {"kind": kind, "opname": opname, "side": side}, "arith-empty-typed-vs-untyped")
	for kind in ("date", "int", "str"):
		for order in ("namesake-first", "real-first"):
			for typed in ("inferred", "object"):
				chk.case("namesake_broadcast", {"kind": kind, "order": order, "typed": typed}, "method-namesake")
	for kind, opnames in (("int-twins", ["real", "numerator", "denominator", "imag", "bit_length", "-v"]), ("fraction-twins", ["numerator", "denominator", "*2"]), ("float-twins", ["real", "hex", "-v"]), ("date", ["+7", "+intvec", "year", "isoformat", "+timedelta"]), ("int", ["*2", "bit_length", "2-v", "-v"]), ("str", ["upper", "+s", "*2", "zfill"]), ("float", ["hex", "/2", "is_integer"])):
		for opn in opnames:
			for writes in (1, 2, 2, 3, 4):
				for n in (1, 3, 6):
					for rep in range(2 if chk.quick() else 6):
						chk.case("call_write_call", {"kind": kind, "op": opn, "writes": writes, "n": n, "seed": rng.randrange(10**9)}, "call-write-call")
	for kind, methods in (("str", [("index", ("a",)), ("find", ("a",)), ("count", ("a",)), ("upper", ()), ("startswith", ("a",)), ("replace", ("a", "o")), ("split", ("a",)), ("zfill", (7,)), ("rindex", ("a",)), ("title", ()), ("encode", ())]),
			("int", [("bit_length", ()), ("to_bytes", (4, "big")), ("conjugate", ()), ("real", ())]), ("date", [("year", ()), ("isoformat", ()), ("weekday", ()), ("replace", (2001,)), ("day", ())])):
		for method in methods:
			for via in ("index", "iter"):
				for i in (0, 1):
					if via == "iter" and i:
						continue
					chk.case("row_method", {"kind": kind, "method": method, "via": via, "i": i}, "row-method")
	for fmts, args in ((["%s!", "%05.1f", None, "id-%d"], ["a", 2.5, "x", 7]), (["%s %s", "%s-%s"], [(1, 2), (3, 4)]), (["%s-%s-%s", "%d%d%d"], [1, 2, 3]), (["%s", "%s"], ["a", "b"]), (["%s"], ["a", "b"]), (["%d", "%d", "%d"], [1, 2]), (["%(k)s"], [{"k": 1}]), (["x", "y"], [(), ()])):
		chk.case("str_format_sequence", {"fmts": fmts, "args": args}, "str-format-sequence")
	for use in (["k"], ["k", "x"], ["x", "k", "z"], ["k", "b"], ["k", "k" if False else "x", "z", "b"], ["k", "dec"], ["frac", "k"], ["td", "x"], ["k", "obj"], ["dec", "frac", "td", "obj"]):
		for opname in ("neg", "pos", "abs"):
			for n in (1, 2, 3, 5):
				for none in (False, True):
					chk.case("table_unary", {"use": use, "opname": opname, "n": n, "none": none}, "table-unary")
	for use in (["d"], ["d", "k"], ["k", "d", "x"], ["k", "x"], ["s", "d"]):
		for other in ("int", "intvec", "intlist", "table"):
			for opname in ("add", "sub", "mul"):
				for none in (False, True):
					chk.case("table_columnwise", {"use": use, "other": other, "opname": opname, "n": 3, "none": none}, "table-columnwise")
	for opname in ("add", "sub", "mul", "truediv", "floordiv", "mod", "pow"):
		for form in ("generator", "iterator", "map", "zip-first"):
			for reflected in (False, True):
				for n, m in ((4, 3), (4, 9), (3, 0), (0, 2), (3, 3), (1, 2)):
					chk.case("unsized", {"opname": opname, "form": form, "reflected": reflected, "values": [10, 20, None, 40][:n], "m": m}, "arith-unsized")
	for opname in BIN_OPS:
		for form in ("vv", "vs", "sv", "vl", "lv", "tv"):
			for other in ("sym", "number", "symx"):
				for n in (1, 3):
					chk.case("symbolic", {"opname": opname, "form": form, "other": other, "n": n}, "arith-value")
	# explicit length mismatches for every operand form
	for opname in BIN_OPS:
		for form in ("vv", "vl", "lv"):
			for (na, nb) in ((2, 3), (3, 2), (0, 1), (1, 0), (5, 4)):
				a = common.arith_column(rng, "int", na)
				b = common.arith_column(rng, "int", nb)
				if opname == "pow":
					a, b = [1] * na, [2] * nb
				chk.case("arith", {"op": "arith", "opname": opname, "form": form, "a": a, "b": b}, "arith-len-mismatch")
	nrand = 1500 if chk.quick() else 6000
	for _ in range(nrand):
		chk.case("arith", common.gen_arith_spec(rng), "arith-random")
	# value-preserving operations still build a new vector; zero / one operands of every numeric type; narrower elements inside widened vectors
	IDV = [[1, 2, 3], [1.5, -0.0, 2.0], [True, 2, 3], [True, 2.5, -0.0], [1j, 2 + 0j], [0, None, 4], [-0.0, None], [True, False], [2 ** 60, -1]]
	for vals in IDV:
		for expr in ("+v", "v+0", "0+v", "v*1", "1*v", "v-0", "v/1", "v**1", "abs(v)", "v//1", "-(-v)", "v+[0..]", "v+0.0", "False+v"):
			if expr in ("v//1",) and any(isinstance(x, complex) for x in vals):
				continue
			chk.case("identity", {"values": vals, "expr": expr}, "arith-identity")
	for opname in ("add", "sub", "mul"):
		for zero in (0, False, 0.0, -0.0, 0j, 1, True, 1.0):
			for a in ([-0.0, 1.5], [True, 2, 3], [True, 2.5], [1j, -0.0], [0.0, None, -0.0], [False, True]):
				for form in ("vs", "sv"):
					chk.case("arith", {"op": "arith", "opname": opname, "form": form, "a": a, "b": zero}, "arith-neutral-scalar")
	# byte buffers are scalars like bytes
	for a, b, opname in (([b"ab", b"cd"], bytearray(b"!"), "add"), ([b"ab", None], bytearray(b"xy"), "add"), ([2, 3], bytearray(b"ab"), "mul"), ([2, 3], bytearray(b"q"), "mul"), ([b"a%d", b"b%d"], 5, "mod"),
			([bytearray(b"x"), bytearray(b"yz")], b"!", "add"), ([bytearray(b"x"), bytearray(b"yz")], 2, "mul")):
		for form in ("vs", "sv"):
			chk.case("arith", {"op": "arith", "opname": opname, "form": form, "a": a, "b": b}, "arith-bytearray")
	# rows kept while other rows are fetched
	for _ in range(150 if chk.quick() else 1000):
		n, c = rng.choice([2, 3, 4]), rng.choice([2, 3])
		kinds = rng.choice([["int"] * c, ["float"] * c, ["int", "float", "int"][:c]])
		cols = [[rng.choice(ARITH_VALUES[k]) for _ in range(n)] for k in kinds]
		i = rng.randrange(n)
		k = (i + rng.randrange(1, n)) % n
		chk.case("row_arith", {"cols": cols, "i": i, "k": k, "expr": rng.choice(["a*2", "1000-a", "-a", "a+b", "a+list", "b-a", "a-a", "a*a"]), "touch": rng.choice(["other-row", "other-row", "shape", "nothing"])}, "row-arith")
	# table arithmetic
	ntab = 300 if chk.quick() else 1500
	for _ in range(ntab):
		ncols = rng.choice([1, 2, 3])
		n = rng.choice([0, 1, 2, 4])
		opname = rng.choice(list(BIN_OPS))
		kinds = [rng.choice(["int", "float", "int", "bool"]) for _ in range(ncols)]
		cols = [common.arith_column(rng, k, n, rng.choice(["none", "none", "low", "first"])) for k in kinds]
		names = [rng.choice(["a", "b", "c", None]) for _ in range(ncols)]
		if rng.random() < 0.5:
			other = rng.choice([2, 0.5, 3, True, 1 + 1j]) if opname != "pow" else rng.choice([2, 0.5, 0])
		else:
			w = ncols if rng.random() < 0.9 else ncols + 1
			ocols = [common.arith_column(rng, rng.choice(["int", "float"]), n, rng.choice(["none", "last"])) for _ in range(w)]
			if opname == "pow":
				ocols = [[rng.choice([0, 1, 2, 0.5]) for _ in range(n)] for _ in range(w)]
			other = {"cols": ocols, "names": [rng.choice(["a", "x", None]) for _ in range(w)]}
		if n == 0:
			continue   # zero-row tables have no columns to operate on in a defined way
		chk.case("table_arith", {"opname": opname, "cols": cols, "names": names, "other": other}, "table-arith")
	# twin columns: same dtype, equal except where their values merely collide under hash() (-1 / -2, k and k + 2**61-1): still column by column
	P = 2 ** 61 - 1
	for _ in range(60 if chk.quick() else 400):
		n = rng.choice([1, 2, 4])
		kind = rng.choice(["int", "float"])
		base = [rng.choice([-1, 3, 0, 5, -1]) for _ in range(n)]
		base[rng.randrange(n)] = -1
		twin = [(-2 if x == -1 else (x + P if kind == "int" and rng.random() < 0.5 else x)) for x in base]
		if kind == "float":
			base, twin = [float(x) for x in base], [float(x) for x in twin]
		cols = [base, twin] if rng.random() < 0.5 else [twin, base]
		if rng.random() < 0.4:
			cols.append(list(base))
		opname = rng.choice(["add", "sub", "mul", "truediv", "floordiv", "mod"])
		chk.case("table_arith", {"opname": opname, "cols": cols, "names": [rng.choice(["a", "b", None]) for _ in cols], "other": rng.choice([2, 0.5, 3, 7])}, "table-arith-twins")
	# method broadcasting
	table = method_table()
	chk.counters["broadcast_methods_enumerated"] = len(table)
	for i, (kname, name, args) in enumerate(table):
		sizes = (1, 3, 40)
		for size in sizes:
			for npat in ("none", "first", "low", "all") if size != 1 else ("none", "all"):
				if not chk.quick() or (i + size) % 2 == 0 or npat in ("none", "first"):
					vals = [rng.choice(METHOD_VALUES[kname]) for _ in range(size)]
					vals = common.apply_none(rng, vals, npat)
					if all(v is None for v in vals):
						# an all-None vector is not of this kind any more (its dtype is object): not a broadcast case
						vals[0] = rng.choice(METHOD_VALUES[kname])
						if size == 1:
							continue
					chk.case("method", {"kind": kname, "name": name, "args": args, "values": vals}, "method-" + kname)
	# vectors whose kind was widened by inference keep their narrower elements (a float vector holding ints, an int vector holding bools): the
	# method is still the element's own
	for i, (kname, name, args) in enumerate(table):
		if kname not in ("float", "int"):
			continue
		for size in (2, 5):
			mix = [1, 2.5, -3, 0.5, 7, 0] if kname == "float" else [True, 2, False, -7, 255]
			vals = [mix[0], mix[1]] + [rng.choice(mix) for _ in range(size - 2)]
			rng.shuffle(vals)
			vals = common.apply_none(rng, vals, rng.choice(["none", "low"]))
			chk.case("method", {"kind": kname + "-mixed", "name": name, "args": args, "values": vals}, "method-mixed")
	for name in ("before", "after", "before_last", "after_last"):
		for size in (1, 3, 40):
			for sep in ("-", "ab", " "):
				for npat in ("none", "first", "low"):
					vals = common.apply_none(rng, [rng.choice(["a-b-c", "ab", "no sep", "-lead", "trail-", "", "abab"]) for _ in range(size)], npat)
					if all(x is None for x in vals):
						continue
					chk.case("helper", {"name": name, "values": vals, "sep": sep}, "method-helper")
	for size in (1, 3, 40):
		for npat in ("none", "first", "low"):
			vals = common.apply_none(rng, [rng.choice([date(2020, 2, 10), date(2021, 2, 1), date(2021, 12, 31), date(2020, 1, 31), date(1999, 4, 30)]) for _ in range(size)], npat)
			if not all(x is None for x in vals):
				chk.case("helper", {"name": "eomonth", "values": vals}, "method-helper")
	# dates + days: a day-count vector of another length is refused, whichever side is longer
	for n, m in ((4, 2), (4, 6), (4, 1), (1, 3), (2, 3), (3, 2), (40, 39), (1, 2)):
		for dnone in (False, True):
			for knone in (False, True):
				vals = [date(2020, 1, 1) + timedelta(days=31 * i) for i in range(n)]
				other = [i % 5 for i in range(m)]
				if dnone and n > 1:
					vals[1] = None
				if knone and m > 1:
					other[1] = None
				chk.case("date_days", {"values": vals, "other": other, "form": "intvec"}, "date-days-length")
	for _ in range(120 if chk.quick() else 600):
		n = rng.choice([1, 2, 3, 40])
		vals = common.apply_none(rng, [rng.choice(METHOD_VALUES["date"]) for _ in range(n)], rng.choice(["none", "first", "last", "low"]))
		if all(v is None for v in vals):
			continue
		form = rng.choice(["int", "intvec", "timedelta", "sub-timedelta", "introw"])
		if form == "introw" and n > 3:
			form = "intvec"
		if form == "int":
			other = rng.choice([0, 1, -1, 30, 365])
		elif form == "introw":
			other = [rng.choice([0, 1, -1, 30]) for _ in range(n)]
		elif form == "intvec":
			m = n if rng.random() < 0.9 else n + 1
			other = common.apply_none(rng, [rng.choice([0, 1, -1, 30]) for _ in range(m)], rng.choice(["none", "low"]))
			if all(k is None for k in other):
				other[0] = 1
		else:
			other = rng.choice([timedelta(days=1), timedelta(days=-40), timedelta(0), timedelta(days=366)])
		chk.case("date_days", {"values": vals, "other": other, "form": form}, "date-days")
