"""C01 - value semantics: writes stay local, read-only operations are pure."""
from ..bind import Vector, Table, AliasError
from ..core import call, short
from .. import models as M
from .. import values as V
from . import pool
from . import common

from . import recompute

RULE = ("[plus the shared recompute-after-history monitor: this property's operations evaluated on long-lived objects between in-place writes / renames must equal the same operations on fresh objects rebuilt from the current contents] "
	"(a) directed: every pair (derivation, write form, side written) over 38 derivations (copy, slice, mask, T, multi-column select, >> vector / "
	"dict / table, <<, Table([..]), Vector([..]), joins, sort, aggregate, window, table arithmetic, transposes, peek, to_object, cast, fillna, dropna, unique, attribute-assigned donor, row slice, row mask ...) x 14 write forms "
	"(vector int / slice / mask / index-list keys with scalar and sequence values, through a free vector or a live column view; table cell, row, "
	"column, region; attribute assignment with list and vector; rename through view; rename_column) is executed and every object other than "
	"the written one (and its own table / views) must keep contents, names and dtypes; (b) random histories of the object-pool machine (<=12 "
	"live handles; construct, derive, view, write, rename, read-only incl. failing operations, lifetime) with a frame check after every step. "
	"distinct = (derivation, write form, side) and (operation, sub-form, pool size class).")
ASSUMPTIONS = [
	"the may-change set of a write is the written handle, the table owning it as a live column (by provenance) and that table's other live views",
	"Row objects obtained by t[i] are snapshots and are checked as bystanders; internal caches (_fp, _wild, column map) are not part of a snapshot",
]
EXHAUSTIVE = {"flag": True, "scope": "all (derivation x write form x side) pairs of the directed matrix; histories are sampled"}
ANCHOR_FUNCS = ["table:Table.__init__", "vector:Vector.copy", "vector:Vector.__setitem__", "table:Table.__setattr__", "table:Table.__setitem__", "table:Table.__rshift__"]
REQUIRED_STRATA = {"recompute": 200, "pair": 300, "steps": 3000}


def base_table(rng, n=3):
	return Table({"a": V.column(rng, "int", n, "none", small=True), "b": V.column(rng, "float", n, "none", small=True), "c": V.column(rng, "str", n, "none", small=True)})


DERIVS = {}


def deriv(name, src):
	def deco(fn):
		DERIVS[name] = (src, fn)
		return fn
	return deco


@deriv("copy", "vector")
def _(rng, v, extra):
	return v.copy()


@deriv("slice", "vector")
def _(rng, v, extra):
	return v[0:len(v)]


@deriv("mask", "vector")
def _(rng, v, extra):
	return v[[True] * len(v)]


@deriv("T", "vector")
def _(rng, v, extra):
	return v.T


@deriv("Table([v, w])", "vector")
def _(rng, v, extra):
	return Table([v, extra["w"]])


@deriv("Vector([v, w])", "vector")
def _(rng, v, extra):
	return Vector([v, extra["w"]])


@deriv("v >> w", "vector")
def _(rng, v, extra):
	return v >> extra["w"]


@deriv("t >> v", "vector")
def _(rng, v, extra):
	return extra["t"] >> v


@deriv("v.to_object() >> v", "vector")
def _(rng, v, extra):
	# (an OBJECT-typed vector on the left of >>: the result is a table of copies, like every other stacking - not a vector whose cells are the operands themselves)
	return v.to_object() >> v


@deriv("w(object) >> v", "vector")
def _(rng, v, extra):
	return Vector([v._underlying[0] if len(v) else None, "x"][:max(len(v), 1)] * 1 + [None] * max(len(v) - 2, 0), dtype=object)[0:len(v)] >> v


@deriv("Table([v]).to_object()", "vector")
def _(rng, v, extra):
	t = Table([v, v.copy()])
	return t.to_object() if hasattr(t, "to_object") else t.copy()


@deriv("t >> {name: v}", "vector")
def _(rng, v, extra):
	return extra["t"] >> {"added": v}


@deriv("t.x = v (donor)", "vector")
def _(rng, v, extra):
	extra["t"].a = v
	return extra["t"]


@deriv("t.x__0 = v (donor)", "vector")
def _(rng, v, extra):
	setattr(extra["t"], "a__0", v)      # the indexed spelling of the same column replacement
	return extra["t"]


@deriv("t.x__1 = v (donor)", "vector")
def _(rng, v, extra):
	setattr(extra["t"], "b__1", v)
	return extra["t"]


def _donor(origin):
	def fn(rng, v, extra):
		w = extra["w"]
		donor = {"arith": lambda: v + w, "arith-scalar": lambda: v * 2, "rarith": lambda: 1 + v, "compare": lambda: v < w, "neg": lambda: -v, "slice": lambda: v[0:len(v)],
			"sort": lambda: v.sort_by(), "fillna": lambda: v.fillna(0), "agg-column": lambda: extra["t2"].window(over="k", count_over="k").cols()[-1],
			"lshift": lambda: v[0:0] << list(v), "copy": lambda: v.copy()}[origin]()
		extra["swap_source"] = donor      # the program KEEPS the expression result and assigns it to a column
		extra["t"].a = donor
		return extra["t"]
	return fn


def _matmul_one(coefs):
	def fn(rng, v, extra):
		one = Table([Vector(list(v._underlying), name="x")]) if len(coefs) == 1 else Table([Vector(list(v._underlying), name="x"), Vector(list(v._underlying), name="y")])
		extra["swap_source"] = one      # the table is the operand the program keeps
		return one @ Vector(list(coefs))
	return fn


for _c in ([1], [1.0], [True], [2], [1, 0], [0, 1], [1, 1]):
	DERIVS[f"table @ {_c!r}"] = ("vector", _matmul_one(_c))


def _donor_same_name(rng, v, extra):
	donor = Vector(list(v._underlying), name="a")      # carries the very name of the column it is assigned to
	extra["swap_source"] = donor
	extra["t"].a = donor
	return extra["t"]


DERIVS["t.a = vector named a (donor)"] = ("vector", _donor_same_name)
for _o in ("arith", "arith-scalar", "rarith", "compare", "neg", "slice", "sort", "fillna", "agg-column", "lshift", "copy"):
	DERIVS[f"t.x = kept {_o} result (donor)"] = ("vector", _donor(_o))


def _inplace(opname, other):
	import operator
	def fn(rng, src, extra):
		o = {"w": extra["w"], "t2": extra["t2"], "row": None, "list": None, "scalar": 2}[other]
		if other == "row":
			o = [x._underlying[0] for x in src.cols()] if len(src) else None
		if other == "list":
			o = [1] * len(src)
		extra["inplace"] = True
		return getattr(operator, opname)(src, o)
	return fn


# augmented assignment (t >>= u, v <<= [..], v += w ...): whether or not the library updates the left operand in place, the OTHER operand stays an
# independent object and keeps contents, names and dtypes
for _nm, _src, _op, _other in (("t >>= t2", "table", "irshift", "t2"), ("t >>= w", "table", "irshift", "w"), ("t >>= list", "table", "irshift", "list"), ("t <<= row", "table", "ilshift", "row"),
		("v <<= w", "vector", "ilshift", "w"), ("v += w", "vector", "iadd", "w"), ("v *= 2", "vector", "imul", "scalar"), ("v >>= w", "vector", "irshift", "w"), ("t += 2", "table", "iadd", "scalar")):
	DERIVS[f"inplace {_nm}"] = (_src, _inplace(_op, _other))


@deriv("select", "table")
def _(rng, t, extra):
	return t["a", "b"]


@deriv("rowslice", "table")
def _(rng, t, extra):
	return t[0:len(t)]


@deriv("rowmask", "table")
def _(rng, t, extra):
	return t[[True] * len(t)]


@deriv("t >> t2", "table")
def _(rng, t, extra):
	return t >> extra["t2"]


@deriv("t << row", "table")
def _(rng, t, extra):
	return t << [9, 9.5, "z"]


@deriv("sort", "table")
def _(rng, t, extra):
	return t.sort_by("a")


@deriv("join", "table")
def _(rng, t, extra):
	return t.join(extra["t2"], "a", "k", expect="many_to_many")


@deriv("aggregate", "table")
def _(rng, t, extra):
	return t.aggregate(over="c", sum_over="a")


@deriv("table-copy", "table")
def _(rng, t, extra):
	return t.copy()


@deriv("copy.copy(table)", "table")
def _(rng, t, extra):
	import copy
	return copy.copy(t)


@deriv("copy.deepcopy(table)", "table")
def _(rng, t, extra):
	import copy
	return copy.deepcopy(t)


@deriv("table == itself", "table")
def _(rng, t, extra):
	return t == t


@deriv("copy.copy(vector)", "vector")
def _(rng, v, extra):
	import copy
	return copy.copy(v)


@deriv("copy.deepcopy(vector)", "vector")
def _(rng, v, extra):
	import copy
	return copy.deepcopy(v)


@deriv("Table() >> t", "table")
def _(rng, t, extra):
	return Table() >> t


@deriv("empty join result >> t", "table")
def _(rng, t, extra):
	empty = t.inner_join(Table({"k": [-12345]}), "a", "k", expect="many_to_many")
	if len(empty.cols()):
		raise ValueError("not a zero-column table")
	return empty >> t


@deriv("Table() << t", "table")
def _(rng, t, extra):
	return Table() << t


@deriv("t[:, name]", "table")
def _(rng, t, extra):
	return t[:, "b"]


@deriv("t[:, j]", "table")
def _(rng, t, extra):
	return t[:, 1]


@deriv("t[name, :]", "table")
def _(rng, t, extra):
	return t["b", :]


@deriv("t[:, (name,)]", "table")
def _(rng, t, extra):
	return t[:, ("b",)]


@deriv("window", "table")
def _(rng, t, extra):
	return t.window(over="c", sum_over="a", apply={"n": ("b", len)})


@deriv("full_join", "table")
def _(rng, t, extra):
	return t.full_join(extra["t2"], "a", "k", expect="many_to_many")


@deriv("inner_join-self", "table")
def _(rng, t, extra):
	return t.inner_join(t, "a", "a", expect="many_to_many")


@deriv("table.T", "table")
def _(rng, t, extra):
	return Table({"a": list(t["a"]), "a2": list(t["a"])}).T if False else t["a", "a"].T


@deriv("table*scalar", "table")
def _(rng, t, extra):
	return t["a", "b"] * 1


@deriv("table+table", "table")
def _(rng, t, extra):
	return t["a", "b"] + t["a", "b"]


@deriv("peek", "table")
def _(rng, t, extra):
	return t.peek()


@deriv("cols-tuple", "table")
def _(rng, t, extra):
	return Table(list(t.cols()))


@deriv("to_object", "vector")
def _(rng, v, extra):
	return v.to_object()


@deriv("cast-same", "vector")
def _(rng, v, extra):
	return v.cast(int)


@deriv("fillna", "vector")
def _(rng, v, extra):
	return v.fillna(0)


@deriv("fillna-wider", "vector")
def _(rng, v, extra):
	return v.fillna(0.5)


@deriv("fillna-wider-complex", "vector")
def _(rng, v, extra):
	return v.fillna(1j)


@deriv("v+0.5", "vector")
def _(rng, v, extra):
	return v + 0.5


@deriv("0.5*v", "vector")
def _(rng, v, extra):
	return 0.5 * v


@deriv("v<<[0.5]", "vector")
def _(rng, v, extra):
	return v << [0.5, None]


@deriv("cast-float", "vector")
def _(rng, v, extra):
	return v.cast(float)


@deriv("v==w", "vector")
def _(rng, v, extra):
	return v == extra["w"]


@deriv("column.fillna-wider", "table")
def _(rng, t, extra):
	return t["a"].fillna(0.5)


@deriv("column+0.5", "table")
def _(rng, t, extra):
	return t["a"] + 0.5


@deriv("column.cast-float", "table")
def _(rng, t, extra):
	return t["a"].cast(float)


@deriv("isna", "vector")
def _(rng, v, extra):
	return v.isna()


@deriv("reductions-then-copy", "vector")
def _(rng, v, extra):
	v.sum(), v.max(), v.min(), v.mean(), v.any(), v.all(), len(v), v.unique(), v.fingerprint(), repr(v), v.schema()
	return v.copy()


@deriv("comparisons-then-mask", "vector")
def _(rng, v, extra):
	return v[(v == v) | (v != v)]


@deriv("dropna", "vector")
def _(rng, v, extra):
	return v.dropna()


@deriv("sort_by", "vector")
def _(rng, v, extra):
	return v.sort_by()


@deriv("unary-pos", "vector")
def _(rng, v, extra):
	return +v


@deriv("v+0", "vector")
def _(rng, v, extra):
	return v + 0


@deriv("unique", "vector")
def _(rng, v, extra):
	return v.unique()


@deriv("lshift-empty", "vector")
def _(rng, v, extra):
	return v << []


@deriv("index-vector", "vector")
def _(rng, v, extra):
	return v[Vector(list(range(len(v))))]


WRITES = ["vec-slice-vector", "vec-int-scalar", "vec-slice-seq", "vec-mask-scalar", "vec-idxlist-seq", "vec-slice-promote", "vec-none", "cell", "row", "column", "region",
	"attr-list", "attr-vector", "rename-view", "rename_column"]


def do_write(rng, obj, w, extra):
	"""write through obj (a vector, or a table: vector forms then go through a live column view). returns Out"""
	if isinstance(obj, Table):
		ncol = len(obj.cols())
		if ncol == 0 or len(obj) == 0:
			return None
		col = obj.cols()[0]
		n = len(obj)
		proto = next((x for x in col._underlying if x is not None), 1)
		val = pool.make_like(rng, proto)
		if w == "vec-int-scalar":
			return call(lambda: col.__setitem__(0, val))
		if w == "vec-slice-vector":
			donor = Vector([pool.make_like(rng, proto) for _ in range(n)], name="donor")
			extra["donor"] = donor
			extra["donor_target"] = col
			return call(lambda: col.__setitem__(slice(None), donor))
		if w == "vec-slice-seq":
			return call(lambda: col.__setitem__(slice(0, n), [val] * n))
		if w == "vec-mask-scalar":
			return call(lambda: col.__setitem__([True] + [False] * (n - 1), val))
		if w == "vec-idxlist-seq":
			return call(lambda: col.__setitem__([0, n - 1], [val, val]))
		if w == "vec-slice-promote":
			return call(lambda: col.__setitem__(slice(0, 1), [pool.wider(proto)]))
		if w == "vec-none":
			return call(lambda: col.__setitem__(0, None))
		if w == "cell":
			return call(lambda: obj.__setitem__((0, 0), val))
		if w == "row":
			vals = [pool.make_like(rng, next((x for x in c._underlying if x is not None), 1)) for c in obj.cols()]
			return call(lambda: obj.__setitem__(0, vals))
		if w == "column":
			return call(lambda: obj.__setitem__((slice(None), 0), [val] * n))
		if w == "region":
			return call(lambda: obj.__setitem__((slice(0, 1), slice(0, 1)), [[val]]))
		acc = pool.accessor_for(obj, 0)
		if w == "attr-list":
			return call(lambda: setattr(obj, acc, [val] * n)) if acc else None
		if w == "attr-vector":
			donor = Vector([val] * n, name="donor")
			extra["donor"] = donor
			return call(lambda: setattr(obj, acc, donor)) if acc else None
		if w == "rename-view":
			return call(lambda: setattr(col, "name", "renamed_by_view"))
		if w == "rename_column":
			return call(lambda: obj.rename_column(col.name, "renamed_col"))
		return None
	v = obj
	n = len(v)
	if n == 0:
		return None
	proto = next((x for x in v._underlying if x is not None), 1)
	val = pool.make_like(rng, proto)
	if w == "vec-int-scalar":
		return call(lambda: v.__setitem__(-1, val))
	if w == "vec-slice-vector":
		donor = Vector([pool.make_like(rng, proto) for _ in range(n)], name="donor")
		extra["donor"] = donor
		extra["donor_target"] = v
		return call(lambda: v.__setitem__(slice(None), donor))
	if w == "vec-slice-seq":
		return call(lambda: v.__setitem__(slice(None), [val] * n))
	if w == "vec-mask-scalar":
		return call(lambda: v.__setitem__(Vector([True] * n), val))
	if w == "vec-idxlist-seq":
		return call(lambda: v.__setitem__(Vector([0]), [val]))
	if w == "vec-slice-promote":
		return call(lambda: v.__setitem__(0, pool.wider(proto)))
	if w == "vec-none":
		return call(lambda: v.__setitem__(0, None))
	if w == "rename-view":
		return call(lambda: setattr(v, "name", "renamed"))
	return None


def run_refusal(chk, spec):
	"""a table-level write that cannot be kept local (one of the target columns still shares a caller-supplied tuple with a live vector) is refused
	with AliasError and changes nothing - also the target columns that come before the sharing one"""
	import random
	rng = random.Random(spec["seed"])
	n, c, pos = spec["n"], spec["c"], spec["pos"]
	tp = tuple(rng.choice([1, 2, 3, 5]) for _ in range(n))
	sharer = Vector(tp)      # stays alive
	t = Table([Vector([rng.choice([7, 8, 9]) for _ in range(n)], name=f"c{j}") for j in range(c)])
	o = call(lambda: setattr(t, f"c{pos}", tp))
	if not o.ok:
		chk.skip("refusal-setup-failed")
		return
	probe = call(lambda: t.cols()[pos].__setitem__(0, t.cols()[pos]._underlying[0]))
	shares = (not probe.ok) and isinstance(probe.exc, AliasError)
	before = M.snap_table(t)
	sb = M.snap_vector(sharer)
	i = rng.randrange(n)
	form = spec["form"]
	if form == "row":
		w = call(t.__setitem__, i, [100 + j for j in range(c)])
	elif form == "row-2d":
		w = call(t.__setitem__, (i, slice(None)), [100 + j for j in range(c)])
	elif form == "scalar-broadcast":
		w = call(t.__setitem__, (slice(None), slice(None)), 55)
	elif form == "region-list":
		w = call(t.__setitem__, (slice(None), slice(None)), [[100 + j] * n for j in range(c)])
	elif form == "region-table":
		w = call(t.__setitem__, (slice(None), slice(None)), Table([Vector([100 + j] * n, name=f"s{j}") for j in range(c)]))
	elif form == "mask-rows":
		w = call(t.__setitem__, ([True] + [False] * (n - 1), [f"c{j}" for j in range(c)]), 66)
	else:
		w = call(t.__setitem__, (i, [f"c{j}" for j in range(c)]), [100 + j for j in range(c)])
	chk.judged("pair", ("refusal", form, c, pos, shares, w.ok))
	if not shares:
		chk.counters["refusal-column-did-not-share"] += 1
	if not w.ok and isinstance(w.exc, AliasError):
		if M.snap_table(t) != before:
			chk.fail("a write that cannot be kept local is refused with AliasError and changes nothing", f"frame/refused-write-changed-target/table-{form}",
				f"{spec!r}: t[...] = ... raised AliasError (column c{pos} shares a caller tuple with a live vector) but the table changed: {short(before, 200)} -> {short(M.snap_table(t), 200)}")
			return
	if M.snap_vector(sharer) != sb:
		chk.fail("a write through one handle leaves every other object unchanged", f"frame/write/table-{form}/victim-sharer", f"{spec!r}: the vector sharing the caller tuple changed")


def run_pair(chk, spec):
	import random
	rng = random.Random(spec["seed"])
	dname, w, side = spec["deriv"], spec["write"], spec["side"]
	srckind, fn = DERIVS[dname]
	n = spec.get("n", 3)
	extra = {"w": Vector(V.column(rng, "int", n, "none", small=True), name="w"), "t": base_table(rng, n),
		"t2": Table({"k": V.column(rng, "int", n, "none", small=True), "z": V.column(rng, "str", n, "none", small=True)})}
	src = Vector(V.column(rng, "int", n, rng.choice(["none", "none", "low"]), small=True), name="src") if srckind == "vector" else base_table(rng, n)
	if spec.get("object_src"):
		# a mixed (object-typed), non-nullable source: None written into one object must not make a bystander nullable
		import warnings
		with warnings.catch_warnings():
			warnings.simplefilter("ignore")
			mixed = [[1, "a", 2.5, b"b", (1,)][i % 5] for i in range(n)]
			if srckind == "vector":
				src = Vector(list(mixed), name="src")
			else:
				src = Table({"a": list(mixed), "b": V.column(rng, "float", n, "none", small=True), "c": V.column(rng, "str", n, "none", small=True)})
	if spec.get("stale") and srckind == "vector" and len(src):
		# the source's dtype says nullable although no None is left in it (a None was stored and overwritten)
		x0 = src._underlying[0]
		if x0 is not None and call(src.__setitem__, 0, None).ok:
			call(src.__setitem__, 0, x0)
	pre = {"source": M.snap_any(src), "w": M.snap_any(extra["w"]), "t": M.snap_any(extra["t"]), "t2": M.snap_any(extra["t2"])}
	d = call(fn, rng, src, extra)
	# the derivation itself is an operation that returns a new object: it must not have changed anything it read
	if "swap_source" in extra:
		src = extra["swap_source"]
	if "(donor)" not in dname:
		for k, obj in (("source", src), ("w", extra["w"]), ("t", extra["t"]), ("t2", extra["t2"])):
			if k == "source" and (extra.get("inplace") or "swap_source" in extra):
				continue      # an augmented assignment may legitimately update its left operand; a swapped-in source was built inside the derivation
			now = M.snap_any(obj)
			if now != pre[k]:
				chk.judged("pair", ("derive-purity", dname, k))
				chk.fail("operations that return a new object never change their operands", f"frame/derivation-changed-operand/{dname}/{k}",
					f"{spec!r}: {dname} changed its operand {k}: {short(pre[k], 160)} -> {short(now, 160)}")
				return
	if not d.ok:
		chk.skip("pair-derivation-failed")
		return
	derived = d.value
	objs = {"source": src, "derived": derived, "w": extra["w"], "t": extra["t"], "t2": extra["t2"]}
	if "(donor)" in dname:
		objs.pop("t")    # derived IS t
	if extra.get("inplace") and derived is src:
		objs.pop("source")      # updated in place: one object
	writer = objs[side]
	if isinstance(writer, Table) and derived is writer and side == "source":
		chk.skip("pair-same-object")
		return
	before = {k: M.snap_any(o) for k, o in objs.items()}
	o = do_write(rng, writer, w, extra)
	if o is None:
		chk.skip("pair-write-not-applicable")
		return
	chk.judged("pair", ("pair", dname, w, side))
	refused = (not o.ok) and isinstance(o.exc, AliasError)
	for k, obj in objs.items():
		if k == side and not refused:
			continue
		now = M.snap_any(obj)
		if now != before[k]:
			if k == side:
				chk.fail("a write refused with AliasError changes nothing", f"frame/refused-write-changed-target/{w}",
					f"{dname} / {w} through {side}: refused but target changed {short(before[k], 160)} -> {short(now, 160)}")
			else:
				chk.fail("a write through one handle leaves every other object unchanged", f"frame/write/{w}/{side}-of-{dname}/victim-{k}",
					f"derivation {dname}, write {w} through the {side} ({'ok' if o.ok else repr(o)}): {k} changed {short(before[k], 200)} -> {short(now, 200)}")
			return
	if "donor_target" in extra and o.ok:
		# the vector whose values were assigned stays an independent object: both sides take further writes, and neither sees the other's
		dn, tg = extra["donor"], extra["donor_target"]
		b_dn, b_tg = M.snap_vector(dn), M.snap_vector(tg)
		w1 = call(lambda: tg.__setitem__(0, tg._underlying[-1]))
		if M.snap_vector(dn) != b_dn:
			chk.fail("a write through one handle leaves every other object unchanged", f"frame/write/{w}/victim-value-vector", f"{dname} / {w}: writing the target afterwards changed the vector the values came from")
			return
		w2 = call(lambda: dn.__setitem__(0, dn._underlying[-1]))
		for which, wr in (("target", w1), ("value-vector", w2)):
			if not wr.ok and isinstance(wr.exc, AliasError):
				chk.fail("a write is refused only when it cannot be kept local", f"frame/write-refused-after/{w}/{which}", f"{dname} / {w}: after v[:] = donor a further write to the {which} raised AliasError although the two are separate objects")
				return
	if "donor" in extra and isinstance(extra["donor"], Vector):
		dn = extra["donor"]
		if dn.name != "donor":
			chk.fail("a vector assigned into a table as a column keeps its own name", f"frame/write/{w}/donor-renamed", f"{dname} / {w}: donor renamed to {dn.name!r}")
			return
		if isinstance(writer, Table):
			col = writer.cols()[0]
			c = call(lambda: col.__setitem__(0, col._underlying[0]))
			b2 = M.snap_vector(dn)
			c2 = call(lambda: writer.cols()[0].__setitem__(0, pool.make_like(rng, dn._underlying[0])))
			if M.snap_vector(dn) != b2:
				chk.fail("a vector assigned into a table as a column is not changed by writes to the table", f"frame/write/{w}/donor-follows-table", f"{dname} / {w}: donor changed after a write to the table column")

PURE_CELL_OPS = {
	"sum": lambda v, t: v.sum(), "max": lambda v, t: v.max(), "min": lambda v, t: v.min(), "unique": lambda v, t: v.unique(), "v+v": lambda v, t: v + v.copy(), "v*2": lambda v, t: v * 2,
	"v+scalar": lambda v, t: v + v._underlying[0], "radd": lambda v, t: v._underlying[0] + v, "v==v": lambda v, t: v == v.copy(), "sort": lambda v, t: v.sort_by(), "repr": lambda v, t: repr(v),
	"fingerprint": lambda v, t: v.fingerprint(), "fillna": lambda v, t: v.fillna(v._underlying[0]), "dropna": lambda v, t: v.dropna(), "cast-str": lambda v, t: v.cast(str), "lshift": lambda v, t: v << v.copy(),
	"agg-sum": lambda v, t: t.aggregate(over="k", sum_over="c"), "agg-minmax": lambda v, t: t.aggregate(over="k", min_over="c", max_over="c", count_over="c"),
	"agg-apply-sum": lambda v, t: t.aggregate(over="k", apply={"s": ("c", lambda xs: sum(xs[1:], xs[0]) if len(xs) else None)}), "win-sum": lambda v, t: t.window(over="k", sum_over="c"),
	"win-minmax": lambda v, t: t.window(over="k", min_over="c", max_over="c"), "t-sort": lambda v, t: t.sort_by("k"), "t-join": lambda v, t: t.join(t.copy(), "k", "k", expect="many_to_many"),
	"t-repr": lambda v, t: repr(t), "t-T": lambda v, t: t.T, "t-rowsum": lambda v, t: [r.sum() for r in t["c", "c2"]], "t-fingerprint": lambda v, t: t.fingerprint(), "t+t": lambda v, t: t["c", "c2"] + t["c2", "c"],
	"pluck": lambda v, t: v.pluck(0), "len": lambda v, t: v.len() if hasattr(v, "len") else None, "iter-rows": lambda v, t: [tuple(r) for r in t], "t-mask": lambda v, t: t[[True] * len(t)],
}
CELL_MAKERS = {
	"list": lambda i: [i, i + 1], "bytearray": lambda i: bytearray([65 + i % 20, 66]), "dict": lambda i: {"k": i, "m": [i]}, "set": lambda i: {i, i + 100}, "list-of-list": lambda i: [[i], [i, i]],
}


def run_pure_cells(chk, spec):
	"""read-only operations over cells that CAN be changed in place (lists, bytearrays, dicts, sets): the cells the operands hold afterwards are, deep down,
	the cells they held before (a reduction that folds with += rewrites the first cell of its operand)"""
	import copy, warnings
	mk = CELL_MAKERS[spec["cell"]]
	n = spec["n"]
	cells = [mk(i) for i in range(n)]
	v = Vector(list(cells), name="c")
	t = Table([Vector([["x", "y"][i % 2] for i in range(n)], name="k"), Vector([mk(i) for i in range(n)], name="c"), Vector([mk(i + 7) for i in range(n)], name="c2")])
	holders = {"vector": v, "table": t, "slice": v[0:n], "table-copy": t.copy()}
	before = {k: M.snap_any(o) for k, o in holders.items()}
	with warnings.catch_warnings():
		warnings.simplefilter("ignore")
		o = call(PURE_CELL_OPS[spec["op"]], v, t)
	chk.judged("pair", ("pure-cells", spec["op"], spec["cell"], n, o.ok))
	for k, obj in holders.items():
		now = M.snap_any(obj)
		if now != before[k]:
			chk.fail("operations that return a new object never change their operands", f"frame/operation-changed-operand-cells/{spec['op']}/{spec['cell']}",
				f"{spec!r}: after {spec['op']} ({'ok' if o.ok else repr(o)}) the {k} holds {short(now, 200)}; before {short(before[k], 200)}")
			return

def run_unnamed_keys(chk, spec):
	"""read-only operations whose key is an UNNAMED vector - a derived vector, or an unnamed column of the table itself - leave that vector as it was, its
	(missing) name included, and the table's column names with it"""
	import warnings
	n = 4
	with warnings.catch_warnings():
		warnings.simplefilter("ignore")
		t = Table([Vector([1, 2, 1, 2]), Vector([10, 20, 30, 40], name="w"), Vector(["p", "q", "r", "s"], name="s")])
		u = Table({"k2": [1, 2], "z": [7, 8]})
		ext = Vector([0, 1, 0, 1])          # an unnamed vector the caller keeps (t.a % 2, a comparison ...)
		key = {"own-unnamed-column": lambda: t.cols()[0], "external-unnamed": lambda: ext, "derived": lambda: ext}[spec["key"]]()
		before = (M.snap_any(t), M.snap_any(ext), M.snap_any(u), t.column_names(), ext.name)
		o = call({
			"aggregate": lambda: t.aggregate(over=key, sum_over="w"), "aggregate-list": lambda: t.aggregate(over=[key], count_over="s"), "window": lambda: t.window(over=key, sum_over="w"),
			"window-two-keys": lambda: t.window(over=[key, "s"], max_over="w"), "sort_by": lambda: t.sort_by(key), "sort_by-list": lambda: t.sort_by([key, "w"], reverse=[True, False]),
			"join": lambda: t.join(u, key, "k2", expect="many_to_one"), "inner_join": lambda: t.inner_join(u, [key], ["k2"], expect="many_to_one"), "full_join": lambda: t.full_join(u, key, u["k2"], expect="many_to_one"),
			"rejected-aggregate": lambda: t.aggregate(over=key, sum_over="no such column"),
		}[spec["op"]])
	chk.judged("pair", ("unnamed-keys", spec["op"], spec["key"], o.ok))
	after = (M.snap_any(t), M.snap_any(ext), M.snap_any(u), t.column_names(), ext.name)
	if after != before:
		what = "table" if after[0] != before[0] or after[3] != before[3] else ("key-vector" if after[1] != before[1] or after[4] != before[4] else "other-table")
		chk.fail("operations that return a new object never change their operands", f"frame/operation-changed-operand/{spec['op']}/unnamed-key/{what}",
			f"{spec!r} ({'ok' if o.ok else repr(o)}): table names {before[3]!r} -> {after[3]!r}, key vector name {before[4]!r} -> {after[4]!r}")


def run_handle_survives(chk, spec):
	"""a column obtained from a table is that table's column: it stays so across cell / row / region / mask writes to the table (only replacing the column by
	attribute assignment installs another object), so it shows what the table shows and a write through it changes that table"""
	import warnings
	n = 3
	with warnings.catch_warnings():
		warnings.simplefilter("ignore")
		t = Table({"a": [1, 2, 3], "b": [4, 5, 6], "c": ["p", "q", "r"]})
		other = Table({"x": [7, 8, 9], "y": [1, 1, 1]})
		h = {"item": lambda: t["b"], "attr": lambda: t.b, "cols": lambda: t.cols()[1]}[spec["handle"]]()
		w = call({
			"cell": lambda: t.__setitem__((0, "b"), 50), "row": lambda: t.__setitem__(0, [10, 50, "z"]), "row-names": lambda: t.__setitem__((2, ["b", "c"]), [60, "y"]),
			"row-negative": lambda: t.__setitem__((-1, slice(None)), [30, 60, "w"]), "column": lambda: t.__setitem__((slice(None), "b"), [40, 50, 60]),
			"region-table": lambda: t.__setitem__((slice(None), ["a", "b"]), other), "region-list": lambda: t.__setitem__((slice(0, 2), ["a", "b"]), [[7, 8], [40, 50]]),
			"mask-rows": lambda: t.__setitem__(([True, False, True], "b"), 0), "scalar-broadcast": lambda: t.__setitem__((slice(None), slice(0, 2)), 9),
			# (writes that promote the column's kind in place, and one that makes it nullable)
			"cell-promotes": lambda: t.__setitem__((0, "b"), 0.5), "row-promotes": lambda: t.__setitem__(0, [10, 5.5, "z"]), "column-promotes": lambda: t.__setitem__((slice(None), "b"), [4.5, 5.5, 6.5]),
			"region-promotes": lambda: t.__setitem__((slice(0, 2), ["a", "b"]), [[7, 8], [4.5, 5 + 1j]]), "cell-none": lambda: t.__setitem__((1, "b"), None), "mask-promotes": lambda: t.__setitem__(([True, False, True], "b"), 2.5),
		}[spec["write"]])
	chk.judged("pair", ("handle-survives", spec["handle"], spec["write"]))
	if not w.ok:
		chk.skip("handle-write-refused")
		return
	now = t.cols()[1]
	if list(h._underlying) != list(now._underlying):
		chk.fail("a column obtained from a table shows that table's cells", f"frame/handle-detached/{spec['write']}/shows-old-cells", f"{spec!r}: the handle holds {list(h._underlying)!r}, the table's column {list(now._underlying)!r}")
		return
	w2 = call(h.__setitem__, 1, 777)
	if w2.ok and list(t.cols()[1]._underlying)[1] != 777:
		chk.fail("a write through a column obtained from a table changes that table", f"frame/handle-detached/{spec['write']}/write-does-not-reach-table", f"{spec!r}: h[1] = 777 left the table's column at {list(t.cols()[1]._underlying)!r}")
		return
	call(setattr, h, "name", "renamed")
	if t.column_names()[1] != "renamed":
		chk.fail("a rename through a column obtained from a table renames that table's column", f"frame/handle-detached/{spec['write']}/rename-does-not-reach-table", f"{spec!r}: names {t.column_names()!r}")


READERS = {
	"column_names": lambda t: t.column_names(), "cols": lambda t: t.cols(), "dir": lambda t: dir(t), "list(t.a)": lambda t: list(t.a), "to_dict": lambda t: t.to_dict() if hasattr(t, "to_dict") else None,
	"schema": lambda t: t.a.schema(), "shape": lambda t: t.shape, "tuple(row)": lambda t: list(t[0]), "vector-dir": lambda t: dir(t.a), "row-dir": lambda t: dir(t[0]),
}


def _spoil(x):
	"""edit a returned container in place, as a caller that owns it may; True when something was edited"""
	if isinstance(x, list):
		x.reverse(); x.append("spoiled"); del x[0]
		return True
	if isinstance(x, dict):
		x.clear(); x["spoiled"] = 1
		return True
	if isinstance(x, (set, bytearray)):
		x.clear()
		return True
	return False


def run_returned_container(chk, spec):
	"""what a read-only call returns belongs to the caller: editing a returned list / dict in place changes nothing the table shows afterwards"""
	import warnings
	with warnings.catch_warnings():
		warnings.simplefilter("ignore")
		t = Table({"a": [1, 2, 3], "b": [4.5, None, 6.5], "c": ["p", "q", "r"]})
		if spec["renamed"]:
			t.rename_column("c", "see")
		reader = READERS[spec["reader"]]
		first = call(reader, t)
		chk.judged("pair", ("returned-container", spec["reader"], spec["renamed"]))
		if not first.ok or first.value is None:
			chk.skip("reader-not-available")
			return
		import copy as _copy
		kept = _copy.copy(first.value) if isinstance(first.value, (list, dict, set)) else first.value
		snap = M.snap_any(t)
		names = list(c._name for c in t._underlying)
		if not _spoil(first.value):
			chk.skip("returned-value-immutable")
			return
		again = call(reader, t)
		after = M.snap_any(t)
		if after != snap or [c._name for c in t._underlying] != names:
			chk.fail("operations that return a new object never change their operands", f"frame/returned-container-is-internal/{spec['reader']}/table-changed", f"{spec!r}: editing the returned value changed the table: {short(snap, 200)} -> {short(after, 200)}")
			return
		same = again.ok and (again.value == kept if not isinstance(kept, list) or not kept or not hasattr(kept[0], "_underlying") else len(again.value) == len(kept))
		if not same:
			chk.fail("operations that return a new object never change their operands", f"frame/returned-container-is-internal/{spec['reader']}/later-call-differs",
				f"{spec!r}: after the caller edited the first result in place, the same call gives {short(again.value if again.ok else again, 200)} instead of {short(kept, 200)}")


def run_derived_rename_accessors(chk, spec):
	"""renaming a column of a DERIVED table (copy, sort, slice, mask, copy module, selection, join) - by rename_column, rename_columns or through a handle -
	leaves the source's names and its dot accessors as they were, and the other way round"""
	import copy as _copy, warnings
	with warnings.catch_warnings():
		warnings.simplefilter("ignore")
		t = Table({"price": [3, 1, 2], "qty": [4, 5, 6], "k": [1, 2, 3]})
		if spec["touch_first"]:
			call(dir, t); call(lambda: t.price)
		mk = {"copy": lambda: t.copy(), "sort": lambda: t.sort_by("k"), "slice": lambda: t[0:3], "mask": lambda: t[[True, True, True]], "copy.copy": lambda: _copy.copy(t), "deepcopy": lambda: _copy.deepcopy(t),
			"select": lambda: t["price", "qty", "k"], "stack": lambda: t >> {"extra": [0, 0, 0]}, "self-join": lambda: t.inner_join(Table({"kk": [1, 2, 3]}), "k", "kk")}[spec["deriv"]]
		d = call(mk)
		if not d.ok or not isinstance(d.value, Table):
			chk.skip("derivation-not-available")
			return
		u = d.value
		src, dst = (u, t) if spec["rename_side"] == "derived" else (t, u)
		how = spec["how"]
		r = call({"rename_column": lambda: src.rename_column("price", "cost"), "rename_columns": lambda: src.rename_columns(["price", "qty"], ["cost", "n"]), "handle": lambda: setattr(src["price"], "name", "cost")}[how])
		chk.judged("pair", ("derived-rename-accessors", spec["deriv"], how, spec["rename_side"], spec["touch_first"]))
		if not r.ok:
			chk.skip("rename-refused")
			return
		# the OTHER table still answers to its old names, by every route
		names = dst.column_names()
		if names[:2] != ["price", "qty"]:
			chk.fail("a write through one handle leaves every other object unchanged", f"frame/rename-reaches-other-table/{spec['deriv']}/{how}/names", f"{spec!r}: the other table's names are now {names!r}")
			return
		g = call(lambda: dst.price)
		if not g.ok or g.value is not dst.cols()[0]:
			chk.fail("a write through one handle leaves every other object unchanged", f"frame/rename-reaches-other-table/{spec['deriv']}/{how}/accessor", f"{spec!r}: other.price -> {short(g, 100)} after the rename on the {spec['rename_side']} side")
			return
		g2 = call(lambda: dst.cost)
		if g2.ok:
			chk.fail("a write through one handle leaves every other object unchanged", f"frame/rename-reaches-other-table/{spec['deriv']}/{how}/new-accessor-answers", f"{spec!r}: other.cost resolves ({short(g2.value, 80)}) although only the {spec['rename_side']} table was renamed")
			return
		w = call(dst.__setitem__, (0, "price"), 77)
		if not w.ok or list(dst.cols()[0]._underlying)[0] != 77:
			chk.fail("a write through one handle leaves every other object unchanged", f"frame/rename-reaches-other-table/{spec['deriv']}/{how}/item-assignment", f"{spec!r}: other[0, 'price'] = 77 -> {w!r}; column {list(dst.cols()[0]._underlying)!r}")
			return
		if "price" in dir(src) or "cost" not in dir(src):
			chk.fail("a rename renames the table it was asked on", f"frame/rename-lost/{spec['deriv']}/{how}", f"{spec!r}: the renamed table advertises {[n for n in dir(src) if n in ('price', 'cost', 'qty', 'n')]!r}")


def run_caller_arguments(chk, spec):
	"""containers the CALLER passes in - the apply dict and the over / *_over lists of aggregate and window, key and direction lists of sort_by and joins, the name lists
	of rename_columns, index lists and value lists of assignments - are the caller's: the call leaves them exactly as they were (same items, same objects), so
	they can be passed again to another table"""
	import copy as _copy, warnings
	with warnings.catch_warnings():
		warnings.simplefilter("ignore")
		t = Table({"g": ["a", "b", "a"], "v": [1, 2, 3], "w": [4, 5, 6]})
		u = Table({"g": ["x", "x", "y"], "v": [10, 20, 30], "w": [7, 8, 9]})
		r = Table({"k": ["a", "b"], "z": [1, 2]})
		vec = Vector([10, 20, 30, 40])
		what = spec["what"]
		args = {
			"apply-dict": lambda: {"n": ("v", len), "m": ("w", max)}, "over-list": lambda: ["g"], "sum-list": lambda: ["v", "w"], "sort-keys": lambda: ["g", "v"], "sort-reverse": lambda: [True, False],
			"join-left-keys": lambda: ["g"], "join-right-keys": lambda: ["k"], "rename-old": lambda: ["v", "w"], "rename-new": lambda: ["vv", "ww"], "index-list-negative": lambda: [0, -1], "index-list": lambda: [1, 2],
			"mask-list": lambda: [True, False, True, False], "value-list": lambda: [7, 8], "row-index-list": lambda: [0, -1], "column-name-list": lambda: ["v", "w"], "row-values": lambda: ["q", 0, 0],
		}[what]()
		saved = _copy.copy(args)
		saved_items = list(args.items()) if isinstance(args, dict) else list(args)
		calls = {
			"apply-dict": [lambda: t.aggregate(over="g", apply=args), lambda: u.window(over="g", apply=args)], "over-list": [lambda: t.aggregate(over=args, sum_over="v"), lambda: u.window(over=args, sum_over="v")],
			"sum-list": [lambda: t.aggregate(over="g", sum_over=args), lambda: u.window(over="g", max_over=args)], "sort-keys": [lambda: t.sort_by(args), lambda: u.sort_by(args, reverse=[False, True])],
			"sort-reverse": [lambda: t.sort_by(["g", "v"], reverse=args)], "join-left-keys": [lambda: t.join(r, args, ["k"], expect="many_to_one"), lambda: t.inner_join(r, args, "k")],
			"join-right-keys": [lambda: t.full_join(r, ["g"], args), lambda: t.inner_join(r, "g", args)], "rename-old": [lambda: t.rename_columns(args, ["vv", "ww"])], "rename-new": [lambda: t.rename_columns(["v", "w"], args)],
			"index-list-negative": [lambda: vec.__setitem__(args, [1, 2]), lambda: vec.__getitem__(args), lambda: Vector([1, 2, 3]).__setitem__(args, 0)], "index-list": [lambda: vec.__setitem__(args, [1, 2]), lambda: vec[args]],
			"mask-list": [lambda: vec.__setitem__(args, 0), lambda: vec[args]], "value-list": [lambda: vec.__setitem__([0, 1], args), lambda: vec.__setitem__(slice(0, 2), args), lambda: t.__setitem__((slice(0, 2), "v"), args)],
			"row-index-list": [lambda: t.__setitem__((args, "v"), [5, 6]), lambda: t[args]], "column-name-list": [lambda: t.__setitem__((0, args), [5, 6]), lambda: t.aggregate(over="g", count_over=args)], "row-values": [lambda: t.__setitem__(0, args), lambda: t << args],
		}[what]
		for k, f in enumerate(calls):
			o = call(f)
			chk.judged("pair", ("caller-arguments", what, k, o.ok))
			now_items = list(args.items()) if isinstance(args, dict) else list(args)
			same = len(now_items) == len(saved_items) and all((a is b) or (isinstance(a, tuple) and isinstance(b, tuple) and len(a) == len(b) and all(x is y for x, y in zip(a, b))) or (isinstance(a, (int, str, bool)) and type(a) is type(b) and a == b)
				for a, b in zip(now_items, saved_items))
			if same and isinstance(args, dict):
				same = all(ka is kb or ka == kb for (ka, _), (kb, _) in zip(now_items, saved_items)) and all(len(va) == len(vb) and all(x is y for x, y in zip(va, vb)) for (_, va), (_, vb) in zip(now_items, saved_items))
			if not same:
				chk.fail("operations never change their operands - nor the containers the caller passed them", f"frame/caller-argument-rewritten/{what}", f"{spec!r}: call #{k + 1} ({'ok' if o.ok else repr(o)}) left the caller's {type(args).__name__} as {short(args, 160)}; it was {short(saved, 160)}")
				return


def run_replaced_column_then_named_again(chk, spec):
	"""an operation names a column, the column is then REPLACED as a whole (by its plain or its indexed accessor, by item assignment), and the operation names it again:
	it reads the column the table holds now - the handle the program kept of the replaced column is a vector of its own, writing to it changes nothing of the table"""
	import warnings
	with warnings.catch_warnings():
		warnings.simplefilter("ignore")
		def build(total):
			return Table({"total": list(total), "g": ["a", "b", "a", "b"], "id": [1, 2, 3, 4]})
		t = build([3, 1, 2, 0])
		r = Table({"k": [0, 1, 2, 3, 9], "z": ["p", "q", "r", "s", "t"]})
		ops = {"sort_by": lambda x: x.sort_by("total"), "aggregate": lambda x: x.aggregate(over="total", count_over="id"), "window": lambda x: x.window(over="g", sum_over="total"), "join": lambda x: x.inner_join(r, "total", "k"),
			"sort_by-list": lambda x: x.sort_by(["g", "total"])}
		op = ops[spec["op"]]
		old_handle = t["total"]
		first = call(op, t)
		new = [0, 9, 1, 2]
		w = call({"attr": lambda: setattr(t, "total", list(new)), "indexed-accessor": lambda: setattr(t, "total__0", list(new)), "indexed-accessor-vector": lambda: setattr(t, "total__0", Vector(list(new), name="total")),
			"item-column": lambda: t.__setitem__((slice(None), "total"), list(new))}[spec["replace"]])
		if not w.ok:
			chk.skip("column-replacement-refused")
			return
		if spec["write_old_handle"] and t.cols()[0] is not old_handle:
			call(old_handle.__setitem__, 0, 77)
		cur = list(t.cols()[0]._underlying)
		second = call(op, t)
		ref = call(op, build(cur))
	chk.judged("pair", ("replaced-column-then-named-again", spec["op"], spec["replace"], spec["write_old_handle"]))
	if second.ok != ref.ok or (second.ok and [list(c._underlying) for c in second.value.cols()] != [list(c._underlying) for c in ref.value.cols()]):
		chk.fail("a write through a handle that is no longer the table's column changes nothing the table shows", f"frame/replaced-column-still-read/{spec['op']}/{spec['replace']}",
			f"{spec!r}: table column now {cur!r}: {spec['op']} gives {short([list(c._underlying) for c in second.value.cols()] if second.ok else second, 200)}; a table built from the current cells gives {short([list(c._underlying) for c in ref.value.cols()] if ref.ok else ref, 200)}")


def run_empty_table_renames(chk, spec):
	"""tables and vectors WITHOUT rows still carry names: renaming a column of a table derived from a zero-row table (or built from empty vectors) leaves the source's - and the
	caller's vectors' - names alone, and the other way round"""
	import copy as _copy, warnings
	with warnings.catch_warnings():
		warnings.simplefilter("ignore")
		v, w = Vector([], name="price"), Vector([], name="qty")
		t = Table([v, w]) if spec["source"] == "from-empty-vectors" else (Table({"price": [1, 2], "qty": [3, 4]})[0:0] if spec["source"] == "emptied" else Table({"price": [], "qty": []}))
		mk = {"copy": lambda: t.copy(), "copy.copy": lambda: _copy.copy(t), "stack-dict": lambda: t >> {"extra": []}, "stack-vector": lambda: t >> Vector([], name="extra"), "Table(cols)": lambda: Table(list(t.cols())), "select": lambda: t["price", "qty"],
			"slice": lambda: t[0:0], "sort": lambda: t.sort_by("price"), "self": lambda: t}[spec["deriv"]]
		d = call(mk)
		if not d.ok or not isinstance(d.value, Table) or len(d.value.cols()) < 2:
			chk.skip("derivation-not-available")
			return
		u = d.value
		how = spec["how"]
		target = u if spec["deriv"] != "self" else t
		r = call({"rename_column": lambda: target.rename_column("price", "cost"), "rename_columns": lambda: target.rename_columns(["price", "qty"], ["cost", "n"]), "handle": lambda: setattr(target.cols()[0], "name", "cost")}[how])
	chk.judged("pair", ("empty-table-renames", spec["source"], spec["deriv"], how))
	if not r.ok:
		chk.skip("rename-refused")
		return
	if spec["deriv"] != "self" and t.column_names()[:2] != ["price", "qty"]:
		chk.fail("a write through one handle leaves every other object unchanged", f"frame/rename-reaches-other-table/zero-rows/{spec['deriv']}/{how}", f"{spec!r}: the source table's names are now {t.column_names()!r}")
		return
	if spec["source"] == "from-empty-vectors" and (v.name, w.name) != ("price", "qty"):
		chk.fail("a write through one handle leaves every other object unchanged", f"frame/rename-reaches-input-vectors/zero-rows/{spec['deriv']}/{how}", f"{spec!r}: the vectors the table was built from are now named {(v.name, w.name)!r}")


def run_history(chk, spec):
	m = pool.Machine(chk, spec["seed"], spec["nsteps"], spec.get("profile", "mixed"))
	try:
		m.run()
	finally:
		chk.counters["history_steps"] += len(m.trace)


RUNNERS = {"empty_table_renames": run_empty_table_renames, "caller_arguments": run_caller_arguments, "replaced_column_then_named_again": run_replaced_column_then_named_again, "derived_rename_accessors": run_derived_rename_accessors, "returned_container": run_returned_container, "unnamed_keys": run_unnamed_keys, "handle_survives": run_handle_survives, "pure_cells": run_pure_cells, "refusal": run_refusal, "pair": run_pair, "history": run_history, "recompute": recompute.runner("C01")}

def setup(chk):
	pool.CENSUS.install()


def run(chk):
	recompute.add_cases(chk, "C01")
	rng = chk.rng
	for dname in ("copy", "slice", "mask", "T", "Table([v, w])", "t >> v", "select", "rowslice", "rowmask", "sort", "table-copy", "copy.copy(vector)", "copy.copy(table)"):
		if dname not in DERIVS:
			continue
		for w in ("vec-none", "vec-int-scalar", "cell", "row"):
			for side in ("source", "derived"):
				chk.case("pair", {"deriv": dname, "write": w, "side": side, "seed": rng.randrange(10**9), "object_src": True}, "pair-object-source")
	for op in ("aggregate", "aggregate-list", "window", "window-two-keys", "sort_by", "sort_by-list", "join", "inner_join", "full_join", "rejected-aggregate"):
		for key in ("own-unnamed-column", "external-unnamed"):
			chk.case("unnamed_keys", {"op": op, "key": key}, "unnamed-keys")
	for handle in ("item", "attr", "cols"):
		for write in ("cell", "row", "row-names", "row-negative", "column", "region-table", "region-list", "mask-rows", "scalar-broadcast", "cell-promotes", "row-promotes", "column-promotes", "region-promotes", "cell-none", "mask-promotes"):
			chk.case("handle_survives", {"handle": handle, "write": write}, "handle-survives")
	for deriv in ("copy", "sort", "slice", "mask", "copy.copy", "deepcopy", "select", "stack", "self-join"):
		for how in ("rename_column", "rename_columns", "handle"):
			for side in ("derived", "source"):
				for touch_first in (False, True):
					chk.case("derived_rename_accessors", {"deriv": deriv, "how": how, "rename_side": side, "touch_first": touch_first}, "derived-rename-accessors")
	for source in ("from-empty-vectors", "emptied", "empty-lists"):
		for deriv in ("copy", "copy.copy", "stack-dict", "stack-vector", "Table(cols)", "select", "slice", "sort", "self"):
			for how in ("rename_column", "rename_columns", "handle"):
				chk.case("empty_table_renames", {"source": source, "deriv": deriv, "how": how}, "empty-table-renames")
	for what in ("apply-dict", "over-list", "sum-list", "sort-keys", "sort-reverse", "join-left-keys", "join-right-keys", "rename-old", "rename-new", "index-list-negative", "index-list", "mask-list", "value-list", "row-index-list", "column-name-list", "row-values"):
		chk.case("caller_arguments", {"what": what}, "caller-arguments")
	for op in ("sort_by", "aggregate", "window", "join", "sort_by-list"):
		for replace in ("attr", "indexed-accessor", "indexed-accessor-vector", "item-column"):
			for write_old in (False, True):
				chk.case("replaced_column_then_named_again", {"op": op, "replace": replace, "write_old_handle": write_old}, "replaced-column-then-named-again")
	for reader in READERS:
		for renamed in (False, True):
			chk.case("returned_container", {"reader": reader, "renamed": renamed}, "returned-container")
	for op in PURE_CELL_OPS:
		for cell in CELL_MAKERS:
			for n in ((3,) if chk.quick() else (1, 3, 6)):
				chk.case("pure_cells", {"op": op, "cell": cell, "n": n}, "pure-cells")
	idx = 0
	for dname in DERIVS:
		for w in WRITES:
			for side in ("source", "derived"):
				idx += 1
				if not chk.mine(idx):
					continue
				for rep in range(1 if chk.quick() else 3):
					chk.case("pair", {"deriv": dname, "write": w, "side": side, "seed": rng.randrange(10**9), "n": rng.choice([1, 2, 3, 4]), "stale": rng.random() < 0.4}, "pair")
	for form in ("row", "row-2d", "scalar-broadcast", "region-list", "region-table", "mask-rows", "row-names"):
		for c in (2, 3):
			for pos in range(c):
				for rep in range(1 if chk.quick() else 4):
					chk.case("refusal", {"form": form, "c": c, "pos": pos, "n": rng.choice([1, 2, 3]), "seed": rng.randrange(10**9)}, "refusal")
	nh = 150 if chk.quick() else 500
	for i in range(nh):
		chk.case("history", {"seed": rng.randrange(10**9), "nsteps": rng.choice([15, 30, 30, 60]) if not chk.quick() else rng.choice([15, 30]),
			"profile": rng.choice(["mixed", "mixed", "tables"])}, "history")
