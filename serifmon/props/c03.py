"""C03 - a vector's reported dtype is always truthful."""
import itertools
from datetime import date, datetime, timedelta

from ..bind import Vector, Table, Row
from ..core import call, short
from .. import models as M
from .. import values as V
from . import common
from . import pool

from . import recompute

RULE = ("[plus the shared recompute-after-history monitor: this property's operations evaluated on long-lived objects between in-place writes / renames must equal the same operations on fresh objects rebuilt from the current contents] "
	"universal monitor: every vector any workload obtains - results of the arithmetic (C05), None (C06), indexing (C07), join (C09/C10), "
	"aggregate (C12), window (C13), sort (C14) and CSV (C19) workloads, every pooled vector and table column after every step of the object-pool "
	"histories, and the results of a dedicated workload aimed at the weak points (reflected + with wider scalars / lists, unary - + abs on bool / int "
	"/ float / complex with None, << with wider values / None / strings, multi-value assignments whose k-th value needs promotion or is incompatible, "
	"None into non-nullable columns, cast / fillna / dropna, broadcast-method results) - is checked: every non-None element belongs to the reported "
	"kind (documented widenings only), None occurs only under a nullable schema, and (write-back probe, on a copy) v[i] = v[i] is accepted for "
	"sampled positions and never changes the dtype. distinct = (origin operation, reported dtype, element type classes).")
ASSUMPTIONS = [
	"vectors with schema() None (empty, no dtype) claim nothing; the driver never passes dtype=",
	"isinstance counts as belonging (generous reading); the typed subclass (_Int, _String ...) is not part of the reported dtype",
	"Row objects met by the universal observer are not judged; the dedicated row workload and the pool histories judge rows, row.copy() and row slices",
]
EXHAUSTIVE = {"flag": False, "scope": "the dedicated weak-point matrix is complete over its kinds/forms; everything else is sampled"}
ANCHOR_FUNCS = ["vector:Vector._elementwise_operation", "vector:Vector.__radd__", "vector:Vector._unary_operation", "vector:Vector.__lshift__",
	"vector:Vector.__setitem__", "vector:Vector.cast", "vector:Vector.fillna", "vector:Vector.dropna", "typing:validate_scalar"]
REQUIRED_STRATA = {"recompute": 200, "truth": 20000, "writeback": 3000, "weak-point": 500, "steps": 1000}

_seen = {"n": 0}


def classes(vals):
	return tuple(sorted({type(x).__name__ for x in vals}))


def truth(chk, obj, origin=""):
	"""universal observer"""
	if isinstance(obj, Row) or not isinstance(obj, Vector):
		return
	if isinstance(obj, Table):
		for c in obj._underlying:
			truth(chk, c, origin + "#column")
		return
	vals = list(obj._underlying)
	if any(isinstance(x, Vector) for x in vals):
		for x in vals:
			if isinstance(x, Vector):
				truth(chk, x, origin + "#nested")
		return
	sch = obj.schema()
	op = origin.split("#")[0]
	chk.judged("truth", ("truth", op, repr(sch), classes(vals)))
	msg = M.truthful(vals, sch)
	if msg:
		none_issue = "non-nullable" in msg
		chk.fail("the reported dtype is truthful", f"truth/{'none-in-non-nullable' if none_issue else 'element-outside-kind'}/{op}",
			f"vector from {origin}: values {short(vals, 200)} reported {sch!r}: {msg}")
		return
	_seen["n"] += 1
	if sch is None or not vals or len(vals) > 40:
		return
	if _seen["n"] % 3 and len(vals) > 3:
		return
	writeback(chk, obj, op)


def writeback(chk, obj, op):
	c = call(obj.copy)
	if not c.ok:
		return
	cp = c.value
	before = cp.schema()
	n = len(cp)
	positions = sorted({0, n - 1, n // 2} | {i for i, x in enumerate(cp._underlying) if x is None})[:5]
	for i in positions:
		x = cp._underlying[i]
		o = call(cp.__setitem__, i, x)
		chk.judged("writeback", None)
		if not o.ok:
			chk.fail("writing an element back into its own position is always accepted", f"truth/writeback-refused/{op}/{type(o.exc).__name__}",
				f"vector from {op}: {short(list(cp._underlying), 160)} {before!r}: v[{i}] = v[{i}] ({x!r}) raised {o!r}")
			return
		after = cp.schema()
		if (after.kind, after.nullable) != (before.kind, before.nullable):
			chk.fail("writing an element back never changes the dtype", f"truth/writeback-changed-dtype/{op}",
				f"vector from {op}: {short(list(cp._underlying), 160)}: v[{i}] = v[{i}] ({x!r}) changed {before!r} to {after!r}")
			return


def run_weak(chk, spec):
	"""dedicated weak-point operations; the observer judges whatever comes back (and the operand afterwards)"""
	import random
	rng = random.Random(spec["seed"])
	kind, what = spec["kind"], spec["what"]
	vals = common.arith_column(rng, kind, spec["n"], spec["none"])
	if vals and all(x is None for x in vals):
		vals[0] = rng.choice(common.ARITH_VALUES[kind])
	v = Vector(list(vals))
	wide = {"bool": [2, 2.5, 1j], "int": [2.5, 1j, True], "float": [1j, 2, True], "complex": [1, 2.5], "str": ["s", 1], "date": [V.DT0, timedelta(days=1), 3],
		"datetime": [V.D0, timedelta(hours=1)], "bytes": [b"x"], "timedelta": [timedelta(1), 2, 2.5], "list": [[9]]}[kind]
	w = rng.choice(wide)
	n = len(vals)
	chk.judged("weak-point", ("weak", what, kind, spec["none"], spec["n"]))
	ops = {
		"radd-scalar": lambda: w + v,
		"radd-list": lambda: [w] * n + v,
		"rsub-scalar": lambda: w - v,
		"rmul-scalar": lambda: w * v,
		"rtruediv": lambda: w / v,
		"rpow": lambda: 2 ** v,
		"add-wider-scalar": lambda: v + w,
		"add-wider-vector": lambda: v + Vector([w] * n),
		"neg": lambda: -v, "pos": lambda: +v, "abs": lambda: abs(v), "invert": lambda: ~v,
		"lshift-wider": lambda: v << [w],
		"lshift-none": lambda: v << None,
		"lshift-str": lambda: v << "s",
		"lshift-list-mixed": lambda: v << [w, None, rng.choice(common.ARITH_VALUES[kind])],
		"lshift-vector": lambda: v << Vector([w, w]),
		"rlshift": lambda: [w] << v,
		"cast-str": lambda: v.cast(str), "cast-float": lambda: v.cast(float), "cast-int": lambda: v.cast(int), "cast-bool": lambda: v.cast(bool),
		"cast-callable": lambda: v.cast(lambda x: (x,)),
		"cast-date-from-iso": lambda: Vector([None if x is None else "2020-01-%02d" % (1 + abs(hash(str(x))) % 28) for x in vals]).cast(date),
		"cast-datetime-from-iso": lambda: Vector([None if x is None else "2020-01-%02dT05:00:00" % (1 + abs(hash(str(x))) % 28) for x in vals]).cast(datetime),
		"cast-date-of-dates": lambda: Vector([None if x is None else V.D0 for x in vals]).cast(date),
		"cast-date-of-datetimes": lambda: Vector([None if x is None else datetime(2020, 1, 31, 5 + i % 7, 30) for i, x in enumerate(vals)]).cast(date),
		"cast-datetime-of-dates": lambda: Vector([None if x is None else V.D0 for x in vals]).cast(datetime),
		"promoted-date-plus-int": lambda: (lambda d: (d.__setitem__(0, datetime(2020, 1, 31, 12, 30)), d + 1)[1])(Vector([V.D0] * max(n, 1))),
		"promoted-date-plus-intvec": lambda: (lambda d: (d.__setitem__(0, datetime(2020, 1, 31, 12, 30)), d + Vector([1] * len(d)))[1])(Vector([V.D0] * max(n, 1))),
		"promoted-date-minus-timedelta": lambda: (lambda d: (d.__setitem__(0, datetime(2020, 1, 31, 12, 30)), d - timedelta(hours=1))[1])(Vector([V.D0] * max(n, 1))),
		"promoted-int-abs": lambda: (lambda d: (d.__setitem__(0, 3 + 4j), abs(d))[1])(Vector([1] * max(n, 1))),
		"promoted-int-neg": lambda: (lambda d: (d.__setitem__(0, 2.5), -d)[1])(Vector([1] * max(n, 1))),
		"promoted-int-invert-free": lambda: (lambda d: (d.__setitem__(0, 2.5), +d)[1])(Vector([1] * max(n, 1))),
		"lshift-operand-widened-by-inference": lambda: Vector([1, None]) << Vector([2, 3.5]),
		"lshift-operand-bool-then-int": lambda: Vector([True, None]) << Vector([False, 5]),
		"lshift-operand-date-then-datetime": lambda: Vector([date(2020, 1, 1), None]) << Vector([date(2020, 1, 2), datetime(2020, 1, 2, 5)]),
		"lshift-nullable-operand": lambda: Vector([1, 2]) << Vector([3, None, 2.5]),
		"table-lshift-table-widened": lambda: Table({"a": [1, None]}) << Table({"a": [2, 3.5]}),
		"huge-int-in-float": lambda: Vector([10 ** 400, 1.5, None][:max(2, min(n, 3))]),
		"huge-int-into-float": lambda: (lambda d: (d.__setitem__(0, 10 ** 400), d)[1])(Vector([1.5, 2.5])),
		"huge-int-in-complex": lambda: Vector([10 ** 400, 1j]),
		"peek-non-string-names": lambda: Table([Vector([1, 2], name=2023), Vector([3, 4], name=(1, 2)), Vector(["a", "b"], name=None), Vector([5, 6], name=2.5)]).peek(),
		"peek-args": lambda: Table([Vector(list(vals) or [1], name=7), Vector(list(vals) or [1], name="s")]).peek(2),
		# instances of a subclass of a NARROWER kind in a wider column (inference puts them there): they belong, and go back in
		# an empty vector that still has a dtype (a typed vector filtered down to nothing) receives a value of another kind
		"empty-typed-rshift-wider": lambda: Vector([1, 2, 3])[[False, False, False]] >> 2.5,
		"empty-typed-rshift-str": lambda: Vector([1, 2, 3])[0:0] >> "x",
		"empty-typed-rshift-none": lambda: Vector([1.5, 2.5])[2:] >> None,
		"empty-typed-table-rshift": lambda: Table({"a": [1, 2]})[[False, False]] >> "x",
		"empty-typed-lshift-wider": lambda: Vector([1, 2, 3])[0:0] << [2.5, None],
		# one operation repeated on every row of an iteration (one re-pointed row object): each result is typed from ITS row
		"each-row-to_object": lambda: [r.to_object() for r in Table({"a": [1, None, 3, None], "b": [4, 5, None, None]})],
		"each-row-fillna-none": lambda: [r.fillna(None) for r in Table({"a": [1, None, 3], "b": [4, 5, None]})],
		"each-row-fillna": lambda: [r.fillna(0) for r in Table({"a": [1, None, 3], "b": [4, 5, None]})],
		"each-row-copy": lambda: [r.copy() for r in Table({"a": [1, None, 3], "b": [4.5, 5.5, None]})],
		"each-row-slice": lambda: [r[0:2] for r in Table({"a": [1, 2, None], "b": [4, None, 6], "c": [7, 8, 9]})],
		"each-row-arith": lambda: [r + 1 for r in Table({"a": [1, 2, None], "b": [4, None, 6]})],
		"each-row-isna": lambda: [r.isna() for r in Table({"a": [1, None], "b": [None, 2]})],
		"each-row-dropna": lambda: [r.dropna() for r in Table({"a": [1, None, 5], "b": [2, 3, None]})],
		# vector arithmetic whose RIGHT operand has the None (date + days with a gap, int + int with a gap)
		"date-plus-days-with-gap": lambda: Vector([V.D0, V.D0, V.D0]) + Vector([1, None, 3]),
		"table-date-plus-days-with-gap": lambda: (lambda t: t["d"] + t["k"])(Table({"d": [V.D0, V.D0], "k": [None, 2]})),
		"int-plus-int-with-gap": lambda: Vector([1, 2, 3]) + Vector([1, None, 3]),
		"date-plus-days-then-more": lambda: (Vector([V.D0, V.D0]) + Vector([None, 2])) + 1,
		# string predicates over a column with a gap
		"str-predicates-with-none": lambda: Table([getattr(Vector(["ab", None, "Cd", ""]), m)(*a) for m, a in (("startswith", ("a",)), ("endswith", ("d",)), ("isalpha", ()), ("isdigit", ()), ("isupper", ()), ("islower", ()), ("isspace", ()), ("istitle", ()), ("isalnum", ()), ("isidentifier", ()), ("isnumeric", ()), ("isdecimal", ()), ("isascii", ()), ("isprintable", ()))]),
		"datetime-subclass-only": lambda: Vector([V.Stamp(2020, 1, 1 + i % 5, 5) for i in range(max(n, 1))]),
		"datetime-subclass-next-to-date": lambda: Vector([V.D0, V.Stamp(2020, 1, 2, 5)]),
		"datetime-subclass-written-into-date": lambda: (lambda d: (d.__setitem__(0, V.Stamp(2020, 1, 2, 5)), d)[1])(Vector([V.D0, V.D0])),
		"datetime-subclass-sorted-aggregated": lambda: Table({"k": [1, 1, 2], "s": [V.Stamp(2020, 1, 3, 5), V.Stamp(2020, 1, 1, 5), V.Stamp(2020, 1, 2, 5)]}).sort_by("s").aggregate(over="k", max_over="s"),
		"subclass-int-in-float": lambda: Vector([1.5, V.MyInt(2), 2.5][:max(2, min(n, 3))]),
		"subclass-int-in-complex": lambda: Vector([V.MyInt(2), 1j]),
		"subclass-date-in-datetime": lambda: Vector([datetime(2020, 1, 1, 5), V.Day(2020, 1, 2)]),
		"subclass-int-written-into-float": lambda: (lambda d: (d.__setitem__(0, V.MyInt(7)), d)[1])(Vector([1.5, 2.5])),
		"subclass-int-next-to-wider-in-one-write": lambda: (lambda d: (d.__setitem__(slice(0, 2), [2.5, V.MyInt(7)]), d)[1])(Vector([1, 2, 3])),
		"bit-lshift-scalar": lambda: Vector([1, 2, None, 3][:max(1, min(n, 4))]).bit_lshift(2),
		"bit-rshift-vector": lambda: Vector([8, 16, 1024]).bit_rshift(Vector([1, 2, 3])),
		"bit-lshift-bool": lambda: Vector([True, False]).bit_lshift(1),
		"list-matmul-table": lambda: Vector([[1, 2] @ Vector([3, 4.5])]),
		"renamed-deprecated": lambda: _renamed(Vector(list(vals) or [1], name="a")),
		"zero-plus-bool": lambda: 0 + Vector([True, False][:max(1, min(n, 2))]),
		"false-plus-bool": lambda: False + Vector([True, False][:max(1, min(n, 2))]),
		"sum-of-bool-vectors": lambda: sum([Vector([True, False]), Vector([True, True])]),
		"zero-plus-numeric-holding-bool": lambda: 0 + Vector([True, 2.5, -0.0]),
		"new-empty": lambda: Vector.new(w, 0),
		"new-empty-typesafe": lambda: Vector.new(w, 0, typesafe=True) << [w],
		"fillna-same": lambda: v.fillna(rng.choice(common.ARITH_VALUES[kind])),
		"fillna-wider": lambda: v.fillna(w),
		"fillna-integral-wider": lambda: v.fillna({"bool": 1, "int": 0.0, "float": complex(1, 0), "date": datetime(2020, 1, 31)}.get(kind, w)),
		"lshift-vector-none": lambda: v << Vector([rng.choice(common.ARITH_VALUES[kind]), None]),
		"lshift-vector-same": lambda: v << Vector([rng.choice(common.ARITH_VALUES[kind])]),
		"and-int": lambda: v & 1, "or-vector": lambda: v | v, "xor-list": lambda: v ^ [1] * n,
		"new-equal-narrower-first": lambda: (Vector.new(0, 2), Vector.new(0.0, 2), Vector.new(False, 2), Vector.new(0j, 2))[rng.randrange(1, 4)],
		"agg-stdev": lambda: Table([Vector(["a", "b", "a"][:n] + ["a"] * max(0, n - 3), name="k"), Vector([1.5] * n, name="x")]).aggregate(over="k", stdev_over="x", mean_over="x"),
		"win-stdev": lambda: Table([Vector(["a", "b", "a"][:n] + ["a"] * max(0, n - 3), name="k"), Vector([2] * n, name="x")]).window(over="k", stdev_over="x", count_over="x"),
		"fillna-none": lambda: v.fillna(None),
		"dropna": lambda: v.dropna(),
		"isna": lambda: v.isna(),
		"unique": lambda: v.unique(),
		"sort": lambda: v.sort_by(reverse=True),
		"to_object": lambda: v.to_object(),
		"T": lambda: v.T,
		"slice": lambda: v[0:1],
		"mask": lambda: v[[x is not None for x in vals]],
		"pluck": lambda: v.pluck(0),
		"new": lambda: Vector.new(w, 3),
		"new-typesafe": lambda: Vector.new(w, 2, typesafe=True),
		"new-none-typesafe": lambda: Vector.new(None, n or 1, typesafe=True),
		"new-none": lambda: Vector.new(None, n or 1),
		"isinstance": lambda: v.isinstance(int),
		"compare": lambda: v == w,
		"matmul-table": lambda: Table([v, v]) @ Vector([1, 2]),
		"table-sum": lambda: Table([v, v]).sum(),
		"table-max": lambda: Table([v, v]).max(),
		"table-mean": lambda: Table([v, v]).mean(),
	}
	o = call(ops[what])
	if o.ok:
		if isinstance(o.value, list) and what.startswith("each-"):
			for item in o.value:      # an operation repeated over the rows of an iteration: every result is judged
				chk.observe(item, what)
		else:
			chk.observe(o.value, what)
	else:
		chk.counters["weak-point-raised"] += 1
	chk.observe(v, what + "-operand")


def run_assign(chk, spec):
	"""multi-value assignments where the k-th value needs promotion, is None, or is incompatible; judged after success and after failure"""
	import random
	rng = random.Random(spec["seed"])
	kind = spec["kind"]
	n = spec["n"]
	base = common.arith_column(rng, kind, n, "none")
	if spec["nullable"] and n:
		base[rng.randrange(n)] = None
		if all(x is None for x in base):
			base[0] = rng.choice(common.ARITH_VALUES[kind])
	v = Vector(list(base), name="v")
	ok_val = lambda: rng.choice(common.ARITH_VALUES[kind])
	special = {"int3": 3, "float3": 3.0, "complex3": complex(3, 0), "true": True, "int1": 1, "float1": 1.0, "promote": pool.wider(next((x for x in base if x is not None), 1)), "none": None, "incompatible": object(), "str": "zz",
		"promote2": 1 + 1j, "bool": True, "narrower": True if kind in ("int", "float", "complex") else ok_val()}
	m = spec["m"]
	vals = [ok_val() for _ in range(m)]
	for pos, sp in spec["specials"]:
		if pos < m:
			vals[pos] = special[sp]
	form = spec["form"]
	if form == "slice":
		key = slice(0, m)
	elif form == "idxlist":
		key = list(range(m))
	elif form == "idxvec":
		key = Vector(list(range(m))) if m else []
	elif form == "mask":
		key = [i < m for i in range(n)]
	else:
		key = 0
		vals = vals[0] if vals else ok_val()
	if spec.get("as") == "vector" and isinstance(vals, list):
		# the values arrive as a typed vector of their own (its schema is not a licence to skip looking at them)
		import warnings
		with warnings.catch_warnings():
			warnings.simplefilter("ignore")
			made = call(Vector, list(vals))
		if made.ok:
			vals = made.value
	elif spec.get("as") == "tuple" and isinstance(vals, list):
		vals = tuple(vals)
	o = call(v.__setitem__, key, vals)
	chk.judged("weak-point", ("assign", kind, form, tuple(sp for _, sp in spec["specials"]), spec["nullable"], o.ok, spec.get("as")))
	chk.observe(v, "setitem-" + ("ok" if o.ok else "failed"))


def run_transpose(chk, spec):
	"""the rows of a transposed table are typed from their own cells: a None that sits in a later column - put there by inference or by a write - makes exactly the rows that hold it nullable"""
	import warnings
	cols = {"int": [[1, 2, 3], [4, 5, 6], [7, 8, 9]], "float": [[1.5, 2.5, 3.5], [4.5, 5.5, 6.5], [7.5, 8.5, 9.5]], "str": [["a", "b", "c"], ["d", "e", "f"], ["g", "h", "i"]], "int-float": [[1, 2, 3], [4.5, 5.5, 6.5], [7, 8, 9]]}[spec["kind"]]
	cols = [list(c) for c in cols]
	with warnings.catch_warnings():
		warnings.simplefilter("ignore")
		if spec["how"] == "inferred":
			cols[spec["col"]][spec["row"]] = None
			t = Table({f"c{j}": c for j, c in enumerate(cols)})
		else:
			t = Table({f"c{j}": c for j, c in enumerate(cols)})
			call(t.__setitem__, (spec["row"], f"c{spec['col']}"), None)
		o = call(lambda: t.T)
	chk.judged("weak-point", ("transpose", spec["kind"], spec["how"], spec["col"], spec["row"]))
	if not o.ok or not isinstance(o.value, Table):
		chk.skip("transpose-unavailable")
		return
	for vec in o.value.cols():
		chk.observe(vec, "transpose")
	o2 = call(lambda: o.value.T)
	if o2.ok and isinstance(o2.value, Table):
		for vec in o2.value.cols():
			chk.observe(vec, "transpose-twice")


def run_rows(chk, spec):
	"""rows are vectors: read a row, write a cell that changes a column's nullability or kind, read rows again - the row, row.copy(), row[a:b] and
	row arithmetic must report a dtype that covers the cells"""
	import random
	from decimal import Decimal
	from fractions import Fraction
	rng = random.Random(spec["seed"])
	kind = spec["kind"]
	n, c = spec["n"], spec["c"]
	dom = common.ARITH_VALUES[kind]
	t = Table([Vector([rng.choice(dom) for _ in range(n)], name=f"c{j}") for j in range(c)])
	chk.judged("weak-point", ("rows", kind, n, c, tuple(spec["writes"])))

	def look(tag):
		for i in range(n):
			o = call(lambda: t[i])
			if not o.ok:
				continue
			r = o.value
			vals = list(r)
			msg = M.truthful(vals, r.schema())
			if msg:
				chk.fail("the reported dtype is truthful", f"truth/row/{tag}", f"{spec!r}: row {i} = {short(vals, 120)} reports {r.schema()!r} after {tag}: {msg}")
				return False
			for d in (call(r.copy), call(lambda: r[0:c]), call(lambda: r[::-1])):
				if d.ok:
					truth(chk, d.value if not isinstance(d.value, Row) else Vector(list(d.value), dtype=d.value.schema()), "row-derived-" + tag)
		for r in t:
			msg = M.truthful(list(r), r.schema())
			if msg:
				chk.fail("the reported dtype is truthful", f"truth/iterated-row/{tag}", f"{spec!r}: iterated row {list(r)!r} reports {r.schema()!r} after {tag}: {msg}")
				return False
		return True
	if not look("construction"):
		return
	held = [t[i] for i in range(n)]      # rows obtained before the writes and kept
	for wr in spec["writes"]:
		i, j = rng.randrange(n), rng.randrange(c)
		val = {"none": None, "wider": pool.wider(next((x for x in t.cols()[j]._underlying if x is not None), dom[0])), "same": rng.choice(dom), "str": "zz"}[wr]
		form = rng.choice(["item", "view", "attr"])
		if form == "item":
			call(t.__setitem__, (i, j), val)
		elif form == "view":
			call(lambda: t.cols()[j].__setitem__(i, val))
		else:
			call(lambda: getattr(t, f"c{j}").__setitem__(i, val))
		chk.observe(t, "row-table-after-" + wr)
		if not look("cell-write-" + wr):
			return
		# a row that was taken earlier shows either what it showed then or what the table holds now - and its dtype covers whatever it shows
		for r in held:
			vals = list(r)
			msg = M.truthful(vals, r.schema())
			if msg:
				chk.fail("the reported dtype is truthful", f"truth/held-row/cell-write-{wr}", f"{spec!r}: a row taken before the write now reads {short(vals, 120)} and reports {r.schema()!r}: {msg}")
				return
			for d in (call(r.copy), call(lambda: r[0:c]), call(r.sort_by) if all(isinstance(x, (int, float)) and x is not None for x in vals) else call(r.copy)):
				if d.ok and isinstance(d.value, Vector) and not isinstance(d.value, Row):
					truth(chk, d.value, "held-row-derived-" + wr)


def run_unusual(chk, spec):
	"""numeric kinds outside the bool-int-float-complex ladder (Decimal, Fraction) next to built-in numbers"""
	import random
	from decimal import Decimal
	from fractions import Fraction
	rng = random.Random(spec["seed"])
	U = {"Decimal": [Decimal("2.5"), Decimal("3"), Decimal("-1.25")], "Fraction": [Fraction(1, 3), Fraction(5, 2), Fraction(2)]}[spec["kind"]]
	B = [3, 2.5, True, 1j, 0]
	u, b = rng.choice(U), rng.choice(B)
	n = spec["n"]
	chk.judged("weak-point", ("unusual", spec["kind"], spec["what"], n))
	ops = {
		"ctor-unusual-first": lambda: Vector([u] * n + [b]),
		"ctor-builtin-first": lambda: Vector([b] + [u] * n),
		"ctor-with-none": lambda: Vector([u, None, b]),
		"lshift-scalar": lambda: Vector([u] * n) << b,
		"lshift-list": lambda: Vector([u] * n) << [b, None],
		"lshift-vector": lambda: Vector([u] * n) << Vector([b]),
		"add-builtin": lambda: Vector([u] * n) + (b if not isinstance(b, (float, complex)) or spec["kind"] == "Fraction" else 1),
		"radd-builtin": lambda: 1 + Vector([u] * n),
		"setitem-builtin": lambda: (lambda v: (v.__setitem__(0, b), v)[1])(Vector([u] * n)),
		"agg-sum-none-group": lambda: Table([Vector(["a"] * n + ["b"], name="k"), Vector([u] * n + [None], name="x")]).aggregate(over="k", sum_over="x", max_over="x", mean_over="x"),
		"win-sum-none-group": lambda: Table([Vector(["a"] * n + ["b"], name="k"), Vector([u] * n + [None], name="x")]).window(over="k", sum_over="x", min_over="x"),
		"table-column": lambda: Table({"x": [u] * n + [b]}),
		"fillna-builtin": lambda: Vector([u, None]).fillna(b),
		"sum-mean": lambda: Vector([Vector([u] * n).sum(), 0]),
		"neg-abs": lambda: (-Vector([u] * n), abs(Vector([u] * n))),
		"mul-scalar": lambda: Vector([u] * n) * 2,
	}
	o = call(ops[spec["what"]])
	if o.ok:
		chk.observe(o.value, "unusual-" + spec["what"])
	else:
		chk.counters["weak-point-raised"] += 1


UNUSUAL_OPS = ["ctor-unusual-first", "ctor-builtin-first", "ctor-with-none", "lshift-scalar", "lshift-list", "lshift-vector", "add-builtin", "radd-builtin", "setitem-builtin",
	"agg-sum-none-group", "win-sum-none-group", "table-column", "fillna-builtin", "sum-mean", "neg-abs", "mul-scalar"]


def run_history(chk, spec):
	m = pool.Machine(chk, spec["seed"], spec["nsteps"], spec.get("profile", "mixed"))
	m.run()


def _renamed(v):
	import warnings
	with warnings.catch_warnings():
		warnings.simplefilter("ignore")
		r = v.rename("b")
	return v if r is None else r


RUNNERS = {"transpose": run_transpose, "rows": run_rows, "unusual": run_unusual, "weak": run_weak, "assign": run_assign, "history": run_history, "recompute": recompute.runner("C03")}

WEAK_OPS = ["radd-scalar", "radd-list", "rsub-scalar", "rmul-scalar", "rtruediv", "rpow", "add-wider-scalar", "add-wider-vector", "neg", "pos", "abs", "invert",
	"lshift-wider", "lshift-none", "lshift-str", "lshift-list-mixed", "lshift-vector", "rlshift", "cast-str", "cast-float", "cast-int", "cast-bool", "cast-callable", "cast-date-from-iso", "cast-datetime-from-iso", "cast-date-of-dates", "cast-date-of-datetimes", "cast-datetime-of-dates", "promoted-date-plus-int", "promoted-date-plus-intvec", "promoted-date-minus-timedelta", "promoted-int-abs", "promoted-int-neg",
	"promoted-int-invert-free", "lshift-operand-widened-by-inference", "lshift-operand-bool-then-int", "lshift-operand-date-then-datetime", "lshift-nullable-operand", "table-lshift-table-widened", "huge-int-in-float", "huge-int-into-float", "huge-int-in-complex", "peek-non-string-names", "peek-args", "zero-plus-bool", "empty-typed-rshift-wider", "empty-typed-rshift-str", "empty-typed-rshift-none", "empty-typed-table-rshift", "empty-typed-lshift-wider", "each-row-to_object", "each-row-fillna-none", "each-row-fillna", "each-row-copy", "each-row-slice", "each-row-arith", "each-row-isna", "each-row-dropna", "date-plus-days-with-gap", "table-date-plus-days-with-gap", "int-plus-int-with-gap", "date-plus-days-then-more", "str-predicates-with-none", "datetime-subclass-only", "datetime-subclass-next-to-date", "datetime-subclass-written-into-date", "datetime-subclass-sorted-aggregated", "subclass-int-in-float", "subclass-int-in-complex", "subclass-date-in-datetime", "subclass-int-written-into-float", "subclass-int-next-to-wider-in-one-write", "bit-lshift-scalar", "bit-rshift-vector", "bit-lshift-bool", "list-matmul-table", "renamed-deprecated", "false-plus-bool", "sum-of-bool-vectors", "zero-plus-numeric-holding-bool", "new-empty", "new-empty-typesafe",
	"fillna-same", "fillna-wider", "fillna-none", "fillna-integral-wider", "lshift-vector-none", "lshift-vector-same", "and-int", "or-vector", "xor-list",
	"new-equal-narrower-first", "agg-stdev", "win-stdev", "dropna", "isna", "unique", "sort", "to_object", "T", "slice", "mask", "pluck", "new", "new-typesafe", "new-none-typesafe", "new-none", "isinstance",
	"compare", "matmul-table", "table-sum", "table-max", "table-mean"]


def setup(chk):
	pool.CENSUS.install()


def run(chk):
	recompute.add_cases(chk, "C03")
	rng = chk.rng
	chk.observers.append(truth)
	idx = 0
	for what in WEAK_OPS:
		for kind in ("bool", "int", "float", "complex", "str", "date", "datetime", "timedelta"):
			for none in ("none", "first", "last", "low"):
				for n in (1, 2, 4):
					idx += 1
					if not chk.mine(idx):
						continue
					if chk.quick() and (idx % 2) and n == 4:
						continue
					chk.case("weak", {"what": what, "kind": kind, "none": none, "n": n, "seed": rng.randrange(10**9)}, "weak-point")
	for kind in ("bool", "int", "float", "complex", "str", "date"):
		for form in ("slice", "idxlist", "idxvec", "mask", "int"):
			for nullable in (False, True):
				for specials in ([(0, "promote")], [(1, "promote")], [(2, "none")], [(0, "promote"), (1, "incompatible")], [(0, "promote"), (2, "str")], [(1, "none"), (2, "promote")],
					[(0, "none"), (1, "str")], [(0, "promote"), (1, "promote2")], [(2, "incompatible")], [(0, "narrower"), (1, "promote")], [(0, "bool")], [(1, "promote"), (0, "none")]):
					for rep in range(1 if chk.quick() else 3):
						idx += 1
						if not chk.mine(idx):
							continue
						chk.case("assign", {"kind": kind, "form": form, "nullable": nullable, "specials": specials, "n": rng.choice([3, 4, 5]), "m": 3, "seed": rng.randrange(10**9)}, "weak-assign")
	for kind in ("int", "float", "str", "int-float"):
		for how in ("inferred", "written"):
			for col in (0, 1, 2):
				for row in (0, 2):
					chk.case("transpose", {"kind": kind, "how": how, "col": col, "row": row}, "weak-transpose")
	for kind in ("bool", "int", "float", "date"):
		for form in ("slice", "idxlist", "idxvec", "mask"):
			for nullable in (False, True):
				for specials in ([(0, "promote"), (1, "promote"), (2, "promote")], [(0, "narrower"), (1, "narrower"), (2, "narrower")], [(0, "promote"), (1, "none"), (2, "promote")], [], [(0, "none"), (1, "none"), (2, "none")]):
					for how in ("vector", "tuple"):
						idx += 1
						if chk.mine(idx):
							chk.case("assign", {"kind": kind, "form": form, "nullable": nullable, "specials": specials, "n": rng.choice([3, 4]), "m": 3, "seed": rng.randrange(10**9), "as": how}, "weak-assign-typed-value")
	for kind in ("int", "float", "str", "date", "bool"):
		for writes in (["none"], ["wider"], ["same", "none"], ["none", "wider"], ["wider", "none", "same"], ["str"], ["same"]):
			for n, c in ((1, 2), (3, 2), (2, 3)):
				idx += 1
				if chk.mine(idx):
					chk.case("rows", {"kind": kind, "writes": writes, "n": n, "c": c, "seed": rng.randrange(10**9)}, "rows")
	for kind in ("Decimal", "Fraction"):
		for what in UNUSUAL_OPS:
			for n in (1, 2):
				idx += 1
				if chk.mine(idx):
					chk.case("unusual", {"kind": kind, "what": what, "n": n, "seed": rng.randrange(10**9)}, "unusual")
	# equal values of different kinds inside one batch (3 next to 3.0, 1 next to True): each one counts
	for kind in ("int", "float", "bool"):
		for form in ("slice", "idxlist", "idxvec", "mask"):
			for nullable in (False, True):
				for specials in ([(0, "int3"), (1, "float3")], [(0, "float3"), (1, "int3")], [(0, "int3"), (1, "complex3")], [(0, "int3"), (1, "int3"), (2, "float3")], [(0, "true"), (1, "int1")], [(0, "int1"), (1, "float1")],
						[(0, "true"), (1, "float1")], [(1, "int3"), (2, "complex3")]):
					idx += 1
					if chk.mine(idx):
						chk.case("assign", {"kind": kind, "form": form, "nullable": nullable, "specials": specials, "n": rng.choice([3, 4]), "m": 3, "seed": rng.randrange(10**9)}, "weak-assign-equal-values")
	for i in range(80 if chk.quick() else 300):
		chk.case("history", {"seed": rng.randrange(10**9), "nsteps": rng.choice([15, 30]) if chk.quick() else rng.choice([15, 30, 60]), "profile": rng.choice(["mixed", "tables"])}, "history")
	for other in ("C05", "C06", "C07", "C09", "C10", "C12", "C13", "C14", "C19"):
		chk.run_foreign(other)
