"""C17 - every column is reachable by exactly one advertised, valid accessor name."""
import itertools
import re

from ..bind import Vector, Table
from ..core import call, short
from .. import models as M
from . import pool

from . import recompute

RULE = ("tables are built so that the cell (row r, column i) holds the unique integer 100*i + r, so any read or write identifies the column it "
	"touched. For name lists of width 1-12 drawn from a 46-name dictionary (unicode, empty / None, public Vector/Table attribute names, accessor "
	"look-alikes such as a__1 / col3_ / cols / col__1, case variants, leading digits, every duplication pattern; all pairs and sampled triples "
	"exhaustively) and after every step of rename / replace / append histories (rename_column(s), rename through a live view, attribute "
	"replacement, >> ; with dir(t) and repr(t) placed before or after), the advertised names (dir(t) minus dir(Table()), and the dot row of repr "
	"when shown) must be identifiers, shadow no public attribute, be pairwise distinct, be exactly one per column, and resolve by getattr, by "
	"t[0, name] = x and by t[0].name to the column at their own position; t[stored name] is the first column so named; a uniquely named, "
	"non-reserved column's accessor equals the documented sanitisation; column_names() is never altered. distinct = (name classes, duplication "
	"pattern, width, history step kinds).")
ASSUMPTIONS = [
	"valid identifier = str.isidentifier() (keywords are reachable through getattr and are not flagged)",
	"the disambiguation scheme for repeated / reserved names is free as long as names are distinct and resolve by position",
	"sanitisation equality is judged only for names whose documented reading is unambiguous (no double underscore after substitution)",
	"non-string column names (1, True, 0, False, 0.0, 2.5, Fraction, Decimal) are judged in two-column tables only: dir(), getattr and the dot row of repr",
]
EXHAUSTIVE = {"flag": True, "scope": "all ordered pairs over the 46-name dictionary (triples and wider lists sampled); histories sampled"}
ANCHOR_FUNCS = ["naming:_sanitize_user_name", "table:Table._build_column_map", "table:Table.__getattr__", "table:Table.__dir__", "table:Table.__setitem__",
	"table:Row.__getattr__", "display:_compute_headers"]
REQUIRED_STRATA = {"recompute": 200, "early-probe": 100, "static": 1500, "history-step": 1000, "repr-dot-row": 200}

DICT = ["a", "b", "A", "Total $", "total", "x y", "x_y", "x  y", "1st", "007", "", None, "sum", "max", "cols", "T", "name", "copy", "schema", "shape", "join", "fillna",
	"a__1", "col3_", "col__1", "c1x", "col0_", "col1_", "_a", "a_", "__", "é", "Ünï cödé", "class", "a.b", "a-b", "a__b", "sort_by", "dtype", " a ", "a___1", "total _ 1", "rate_(_2)", "a____7", "x_ _2", "b__10_",
	"ma\u017fs", "mass", "\u017f", "\u0131d", "\u0130x", "id", "\u212a", "stra\u00dfe", "\ufb01n", "\u00aa", "release__1_0", "Build__2_1", "v__1_0", "a__1_0", "a__1e3", "x__0x1", "n__١", "None", "none", " NONE ", "2024__1", "7__1", "1__2", "1", "q", "c2024__1", "3__0"]      # letters whose case fold / compatibility form is ASCII: still "other characters"

_BASE = None
_PUBLIC = None


def base_dir():
	global _BASE, _PUBLIC
	if _BASE is None:
		_BASE = set(dir(Table())) | {"_repr_rows", "_precomputed_data"}
		_PUBLIC = {n for n in set(dir(Table)) | set(dir(Vector)) if not n.startswith("_")}
	return _BASE, _PUBLIC


def model_sanitise(name):
	"""documented rule; returns None when the statement leaves the result open"""
	if name is None:
		return ("unnamed",)
	s = re.sub(r"[^a-z0-9_]+", "_", name.lower())
	if "__" in s:
		return None
	s = s.strip("_")
	if s == "":
		return ("unnamed",)
	if s[0].isdigit():
		s = "c" + s
	return s


def build(names, nrows=2):
	cols = []
	for i, nm in enumerate(names):
		vals = [100 * i + r for r in range(nrows)]
		cols.append(Vector(vals, name=nm) if nm is not None else Vector(vals))
	return Table(cols)


def column_of_value(x):
	return x // 100 if isinstance(x, int) and not isinstance(x, bool) else None


def name_class(nm):
	_, public = base_dir()
	if nm is None or nm == "":
		return "unnamed"
	if nm.lower() in {p.lower() for p in public}:
		return "reserved"
	if re.fullmatch(r"col\d+_", nm) or re.search(r"__\d+_?$", nm):
		return "accessor-lookalike"
	if not nm.isascii():
		return "unicode"
	if nm[0].isdigit():
		return "leading-digit"
	if re.search(r"[^A-Za-z0-9_]", nm):
		return "punctuated"
	return "plain"


def check_table(chk, t, names, label, spec, do_write=True, do_repr=True):
	"""all accessor assertions on table t whose column i holds 100*i + r; names = expected stored names. True when everything held"""
	base, public = base_dir()
	ncols = len(names)
	cols = t.cols()
	stored = t.column_names()
	tag = label
	if stored != list(names):
		chk.fail("sanitisation and accessor operations never alter the stored names", f"accessor/stored-names-changed/{tag}", f"{spec!r}: column_names() {stored!r}, expected {list(names)!r}")
		return False
	d = call(dir, t)
	if not d.ok:
		chk.fail("dir(t) works", f"accessor/dir-raises/{type(d.exc).__name__}", f"{spec!r}: {d!r}")
		return False
	adv = [a for a in d.value if a not in base]
	for a in adv:
		if not isinstance(a, str) or not a.isidentifier():
			chk.fail("advertised accessor names are valid identifiers", f"accessor/not-an-identifier/{tag}", f"{spec!r}: advertised {a!r} for names {stored!r}")
			return False
	shadow = [a for a in d.value if a in public and a in _column_map_keys(t)]
	if shadow:
		chk.fail("accessor names never shadow a public Vector/Table attribute", f"accessor/shadows-public-attribute/{tag}", f"{spec!r}: {shadow!r} for names {stored!r}")
		return False
	if len(adv) != ncols:
		cls = "too-few" if len(adv) < ncols else "too-many"
		chk.fail("exactly one advertised accessor per column (pairwise distinct)", f"accessor/count/{cls}/{tag}", f"{spec!r}: {len(adv)} advertised {sorted(adv)!r} for {ncols} columns {stored!r}")
		return False
	# resolution by attribute access: a bijection onto positions
	pos_of = {}
	for a in adv:
		g = call(getattr, t, a)
		if not g.ok:
			chk.fail("each advertised name resolves by attribute access", f"accessor/advertised-name-unresolvable/{tag}/{type(g.exc).__name__}", f"{spec!r}: getattr(t, {a!r}) raised {g!r}; names {stored!r}")
			return False
		hits = [i for i, c in enumerate(cols) if c is g.value]
		if len(hits) != 1:
			chk.fail("each advertised name resolves to a column of the table", f"accessor/resolves-to-non-column/{tag}", f"{spec!r}: getattr(t, {a!r}) -> {short(g.value, 80)}; names {stored!r}")
			return False
		pos_of[a] = hits[0]
	if sorted(pos_of.values()) != list(range(ncols)):
		chk.fail("each column has its own advertised accessor", f"accessor/not-a-bijection/{tag}", f"{spec!r}: {pos_of!r} for names {stored!r}")
		return False
	nrows = len(t)
	for a, i in pos_of.items():
		# documented sanitisation for uniquely named, non-reserved columns
		nm = stored[i]
		ms = model_sanitise(nm)
		if ms is not None and ms != ("unnamed",) and isinstance(nm, str):
			others = [model_sanitise(o) for k, o in enumerate(stored) if k != i]
			if ms not in others and None not in others and name_class(nm) not in ("reserved", "accessor-lookalike") and ms not in {p.lower() for p in public} \
					and not re.fullmatch(r".+__\d+", ms):
				if a != ms:
					chk.fail("sanitisation follows the documented rules", f"accessor/sanitisation/{name_class(nm)}/{tag}", f"{spec!r}: column {i} named {nm!r} is advertised as {a!r}, documented rule gives {ms!r}")
					return False
		if ms == ("unnamed",) and a != f"col{i}_":
			chk.fail("unnamed columns are colN_", f"accessor/unnamed-not-colN/{tag}", f"{spec!r}: column {i} named {nm!r} is advertised as {a!r}")
			return False
		if nrows:
			# row attribute reads the same column
			r = call(lambda: getattr(t[0], a))
			if not r.ok or column_of_value(r.value) != i:
				chk.fail("t[0].name reads the column at the accessor's own position", f"accessor/row-attribute/{'raises' if not r.ok else 'wrong-column'}/{tag}", f"{spec!r}: t[0].{a} -> {r!r}, column {i} expected; names {stored!r}")
				return False
			if do_write:
				before = [list(c._underlying) for c in t.cols()]
				sentinel = 100 * i + 77
				w = call(t.__setitem__, (0, a), sentinel)
				after = [list(c._underlying) for c in t.cols()]
				changed = [k for k in range(ncols) if before[k] != after[k]]
				# restore
				if changed:
					for k in changed:
						call(t.cols()[k].__setitem__, 0, before[k][0])
				if not w.ok or changed != [i]:
					chk.fail("t[0, name] = x writes the column at the accessor's own position", f"accessor/item-assignment/{'raises' if not w.ok else 'wrong-column'}/{tag}",
						f"{spec!r}: t[0, {a!r}] = {sentinel} -> {w!r}, changed columns {changed}, expected [{i}]; names {stored!r}")
					return False
	# string indexing by stored name resolves to the first occurrence
	for i, nm in enumerate(stored):
		if isinstance(nm, str):
			g = call(lambda: t[nm])
			first = stored.index(nm)
			if not g.ok or g.value is not cols[first]:
				chk.fail("t[stored name] is the first column with that name", f"accessor/string-index/{'raises' if not g.ok else 'wrong-column'}/{tag}", f"{spec!r}: t[{nm!r}] -> {short(g, 80)}; first occurrence is column {first}; names {stored!r}")
				return False
			if nrows and nm != "":
				# the two-axis spelling with an integer row is the same string indexing
				g2 = call(lambda: t[nrows - 1, nm])
				if not g2.ok or column_of_value(g2.value) != first:
					chk.fail("t[i, stored name] reads the first column with that name", f"accessor/string-index-2d/{'raises' if not g2.ok else 'wrong-column'}/{tag}", f"{spec!r}: t[{nrows - 1}, {nm!r}] -> {g2!r}; first occurrence is column {first}; names {stored!r}")
					return False
	# ... also when several names are asked for at once: t[(name, other)] picks the first carrier of each stored name
	strs = [nm for nm in dict.fromkeys(stored) if isinstance(nm, str) and nm != ""]
	if nrows and len(strs) >= 1 and len(stored) != len(set(map(repr, stored))):
		rep = next((nm for nm in strs if stored.count(nm) > 1), None)
		if rep is not None:
			other = next((nm for nm in strs if nm != rep), rep)
			for key in ((rep, other), (other, rep)):
				g3 = call(lambda: t[key])
				if g3.ok and isinstance(g3.value, Table) and len(g3.value.cols()) == 2:
					got = [column_of_value(c._underlying[0]) for c in g3.value.cols()]
					exp = [stored.index(k) for k in key]
					if got != exp:
						chk.fail("string indexing by a stored name resolves to its first occurrence (in a selection of several names too)", f"accessor/string-index-tuple/wrong-column/{tag}", f"{spec!r}: t[{key!r}] holds columns {got}, first occurrences are {exp}; names {stored!r}")
						return False
	if t.column_names() != list(names):
		chk.fail("sanitisation and accessor operations never alter the stored names", f"accessor/stored-names-changed/{tag}", f"{spec!r}: {t.column_names()!r}")
		return False
	if do_repr:
		return check_repr_dots(chk, t, pos_of, label, spec)
	return True


def _column_map_keys(t):
	try:
		return set(t._build_column_map().keys())
	except Exception:
		return set()


def check_repr_dots(chk, t, pos_of, label, spec):
	r = call(repr, t)
	if not r.ok:
		chk.fail("repr works", f"accessor/repr-raises/{type(r.exc).__name__}", f"{spec!r}: {r!r}", prop="C20")
		return True
	lines = r.value.split("\n")
	ncols = len(t.cols())
	dot = None
	for ln in lines[:3]:
		toks = ln.split()
		if toks and all(tk.startswith(".") for tk in toks):
			dot = toks
			break
	if dot is None:
		return True
	chk.judged("repr-dot-row", ("dots", ncols > 10, label))
	shown = list(range(ncols)) if ncols <= 10 else list(range(5)) + [None] + list(range(ncols - 5, ncols))
	if len(dot) != len(shown):
		chk.counters["repr-dot-row-unparsed"] += 1
		return True
	for tk, i in zip(dot, shown):
		if i is None:
			continue
		a = tk[1:]
		if a not in pos_of or pos_of[a] != i:
			g = call(getattr, t, a)
			ok = g.ok and g.value is t.cols()[i]
			if not ok or a not in pos_of:
				chk.fail("the dot row of repr advertises the accessor that resolves to the column at its position", f"accessor/repr-dot-row/{'hidden-duplicate' if ncols > 10 else 'mismatch'}/{label}",
					f"{spec!r}: repr shows {tk!r} above column {i}; dir() advertises {[k for k, v in pos_of.items() if v == i]!r}; names {t.column_names()!r}")
				return False
	return True


def run_static(chk, spec):
	names = spec["names"]
	o = call(build, names, spec.get("nrows", 2))
	if not o.ok:
		chk.fail("a table can be built from any list of string / missing names", f"accessor/construction-raises/{type(o.exc).__name__}", f"{spec!r}: {o!r}")
		return
	t = o.value
	classes = tuple(sorted({name_class(n) for n in names}))
	dup = len(set(names)) < len(names)
	chk.judged("static", ("static", classes, dup, min(len(names), 11)))
	pre = spec.get("pre")
	if pre == "dir":
		call(dir, t)
	elif pre == "repr":
		call(repr, t)
	check_table(chk, t, names, "static", spec)


def run_history(chk, spec):
	import random
	rng = random.Random(spec["seed"])
	names = list(spec["names"])
	t = build(names)
	if not check_table(chk, t, names, "history-initial", spec):
		return
	trace = []
	for how, i_, new_ in spec.get("script", []):
		# scripted renames first (also to / from "no name"): the accessors follow at once
		if i_ >= len(names):
			continue
		if how == "view":
			o = call(setattr, t.cols()[i_], "name", new_)
		elif how == "view-after-dir":
			call(dir, t)
			o = call(setattr, t.cols()[i_], "name", new_)
		else:
			o = call(t.rename_column, names[i_], new_) if isinstance(names[i_], str) else None
		if o is not None and o.ok:
			names[i_] = new_
		if not check_table(chk, t, names, f"after-scripted-{how}", spec):
			return
	for step in range(spec["nsteps"]):
		op = rng.choice(["rename_column", "rename_columns", "view-rename", "attr-replace", "rshift", "dir", "repr", "view-rename-then-dir", "row-then-rename", "select",
			"view-rename-then-read", "alias-then-read", "rename-to-later-name", "rshift-own-column", "rename-then-access-under-warnings-as-errors"])
		ncols = len(names)
		i = rng.randrange(ncols)
		new = rng.choice(DICT)
		if new is None:
			new = "renamed"
		if op == "rename_column":
			if not isinstance(names[i], str):
				continue
			first = names.index(names[i])
			o = call(t.rename_column, names[first], new)
			if o.ok:
				names[first] = new
		elif op == "rename_columns":
			cand = [n for n in names if isinstance(n, str)]
			if not cand:
				continue
			old = rng.choice(cand)
			o = call(t.rename_columns, [old], [new])
			if o.ok:
				names[names.index(old)] = new
		elif op in ("view-rename", "view-rename-then-dir"):
			col = t.cols()[i]
			o = call(setattr, col, "name", new)
			if o.ok:
				names[i] = new
			if op == "view-rename-then-dir":
				call(dir, t)
		elif op in ("view-rename-then-read", "alias-then-read"):
			# a rename through the column vector, then ONE read-only table operation before anything else looks at the table
			col = t.cols()[i]
			o = call(setattr, col, "name", new) if op == "view-rename-then-read" else call(col.alias, new)
			if o.ok:
				names[i] = new
			rd = rng.choice(["peek", "peek-args", "shape", "len", "column_names", "T", "copy", "row", "iter", "fingerprint", "schema-list", "sort_by", "head-slice"])
			call({"peek": lambda: t.peek(), "peek-args": lambda: t.peek(2), "shape": lambda: t.shape, "len": lambda: len(t), "column_names": lambda: t.column_names(), "T": lambda: t.T, "copy": lambda: t.copy(),
				"row": lambda: t[0], "iter": lambda: [tuple(r) for r in t], "fingerprint": lambda: t.fingerprint(), "schema-list": lambda: [c.schema() for c in t.cols()], "sort_by": lambda: t.sort_by(t.cols()[0]),
				"head-slice": lambda: t[0:1]}[rd])
			op = f"{op}:{rd}"
		elif op == "rename-to-later-name":
			# an earlier column takes the (plain) name of a later one: the plain name now means the earlier column, for every lookup path, at once
			later = [j for j in range(i + 1, ncols) if isinstance(names[j], str) and isinstance(model_sanitise(names[j]), str) and name_class(names[j]) == "plain" and names.index(names[j]) == j
				and model_sanitise(names[j]) not in base_dir()[1] and [model_sanitise(x) for x in names].count(model_sanitise(names[j])) == 1]
			if not later:
				continue
			j = rng.choice(later)
			target_name = names[j]
			col = t.cols()[i]
			o = call(setattr, col, "name", target_name) if rng.random() < 0.6 else call(col.alias, target_name)
			if not o.ok:
				continue
			names[i] = target_name
			first = call(getattr, t, model_sanitise(target_name))
			chk.judged("history-step", ("hist", "rename-to-later-name-probe", min(ncols, 11), name_class(target_name)))
			if first.ok and first.value is not t.cols()[i]:
				where = next((k for k, c in enumerate(t.cols()) if c is first.value), None)
				chk.fail("a plain repeated name resolves to its first occurrence (attribute access right after the rename)", "accessor/repeated-name-resolves-to-later-column/first-access-after-rename/getattr",
					f"{spec!r}: column {i} renamed to {target_name!r} (also the name of column {j}); t.{model_sanitise(target_name)} is column {where}; trace {trace[-5:]}")
				return
		elif op == "rename-then-access-under-warnings-as-errors":
			# the process runs with warnings turned into errors: the first look at the table after a rename that creates a repeated name is rejected
			# (UserWarning) - afterwards, with the filter back to normal, everything is as after any rename
			import warnings
			col = t.cols()[i]
			target_name = rng.choice([nm for nm in names if isinstance(nm, str) and nm] or ["a"])
			o = call(setattr, col, "name", target_name)
			if not o.ok:
				continue
			names[i] = target_name
			with warnings.catch_warnings():
				warnings.simplefilter("error")
				call(rng.choice([lambda: dir(t), lambda: getattr(t, "no_such_attribute_xyz", None), lambda: t[0], lambda: repr(t), lambda: t.shape]))
		elif op == "rshift-own-column":
			# t >> {new name: one of t's own live columns}: t keeps its stored names
			if ncols >= 12 or new in ("",):
				continue
			o = call(lambda: t >> {new: t.cols()[i]})
			if t.column_names() != names:
				chk.fail("stored names are never altered by building another table", "accessor/stored-names-changed/rshift-own-column", f"{spec!r}: t >> {{{new!r}: t.cols()[{i}]}} changed t's names to {t.column_names()!r} (were {names!r})")
				return
		elif op == "row-then-rename":
			row = call(lambda: t[0])
			col = t.cols()[i]
			o = call(setattr, col, "name", new)
			if o.ok:
				names[i] = new
		elif op == "attr-replace":
			acc = pool.accessor_for(t, i)
			if acc is None:
				continue
			vals = [100 * i + r for r in range(len(t))]
			o = call(setattr, t, acc, Vector(vals, name="donor-name") if rng.random() < 0.5 else vals)
		elif op == "rshift":
			if ncols >= 12:
				continue
			vals = [100 * ncols + r for r in range(len(t))]
			how = rng.choice(["vector", "dict"])
			if how == "dict" and new in ("",):
				how = "vector"
			o = call(lambda: t >> (Vector(vals, name=new) if how == "vector" else {new: vals}))
			if o.ok and isinstance(o.value, Table):
				t = o.value
				names.append(new)
		elif op == "select":
			cand = [n for n in names if isinstance(n, str)]
			if not cand:
				continue
			continue
		elif op == "dir":
			o = call(dir, t)
		else:
			o = call(repr, t)
		trace.append(op)
		chk.judged("history-step", ("hist", op, min(ncols, 11), name_class(new)))
		if op in ("rename_column", "rename_columns", "view-rename", "row-then-rename") and o.ok and rng.random() < 0.7:
			if not early_probe(chk, t, names, rng, dict(spec, trace=trace[-6:])):
				return
		if not check_table(chk, t, names, f"after-{op}", dict(spec, trace=trace[-6:]), do_write=rng.random() < 0.7, do_repr=rng.random() < 0.5):
			return


def early_probe(chk, t, names, rng, spec):
	"""right after a rename, ONE access path is exercised first (before dir()/getattr could refresh a cached name map) with the accessor
	the documented rule predicts for a uniquely and plainly named column"""
	cands = []
	for i, nm in enumerate(names):
		ms = model_sanitise(nm)
		if isinstance(nm, str) and isinstance(ms, str) and name_class(nm) in ("plain", "punctuated", "unicode", "leading-digit") and not re.search(r"__\d+_?$", ms) \
				and [model_sanitise(o) for o in names].count(ms) == 1 and None not in [model_sanitise(o) for o in names] and ms not in base_dir()[1] and ms not in {p.lower() for p in base_dir()[1]}:
			cands.append((i, ms))
	if not cands or len(t) == 0:
		return True
	i, acc = rng.choice(cands)
	probe = rng.choice(["item-list", "item-tuple", "item-str", "row-attr", "repr-dots", "getattr", "item-slice-list", "setattr"])
	probe = spec.get("force_probe") or probe
	if spec.get("force_column") is not None and any(i == spec["force_column"] for i, _ in cands):
		i, acc = next(c for c in cands if c[0] == spec["force_column"])
	chk.judged("early-probe", ("early", probe))
	ncols = len(names)
	before = [list(c._underlying) for c in t.cols()]
	sentinel = 100 * i + 55
	def changed_cols():
		after = [list(c._underlying) for c in t.cols()]
		ch = [k for k in range(ncols) if before[k] != after[k]]
		for k in ch:
			call(t.cols()[k].__setitem__, slice(None), before[k])
		return ch
	if probe in ("item-list", "item-tuple", "item-str", "item-slice-list"):
		key = {"item-list": (0, [acc]), "item-tuple": (0, (acc,)), "item-str": (0, acc), "item-slice-list": (slice(0, 1), [acc])}[probe]
		val = {"item-list": [sentinel], "item-tuple": [sentinel], "item-str": sentinel, "item-slice-list": [[sentinel]]}[probe]
		w = call(t.__setitem__, key, val)
		ch = changed_cols()
		if not w.ok or ch != [i]:
			chk.fail("an advertised accessor works as a column key in table item assignment (right after a rename too)", f"accessor/item-assignment/{'raises' if not w.ok else 'wrong-column'}/first-access-after-rename/{probe}",
				f"{spec!r}: names {names!r}; t[{key!r}] = {val!r} -> {w!r}, changed columns {ch}, expected [{i}]")
			return False
	elif probe == "row-attr":
		r = call(lambda: getattr(t[0], acc))
		if not r.ok or column_of_value(r.value) != i:
			chk.fail("t[0].name reads the column at the accessor's own position (right after a rename too)", f"accessor/row-attribute/{'raises' if not r.ok else 'wrong-column'}/first-access-after-rename",
				f"{spec!r}: names {names!r}; t[0].{acc} -> {r!r}, column {i} expected")
			return False
	elif probe == "getattr":
		g = call(getattr, t, acc)
		if not g.ok or g.value is not t.cols()[i]:
			chk.fail("each accessor resolves by attribute access (right after a rename too)", f"accessor/advertised-name-unresolvable/first-access-after-rename/{'raises' if not g.ok else 'wrong-column'}",
				f"{spec!r}: names {names!r}; getattr(t, {acc!r}) -> {short(g, 80)}")
			return False
	elif probe == "setattr":
		vals = [100 * i + r for r in range(len(t))]
		w = call(setattr, t, acc, list(vals))
		ch = [k for k in range(ncols) if list(t.cols()[k]._underlying) != before[k]]
		if not w.ok or (ch and ch != [i]):
			chk.fail("attribute assignment through an accessor replaces the column at its position (right after a rename too)", f"accessor/attribute-assignment/{'raises' if not w.ok else 'wrong-column'}/first-access-after-rename",
				f"{spec!r}: names {names!r}; t.{acc} = [...] -> {w!r}, changed {ch}")
			return False
	else:
		rp = call(repr, t)
		if rp.ok:
			for ln in rp.value.split("\n")[:3]:
				toks = ln.split()
				if toks and all(tk.startswith(".") for tk in toks) and len(toks) == ncols and ncols <= 10:
					if toks[i][1:] != acc:
						chk.fail("the dot row of repr advertises the current accessor (right after a rename too)", "accessor/repr-dot-row/first-access-after-rename",
							f"{spec!r}: names {names!r}; repr shows {toks[i]!r} above column {i}, expected .{acc}")
						return False
	return True


def run_label_accessors(chk, spec):
	"""labels that are not strings: the advertised accessor is the sanitised text of THAT label, whatever labels were sanitised earlier in the process"""
	from fractions import Fraction
	from decimal import Decimal
	lab = {"1": 1, "True": True, "1.0": 1.0, "0": 0, "False": False, "0.0": 0.0, "2.5": 2.5, "Fraction(5, 2)": Fraction(5, 2), "3.0": 3.0, "Decimal(3)": Decimal(3), "2023": 2023}
	sp = {"1": "c1", "True": "true", "1.0": "c1_0", "0": "c0", "False": "false", "0.0": "c0_0", "2.5": "c2_5", "Fraction(5, 2)": "c5_2", "3.0": "c3_0", "Decimal(3)": "c3", "2023": "c2023"}
	for x in spec["sequence"]:
		t = Table([Vector([0, 1], name=lab[x]), Vector([100, 101], name="z")])
		chk.judged("static", ("label-accessor", x, tuple(spec["sequence"])))
		d = call(dir, t)
		base, public = base_dir()
		adv = [a for a in (d.value if d.ok else []) if a not in base]
		if sorted(adv) != sorted([sp[x], "z"]):
			chk.fail("sanitisation follows the documented rules", "accessor/sanitisation/non-string-label", f"{spec!r}: label {lab[x]!r} is advertised as {sorted(adv)!r}, documented rule gives {sp[x]!r}")
			return
		g = call(getattr, t, sp[x])
		if not g.ok or g.value is not t.cols()[0]:
			chk.fail("each advertised name resolves by attribute access to the column at its own position", "accessor/advertised-name-unresolvable/non-string-label", f"{spec!r}: t.{sp[x]} -> {g!r}")
			return
		# ... and the dot row of repr advertises that very name (one accessor per column, whichever way it is advertised)
		if not check_repr_dots(chk, t, {sp[x]: 0, "z": 1}, "non-string-label", spec):
			return


RUNNERS = {"static": run_static, "history": run_history, "label_accessors": run_label_accessors}
RUNNERS["recompute"] = recompute.runner("C17")

def run_fresh_process(chk, spec):
	"""what a table advertises does not depend on what the process did BEFORE its first table: in a fresh interpreter, after one unrelated first action
	(the repr of a named vector, vector arithmetic, nothing ...), columns named after public Table / Vector attributes still get accessors that shadow
	nothing and resolve to their column"""
	import json, os, subprocess, sys
	from .. import bind
	script = os.path.join(os.path.dirname(os.path.dirname(os.path.abspath(__file__))), "fresh_accessors.py")
	try:
		p = subprocess.run([sys.executable, script, bind.REPO_SRC, spec["first"]], capture_output=True, text=True, timeout=120, env=dict(os.environ, PYTHONDONTWRITEBYTECODE="1"))
	except subprocess.TimeoutExpired:
		chk.skip("fresh-process-timeout")
		return
	line = (p.stdout.strip().splitlines() or [""])[-1]
	try:
		out = json.loads(line)
	except Exception:
		chk.skip("fresh-process-no-report")
		chk.counters["fresh-process:no-report"] += 1
		return
	chk.judged("static", ("fresh-process", spec["first"], out.get("checked")))
	if out["problems"]:
		kind, a, cols = out["problems"][0]
		chk.fail("advertised accessor names never shadow a public Vector/Table method or property", f"accessor/fresh-process/{kind}/after-{spec['first']}",
			f"{spec!r}: in a fresh interpreter whose first action was {spec['first']!r}: {kind} {a!r} in a table with columns {cols!r} ({len(out['problems'])} problems)")


RUNNERS["fresh_process"] = run_fresh_process

def run_equal_label_rename(chk, spec):
	"""renaming a column to a label that compares EQUAL to its current one (1 -> True, 2 -> 2.0, 0 -> False) is a rename: the advertised accessor is the sanitised
	text of the NEW label, and it resolves to the column"""
	pairs = {"1->True": (1, True, "true"), "2->2.0": (2, 2.0, "c2_0"), "0->False": (0, False, "false"), "True->1": (True, 1, "c1"), "1.0->1": (1.0, 1, "c1"), "False->0.0": (False, 0.0, "c0_0")}
	old, new, acc = pairs[spec["pair"]]
	t = Table([Vector([0, 1], name=old), Vector([100, 101], name="z")])
	if spec["touch_first"]:
		call(dir, t)
	how = spec["how"]
	o = call({"rename_column": lambda: t.rename_column(old, new), "rename_columns": lambda: t.rename_columns([old], [new]), "view": lambda: setattr(t.cols()[0], "name", new)}[how])
	chk.judged("static", ("equal-label-rename", spec["pair"], how, spec["touch_first"]))
	if not o.ok:
		chk.skip("equal-label-rename-refused")
		return
	d = call(dir, t)
	base, public = base_dir()
	adv = sorted(a for a in (d.value if d.ok else []) if a not in base)
	if adv != sorted([acc, "z"]):
		chk.fail("sanitisation follows the documented rules (after every rename)", f"accessor/sanitisation/equal-label-rename/{how}", f"{spec!r}: after renaming {old!r} to {new!r} the table advertises {adv!r}, the rule gives {sorted([acc, 'z'])!r}")
		return
	g = call(getattr, t, acc)
	if not g.ok or g.value is not t.cols()[0]:
		chk.fail("each advertised name resolves to the column at its own position", f"accessor/advertised-name-unresolvable/equal-label-rename/{how}", f"{spec!r}: t.{acc} -> {g!r}")
		return
	w = call(t.__setitem__, (0, acc), 55)
	if not w.ok or t.cols()[0]._underlying[0] != 55:
		chk.fail("t[0, name] = x writes the column at the accessor's own position", f"accessor/item-assignment/equal-label-rename/{how}", f"{spec!r}: t[0, {acc!r}] = 55 -> {w!r}")


RUNNERS["equal_label_rename"] = run_equal_label_rename


def run_rename_then_first_access(chk, spec):
	"""every way of renaming, immediately followed by every ONE way of using an accessor - of the renamed column and of an untouched one - with nothing in between
	that could refresh a name map"""
	import random, warnings
	rng = random.Random(7)
	names = list(spec["names"])
	with warnings.catch_warnings():
		warnings.simplefilter("ignore")
		t = build(names, 2)
		if spec["touch_first"]:
			call(dir, t)
		how = spec["how"]
		j = spec["renamed"]
		new = "fresh name"
		if how == "rename_column":
			o = call(t.rename_column, names[j], new)
		elif how == "rename_columns":
			o = call(t.rename_columns, [names[j]], [new])
		elif how == "rename_columns-chained":
			o = call(t.rename_columns, [names[j]], ["step"])
			o = call(t.rename_columns, ["step"], [new])
		elif how == "rename_columns-two":
			other = (j + 1) % len(names)
			o = call(t.rename_columns, [names[j], names[other]], [new, names[other]])
		else:
			o = call(setattr, t.cols()[j], "name", new)
		if not o.ok:
			chk.skip("rename-refused")
			return
		names[j] = new
		inter = spec.get("interlude")
		if inter == "rshift-dict":
			call(lambda: t >> {"zz top": [0] * len(t)})              # builds ANOTHER table; this one is only read
		elif inter == "rshift-dict-colliding":
			call(lambda: t >> {names[(j + 1) % len(names)]: [0] * len(t)})
		elif inter == "rejected-rename_columns":
			class H(str):
				def lower(self):
					raise RuntimeError("no lower")
			other = (j + 1) % len(names)
			rj = call(t.rename_columns, [names[other]], [H("q")])
			if rj.ok:
				names[other] = "q"
		elif inter == "rejected-rename_column":
			rj = call(t.rename_column, "no such column", "w")
		early_probe(chk, t, names, rng, {"force_probe": spec["probe"], "force_column": spec["target"], **spec})


RUNNERS["rename_then_first_access"] = run_rename_then_first_access


def run_str_subclass_labels(chk, spec):
	"""a label that is an instance of a str subclass - also one whose __str__ / __repr__ / __format__ say something else than the text it holds (a str-mixin Enum member) - is the
	string it holds: the table advertises exactly what a table with the plain strings advertises, and every accessor resolves to its column"""
	import enum, warnings
	class Unit(str, enum.Enum):
		QTY = "qty"
		PRICE = "unit price"
		def __str__(self):
			return "Unit." + self.name
	class Loud(str):
		def __str__(self):
			return "LOUD " + str.__str__(self).upper() + "!"
		__repr__ = __str__
	class Plain(str):
		pass
	labels = {"enum": [Unit.QTY, Unit.PRICE, "n"], "enum-next-to-plain-twin": [Unit.QTY, "qty", "n"], "loud": [Loud("qty"), Loud("unit price"), "n"], "plain-subclass": [Plain("qty"), Plain("Unit Price"), "n"], "loud-next-to-twin": ["qty", Loud("qty"), "n"]}[spec["labels"]]
	with warnings.catch_warnings():
		warnings.simplefilter("ignore")
		def build(ls):
			return Table([Vector([100 * i + r for r in range(2)], name=l) for i, l in enumerate(ls)])
		live, ref = build(labels), build([str.__str__(l) for l in labels])
		if spec["via"] == "rename":
			live = build(["p", "q", "n"])
			call(live.rename_columns, ["p", "q"], list(labels[:2]))
		base = set(dir(Table(())))
		a, b = [n for n in dir(live) if n not in base], [n for n in dir(ref) if n not in base]
	chk.judged("static", ("str-subclass-labels", spec["labels"], spec["via"]))
	if a != b:
		chk.fail("sanitisation follows the documented rules and never alters the stored names", f"accessor/str-subclass-label/advertised-differently/{spec['labels']}", f"{spec!r}: advertised {a!r}; with plain strings {b!r}")
		return
	for acc in a:
		g, h = call(getattr, live, acc), call(getattr, ref, acc)
		if not g.ok or (h.ok and list(g.value._underlying) != list(h.value._underlying)):
			chk.fail("each accessor resolves by attribute access to the column at its own position", f"accessor/str-subclass-label/unresolvable/{spec['labels']}", f"{spec!r}: {acc!r} -> {short(g, 80)}")
			return


RUNNERS["str_subclass_labels"] = run_str_subclass_labels


def run(chk):
	recompute.add_cases(chk, "C17")
	rng = chk.rng
	idx = 0
	for nm in DICT:
		chk.case("static", {"names": [nm], "pre": None}, "static-single")
	for a, b in itertools.product(DICT, repeat=2):
		idx += 1
		if not chk.mine(idx):
			continue
		chk.case("static", {"names": [a, b], "pre": [None, "dir", "repr"][idx % 3]}, "static-pairs")
	ntri = 600 if chk.quick() else 4000
	for _ in range(ntri):
		k = rng.choice([3, 3, 4, 6, 9, 10, 11, 12])
		names = [rng.choice(DICT) for _ in range(k)]
		if rng.random() < 0.4:
			# force a duplicate whose first occurrence may be hidden behind the column ellipsis of repr
			i, j = rng.sample(range(k), 2)
			names[j] = names[i]
		chk.case("static", {"names": names, "pre": rng.choice([None, "dir", "repr"]), "nrows": rng.choice([1, 2, 3])}, "static-wide")
	import itertools as _it
	for seq in list(_it.permutations(["1", "True", "1.0"])) + list(_it.permutations(["0", "False", "0.0"])) + [("2.5", "Fraction(5, 2)"), ("Fraction(5, 2)", "2.5"), ("3.0", "Decimal(3)"), ("Decimal(3)", "3.0"), ("2023",)]:
		chk.case("label_accessors", {"sequence": list(seq)}, "label-accessors")
	for start, target in ((None, "None"), (None, "none"), (None, " NONE "), ("None", None), ("none", None), (None, "col0_"), ("col0_", None), (None, ""), ("", None), (None, "x"), ("x", None), ("", "none")):
		for how in ("view", "view-after-dir"):
			for names in ([start, "x"], ["y", start], [start], [start, start]):
				script = [(how, len(names) - 1 if names[0] == "y" else 0, target)]
				chk.case("history", {"names": names, "seed": rng.randrange(10**9), "nsteps": 2, "script": script}, "history-scripted")
	for pair in ("1->True", "2->2.0", "0->False", "True->1", "1.0->1", "False->0.0"):
		for how in ("rename_column", "rename_columns", "view"):
			for touch_first in (False, True):
				chk.case("equal_label_rename", {"pair": pair, "how": how, "touch_first": touch_first}, "equal-label-rename")
	for how in ("rename_column", "rename_columns", "rename_columns-chained", "rename_columns-two", "handle"):
		for probe in ("item-list", "item-tuple", "item-str", "row-attr", "repr-dots", "getattr", "item-slice-list", "setattr"):
			for names, renamed, target in ((["a", "b", "c"], 1, 1), (["a", "b", "c"], 1, 0), (["a", "b", "c"], 0, 2), (["x y", "b"], 0, 1), (["a", "b"], 1, 1)):
				for touch_first in (False, True):
					chk.case("rename_then_first_access", {"how": how, "probe": probe, "names": names, "renamed": renamed, "target": target, "touch_first": touch_first}, "rename-then-first-access")
					if how == "handle" and names == ["a", "b", "c"]:
						for inter in ("rshift-dict", "rshift-dict-colliding", "rejected-rename_columns", "rejected-rename_column"):
							chk.case("rename_then_first_access", {"how": how, "probe": probe, "names": names, "renamed": renamed, "target": target, "touch_first": touch_first, "interlude": inter}, "rename-then-first-access-interlude")
	for labels in ("enum", "enum-next-to-plain-twin", "loud", "plain-subclass", "loud-next-to-twin"):
		for via in ("ctor", "rename"):
			chk.case("str_subclass_labels", {"labels": labels, "via": via}, "str-subclass-labels")
	for first in ("nothing", "repr-named-vector", "repr-vector-named-like-a-method", "repr-unnamed-vector", "dir-vector", "vector-arithmetic", "repr-unnamed-table", "empty-table"):
		chk.case("fresh_process", {"first": first}, "fresh-process")
	for _ in range(420 if chk.quick() else 3000):
		k = rng.choice([1, 2, 3, 4, 6])
		names = [rng.choice(DICT) for _ in range(k)]
		chk.case("history", {"names": names, "seed": rng.randrange(10**9), "nsteps": rng.choice([4, 8]) if chk.quick() else rng.choice([4, 8, 16])}, "history")
