"""C16 - fingerprints track content: never stale, and they notice every change."""
import itertools

from ..bind import Vector, Table
from ..core import call, short
from .. import models as M
from .. import values as V
from . import pool

P = (1 << 61) - 1
from . import recompute

RULE = ("[plus the shared recompute-after-history monitor: this property's operations evaluated on long-lived objects between in-place writes / renames must equal the same operations on fresh objects rebuilt from the current contents] "
	"(a) directed: for vectors of every dtype and tables containing them, every write path (element, slice, mask, index-list / index-vector "
	"assignment, promotion by a wider value, None, table cell / row / column / region assignment, attribute assignment, writes through a live column "
	"view, rename) x 'fingerprint() called before?' x object kind is executed; after each write fingerprint() must equal the fingerprint of an "
	"object rebuilt from the current plain values (freshness), a single-position write old->new with old != new and hash(old) != hash(new) mod "
	"2^61-1 must change the fingerprint of the vector and of every table containing it (sensitivity), swapping two hash-distinct elements must "
	"change it, and read-only operations (repr, dir, iteration, arithmetic, comparison, indexing, sort, copy, joins) must not; (b) freshness is "
	"evaluated on every pooled vector and table after every step of the object-pool histories. distinct = (write path, cached before?, object "
	"kind, dtype) and (operation, sub-form, pool size class).")
ASSUMPTIONS = [
	"pairs whose hashes agree modulo 2^61-1 (e.g. -1 and -2) are exempt from sensitivity: a 61-bit polynomial fingerprint cannot separate them",
	"multi-position writes are judged for freshness only; pairs with None on one side rely on a 2^-61 coincidence not occurring",
	"the freshness oracle is the library's own fingerprint() on a rebuilt object",
]
EXHAUSTIVE = {"flag": True, "scope": "write path x cached-before x object kind x dtype matrix (values sampled); histories are sampled"}
ANCHOR_FUNCS = ["vector:Vector.fingerprint", "table:Table.fingerprint", "vector:Vector.__setitem__", "table:Table.__setitem__"]
REQUIRED_STRATA = {"derived": 200, "recompute": 200, "write-path": 400, "sensitivity": 200, "read-only": 100, "steps": 2000}

PATHS = ["slice-vector", "slice-rev-vector", "slice-rev-vector-cached", "reject-after-promote-slice", "reject-after-promote-idx", "reject-after-promote-mask", "promote-equal", "elem", "elem-neg", "slice-seq", "slice-scalar", "mask-list", "mask-vector", "idx-list", "idx-vector", "promote", "none", "rename"]
TPATHS = ["view-promote-equal", "view-elem", "view-slice", "cell", "cell-by-name", "row", "column", "region-list", "region-table", "attr-list", "attr-vector", "view-promote", "rename_column"]
DOM = {
	"int": [0, 1, 2, 3, 5, 7, -1, -2, 2**61 - 1, 2**61],
	"float": [0.0, 0.5, 1.5, -2.0, 3.0, -0.0, 1e10],
	"str": ["a", "b", "", "ab", "é"],
	"weakhash-strings": ["plumless", "buckeroo", "codding", "gnu", "Aa", "BB", "AaAa", "BBBB", "AaBB", "ab", "ba", "abc", "cba"],      # pairs that collide under CRC-32 / the Java string hash / order-blind sums
	"bool": [True, False],
	"date": [V.D0, V.date(2021, 2, 28), V.date(1999, 12, 31)],
	"nanfloat": [float("nan"), 0.0, -0.0, 1.5, float("inf"), -2.5],
	"object": [1, "a", 2.5, (1, 2), b"x", V.Plain(3)],
	"regroup": [(1, (2, 3)), ((1, 2), 3), (1, 2, 3), ((1,), 2, 3), (1, 2, (3,)), ((1, 2, 3),)],      # the same leaves in the same order, grouped differently
	"sets": [{1, 2}, {2, 1}, {3}, frozenset({1, 5}), {"a", 1}, {(1, 2), (2, 1)}],      # freshness only (sets are unhashable: no sensitivity demand)
	"dicts": [{"a": 1, "b": 2}, {"b": 2, "a": 1}, {"a": 1, "b": 3}, {}, {"a": [1, 2]}, {1: "x", "y": None}],      # freshness against an equal dict built in another order
	"setsum": [{1, 2}, {0, 3}, {1, 4}, {2, 3}, {0, 5}],      # sets of one size whose member hashes have one sum
	"lookalike": [[1, 2], (1, 2), {1, 2}, [1], (1,), {1}, [], (), [2, 1], (2, 1), {frozenset({0}), frozenset({14})}, [(1, 2)], ([1, 2],)],   # a list is not the tuple / set of its items
	"empty-containers": [(), 1, [], 2, True, 1.0, 0, (0,), ((), "b"), (1, "b"), ("a", []), ("a", 2), [()], [1], 2.0],      # an empty tuple / list is not the number its bare seed happens to be
	"bigint": [2**53 + 1, 2**60 + 3, 7, -(2**55) - 1, 2**61 + 1, 2**53 + 3],      # ints no float holds exactly (a promotion rounds them)
	"nested": [[1, 2], [1], (3, [4]), {"k": 1}, [1, 2], (3.0, float("nan")), [float("nan")], (1, (2.5, float("nan")))],
}


def _hkey(x):
	"""what Python's hash() can see of a value, also inside containers that are themselves unhashable (None when that is not determined)"""
	if isinstance(x, float) and x != x:
		return ("nan",)
	if isinstance(x, (set, frozenset)):
		ks = [_hkey(e) for e in x]
		return None if any(k is None for k in ks) else ("set", tuple(sorted(map(repr, ks))))
	if isinstance(x, (list, tuple)):
		ks = [_hkey(e) for e in x]
		return None if any(k is None for k in ks) else ("tuple" if isinstance(x, tuple) else "list", len(x), tuple(ks))
	if isinstance(x, Vector):
		return None
	if isinstance(x, dict):
		ks = [(_hkey(k), _hkey(v)) for k, v in x.items()]
		return None if any(a is None or b is None for a, b in ks) else ("dict", tuple(sorted(map(repr, ks))))
	try:
		return ("h", hash(x) % P)
	except Exception:
		return None


def hdistinct(a, b):
	"""True when a fingerprint must tell a from b (values unequal and hashes differ modulo the fingerprint prime; for containers: what hash() sees of
	their members differs)"""
	if a is None or b is None:
		return a is not b
	try:
		if a == b:
			return False
	except Exception:
		return False
	try:
		return (hash(a) - hash(b)) % P != 0
	except Exception:
		pass
	if type(a) is not type(b) and not (isinstance(a, (list, tuple, set)) and isinstance(b, (list, tuple, set))):
		return False
	ka, kb = _hkey(a), _hkey(b)
	return ka is not None and kb is not None and ka != kb


def fp(x):
	return call(x.fingerprint)


def fresh_fp(x):
	return call(lambda: pool.rebuild(x).fingerprint())


def judge_fresh(chk, x, label, spec):
	a, b = fp(x), fresh_fp(x)
	if not a.ok or not b.ok:
		chk.fail("fingerprint() works on every vector and table", f"fingerprint/raises/{label}", f"{spec!r}: {a!r} / {b!r}")
		return False
	if a.value != b.value:
		chk.fail("fingerprint() equals the fingerprint of a freshly built object with the same contents", f"fingerprint/stale/{label}",
			f"{spec!r}: fingerprint {a.value} but a rebuilt object gives {b.value}; contents {short(M.snap_any(x), 200)}")
		return False
	return True


def run_vector_path(chk, spec):
	import random
	rng = random.Random(spec["seed"])
	kind, path, cached, n = spec["kind"], spec["path"], spec["cached"], spec["n"]
	dom = DOM[kind]
	vals = [rng.choice(dom) for _ in range(n)]
	if spec.get("nullable") and n:
		vals[rng.randrange(n)] = None
	v = Vector(list(vals), name="v")
	f0 = fp(v).value if cached else None
	i = rng.randrange(n)
	new = rng.choice(dom)
	single = None
	if spec.get("warnings_error"):
		# the program runs with warnings turned into errors: a write that warns fails - wherever in the write the warning is issued, the fingerprint
		# afterwards is that of what the vector then holds
		import warnings
		with warnings.catch_warnings():
			warnings.simplefilter("error")
			return _vector_path_body(chk, dict(spec, warnings_error=False), rng, v, vals, f0, i, new)
	return _vector_path_body(chk, spec, rng, v, vals, f0, i, new)


def _vector_path_body(chk, spec, rng, v, vals, f0, i, new):
	kind, path, cached, n = spec["kind"], spec["path"], spec["cached"], spec["n"]
	dom = DOM[kind]
	single = None
	if path == "elem":
		o = call(lambda: v.__setitem__(i, new)); single = (i, new)
	elif path == "elem-neg":
		o = call(lambda: v.__setitem__(i - n, new)); single = (i, new)
	elif path == "slice-seq":
		news = [rng.choice(dom) for _ in range(n)]
		o = call(lambda: v.__setitem__(slice(None), news))
	elif path in ("slice-vector", "slice-rev-vector", "slice-rev-vector-cached"):
		# the value is a Vector (possibly with its own fingerprint cached), written through a slice that addresses every position - forwards or backwards
		news = [rng.choice(dom) for _ in range(n)]
		src = Vector(list(news))
		if src.schema() is None or v.schema() is None or isinstance(src, Table):
			chk.skip("slice-vector-not-applicable")
			return
		if path.endswith("cached") or rng.random() < 0.5:
			fp(src)
		key = slice(None) if path == "slice-vector" else rng.choice([slice(None, None, -1), slice(-1, None, -1), slice(n - 1, None, -1)])
		o = call(lambda: v.__setitem__(key, src))
	elif path == "slice-scalar":
		o = call(lambda: v.__setitem__(slice(i, i + 1), new)); single = (i, new)
	elif path == "mask-list":
		bits = [k == i for k in range(n)]
		o = call(lambda: v.__setitem__(bits, new)); single = (i, new)
	elif path == "mask-vector":
		bits = [k == i for k in range(n)]
		o = call(lambda: v.__setitem__(Vector(bits), [new])); single = (i, new)
	elif path == "idx-list":
		o = call(lambda: v.__setitem__([i], [new])); single = (i, new)
	elif path == "idx-vector":
		o = call(lambda: v.__setitem__(Vector([i]), new)); single = (i, new)
	elif path.startswith("reject-after-promote"):
		# a batch whose first value needs a promotion and whose second value is rejected: the write fails as a whole
		if n < 2 or all(x is None for x in vals):
			chk.skip("reject-after-promote-needs-two")
			return
		wide = pool.wider(next(x for x in vals if x is not None))
		bad = V.Plain(9) if kind != "object" else None
		if bad is None or wide is None or kind in ("nested", "regroup", "object", "nanfloat"):
			chk.skip("reject-after-promote-not-applicable")
			return
		news = [wide, bad]
		if path.endswith("slice"):
			o = call(lambda: v.__setitem__(slice(0, 2), news))
		elif path.endswith("idx"):
			o = call(lambda: v.__setitem__([n - 1, 0], news))
		else:
			o = call(lambda: v.__setitem__([k < 2 for k in range(n)], news))
		if o.ok:
			chk.skip("reject-after-promote-was-accepted")
			return
	elif path == "promote-equal":
		# a wider-kind value that denotes the stored element itself (midnight of the stored day, 3.0 for 3 ...): the column promotes, nothing else changes
		old = vals[i]
		if old is None:
			chk.skip("promote-equal-on-none")
			return
		new = V.datetime(old.year, old.month, old.day) if isinstance(old, V.date) and not isinstance(old, V.datetime) else (float(old) if isinstance(old, int) and not isinstance(old, bool) and abs(old) < 2**53 else (complex(old) if isinstance(old, float) else None))
		if new is None:
			chk.skip("promote-equal-not-applicable")
			return
		o = call(lambda: v.__setitem__(i, new)); single = None
	elif path == "promote":
		new = pool.wider(next((x for x in vals if x is not None), 1))
		o = call(lambda: v.__setitem__(i, new)); single = (i, new)
	elif path.startswith("nothing-addressed"):
		# a key that addresses no cell, with a value of a WIDER kind (or None): whatever the write does to the vector - promote it, flag it nullable, nothing - the
		# fingerprint afterwards is that of what it holds
		new = None if path.endswith("none") else pool.wider(next((x for x in vals if x is not None), 1))
		how = path.split("/")[1]
		key = {"mask": [False] * n, "mask-vector": Vector([False] * n), "index-list": [], "slice": slice(0, 0), "index-tuple": ()}[how]
		val = new if how in ("mask", "mask-vector") else ([] if how != "slice" else [])
		o = call(lambda: v.__setitem__(key, val)); single = None
	elif path == "none":
		o = call(lambda: v.__setitem__(i, None)); single = (i, None)
	else:
		o = call(lambda: setattr(v, "name", "renamed"))
	chk.judged("write-path", ("vpath", path, cached, kind, bool(spec.get("nullable")), bool(spec.get("under_error_filter"))))
	if not o.ok:
		chk.skip("write-refused")
		# a refused write must leave the fingerprint as it was
		if cached and fp(v).value != f0 and M.same_list(list(v._underlying), vals):
			chk.fail("a failed write does not change the fingerprint", f"fingerprint/changed-by-failed-write/{path}", f"{spec!r}")
			return
		# whatever the failed write left behind, the fingerprint is that of the current contents
		judge_fresh(chk, v, f"vector/{'cached-before' if cached else 'not-cached-before'}/after-failed-{path}", spec)
		return
	if not judge_fresh(chk, v, f"vector/{'cached-before' if cached else 'not-cached-before'}/{path}", spec):
		return
	if single is not None and cached:
		old = vals[single[0]]
		cur = v._underlying[single[0]]
		if hdistinct(old, cur):
			chk.judged("sensitivity", ("vsens", path, kind))
			if fp(v).value == f0:
				chk.fail("a write that changes an element to an unequal value changes the fingerprint", f"fingerprint/insensitive/vector/{path}",
					f"{spec!r}: element {single[0]} {old!r} -> {cur!r} but fingerprint stayed {f0}")
	if path == "rename" and cached and fp(v).value != f0:
		chk.counters["fingerprint-depends-on-name"] += 1


def run_table_path(chk, spec):
	import random
	rng = random.Random(spec["seed"])
	path, cached, n = spec["path"], spec["cached"], spec["n"]
	kinds = spec["kinds"]
	cols = [[rng.choice(DOM[k]) for _ in range(n)] for k in kinds]
	names = ["a", "b", "c"][:len(kinds)]
	t = Table([Vector(list(c), name=nm) for c, nm in zip(cols, names)])
	other = Table([Vector(list(cols[0]), name="z")])     # a bystander table with equal data: must keep its fingerprint
	views_first = spec.get("view_first")
	col0 = t.cols()[0] if views_first else None
	f0 = fp(t).value if cached else None
	c0f = fp(t.cols()[0]).value if cached else None
	fo = fp(other).value
	i = rng.randrange(n)
	dom = DOM[kinds[0]]
	new = rng.choice(dom)
	single = None
	if path == "view-elem":
		c = col0 if col0 is not None else t.cols()[0]
		o = call(lambda: c.__setitem__(i, new)); single = (0, i)
	elif path == "view-slice":
		c = col0 if col0 is not None else t["a"]
		news = [rng.choice(dom) for _ in range(n)]
		o = call(lambda: c.__setitem__(slice(None), news))
	elif path == "view-promote-equal":
		c = col0 if col0 is not None else t.cols()[0]
		old = cols[0][i]
		new = V.datetime(old.year, old.month, old.day) if isinstance(old, V.date) else (float(old) if isinstance(old, int) and not isinstance(old, bool) and abs(old) < 2**53 else None)
		if new is None:
			chk.skip("promote-equal-not-applicable")
			return
		o = call(lambda: c.__setitem__(i, new))
	elif path == "view-promote":
		c = col0 if col0 is not None else t.a
		o = call(lambda: c.__setitem__(i, pool.wider(cols[0][0]))); single = (0, i)
	elif path == "cell":
		o = call(lambda: t.__setitem__((i, 0), new)); single = (0, i)
	elif path == "cell-by-name":
		o = call(lambda: t.__setitem__((i, "a"), new)); single = (0, i)
	elif path == "row":
		vals = [rng.choice(DOM[k]) for k in kinds]
		o = call(lambda: t.__setitem__(i, vals))
	elif path == "column":
		news = [rng.choice(dom) for _ in range(n)]
		o = call(lambda: t.__setitem__((slice(None), "a"), news))
	elif path == "region-list":
		o = call(lambda: t.__setitem__((slice(i, i + 1), slice(0, 1)), [[new]])); single = (0, i)
	elif path == "region-table":
		o = call(lambda: t.__setitem__((slice(i, i + 1), slice(0, 1)), Table([Vector([new])]))); single = (0, i)
	elif path == "attr-list":
		news = [rng.choice(dom) for _ in range(n)]
		o = call(lambda: setattr(t, "a", news))
	elif path == "attr-vector":
		news = [rng.choice(dom) for _ in range(n)]
		o = call(lambda: setattr(t, "a", Vector(news, name="donor")))
	else:
		o = call(lambda: t.rename_column("a", "renamed"))
	chk.judged("write-path", ("tpath", path, cached, tuple(kinds), bool(views_first)))
	if not o.ok:
		chk.skip("write-refused")
		return
	label = f"table/{'cached-before' if cached else 'not-cached-before'}/{path}"
	if not judge_fresh(chk, t, label, spec):
		return
	for c in t.cols():
		if not judge_fresh(chk, c, label + "/column", spec):
			return
	if fp(other).value != fo:
		chk.fail("a write changes only the fingerprint of the written object", f"fingerprint/bystander-changed/{path}", f"{spec!r}")
	newcol0 = list(t.cols()[0]._underlying)
	changed = [k for k in range(n) if hdistinct(cols[0][k], newcol0[k])]
	if cached and path != "rename_column" and len(changed) == 1 and all(M.same(cols[0][k], newcol0[k]) or k in changed for k in range(n)) \
			and all(M.same_list(c, list(tc._underlying)) for c, tc in zip(cols[1:], t.cols()[1:])):
		chk.judged("sensitivity", ("tsens", path, tuple(kinds)))
		if fp(t).value == f0:
			chk.fail("a write that changes an element changes the fingerprint of every table containing it", f"fingerprint/insensitive/table/{path}",
				f"{spec!r}: cell ({changed[0]}, 0) {cols[0][changed[0]]!r} -> {newcol0[changed[0]]!r} but the table fingerprint stayed {f0}")


def run_swap(chk, spec):
	import random
	rng = random.Random(spec["seed"])
	vals = list(spec["values"])
	i, j = spec["i"], spec["j"]
	v = Vector(list(vals))
	w = list(vals)
	w[i], w[j] = w[j], w[i]
	a = fp(v)
	if spec["via"] == "write":
		call(lambda: v.__setitem__([i, j], [vals[j], vals[i]]))
		b = fp(v)
	else:
		b = fp(Vector(w))
	chk.judged("sensitivity", ("swap", spec["kind"], spec["via"]))
	if a.ok and b.ok and hdistinct(vals[i], vals[j]) and a.value == b.value:
		chk.fail("element order matters to the fingerprint", f"fingerprint/insensitive/swap/{spec['via']}", f"{spec!r}: swapping positions {i} and {j} kept the fingerprint {a.value}")
	t1 = Table([Vector(list(vals), name="a"), Vector(list(w), name="b")])
	t2 = Table([Vector(list(w), name="a"), Vector(list(vals), name="b")])
	f1, f2 = fp(t1), fp(t2)
	if f1.ok and f2.ok and hdistinct(vals[i], vals[j]) and f1.value == f2.value:
		chk.fail("column order matters to a table's fingerprint", "fingerprint/insensitive/column-swap", f"{spec!r}")


def run_readonly(chk, spec):
	import random
	rng = random.Random(spec["seed"])
	kind = spec["kind"]
	vals = [rng.choice(DOM[kind]) for _ in range(spec["n"])]
	if spec.get("with_none") and len(vals) > 1 and kind in ("int", "float", "str", "date", "bool"):
		vals[rng.randrange(len(vals))] = None
		if all(e is None for e in vals):
			vals[0] = DOM[kind][0]
	v = Vector(list(vals), name="v")
	t = Table([Vector(list(vals), name="a"), Vector(list(vals), name="b")])
	for x, label in ((v, "vector"), (t, "table")):
		f0 = fp(x).value
		ops = [lambda: repr(x), lambda: dir(x), lambda: [r for r in x], lambda: x + x, lambda: x == x, lambda: x[0], lambda: x[0:1], lambda: x.copy(),
			lambda: len(x), lambda: x.T, lambda: x.fingerprint()]
		if label == "vector":
			ops += [lambda: x.sort_by(), lambda: x.isna(), lambda: x.sum(), lambda: x * 2, lambda: x.fillna(dom0(kind)), lambda: x.unique(),
				lambda: x.fillna(pool.wider(next((e for e in vals if e is not None), 1))), lambda: x.cast(str), lambda: x.to_object(), lambda: x << [pool.wider(next((e for e in vals if e is not None), 1))], lambda: x.dropna(), lambda: x == x.copy()]
		else:
			ops += [lambda: x.sort_by("a"), lambda: x.join(x, "a", "a", expect="many_to_many"), lambda: x.aggregate(over="a", count_over="b"), lambda: x["a", "b"], lambda: x.a, lambda: x >> {"n": list(vals)}]
		for k, f in enumerate(ops):
			call(f)
			chk.judged("read-only", ("ro", label, k))
			if fp(x).value != f0:
				chk.fail("read-only operations never change the fingerprint", f"fingerprint/changed-by-read-only/{label}/op{k}", f"{spec!r}: operation #{k} changed the fingerprint of the {label}")
				return
			if not judge_fresh(chk, x, f"after-read-only/{label}/op{k}", spec):      # (and it is still the fingerprint of what the object holds)
				return


def run_derived(chk, spec):
	"""objects DERIVED from one whose fingerprint is cached (slices of every direction, masks, copies, sorts, transposes, row slices, column
	selections): their fingerprint is that of their own contents, and element order matters"""
	import random
	rng = random.Random(spec["seed"])
	kind, n = spec["kind"], spec["n"]
	vals = [rng.choice(DOM[kind]) for _ in range(n)]
	if len(set(map(repr, vals))) == 1 and n > 1:
		vals[0] = next((x for x in DOM[kind] if repr(x) != repr(vals[0])), vals[0])
	v = Vector(list(vals), name="v")
	t = Table([Vector(list(vals), name="a"), Vector(list(reversed(vals)), name="b")])
	if spec["cached"]:
		fp(v), fp(t)
	derivs = {
		"v[::-1]": lambda: v[::-1], "v[-1::-1]": lambda: v[-1::-1], "v[:]": lambda: v[:], "v[0:n]": lambda: v[0:n], "v[1:]": lambda: v[1:], "v[::2]": lambda: v[::2],
		"v[mask-all]": lambda: v[[True] * n], "v[mask-vector]": lambda: v[Vector([True] * n)], "v.copy()": lambda: v.copy(), "v.T": lambda: v.T,
		"v<<[]": lambda: v << [], "t[::-1]": lambda: t[::-1], "t[:]": lambda: t[:], "t[0:n]": lambda: t[0:n], "t[mask-all]": lambda: t[[True] * n], "t.copy()": lambda: t.copy(),
		"t['b','a']": lambda: t["b", "a"], "t['a','b']": lambda: t["a", "b"], "t.T.T": lambda: t.T.T, "t.a": lambda: t.a, "t.cols()[1]": lambda: t.cols()[1], "t[::-1].a": lambda: t[::-1].a,
	}
	if kind in ("int", "float", "str", "bool", "date"):
		derivs["v.sort_by()"] = lambda: v.sort_by()
		derivs["v.sort_by(reverse)"] = lambda: v.sort_by(reverse=True)
		derivs["t.sort_by(b)"] = lambda: t.sort_by("b")
	name = spec["deriv"]
	if name not in derivs:
		chk.skip("derived-not-applicable")
		return
	o = call(derivs[name])
	chk.judged("derived", ("derived", name, spec["cached"], kind))
	if not o.ok or not isinstance(o.value, Vector):
		chk.skip("derived-raised")
		return
	d = o.value
	if not judge_fresh(chk, d, f"derived/{'cached-before' if spec['cached'] else 'not-cached-before'}/{name}", spec):
		return
	# a reversed selection of hash-distinct elements must not report the source's fingerprint
	if name in ("v[::-1]", "v[-1::-1]") and n > 1 and any(hdistinct(a, b) for a, b in zip(vals, reversed(vals))):
		if fp(d).value == fp(v).value and list(map(repr, vals)) != list(map(repr, reversed(vals))):
			chk.fail("element order matters", f"fingerprint/order-insensitive/{name}", f"{spec!r}: {vals!r} and its reverse have the same fingerprint")


DERIVS = ["v[::-1]", "v[-1::-1]", "v[:]", "v[0:n]", "v[1:]", "v[::2]", "v[mask-all]", "v[mask-vector]", "v.copy()", "v.T", "v<<[]", "t[::-1]", "t[:]", "t[0:n]", "t[mask-all]", "t.copy()",
	"t['b','a']", "t['a','b']", "t.T.T", "t.a", "t.cols()[1]", "t[::-1].a", "v.sort_by()", "v.sort_by(reverse)", "t.sort_by(b)"]


def dom0(kind):
	return DOM[kind][0]


def run_history(chk, spec):
	m = pool.Machine(chk, spec["seed"], spec["nsteps"], spec.get("profile", "mixed"))
	m.run()


RUNNERS = {"vector_path": run_vector_path, "table_path": run_table_path, "swap": run_swap, "readonly": run_readonly, "history": run_history}
RUNNERS["recompute"] = recompute.runner("C16")
RUNNERS["derived"] = run_derived


def run_nested(chk, spec):
	"""a vector whose elements are vectors of unequal length (not a table): a write into an inner vector is a write to the outer one's contents"""
	import random
	import warnings
	rng = random.Random(spec["seed"])
	inner = [[rng.choice([1, 2, 3, 5]) for _ in range(k)] for k in spec["lens"]]
	with warnings.catch_warnings():
		warnings.simplefilter("ignore")
		if spec.get("becomes_nested"):
			# an object vector that holds only scalars when it is first fingerprinted and receives its element vectors afterwards
			def build():
				ov = Vector(["s", 1] + [None] * len(inner))
				ov.fingerprint()
				for k, x in enumerate(inner):
					ov[2 + k] = Vector(list(x))
					ov.fingerprint()
				return ov[2:] if spec["becomes_nested"] == "slice" else ov
			o = call(build)
			if o.ok and spec["becomes_nested"] != "slice":
				inner = [None, None] + inner
		else:
			o = call(lambda: Vector([Vector(list(x)) for x in inner]))
	if not o.ok or isinstance(o.value, Table) or not any(isinstance(e, Vector) for e in o.value._underlying):
		chk.skip("nested-not-a-vector-of-vectors")
		return
	outer = o.value
	f0 = fp(outer).value if spec["cached"] else None
	i = rng.choice([k for k, e in enumerate(outer._underlying) if isinstance(e, Vector)])
	j = rng.randrange(len(inner[i]))
	old = inner[i][j]
	new = old + 10
	how = spec["how"]
	if how == "through-outer":
		w = call(lambda: outer[i].__setitem__(j, new))
	elif how == "held-inner":
		held = outer._underlying[i]
		w = call(held.__setitem__, j, new)
	else:
		w = call(lambda: outer[i].__setitem__(slice(j, j + 1), [new]))
	chk.judged("write-path", ("nested", how, spec["cached"], tuple(spec["lens"])))
	if not w.ok:
		chk.skip("write-refused")
		return
	if not judge_fresh(chk, outer, f"nested-vector/{'cached-before' if spec['cached'] else 'not-cached-before'}/{how}", spec):
		return
	if spec["cached"] and fp(outer).value == f0:
		chk.fail("a write that changes an element to an unequal value changes the fingerprint", f"fingerprint/insensitive/nested-vector/{how}", f"{spec!r}: inner element {old} -> {new}, fingerprint stayed {f0}")


RUNNERS["nested"] = run_nested

# multipliers a polynomial / rolling hash is likely to use (the library's own, when it names one, first)
def _multipliers():
	ks = [getattr(Vector, "_FP_B", None), 31, 33, 37, 131, 257, 65599, 1000003, 16777619, 1315423911, (1 << 61) - 1, 1 << 32]
	return [k for k in dict.fromkeys(ks) if isinstance(k, int) and k > 1]


def run_linear(chk, spec):
	"""ONE write that changes two cells by amounts that cancel in a hash that is linear in the element hashes (small ints hash to themselves):
	[a, b] -> [a + d, b - d*K] through a slice / index-list write on a vector, a row write across two columns of a table, and the two
	single-cell writes one after the other.  Every one of them changes elements to unequal values, so the fingerprint has to move."""
	a, b, d, K = spec["a"], spec["b"], spec["d"], spec["K"]
	pad = list(spec["pad"])
	pos = spec["pos"]            # where the two cells sit: "adjacent-first", "adjacent-last", "apart"
	n = len(pad) + 2
	i, j = {"adjacent-first": (0, 1), "adjacent-last": (n - 2, n - 1), "apart": (0, n - 1)}[pos]
	gap = j - i
	new_a, new_b = a + d, b - d * K ** gap
	vals = list(pad)
	vals.insert(i, a)
	vals.insert(j, b)
	chk.judged("sensitivity", ("linear", spec["via"], pos, K, d, n))
	if spec["via"] in ("slice", "index-list"):
		v = Vector(list(vals))
		f0 = fp(v)
		if spec["via"] == "slice" and gap == 1:
			w = call(v.__setitem__, slice(i, j + 1), [new_a, new_b])
		else:
			w = call(v.__setitem__, [i, j], [new_a, new_b])
		f1 = fp(v)
		what = f"Vector({vals!r}) after one write of [{new_a}, {new_b}] over positions {i}, {j}"
	elif spec["via"] == "table-row":
		# the two cells are one row of two columns: the table's fingerprint combines the column fingerprints
		t = Table({"x": [a] + pad, "y": [b] + pad})
		f0 = fp(t)
		w = call(t.__setitem__, (0, slice(None)), [a + d, b - d * K])
		f1 = fp(t)
		what = f"Table(x={[a] + pad!r}, y={[b] + pad!r}) after t[0, :] = [{a + d}, {b - d * K}]"
	else:
		raise ValueError(spec["via"])
	if not (f0.ok and f1.ok and w.ok):
		chk.skip("linear-write-refused")
		return
	if f0.value == f1.value:
		chk.fail("a write that changes elements to unequal values changes the fingerprint", f"fingerprint/insensitive/cancelling-write/{spec['via']}", f"{spec!r}: {what}: fingerprint still {f0.value}")


RUNNERS["linear"] = run_linear


def run_linear_cells(chk, spec):
	"""the same cancelling write, for cells of EVERY class: the per-cell hashes are dictated through the library's own element-hash hook (instrumented for this
	case only), so [c, d] -> [c', d'] with h(c') = h(c) + e and h(d') = h(d) - e*K is one write that changes two cells to unequal values whatever their class"""
	from datetime import date
	real = Vector.__dict__.get("_hash_element")
	if real is None:
		chk.skip("no-element-hash-hook")
		return
	realf = real.__func__ if isinstance(real, (staticmethod, classmethod)) else real
	kind, K, e = spec["kind"], spec["K"], spec["e"]
	mk = {"tuple": lambda k: (k, "t"), "list": lambda k: [k, "l"], "str": lambda k: f"s{k}", "float": lambda k: k + 0.5, "date": lambda k: date(2020, 1, 1 + k), "object": lambda k: V.Plain(k), "frozenset": lambda k: frozenset({k, -1}),
		"nested-tuple": lambda k: ((k,), (k, k)), "bytes": lambda k: bytes([65 + k])}[kind]
	c, d, c2, d2 = mk(1), mk(2), mk(3), mk(4)
	pad = [mk(5 + k) for k in range(spec["pad"])]
	a, b = 10 ** 6 + 3, 10 ** 12 + 7
	table = {id(c): a, id(d): b, id(c2): a + e, id(d2): b - e * K}
	def fake(x):
		if id(x) in table:
			return table[id(x)]
		return realf(x)
	pos = spec["pos"]
	vals = [c, d] + pad if pos == "first" else pad + [c, d]
	i = 0 if pos == "first" else len(pad)
	chk.judged("sensitivity", ("linear-cells", kind, K, e, pos, spec["via"]))
	try:
		Vector._hash_element = staticmethod(fake)
		if spec["via"] == "table-row":
			t = Table([Vector([c] + pad, dtype=object, name="x"), Vector([d] + pad, dtype=object, name="y")])
			f0 = fp(t)
			w = call(t.__setitem__, (0, slice(None)), [c2, d2])
			f1 = fp(t)
			held = [list(col._underlying)[0] for col in t.cols()]
		else:
			v = Vector(list(vals), dtype=object)
			f0 = fp(v)
			w = call(v.__setitem__, slice(i, i + 2), [c2, d2]) if spec["via"] == "slice" else call(v.__setitem__, [i, i + 1], [c2, d2])
			f1 = fp(v)
			held = list(v._underlying)[i:i + 2]
	finally:
		Vector._hash_element = real
	if not (f0.ok and f1.ok and w.ok) or held[0] is not c2 or held[1] is not d2:
		chk.skip("linear-cells-write-not-carried-out-as-is")
		return
	if f0.value == f1.value:
		chk.fail("a write that changes elements to unequal values changes the fingerprint", f"fingerprint/insensitive/cancelling-write/cells-of-kind-{kind}/{spec['via']}",
			f"{spec!r}: cells hashing to ({a}, {b}) replaced in one write by cells hashing to ({a + e}, {b - e * K}): fingerprint still {f0.value}")


RUNNERS["linear_cells"] = run_linear_cells


WEAK_PAIRS = [("plumless", "buckeroo"), ("codding", "gnu"), ("Aa", "BB"), ("AaAa", "BBBB"), ("AaBB", "BBAa"), ("ab", "ba"), ("abc", "cba"), ("\x00a", "a"), ("a", "a\x00"), ("", "\x00"), (b"Aa", b"BB"), ("ȁ", "\x01\x02")]


def run_weak_pairs(chk, spec):
	"""unequal texts that collide under the usual cheap string hashes (CRC-32, the 31-polynomial, order-blind sums, hashes that drop NULs or fold bytes): Python's
	hash() tells every pair apart, so replacing one by the other - alone, inside a tuple cell, as a table cell - and exchanging the two changes the fingerprint"""
	a, b = WEAK_PAIRS[spec["pair"]]
	if hash(a) == hash(b):
		chk.skip("weak-pair-collides-under-hash")
		return
	how = spec["how"]
	chk.judged("sensitivity", ("weak-pair", spec["pair"], how))
	if how == "swap":
		f0, f1 = fp(Vector([a, b, a])), fp(Vector([b, a, a]))
		what = f"Vector([{a!r}, {b!r}, {a!r}]) and Vector([{b!r}, {a!r}, {a!r}])"
	else:
		wrap = (lambda x: (1, x)) if how.startswith("tuple") else (lambda x: x)
		if how.endswith("table"):
			t = Table({"s": [wrap(a), wrap("zz")], "n": [1, 2]})
			f0 = fp(t)
			w = call(t.__setitem__, (0, "s"), wrap(b)) if not how.startswith("tuple") else call(lambda: t["s"].__setitem__(0, wrap(b)))
			f1 = fp(t)
		else:
			v = Vector([wrap(a), wrap("zz")])
			f0 = fp(v)
			key = {"elem": 0, "tuple-elem": 0, "mask": [True, False], "slice": slice(0, 1)}[how]
			w = call(v.__setitem__, key, wrap(b) if how in ("elem", "tuple-elem", "mask") else [wrap(b)])
			f1 = fp(v)
		if not w.ok:
			chk.skip("weak-pair-write-refused")
			return
		what = f"{how}: {a!r} -> {b!r}"
	if f0.ok and f1.ok and f0.value == f1.value:
		chk.fail("a write that changes an element to an unequal value changes the fingerprint", f"fingerprint/insensitive/weak-string-hash/{how}", f"{spec!r}: {what}: fingerprint {f0.value} both times")


RUNNERS["weak_pairs"] = run_weak_pairs


def run_linear_members(chk, spec):
	"""the cancelling change INSIDE one cell: a tuple / list / set / dict cell (c, d) replaced by (c', d') whose member hashes moved by +e and -e*K. The two cells
	are unequal and Python's hash() tells them apart, so the fingerprint of the vector - and of a table holding it - changes"""
	K, e, form = spec["K"], spec["e"], spec["form"]
	a, b = 5, 2000000000 + 7 * K
	mk = {"tuple": lambda x, y: (x, y), "list": lambda x, y: [x, y], "set": lambda x, y: {x, y}, "frozenset": lambda x, y: frozenset({x, y}), "dict": lambda x, y: {x: y}, "dict-values": lambda x, y: {"p": x, "q": y},
		"nested-tuple": lambda x, y: ("t", (x, y)), "tuple-in-list": lambda x, y: [(x, y), 1], "triple": lambda x, y: (0, x, y)}[form]
	old, new = mk(a, b), mk(a + e, b - e * K)
	if form in ("tuple", "frozenset", "nested-tuple", "triple") and hash(old) == hash(new):
		chk.skip("members-collide-under-hash")
		return
	chk.judged("sensitivity", ("linear-members", form, K, e, spec["where"]))
	if spec["where"] == "vector":
		x = Vector([old, mk(1, 2)], dtype=object)
		f0 = fp(x); w = call(x.__setitem__, 0, new); f1 = fp(x)
	elif spec["where"] == "table":
		x = Table([Vector([old, mk(1, 2)], dtype=object, name="c"), Vector([1, 2], name="n")])
		f0 = fp(x); w = call(lambda: x["c"].__setitem__(0, new)); f1 = fp(x)
	else:
		f0, f1, w = fp(Vector([old, mk(1, 2)], dtype=object)), fp(Vector([new, mk(1, 2)], dtype=object)), call(lambda: None)
	if not (w.ok and f0.ok and f1.ok):
		chk.skip("linear-members-write-refused")
		return
	if f0.value == f1.value:
		chk.fail("a write that changes an element to an unequal value changes the fingerprint", f"fingerprint/insensitive/cancelling-change-inside-a-cell/{form}", f"{spec!r}: cell {old!r} -> {new!r}: fingerprint {f0.value} both times")


RUNNERS["linear_members"] = run_linear_members


def run_date_midnight(chk, spec):
	"""a date and the datetime of its midnight are unequal values with different hash(): replacing one by the other - in an object column, inside a tuple cell, or
	for the whole column when a <date> column is promoted in place by writing exactly midnight of the day a cell already holds - changes the fingerprint"""
	d0, d1 = V.date(2024, 5, 17), V.date(2024, 5, 18)
	m0 = V.datetime(2024, 5, 17)
	if hash(d0) == hash(m0):
		chk.skip("date-hashes-like-midnight")
		return
	how = spec["how"]
	chk.judged("sensitivity", ("date-midnight", how, spec["direction"]))
	a, b = (d0, m0) if spec["direction"] == "date->datetime" else (m0, d0)
	if how == "object-cell":
		x = Vector([a, "z"], dtype=object)
		f0 = fp(x); w = call(x.__setitem__, 0, b); f1 = fp(x)
	elif how == "tuple-cell":
		x = Vector([(1, a), (2, d1)])
		f0 = fp(x); w = call(x.__setitem__, 0, (1, b)); f1 = fp(x)
	elif how == "promote-column":
		x = Vector([d0, d1]) if spec["direction"] == "date->datetime" else Vector([m0, V.datetime(2024, 5, 18, 7)])
		f0 = fp(x); w = call(x.__setitem__, 0, b); f1 = fp(x)
	elif how == "promote-table-column":
		x = Table({"day": [d0, d1] if spec["direction"] == "date->datetime" else [m0, V.datetime(2024, 5, 18, 7)], "n": [1, 2]})
		f0 = fp(x); w = call(x.__setitem__, (0, "day"), b); f1 = fp(x)
	else:
		x = Table({"day": [d0, d1] if spec["direction"] == "date->datetime" else [m0, V.datetime(2024, 5, 18, 7)], "n": [1, 2]})
		h = x["day"]
		f0 = fp(x); w = call(h.__setitem__, 0, b); f1 = fp(x)
	if not (w.ok and f0.ok and f1.ok):
		chk.skip("date-midnight-write-refused")
		return
	cells = list((x.cols()[0] if isinstance(x, Table) else x)._underlying)
	first = cells[0][1] if how == "tuple-cell" else cells[0]
	if type(first) is type(a) and first == a:
		chk.skip("date-midnight-write-kept-the-old-cell")
		return
	if f0.value == f1.value:
		chk.fail("a write that changes an element to an unequal value changes the fingerprint", f"fingerprint/insensitive/date-vs-its-midnight/{how}", f"{spec!r}: {a!r} -> {first!r}: fingerprint {f0.value} both times")


RUNNERS["date_midnight"] = run_date_midnight


def run_row_fingerprint(chk, spec):
	"""a row of a table is a vector: its fingerprint is that of a freshly built vector of its cells - before and after writes to the table, for rows fetched
	one by one and for the rows of one iteration; a vector holding a row (or a class that merely defines fingerprint) as a CELL can be fingerprinted too"""
	import warnings
	kinds = spec["kinds"]
	n = 3
	cols = {"int": [1, 2, 3], "str": ["a", "b", "c"], "float": [0.5, None, 2.5], "tuple": [(1, 2), (), (3,)]}
	with warnings.catch_warnings():
		warnings.simplefilter("ignore")
		t = Table({f"c{j}": list(cols[k]) for j, k in enumerate(kinds)})
		chk.judged("write-path", ("row-fingerprint", tuple(kinds), spec["how"]))
		def rows():
			if spec["how"] == "fetched":
				for i in range(n):
					yield i, t[i]
			else:
				for i, r in enumerate(t):
					yield i, r
		for phase in ("built", "after-write"):
			if phase == "after-write":
				jw = next(j for j, k in enumerate(kinds) if k != "tuple")
				call(t.__setitem__, (1, jw), t.cols()[jw]._underlying[0])
			for i, r in rows():
				a = call(r.fingerprint)
				cells = [c._underlying[i] for c in t.cols()]
				b = call(lambda: Vector(list(cells), dtype=r.schema()).fingerprint())
				if not a.ok:
					chk.fail("fingerprint() works on every vector and table", f"fingerprint/raises/row/{type(a.exc).__name__}", f"{spec!r}: row {i} ({phase}): {a!r}")
					return
				if b.ok and a.value != b.value:
					chk.fail("fingerprint() equals the fingerprint of a freshly built object with the same contents", f"fingerprint/stale/row/{spec['how']}/{phase}", f"{spec!r}: row {i} = {cells!r}: {a.value} vs fresh {b.value}")
					return
		class HasFp:
			def fingerprint(self):
				return 12345
		for label, cell in (("row-cell", t[0]), ("class-defining-fingerprint", HasFp), ("the-Vector-class", Vector)):
			o = call(lambda: Vector([cell, 5], dtype=object).fingerprint())
			o2 = call(lambda: Vector([cell, 5], dtype=object).fingerprint())
			if not o.ok:
				chk.fail("fingerprint() works on every vector and table", f"fingerprint/raises/cell/{label}/{type(o.exc).__name__}", f"{spec!r}: Vector([<{label}>, 5]).fingerprint() raised {o!r}")
				return
			if o2.ok and o.value != o2.value:
				chk.fail("fingerprint() is a function of current contents only", f"fingerprint/unstable/cell/{label}", f"{spec!r}: two equal vectors gave {o.value} and {o2.value}")
				return


RUNNERS["row_fingerprint"] = run_row_fingerprint

def _dd(items):
	import collections
	d = collections.defaultdict(int)
	for k, v in items:
		d[k] = v
	return d


def _counter(text):
	import collections
	return collections.Counter(text)


class _Bag(dict):
	def __init__(self, items=()):
		super().__init__()
		for k, v in items:
			self[k] = v


class _SetSub(set):
	pass


class _FloatSub(float):
	pass


def run_special_numbers(chk, spec):
	"""(a) complex cells with a NaN part are still different values when their other parts differ: replacing one by another, or swapping two, changes the
	fingerprint; (b) a NaN that is an instance of a float subclass is a NaN: a vector holding it has the fingerprint of a freshly built equal vector"""
	nan = float("nan")
	what = spec["what"]
	chk.judged("sensitivity", ("special-numbers", what))
	if what == "complex-nan-parts":
		cells = [complex(nan, 1), complex(nan, 2), complex(3, nan), complex(nan, nan), 1j]
		i, j = spec["i"], spec["j"]
		v = Vector([cells[i], 2j, cells[4]])
		a = fp(v)
		w = call(v.__setitem__, 0, cells[j])
		b = fp(v)
		if a.ok and b.ok and w.ok and a.value == b.value and hash(cells[i]) != hash(cells[j]):
			chk.fail("a write that changes an element to an unequal value changes the fingerprint", "fingerprint/insensitive/complex-nan-parts", f"{spec!r}: {cells[i]!r} replaced by {cells[j]!r}: fingerprint still {a.value}")
			return
		x, y = Vector([cells[i], cells[j], 5j]), Vector([cells[j], cells[i], 5j])
		fx, fy = fp(x), fp(y)
		if fx.ok and fy.ok and fx.value == fy.value and hash(cells[i]) != hash(cells[j]):
			chk.fail("element order matters to the fingerprint", "fingerprint/insensitive/swap/complex-nan-parts", f"{spec!r}: swapping {cells[i]!r} and {cells[j]!r} kept the fingerprint")
	else:
		x = Vector([_FloatSub("nan"), 1.5])
		y = Vector([float("nan"), 1.5])
		z = Vector([_FloatSub("nan"), 1.5])
		fx, fy, fz = fp(x), fp(y), fp(z)
		if fx.ok and fz.ok and fx.value != fz.value:
			chk.fail("fingerprint() equals the fingerprint of a freshly built object with the same contents", "fingerprint/stale/float-subclass-nan", f"{spec!r}: two vectors [F(nan), 1.5] built alike: {fx.value} vs {fz.value}")
			return
		if fx.ok and fy.ok and fx.value != fy.value:
			chk.fail("fingerprint() is a function of current contents only (NaN is NaN)", "fingerprint/equal-contents-differ/float-subclass-nan", f"{spec!r}: [F(nan), 1.5] vs [nan, 1.5]: {fx.value} vs {fy.value}")


RUNNERS_EXTRA = {"special_numbers": run_special_numbers}


def run_equal_cells(chk, spec):
	"""two EQUAL cells that were built differently - a dict whose hash-colliding keys were inserted in another order, a set built in another order, an
	equal tuple - are the same contents: vectors and tables that differ only in which of the two they hold have one fingerprint, and overwriting
	the one by the other leaves the fingerprint as it is"""
	P_ = 2 ** 61 - 1
	pairs = {
		"dict-colliding-keys": ({-1: "a", -2: "b", 3: "c"}, {3: "c", -2: "b", -1: "a"}), "dict-colliding-keys-2": ({1: "x", 1 + P_: "y"}, {1 + P_: "y", 1: "x"}),
		"dict-tuple-keys": ({(0, -1): 1, (0, -2): 2}, {(0, -2): 2, (0, -1): 1}), "dict-plain": ({"a": 1, "b": 2}, {"b": 2, "a": 1}), "dict-colliding-values": ({"a": -1, "b": -2}, {"b": -2, "a": -1}),
		"set-orders": ({-1, -2, 5}, {5, -2, -1}), "set-of-frozensets": ({frozenset({0}), frozenset({14})}, {frozenset({14}), frozenset({0})}), "set-mixed": ({1, "a", None}, {None, "a", 1}),
		"nested-dict-in-list": ([{-1: 1, -2: 2}], [{-2: 2, -1: 1}]), "tuple-equal": ((1, (2, 3)), tuple([1, tuple([2, 3])])),
		# instances of SUBCLASSES of the containers are containers too
		"defaultdict-orders": (_dd([("a", 1), ("b", 2)]), _dd([("b", 2), ("a", 1)])), "counter-orders": (_counter("aab"), _counter("baa")), "dict-subclass-orders": (_Bag([("x", 1), ("y", 2)]), _Bag([("y", 2), ("x", 1)])),
		"set-subclass-orders": (_SetSub([-1, -2, 5]), _SetSub([5, -2, -1])), "defaultdict-vs-dict": (_dd([("a", 1)]), {"a": 1}),
	}
	x, y = pairs[spec["pair"]]
	if x != y:
		raise ValueError("pair is not equal")
	chk.judged("write-path", ("equal-cells", spec["pair"], spec["where"]))
	if spec["where"] == "vector":
		a, b = Vector([x, "pad"]), Vector([y, "pad"])
	else:
		a, b = Table({"c": [x, "pad"], "n": [1, 2]}), Table({"c": [y, "pad"], "n": [1, 2]})
	fa, fb = fp(a), fp(b)
	if not (fa.ok and fb.ok):
		chk.fail("fingerprint() works on every vector and table", f"fingerprint/raises/equal-cells/{spec['pair']}", f"{spec!r}: {fa!r} / {fb!r}")
		return
	if fa.value != fb.value:
		chk.fail("fingerprint() is a function of current contents only (equal contents, one fingerprint)", f"fingerprint/equal-contents-differ/{spec['pair']}/{spec['where']}", f"{spec!r}: {x!r} == {y!r} but {fa.value} != {fb.value}")
		return
	target = a if spec["where"] == "vector" else a.cols()[0]
	w = call(target.__setitem__, 0, y)
	f2 = fp(a)
	if w.ok and f2.ok and f2.value != fa.value:
		chk.fail("fingerprint() is a function of current contents only (equal contents, one fingerprint)", f"fingerprint/equal-overwrite-changes/{spec['pair']}/{spec['where']}", f"{spec!r}: overwriting the cell with an equal value changed {fa.value} -> {f2.value}")


def run_type_history(chk, spec):
	"""what other vectors the process fingerprinted before says nothing about this one: after a vector holding an UNHASHABLE instance of a class was
	fingerprinted, vectors of hashable instances of that class still have the fingerprint of a freshly built equal vector, and a write that is undone
	restores it"""
	import dataclasses
	from decimal import Decimal

	@dataclasses.dataclass(frozen=True)
	class Tag:
		parts: object
	kind = spec["kind"]
	good = {"decimal": [Decimal("4"), Decimal("2.5"), Decimal("-1")], "frozen-dataclass": [Tag((1, 2)), Tag("x"), Tag(3)], "tuple-like": [(1, 2), (3,), ()], "slice": [slice(1, 2), slice(None), slice(0, 5, 2)]}[kind]
	bad = {"decimal": Decimal("sNaN"), "frozen-dataclass": Tag([1, 2]), "tuple-like": (1, [2]), "slice": slice([1], 2)}[kind]
	v = Vector(list(good))
	t = Table({"c": list(good), "n": [1, 2, 3]})
	f0, ft0 = fp(v), fp(t)
	poison = Vector([bad, good[0]])
	fpz = fp(poison)      # may work or raise - either way it is another vector's business
	chk.judged("write-path", ("type-history", kind, fpz.ok))
	for obj, before, label in ((v, f0, "vector"), (t, ft0, "table")):
		now, fresh = fp(obj), fresh_fp(obj)
		if not (before.ok and now.ok and fresh.ok):
			continue
		if now.value != fresh.value or now.value != before.value:
			chk.fail("fingerprint() equals the fingerprint of a freshly built object with the same contents", f"fingerprint/stale/after-unhashable-{kind}/{label}",
				f"{spec!r}: before {before.value}, now {now.value}, freshly built {fresh.value}")
			return
	col = v
	old = col._underlying[0]
	if call(col.__setitem__, 0, good[1]).ok and call(col.__setitem__, 0, old).ok:
		back = fp(v)
		if back.ok and f0.ok and back.value != f0.value:
			chk.fail("fingerprint() is a function of current contents only", f"fingerprint/write-undo-does-not-restore/after-unhashable-{kind}", f"{spec!r}: {f0.value} -> {back.value}")
			return
	# and equal values of that class still agree (4 == 4.0 as Decimals)
	if kind == "decimal":
		a, b = fp(Vector([Decimal("4"), Decimal("1")])), fp(Vector([Decimal("4.0"), Decimal("1.00")]))
		if a.ok and b.ok and a.value != b.value:
			chk.fail("fingerprint() is a function of current contents only (equal contents, one fingerprint)", "fingerprint/equal-contents-differ/decimal-after-unhashable", f"{spec!r}: Decimal('4') vs Decimal('4.0'): {a.value} != {b.value}")


RUNNERS["equal_cells"] = run_equal_cells
RUNNERS.update(RUNNERS_EXTRA)
RUNNERS["type_history"] = run_type_history

def run_zero_hash_cells(chk, spec):
	"""cells whose hash is 0 (0, 0.0, False, '' is not) must not vanish from the fingerprint: a vector-valued cell replaced by a longer / shorter vector of such
	cells, a column of zeros next to no column at all, a write that turns a leading value into 0 and the next 0 into that value"""
	import warnings
	what = spec["what"]
	chk.judged("sensitivity", ("zero-hash-cells", what))
	with warnings.catch_warnings():
		warnings.simplefilter("ignore")
		if what == "vector-cell-length":
			o = Vector([Vector([0, 7]), Vector([1, 2, 3])])
			a = fp(o)
			w = call(o.__setitem__, 0, Vector(spec["new"]))
			b = fp(o)
			if a.ok and b.ok and w.ok and a.value == b.value:
				chk.fail("a write that changes an element to an unequal value changes the fingerprint", "fingerprint/insensitive/vector-cell-replaced-by-another-length", f"{spec!r}: the cell Vector([0, 7]) replaced by Vector({spec['new']!r}): fingerprint still {a.value}")
		elif what == "zeros-vs-shorter":
			pairs = [(Vector([0, 0, 5]), Vector([0, 5, 0])), (Vector([0.0, 1.5]), Vector([1.5, 0.0])), (Vector([False, True, False]), Vector([True, False, False]))]
			for x, y in pairs:
				a, b = fp(x), fp(y)
				if a.ok and b.ok and a.value == b.value:
					chk.fail("element order matters to the fingerprint", "fingerprint/insensitive/zero-hash-cells-moved", f"{spec!r}: {list(x)!r} and {list(y)!r} have one fingerprint")
					return
		else:
			t = Table({"a": [0, 0, 3], "b": [0, 0, 0]})
			a = fp(t)
			w = call(t.__setitem__, (2, slice(None)), [0, 3])
			b = fp(t)
			if a.ok and b.ok and w.ok and a.value == b.value:
				chk.fail("a write that changes an element to an unequal value changes the fingerprint", "fingerprint/insensitive/value-moved-into-a-zero-column", f"{spec!r}: row [3, 0] rewritten as [0, 3]: fingerprint still {a.value}")


RUNNERS["zero_hash_cells"] = run_zero_hash_cells


def setup(chk):
	pool.CENSUS.install()


def run(chk):
	recompute.add_cases(chk, "C16")
	rng = chk.rng
	for i, j in ((0, 1), (1, 0), (0, 2), (2, 3), (0, 3), (3, 1)):
		chk.case("special_numbers", {"what": "complex-nan-parts", "i": i, "j": j}, "special-numbers")
	chk.case("special_numbers", {"what": "float-subclass-nan"}, "special-numbers")
	for pair in ("defaultdict-orders", "counter-orders", "dict-subclass-orders", "set-subclass-orders", "defaultdict-vs-dict"):
		for where in ("vector", "table"):
			chk.case("equal_cells", {"pair": pair, "where": where}, "equal-cells")
	for pair in ("dict-colliding-keys", "dict-colliding-keys-2", "dict-tuple-keys", "dict-plain", "dict-colliding-values", "set-orders", "set-of-frozensets", "set-mixed", "nested-dict-in-list", "tuple-equal"):
		for where in ("vector", "table"):
			chk.case("equal_cells", {"pair": pair, "where": where}, "equal-cells")
	for kind in ("decimal", "frozen-dataclass", "tuple-like", "slice"):
		chk.case("type_history", {"kind": kind}, "type-history")
	for new in ([7], [0, 0, 7], [0, 0, 0, 0, 7], [7, 0], [0, 7, 0]):      # (vectors that are NOT equal to the cell they replace: [False, 7] or [0.0, 7] would be)
		chk.case("zero_hash_cells", {"what": "vector-cell-length", "new": new}, "zero-hash-cells")
	chk.case("zero_hash_cells", {"what": "zeros-vs-shorter"}, "zero-hash-cells")
	chk.case("zero_hash_cells", {"what": "zero-columns"}, "zero-hash-cells")
	for K in _multipliers():
		for via in ("slice", "index-list", "table-row"):
			for pos in ("adjacent-first", "adjacent-last", "apart"):
				for d in (1, -1, 2, 7):
					if via == "table-row" and pos != "adjacent-first":
						continue
					chk.case("linear", {"a": rng.choice([1, 5, 40]), "b": rng.choice([2, 9, 1700000000]), "d": d, "K": K, "pad": [rng.randrange(10) for _ in range(rng.choice([0, 1, 3]))], "pos": pos, "via": via}, "linear")
	for K in _multipliers()[:4] if chk.quick() else _multipliers():
		for kind in ("tuple", "list", "str", "float", "date", "object", "frozenset", "nested-tuple", "bytes"):
			for via in ("slice", "index-list", "table-row"):
				for pos in ("first", "last"):
					for e in (1, -1):
						chk.case("linear_cells", {"kind": kind, "K": K, "e": e, "pos": pos, "via": via, "pad": rng.choice([0, 1, 3])}, "linear-cells")
	for K in _multipliers():
		for form in ("tuple", "list", "set", "frozenset", "dict", "dict-values", "nested-tuple", "tuple-in-list", "triple"):
			for e in (1, -1, 3):
				for where in ("vector", "table", "rebuilt"):
					chk.case("linear_members", {"K": K, "e": e, "form": form, "where": where}, "linear-members")
	for how in ("object-cell", "tuple-cell", "promote-column", "promote-table-column", "promote-through-handle"):
		for direction in ("date->datetime", "datetime->date"):
			chk.case("date_midnight", {"how": how, "direction": direction}, "date-midnight")
	for pair in range(len(WEAK_PAIRS)):
		for how in ("elem", "mask", "slice", "tuple-elem", "elem-table", "tuple-elem-table", "swap"):
			chk.case("weak_pairs", {"pair": pair, "how": how}, "weak-pairs")
	for kind in ("int", "bigint", "float", "date", "bool", "str"):
		for how in ("mask", "mask-vector", "index-list", "slice", "index-tuple"):
			for tail in ("wider", "none"):
				for nullable in (False, True):
					chk.case("vector_path", {"kind": kind, "path": f"nothing-addressed/{how}/{tail}", "cached": True, "nullable": nullable, "n": rng.choice([1, 3]), "seed": rng.randrange(10**9)}, "vector-path-nothing-addressed")
	for kinds in (["int", "int"], ["int", "str"], ["float", "int", "str"], ["tuple", "int"], ["int"]):
		for how in ("fetched", "iteration"):
			chk.case("row_fingerprint", {"kinds": kinds, "how": how}, "row-fingerprint")
	for kind in ("bigint", "int", "float", "date", "bool"):
		for path in PATHS:
			for nullable in (False, True):
				for _ in range(2 if chk.quick() else 6):
					chk.case("vector_path", {"kind": kind, "path": path, "cached": True, "nullable": nullable, "n": rng.choice([2, 3, 5]), "seed": rng.randrange(10**9), "warnings_error": True, "under_error_filter": True}, "vector-path-warnings-as-errors")
	reps = 2 if chk.quick() else 8
	idx = 0
	for kind in DOM:
		for path in PATHS:
			for cached in (True, False):
				for nullable in (False, True):
					idx += 1
					if not chk.mine(idx):
						continue
					for _ in range(reps):
						chk.case("vector_path", {"kind": kind, "path": path, "cached": cached, "nullable": nullable, "n": rng.choice([1, 2, 3, 5]), "seed": rng.randrange(10**9)}, "vector-path")
	for path in TPATHS:
		for cached in (True, False):
			for view_first in (True, False):
				for kinds in (["int"], ["int", "str"], ["float", "int", "str"], ["str", "int"], ["bool", "int"], ["date", "int"]):
					idx += 1
					if not chk.mine(idx):
						continue
					for _ in range(reps):
						chk.case("table_path", {"path": path, "cached": cached, "view_first": view_first, "kinds": kinds, "n": rng.choice([1, 2, 3, 4]), "seed": rng.randrange(10**9)}, "table-path")
	for lens in ([2, 1], [1, 2], [3, 1, 2], [1, 1, 2]):
		for how in ("through-outer", "held-inner", "inner-slice"):
			for cached in (True, False):
				chk.case("nested", {"lens": lens, "how": how, "cached": cached, "seed": rng.randrange(10**9)}, "nested")
				chk.case("nested", {"lens": lens, "how": how, "cached": cached, "becomes_nested": "whole", "seed": rng.randrange(10**9)}, "nested-later")
	for kind in DOM:
		for deriv in DERIVS:
			for cached in (True, False):
				chk.case("derived", {"kind": kind, "deriv": deriv, "cached": cached, "n": rng.choice([2, 3, 4]), "seed": rng.randrange(10**9)}, "derived")
	for kind in DOM:
		for _ in range(20 if chk.quick() else 100):
			n = rng.choice([2, 3, 5, 8])
			vals = [rng.choice(DOM[kind]) for _ in range(n)]
			i, j = rng.sample(range(n), 2)
			chk.case("swap", {"values": vals, "i": i, "j": j, "kind": kind, "via": rng.choice(["write", "rebuild"]), "seed": 0}, "swap")
		for _ in range(3 if chk.quick() else 10):
			chk.case("readonly", {"kind": kind, "n": rng.choice([1, 3, 4]), "seed": rng.randrange(10**9)}, "read-only")
			chk.case("readonly", {"kind": kind, "n": rng.choice([2, 3, 4]), "with_none": True, "seed": rng.randrange(10**9)}, "read-only")
	for i in range(120 if chk.quick() else 400):
		chk.case("history", {"seed": rng.randrange(10**9), "nsteps": rng.choice([15, 30]) if chk.quick() else rng.choice([15, 30, 60]), "profile": rng.choice(["mixed", "tables"])}, "history")
