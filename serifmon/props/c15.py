"""C15 - alias tracking is exact: no leaked write, no spurious refusal."""
import gc

from ..bind import Vector, Table, AliasError
from ..core import call, short
from .. import models as M
from .. import values as V
from . import pool

RULE = ("(a) object-pool histories biased to shared-tuple construction, writes, promotions, column replacement, >> / << / row slice / row mask / .T "
	"tables (the Vector(...)->Table double-initialisation path), dropped references, cycles and gc.collect()/gc.disable() placement; every "
	"AliasError is judged against ground truth read through a census of all live vectors (hook on Vector.__init__): it is justified only if "
	"another live vector's storage IS the writer's storage, after gc.collect() and one retry; two vectors built over the same caller tuple must "
	"never observe each other's writes. Hooks on the tracker's register / unregister keep a shadow index that is walked after every step for "
	"registrations filed under an id that is no longer the registrant's storage; each such stale entry is attacked by allocating fresh vectors "
	"until one receives the stale identity and writing to it. (b) directed bursts: tables of width 1-8 are built through every storage-swapping "
	"path, written, promoted and dropped, then hundreds of fresh same-width vectors are allocated and written. (c) directed sharing scenarios "
	"(2-3 sharers, refusal while shared, writable once partners are dropped / collected). distinct = (scenario, width / sharers, gc placement).")
ASSUMPTIONS = [
	"zero-length vectors all hold CPython's one empty tuple; that is not shared storage: a refusal of a (necessarily empty) write there is spurious",
	"the verdict is behavioural: stale registrations that could not be turned into a refusal are reported in evidence only",
]
EXHAUSTIVE = {"flag": False, "scope": "histories and bursts are sampled; widths 1-8 and 2-3 sharers are enumerated"}
ANCHOR_FUNCS = ["alias_tracker:_AliasTracker.register", "alias_tracker:_AliasTracker.unregister", "alias_tracker:_AliasTracker.check_writable",
	"vector:Vector.__setitem__", "vector:Vector._promote", "table:Table.__setattr__"]
REQUIRED_STRATA = {"steps": 2000, "burst-writes": 1000, "sharing": 30, "derived": 150}


def run_history(chk, spec):
	m = pool.Machine(chk, spec["seed"], spec["nsteps"], spec.get("profile", "alias"))
	m.run()


def run_burst(chk, spec):
	"""build, mutate and drop tables / vectors of one width through every storage-swapping path, then flood with fresh vectors"""
	import random
	rng = random.Random(spec["seed"])
	w = spec["width"]
	n = spec["rows"]
	if spec["gc"] == "disabled":
		gc.disable()
	try:
		keep = []
		for rep in range(spec["reps"]):
			cols = [Vector([rng.randrange(9) for _ in range(n)], name=f"c{i}") for i in range(w)]
			made = []
			for f in (lambda: Vector(cols), lambda: Table(cols), lambda: Table(cols)[0:max(1, n - 1)], lambda: Table(cols)[[True] * n],
				lambda: Table(cols) << list(range(w)), lambda: Table(cols) >> Vector([0] * n, name="extra"), lambda: Table(cols).T, lambda: Table(cols) * 2):
				o = call(f)
				if o.ok:
					made.append(o.value)
			for t in made:
				if isinstance(t, Table) and len(t.cols()):
					acc = pool.accessor_for(t, 0)
					if acc and rng.random() < 0.7:
						call(lambda: setattr(t, acc, [1] * len(t)))
					c0 = t.cols()[0]
					if len(c0):
						call(lambda: c0.__setitem__(0, 5))
						if rng.random() < 0.5:
							call(lambda: c0.__setitem__(0, 2.5))     # promotion swaps storage again
			# vectors whose storage has the burst width
			vs = [Vector(list(range(w))) for _ in range(6)]
			for v in vs:
				call(lambda: v.__setitem__(0, 7))
				if rng.random() < 0.5:
					call(lambda: v.__setitem__(0, 1.5))
					keep.append(v)                                  # a promoted vector that stays alive
					# its previous storage was just freed: allocate same-width vectors right away and write to them
					for _k in range(4):
						nv = Vector(list(range(50, 50 + w)))
						keep.append(nv)
						o = call(lambda: nv.__setitem__(0, 3))
						chk.judged("burst-writes", None)
						if not o.ok and isinstance(o.exc, AliasError) and not [x for x in pool.CENSUS.live() if x is not nv and x.__dict__.get("_underlying") is nv._underlying]:
							chk.fail("a vector that shares storage with no other live vector is always writable", "alias/spurious-refusal/fresh-vector/after-promotion",
								f"width {w}: a fresh vector allocated right after another vector was promoted refused a write with AliasError")
							return
			if rng.random() < spec["keep_p"]:
				keep.append(rng.choice(made) if made else None)
				keep.append(rng.choice(vs))
			del made, vs, cols
			if spec["gc"] == "each":
				gc.collect()
		if spec["gc"] in ("end", "each"):
			gc.collect()
		# flood: fresh vectors whose storage tuple has the same length as the freed column tuples / storages
		fresh = []
		refusals = 0
		for k in range(spec["flood"]):
			width = rng.choice([w, w, n, max(1, n - 1), w + 1])
			v = Vector(list(range(100, 100 + width)))
			fresh.append(v)
			o = call(lambda: v.__setitem__(0, 1))
			chk.judged("burst-writes", ("burst", w, n, spec["gc"]) if k < 3 else None)
			chk.counters["alias:writes"] += 1
			if not o.ok and isinstance(o.exc, AliasError):
				refusals += 1
				sharers = [x for x in pool.CENSUS.live() if x is not v and x.__dict__.get("_underlying") is v._underlying]
				if not sharers:
					gc.collect()
					o2 = call(lambda: v.__setitem__(0, 1))
					if not o2.ok and isinstance(o2.exc, AliasError):
						chk.fail("a vector that shares storage with no other live vector is always writable", f"alias/spurious-refusal/fresh-vector/gc-{spec['gc']}",
							f"burst width {w} rows {n}: write to fresh Vector #{k} of length {width} refused with AliasError; no live vector shares its storage "
							f"(registry entry for id {id(v._underlying)}: {len(pool._ALIAS_TRACKER._registry.get(id(v._underlying), []))} refs)")
						return
					chk.counters["alias:refusal-cleared-by-gc"] += 1
		chk.counters["alias:burst-refusals"] += refusals
		stale = pool.Machine(chk, 0, 0).registry_walk()
		chk.counters["alias:stale-registrations-seen"] += len(stale)
	finally:
		gc.enable()


def run_sharing(chk, spec):
	"""k vectors over one caller tuple"""
	k, n = spec["sharers"], spec["n"]
	tup = tuple(range(n))
	vs = [Vector(tup) for _ in range(k)]
	[pool.mark_caller_built(x, id(tup)) for x in vs]     # (a comprehension: a for-loop variable would keep the last sharer alive)
	chk.judged("sharing", ("sharing", k, n, spec["release"], spec.get("use")))
	snaps = [list(v) for v in vs]
	o = call(lambda: vs[0].__setitem__(0, 99))
	if o.ok:
		# copy-on-write would also be acceptable: then nobody else may see it
		for i, v in enumerate(vs[1:], 1):
			if list(v) != snaps[i]:
				chk.fail("two live vectors built over the same caller tuple never observe each other's writes", "alias/leaked-write/shared-tuple",
					f"{k} vectors over {tup}: write through #0 changed #{i}: {list(v)}")
				return
	elif isinstance(o.exc, AliasError):
		if [list(v) for v in vs] != snaps:
			chk.fail("a refused write changes nothing", "alias/refused-write-changed-something", f"{k} vectors over {tup}: {[list(v) for v in vs]}")
			return
	else:
		chk.fail("a write to a sharer is either refused with AliasError or kept local", f"alias/unexpected-error/{type(o.exc).__name__}", f"{o!r}")
		return
	# release the partners one by one: while one remains the write may be refused, afterwards it must succeed
	target = vs[0]
	partners = vs[1:]
	del vs
	use = spec.get("use")
	if use:
		# the partners are first USED by library operations on a long-lived table; nothing may keep them alive afterwards
		held = spec.setdefault("_held", [])
		t = Table([Vector(list(range(n)), name="a"), Vector([str(i % 2) for i in range(n)], name="k")])
		for p in partners:
			r = call({
				"sort_by": lambda: t.sort_by(p), "sort_by-list": lambda: t.sort_by([p, "a"]), "aggregate": lambda: t.aggregate(over=p, count_over="a"),
				"aggregate-values": lambda: t.aggregate(over="k", sum_over=p), "window": lambda: t.window(over=p, sum_over="a"), "join-key": lambda: t.join(t, p, "a", expect="many_to_many"),
				"rshift": lambda: t >> p, "rshift-dict": lambda: t >> {"extra": p}, "attr-assign": lambda: setattr(t, "a", p), "mask-of": lambda: t[p == p], "arith": lambda: p + p,
				"repr-fp": lambda: (repr(p), p.fingerprint()), "table-ctor": lambda: Table([p, p]), "setitem-value": lambda: t.cols()[0].__setitem__(slice(None), p),
			}[use])
			if r.ok and use != "repr-fp":
				held.append(r.value)        # the RESULT stays alive (it must not reference the operand); the table stays alive too
		held.append(t)
	while partners:
		p = partners.pop()
		if spec["release"] == "write-partner":
			# a partner that got its own storage through a successful operation no longer shares
			q = call(lambda: p.__setitem__(0, p[0]))
		del p
		if spec["release"] in ("del-gc",):
			gc.collect()
		elif spec["release"] == "cycle":
			pass
	if spec["release"] == "write-partner":
		return
	gc.collect()
	o = call(lambda: target.__setitem__(0, 5))
	if not o.ok:
		chk.fail("a former sharer whose partners were dropped and collected is writable", f"alias/spurious-refusal/former-sharer/{spec['release']}" + (f"/partner-was-used-by-{spec['use']}" if spec.get("use") else ""),
			f"{k} vectors over {tup}; partners deleted and collected; write to the survivor raised {o!r}")
	elif list(target)[0] != 5:
		chk.fail("the write takes effect", "alias/write-lost", f"{list(target)}")


def run_derived(chk, spec):
	"""every way of deriving a vector from v must give it storage of its own: both stay writable"""
	import random
	rng = random.Random(spec["seed"])
	n = spec["n"]
	kind = spec["kind"]
	vals = {"int": [rng.randrange(9) for _ in range(n)], "str": [rng.choice("abc") for _ in range(n)], "float": [rng.random() for _ in range(n)],
		"object": [rng.choice([1, "a", 2.5, b"x"]) for _ in range(n)] + ["s", 7], "object-nullable": [rng.choice([1, "a", None]) for _ in range(n)] + ["s", 7, None]}[kind]
	n = len(vals)
	v = Vector(list(vals), name="v")
	ops = {
		"copy": lambda: v.copy(), "slice-full": lambda: v[:], "slice-0-n": lambda: v[0:n], "slice-0-big": lambda: v[0:n + 5], "slice-neg": lambda: v[-n:],
		"slice-step1": lambda: v[::1], "mask-all": lambda: v[[True] * n], "mask-all-vector": lambda: v[Vector([True] * n)], "T": lambda: v.T, "lshift-empty": lambda: v << [],
		"rlshift-empty": lambda: [] << v, "lshift-empty-tuple": lambda: v << (), "sort": lambda: v.sort_by(), "fillna": lambda: v.fillna(vals[0]), "dropna": lambda: v.dropna(),
		"pos": lambda: +v, "cast-same": lambda: v.cast(type(vals[0])) if not kind.startswith("object") else v.cast(object), "to_object": lambda: v.to_object(), "index-all": lambda: v[list(range(n))],
		"table-column": lambda: Table([v]).cols()[0], "table-column-slice": lambda: Table([v])[0:n].cols()[0], "unique": lambda: Vector(sorted(set(vals))).unique(), "copy-of-copy": lambda: v.copy().copy(),
		"empty-left-lshift-vector": lambda: v[0:0] << v, "empty-left-lshift-tuple": lambda: v[n:] << tuple(vals), "typed-empty-lshift-vector": lambda: Vector(dtype=v.schema().kind if v.schema() else int) << v,
		"empty-mask-lshift-vector": lambda: v[[False] * n] << v, "lshift-empty-vector": lambda: v << v[0:0],
		"rshift-column": lambda: (v >> v).cols()[1], "lshift-none-then-slice": lambda: (v << [])[0:n],
	}
	o = call(ops[spec["op"]])
	chk.judged("derived", ("derived", spec["op"], kind, n))
	if not o.ok or not isinstance(o.value, Vector) or len(o.value) == 0:
		chk.skip("derived-op-unavailable")
		return
	w = o.value
	shared = w.__dict__.get("_underlying") is v.__dict__.get("_underlying")
	for target, label in ((w, "result"), (v, "operand")):
		r = call(lambda: target.__setitem__(0, target._underlying[0]))
		if not r.ok and isinstance(r.exc, AliasError):
			chk.fail("copies, slices, operation results and table columns share storage with no other live vector and are always writable",
				f"alias/library-result-shares-storage/{spec['op']}", f"w = v.{spec['op']} (n={n}, {kind}): writing to the {label} raised AliasError; storage shared: {shared}")
			return
	if shared:
		chk.fail("copies, slices, operation results and table columns share storage with no other live vector", f"alias/library-result-shares-storage/{spec['op']}",
			f"w = v.{spec['op']} (n={n}, {kind}) shares v's storage tuple")


def run_table_sharing(chk, spec):
	"""a table one of whose columns shares a caller tuple with a live vector: writes to the OTHER columns are never refused; writes to the sharing column
	are refused only while the sharer lives; and a table built from one vector twice has two separate columns"""
	import random
	rng = random.Random(spec["seed"])
	n, c, pos = spec["n"], spec["c"], spec["pos"]
	chk.judged("sharing", ("table-sharing", spec["scenario"], c, pos, spec["form"]))
	if spec["scenario"] == "same-vector-twice":
		v = Vector([rng.choice([1, 2, 3]) for _ in range(n)], name="v")
		o = call({"ctor": lambda: Table([v, v]), "rshift": lambda: v >> v, "ctor3": lambda: Table([v, v, v]), "t>>col": lambda: (lambda t: t >> t.cols()[0])(Table([v]))}[spec["form"]])
		if not o.ok or not isinstance(o.value, Table) or len(o.value.cols()) < 2:
			chk.skip("table-sharing-unavailable")
			return
		t = o.value
		cols = t.cols()
		if any(cols[i] is cols[j] for i in range(len(cols)) for j in range(i + 1, len(cols))):
			chk.fail("table columns share storage with no other live vector", f"alias/one-column-object-twice/{spec['form']}", f"{spec!r}: two positions of the table hold the same column object")
			return
		before = [list(x._underlying) for x in cols]
		w = call(lambda: cols[0].__setitem__(0, 99))
		if not w.ok:
			chk.fail("copies, slices, operation results and table columns are always writable", f"alias/library-result-shares-storage/same-vector-twice/{spec['form']}", f"{spec!r}: writing column 0 raised {w!r}")
			return
		after = [list(x._underlying) for x in t.cols()]
		if after[1:] != before[1:] or list(v) != before[0]:
			chk.fail("two live vectors never observe each other's writes", f"alias/leaked-write/same-vector-twice/{spec['form']}", f"{spec!r}: write to column 0 changed {before} -> {after} (source {list(v)})")
		return
	tp = tuple(rng.choice([1, 2, 3, 5]) for _ in range(n))
	sharer = Vector(tp)
	pool.mark_caller_built(sharer, id(tp))
	t = Table([Vector([rng.choice([7, 8, 9]) for _ in range(n)], name=f"c{j}") for j in range(c)])
	o = call(lambda: setattr(t, f"c{pos}", tp))
	if not o.ok:
		chk.skip("table-sharing-setup-failed")
		return
	others = [j for j in range(c) if j != pos]
	j = rng.choice(others)
	i = rng.randrange(n)
	form = spec["form"]
	w = call({"cell-name": lambda: t.__setitem__((i, f"c{j}"), 5), "cell-int": lambda: t.__setitem__((i, j), 5), "column": lambda: t.__setitem__((slice(None), f"c{j}"), [5] * n),
		"view": lambda: t.cols()[j].__setitem__(i, 5), "names-list": lambda: t.__setitem__((i, [f"c{x}" for x in others]), [5] * len(others)), "mask-rows": lambda: t.__setitem__(([True] + [False] * (n - 1), [f"c{x}" for x in others]), 5)}[form])
	if not w.ok and isinstance(w.exc, AliasError):
		chk.fail("a write is refused with AliasError only while another live vector really shares that storage", f"alias/spurious-refusal/other-column-of-a-table-with-a-sharing-column/{form}",
			f"{spec!r}: column c{pos} shares a caller tuple with a live vector; writing column(s) {others if form in ('names-list', 'mask-rows') else j} raised {w!r}")
		return
	# the sharing column itself: refused (or kept local) while the sharer lives, writable once it is gone
	s1 = call(lambda: t.__setitem__((0, pos), 42))
	if s1.ok and list(sharer) != list(tp):
		chk.fail("two live vectors built over the same caller tuple never observe each other's writes", "alias/leaked-write/table-column-over-caller-tuple", f"{spec!r}: the sharer now reads {list(sharer)}")
		return
	del sharer
	gc.collect()
	s2 = call(lambda: t.__setitem__((0, pos), 43))
	if not s2.ok:
		chk.fail("a former sharer whose partners were dropped and collected is writable", "alias/spurious-refusal/former-sharer/table-column", f"{spec!r}: after the sharer was collected t[0, {pos}] = 43 raised {s2!r}")

TWIN_OPS = {
	"isna": lambda v: v.isna(), "isna-of-slice": lambda v: v[0:len(v)].isna(), "eq-scalar": lambda v: v == object(), "ne-self": lambda v: v != v.copy(), "lt-big": lambda v: v.isna() | v.isna(),
	"fillna": lambda v: v.fillna(v._underlying[0]), "dropna": lambda v: v.dropna(), "v*0": lambda v: v * 0 if isinstance(v._underlying[0], (int, float)) else v.isna(), "new": lambda v: Vector.new(False, len(v)),
	"new-none": lambda v: Vector.new(None, len(v)), "slice-empty-lshift": lambda v: v[0:0] << [False] * len(v), "unique-of-constant": lambda v: Vector([0] * len(v)).unique() << [0] * (len(v) - 1),
	"table-isna-column": lambda v: Table([v]).cols()[0].isna(), "sort-constant": lambda v: Vector([False] * len(v)).sort_by(), "cast-bool": lambda v: Vector([0] * len(v)).cast(bool), "mask-of-mask": lambda v: v.isna()[[True] * len(v)],
	"agg-count": lambda v: Table({"k": [1] * len(v), "x": list(v)}).window(over="k", count_over="x").cols()[1], "compare-table": lambda v: (Table([v]) == Table([v.copy()])).cols()[0],
}


def run_twins(chk, spec):
	"""the SAME operation on two unrelated vectors of one length, both results kept: equal contents (an all-False mask, a constant column ...) are not shared
	storage - each result is a vector of its own and takes a write while the other one lives"""
	import random
	rng = random.Random(spec["seed"])
	n = spec["n"]
	kind = spec["kind"]
	mk = {"int": lambda: [rng.randrange(1, 9) for _ in range(n)], "str": lambda: [rng.choice("abc") for _ in range(n)], "float": lambda: [rng.random() + 0.5 for _ in range(n)]}[kind]
	a, b = Vector(mk(), name="a"), Vector(mk(), name="b")
	op = TWIN_OPS[spec["op"]]
	ra, rb = call(op, a), call(op, b)
	chk.judged("derived", ("twins", spec["op"], kind, n))
	if not (ra.ok and rb.ok) or not isinstance(ra.value, Vector) or not isinstance(rb.value, Vector) or len(ra.value) == 0 or len(rb.value) == 0:
		chk.skip("twins-op-unavailable")
		return
	keep = [ra.value, rb.value]
	for which, r in (("first", ra.value), ("second", rb.value), ("first-again", ra.value)):
		w = call(lambda: r.__setitem__(0, r._underlying[0]))
		if not w.ok and isinstance(w.exc, AliasError):
			chk.fail("operation results share storage with no other live vector and are always writable", f"alias/library-result-shares-storage/twin-results/{spec['op']}",
				f"{spec!r}: two {spec['op']} results of length {n} are alive; writing the {which} raised AliasError (same storage object: {ra.value.__dict__.get('_underlying') is rb.value.__dict__.get('_underlying')})")
			return
	del keep


def run_table_own_columns(chk, spec):
	"""table assignments whose value is made of the table's own column objects, and column replacement through the indexed accessor: no refusal while
	no OTHER vector shares the storage, and afterwards table and caller hold separate vectors"""
	import random, warnings
	rng = random.Random(spec["seed"])
	n = spec["n"]
	form = spec["form"]
	chk.judged("sharing", ("table-own-columns", form, n))
	with warnings.catch_warnings():
		warnings.simplefilter("ignore")
		t = Table({"a": [rng.randrange(9) for _ in range(n)], "b": [10 + rng.randrange(9) for _ in range(n)], "c": [20 + rng.randrange(9) for _ in range(n)]})
		before = [list(x._underlying) for x in t.cols()]
		if form in ("region-self-swapped", "region-own-column-list", "region-self-rotated", "region-own-column-list-mask"):
			o = call({"region-self-swapped": lambda: t.__setitem__((slice(None), ["b", "a", "c"]), t), "region-self-rotated": lambda: t.__setitem__((slice(None), slice(None, None, -1)), t),
				"region-own-column-list": lambda: t.__setitem__((slice(None), ["a", "b"]), [t.b, t.a]), "region-own-column-list-mask": lambda: t.__setitem__(([True] * n, ["a", "b"]), [t.cols()[1], t.cols()[0]])}[form])
			if not o.ok and isinstance(o.exc, AliasError):
				chk.fail("a write is refused with AliasError only while another live vector really shares that storage", f"alias/spurious-refusal/table-region-from-own-columns/{form}", f"{spec!r}: {o!r}")
				return
			for j in range(3):
				w = call(lambda: t.cols()[j].__setitem__(0, t.cols()[j]._underlying[0]))
				if not w.ok and isinstance(w.exc, AliasError):
					chk.fail("table columns are always writable", f"alias/library-result-shares-storage/after-{form}", f"{spec!r}: column {j} refuses a write afterwards: {w!r}")
					return
			return
		# column replacement by a caller's vector, through every accessor spelling: the table holds a vector of its own
		vec = Vector([100 + i for i in range(n)], name="mine")
		acc = {"plain": "b", "indexed": "b__1", "indexed-first": "a__0", "upper": "B"}[form]
		o = call(setattr, t, acc, vec)
		if not o.ok:
			chk.skip("own-columns-accessor-refused")
			return
		pos = 0 if form == "indexed-first" else 1
		col = t.cols()[pos]
		if col is vec:
			chk.fail("table columns share storage with no other live vector", f"alias/column-is-the-callers-vector/{form}", f"{spec!r}: t.{acc} = vec stored the caller's own vector object as the column")
			return
		w1 = call(lambda: vec.__setitem__(0, -1))
		if list(t.cols()[pos]._underlying)[0] == -1:
			chk.fail("two live vectors never observe each other's writes", f"alias/leaked-write/column-replacement/{form}", f"{spec!r}: writing the caller's vector changed the table")
			return
		w2 = call(lambda: t.__setitem__((n - 1, pos), -2))
		if list(vec._underlying)[n - 1] == -2 and n > 1:
			chk.fail("two live vectors never observe each other's writes", f"alias/leaked-write/column-replacement/{form}", f"{spec!r}: writing the table changed the caller's vector")
			return
		for wr, what in ((w1, "the caller's vector"), (w2, "the table")):
			if not wr.ok and isinstance(wr.exc, AliasError):
				chk.fail("a write is refused with AliasError only while another live vector really shares that storage", f"alias/spurious-refusal/column-replacement/{form}", f"{spec!r}: writing {what} raised {wr!r}")
				return
		if vec.name != "mine":
			chk.fail("the caller's vector is not the table's column", f"alias/callers-vector-renamed/{form}", f"{spec!r}: the caller's vector is now named {vec.name!r}")

def run_clone_writes(chk, spec):
	"""a copy-module clone of a live vector is an ordinary vector: it takes any number of writes while the original lives, the original takes writes too,
	and neither sees the other's"""
	import copy
	n = spec["n"]
	v = Vector(list(range(10, 10 + n)), name="v")
	c = call(copy.copy if spec["how"] == "copy" else copy.deepcopy, v)
	chk.judged("sharing", ("clone-writes", spec["how"], n, spec["writes"]))
	if not c.ok or not isinstance(c.value, Vector):
		chk.skip("clone-unavailable")
		return
	clone = c.value
	orig = list(v._underlying)
	for k in range(spec["writes"]):
		target = clone if spec["pattern"][k % len(spec["pattern"])] == "c" else v
		val = 2.5 if spec.get("promote") and k == 1 else 100 + k
		w = call(lambda: target.__setitem__(k % n, val))
		if not w.ok and isinstance(w.exc, AliasError):
			chk.fail("a write is refused with AliasError only while another live vector really shares that storage", f"alias/spurious-refusal/copy-module-clone/{spec['how']}/write-{k + 1}",
				f"{spec!r}: write number {k + 1} (to the {'clone' if target is clone else 'original'}) raised AliasError; same storage object: {clone.__dict__.get('_underlying') is v.__dict__.get('_underlying')}")
			return
	if spec["pattern"] == "c" and list(v._underlying) != orig:
		chk.fail("two live vectors never observe each other's writes", f"alias/leaked-write/copy-module-clone/{spec['how']}", f"{spec!r}: the original changed: {orig!r} -> {list(v._underlying)!r}")

def run_empty_writes(chk, spec):
	"""zero-length vectors and zero-row tables, however they came about and whatever other empty vectors are alive: the (empty) write is never refused"""
	import warnings
	others = [Vector([]), Vector([1, 2])[2:], Table({"p": [], "q": []})]      # other empty vectors, alive throughout
	makers = {
		"literal": lambda: Vector([]), "named": lambda: Vector([], name="x"), "slice": lambda: Vector([1, 2, 3])[3:], "mask": lambda: Vector([1, 2])[[False, False]], "sorted": lambda: Vector([], name="x").sort_by(),
		"copy": lambda: Vector([]).copy(), "dropna": lambda: Vector([None, None]).dropna(), "table-column": lambda: Table({"x": [], "y": []}).cols()[0], "typed": lambda: Vector(dtype=int),
		"table": lambda: Table({"x": [], "y": []}), "table-emptied": lambda: Table({"x": [1, 2], "y": [3, 4]})[[False, False]], "table-sorted": lambda: Table({"x": [], "y": []}).sort_by("x"), "csv-header-only": lambda: _header_only(),
	}
	with warnings.catch_warnings():
		warnings.simplefilter("ignore")
		o = call(makers[spec["maker"]])
	chk.judged("derived", ("empty-writes", spec["maker"], spec["write"]))
	if not o.ok:
		chk.skip("empty-maker-unavailable")
		return
	x = o.value
	if isinstance(x, Table):
		w = call({"slice": lambda: x.__setitem__((slice(None), 0), []), "mask": lambda: x.__setitem__(([], 0), []), "view": lambda: x.cols()[0].__setitem__(slice(None), []), "attr": lambda: setattr(x, "x", [])}[spec["write"]])
	else:
		w = call({"slice": lambda: x.__setitem__(slice(None), []), "mask": lambda: x.__setitem__([], []), "view": lambda: x.__setitem__(slice(0, 0), []), "attr": lambda: x.__setitem__(slice(None), [])}[spec["write"]])
	if not w.ok and isinstance(w.exc, AliasError):
		chk.fail("a write is refused with AliasError only while another live vector really shares that storage", f"alias/spurious-refusal/zero-length/{spec['maker']}", f"{spec!r}: {w!r}")
	del others


def run_empty_reads(chk, spec):
	"""read-only operations on a zero-length vector that still carries a dtype - also those that promote a private copy on the way - are never refused:
	every empty vector holds the interpreter's one (), which is not storage anybody shares"""
	import warnings
	from datetime import date, datetime
	others = [Vector([]), Vector([1, 2])[2:], Vector(dtype=int), Table({"p": [], "q": []})]      # other empty vectors, alive throughout
	makers = {"slice": lambda: Vector([1, 2, 3])[3:], "mask": lambda: Vector([1, 2])[[False, False]], "typed": lambda: Vector(dtype=int), "typed-list": lambda: Vector([], dtype=int), "dropna": lambda: Vector([1, None])[1:].dropna(),
		"float-slice": lambda: Vector([1.5])[0:0], "date-slice": lambda: Vector([date(2020, 1, 1)])[0:0], "str-mask": lambda: Vector(["a"])[[False]], "table-column-emptied": lambda: Table({"x": [1, 2], "y": [3, 4]})[[False, False]].cols()[0]}
	reads = {"fillna-float": lambda x: x.fillna(2.5), "fillna-complex": lambda x: x.fillna(1j), "fillna-datetime": lambda x: x.fillna(datetime(2020, 1, 1, 5)), "fillna-same": lambda x: x.fillna(0), "fillna-none": lambda x: x.fillna(None),
		"lshift-wider": lambda x: x << [2.5], "plus": lambda x: x + 1, "cast": lambda x: x.cast(float), "copy": lambda x: x.copy(), "sort": lambda x: x.sort_by(), "isna": lambda x: x.isna(), "to_object": lambda x: x.to_object()}
	with warnings.catch_warnings():
		warnings.simplefilter("ignore")
		o = call(makers[spec["maker"]])
		if not o.ok:
			chk.skip("empty-maker-unavailable")
			return
		r = call(reads[spec["read"]], o.value)
	chk.judged("derived", ("empty-reads", spec["maker"], spec["read"]))
	if not r.ok and isinstance(r.exc, AliasError):
		chk.fail("a write is refused with AliasError only while another live vector really shares that storage", f"alias/spurious-refusal/zero-length-read/{spec['read']}", f"{spec!r}: {r!r}")
	del others


def run_result_then_flood(chk, spec):
	"""an operation result is kept, and brand-new vectors of its length (and the neighbouring lengths) are created and written straight away: whatever
	storage the operation built and dropped on the way, none of its addresses still counts as owned"""
	import warnings
	from datetime import date, datetime
	n = spec["n"]
	src = {"int-gap": [1, None, 3, 4, 5][:n] if n > 1 else [None], "int": list(range(1, n + 1)), "date-gap": ([date(2020, 1, 1), None] + [date(2020, 1, 2)] * n)[:n], "float-gap": ([1.5, None] + [2.5] * n)[:n], "str": [f"s{i}" for i in range(n)]}[spec["kind"]]
	ops = {"fillna-promoting": lambda v: v.fillna({"int-gap": 2.5, "int": 2.5, "date-gap": datetime(2020, 1, 1, 5), "float-gap": 1j, "str": "x"}[spec["kind"]]), "fillna-same": lambda v: v.fillna(v._underlying[0] if v._underlying[0] is not None else 0),
		"cast": lambda v: v.cast(str), "to_object": lambda v: v.to_object(), "dropna": lambda v: v.dropna(), "lshift-wider": lambda v: v << [2.5], "sort": lambda v: v.sort_by(), "copy": lambda v: v.copy(), "plus": lambda v: v + v,
		"isna": lambda v: v.isna(), "slice": lambda v: v[0:], "mask": lambda v: v[[True] * n], "promote-copy-by-write": lambda v: (lambda c: (c.__setitem__(0, None), c)[1])(v.copy()), "table-column": lambda v: Table({"a": v, "b": list(range(n))}).cols()[0],
		"table-fillna-column": lambda v: (Table({"a": v, "b": list(range(n))})["a"]).fillna(0) if spec["kind"] != "str" else v.copy()}
	with warnings.catch_warnings():
		warnings.simplefilter("ignore")
		v = Vector(list(src), name="v")
		try:
			r = ops[spec["op"]](v)
			failed = False
		except Exception:
			r = None
			failed = True
		fresh = []
		refused = None
		for size in (n, n + 1, max(n - 1, 1), max(len(r._underlying), 1) if r is not None and hasattr(r, "_underlying") else n):
			for i in range(spec["flood"]):
				f = Vector([i] * size)
				fresh.append(f)
				try:
					f[0] = -1
				except AliasError:
					refused = size
					break
			if refused is not None:
				break
	chk.judged("derived", ("result-then-flood", spec["op"], spec["kind"], n, failed))
	if refused is not None:
		chk.fail("a write is refused with AliasError only while another live vector really shares that storage", f"alias/spurious-refusal/fresh-vector-after-{spec['op']}", f"{spec!r}: a brand-new vector of {refused} cells was refused its first write while the result of {spec['op']} was alive")
		return
	if r is not None and hasattr(r, "_underlying") and len(r._underlying):
		w = call(r.__setitem__, 0, r._underlying[-1])
		if not w.ok and isinstance(w.exc, AliasError):
			chk.fail("operation results share storage with no other live vector and are always writable", f"alias/spurious-refusal/result-of-{spec['op']}", f"{spec!r}: {w!r}")


def run_iterator_of_vectors(chk, spec):
	"""a table built from vectors that arrive in a one-shot iterator (where that is accepted at all) holds columns of its own, like one built from a list"""
	import warnings
	n = spec["n"]
	a, b = Vector(list(range(n)), name="a"), Vector([10 + i for i in range(n)], name="b")
	forms = {"Vector(generator)": lambda: Vector(v for v in (a, b)), "Table(generator)": lambda: Table(v for v in (a, b)), "Vector(iter)": lambda: Vector(iter([a, b])), "Table(iter)": lambda: Table(iter([a, b])),
		"Vector(map)": lambda: Vector(map(lambda v: v, [a, b])), "Table(zip-first)": lambda: Table(x for x, _ in zip([a, b], range(2)))}
	with warnings.catch_warnings():
		warnings.simplefilter("ignore")
		o = call(forms[spec["form"]])
	chk.judged("sharing", ("iterator-of-vectors", spec["form"], n, o.ok))
	if not o.ok or not isinstance(o.value, Table) or len(o.value.cols()) != 2:
		chk.skip("iterator-of-vectors-not-accepted")
		return
	t = o.value
	if any(c is a or c is b for c in t.cols()):
		chk.fail("table columns share storage with no other live vector", f"alias/table-adopts-callers-vectors/{spec['form']}", f"{spec!r}: a column of the table IS the caller's vector object")
		return
	w1 = call(a.__setitem__, 0, 777)
	w2 = call(t.__setitem__, (n - 1, "b"), 888)
	if (not w1.ok and isinstance(w1.exc, AliasError)) or (not w2.ok and isinstance(w2.exc, AliasError)):
		chk.fail("a write is refused with AliasError only while another live vector really shares that storage", f"alias/spurious-refusal/iterator-of-vectors/{spec['form']}", f"{spec!r}: {w1!r} / {w2!r}")
		return
	if list(t.cols()[0]._underlying)[0] == 777 or list(b._underlying)[n - 1] == 888:
		chk.fail("two live vectors never observe each other's writes", f"alias/leaked-write/iterator-of-vectors/{spec['form']}", f"{spec!r}: table {[list(c._underlying) for c in t.cols()]!r}, a {list(a._underlying)!r}, b {list(b._underlying)!r}")


def run_failed_call_then_writes(chk, spec):
	"""a library call that FAILS half-way (and whose exception - traceback, frames and all - the program keeps, as a log or a test harness does) leaves no
	registration behind: the table's own columns and brand-new vectors of any size stay writable afterwards"""
	import warnings
	what = spec["what"]
	kept = []
	with warnings.catch_warnings():
		warnings.simplefilter("ignore")
		t = Table({"g": ["a", "b", "a"], "v": [1, 2, 3], "x y": [4, 5, 6], "x_y": [7, 8, 9]})
		u = Table({"k": ["a", "b"], "z": [1, 2]})
	def boom(vals):
		raise RuntimeError("callback fails")
	with warnings.catch_warnings():
		warnings.simplefilter("error" if what.startswith("replace") else "ignore")
		fails = {
			"window-raising-callback": lambda: t.window(over="g", apply={"o": ("v", boom)}), "aggregate-raising-callback": lambda: t.aggregate(over="g", apply={"o": ("v", boom)}),
			"window-wrong-length-column": lambda: t.window(over="g", sum_over=Vector([1, 2])), "aggregate-unsummable": lambda: t.aggregate(over=["g", "v"], sum_over="g"), "window-unsummable": lambda: t.window(over=["g", "v"], sum_over="g"),
			"join-cardinality": lambda: t.join(u, "g", "k", expect="one_to_one"), "join-bad-key": lambda: t.inner_join(u, "g", "nope"), "sort-bad-key": lambda: t.sort_by(["g", "nope"]),
			"replace-later-lookalike": lambda: setattr(t, "x_y__3", [1, 2, 3]), "replace-by-vector-lookalike": lambda: setattr(t, "x_y__3", Vector([1, 2, 3], name="x y")), "rename-lookalike": lambda: t.rename_column("v", "X Y"),
		}
		keep = spec.get("keep", True)
		exc = None
		try:
			fails[what]()
			failed = False
		except Exception as e:
			failed = True
			if keep:
				exc = e      # kept as a program keeps it: traceback, frames and their locals stay alive
			failure = repr(e)
			del e
		# brand-new vectors of the sizes the failed call juggled with (its column tuple, its rows) - FIRST, before this function builds any tuple of
		# its own, while the addresses the failed call freed are still free
		fresh = []
		refused = []
		if failed:
			for size in (4, 3, 2, 1):
				for i in range(spec["flood"]):
					f = Vector([i] * size)
					fresh.append(f)
					try:
						f[0] = -1
					except AliasError:
						refused.append(("fresh", size))
						break
	chk.judged("sharing", ("failed-call-then-writes", what, failed, keep))
	if not failed:
		chk.skip("failed-call-did-not-fail")
		return
	with warnings.catch_warnings():
		warnings.simplefilter("ignore")
		for j, col in enumerate(t.cols()):
			w = call(col.__setitem__, 0, col._underlying[1])
			if not w.ok and isinstance(w.exc, AliasError):
				refused.append(("column", j))
		w = call(t.__setitem__, (1, "g"), "b")
		if not w.ok and isinstance(w.exc, AliasError):
			refused.append(("cell", "g"))
	if refused:
		chk.fail("a write is refused with AliasError only while another live vector really shares that storage", f"alias/spurious-refusal/after-failed-call/{what}/{refused[0][0]}", f"{spec!r}: after {failure} (exception {'kept' if spec.get('keep', True) else 'dropped'}): refused {refused[:4]!r}")
	del exc


def _header_only():
	import io
	from ..bind import serif
	return serif.read_csv(io.StringIO("x,y\r\n", newline=""))


def run_promote_with_holder(chk, spec):
	"""something else (a copy-module clone, a row, a running iterator) keeps a vector's OLD storage alive while an in-place write promotes the vector; once it is
	dropped, fresh vectors whose storage reuses the freed identity share with nobody and must be writable"""
	import copy
	n, how = spec["n"], spec["holder"]
	chk.judged("sharing", ("promote-with-holder", how, n, spec["wide"]))
	wide = {"float": 2.5, "complex": 1j}[spec["wide"]]
	if how in ("copy.copy", "iterator"):
		v = Vector(list(range(1, n + 1)))
		holder = copy.copy(v) if how == "copy.copy" else iter(v)
		if how == "iterator":
			next(holder, None)
		w = call(v.__setitem__, 0, wide)
		owner = v
	else:
		t = Table([Vector(list(range(1, n + 1)), name="a"), Vector(list(range(n)), name="b")])
		holder = t[0]
		w = call(t.__setitem__, (0, "a"), wide) if how == "row-then-cell" else call(lambda: t.cols()[0].__setitem__(0, wide))
		owner = t
	if not w.ok:
		chk.skip("promote-with-holder-write-refused")
		return
	del holder
	gc.collect()
	fresh = [Vector([0] * n) for _ in range(spec["flood"])]
	refused = [k for k, f in enumerate(fresh) if not call(f.__setitem__, 0, 1).ok]
	if refused:
		chk.fail("a vector that shares storage with no other live vector is always writable (fresh vectors)", f"alias/spurious-refusal/fresh-vector-after-identity-reuse/promotion-while-{how}-held-the-old-storage",
			f"{spec!r}: after the promotion and after the {how} was dropped, {len(refused)} of {len(fresh)} fresh length-{n} vectors refused their first write")
		return
	o2 = call(owner.__setitem__, (0, "a") if isinstance(owner, Table) else 0, wide)
	if not o2.ok:
		chk.fail("a vector that shares storage with no other live vector is always writable", f"alias/spurious-refusal/promoted-vector/{how}", f"{spec!r}: a later write to the promoted vector raised {o2!r}")


DERIVED_OPS = ["empty-left-lshift-vector", "empty-left-lshift-tuple", "typed-empty-lshift-vector", "empty-mask-lshift-vector", "lshift-empty-vector", "copy", "slice-full", "slice-0-n", "slice-0-big", "slice-neg", "slice-step1", "mask-all", "mask-all-vector", "T", "lshift-empty", "rlshift-empty", "lshift-empty-tuple",
	"sort", "fillna", "dropna", "pos", "cast-same", "to_object", "index-all", "table-column", "table-column-slice", "unique", "copy-of-copy", "rshift-column", "lshift-none-then-slice"]
RUNNERS = {"result_then_flood": run_result_then_flood, "empty_reads": run_empty_reads, "iterator_of_vectors": run_iterator_of_vectors, "failed_call_then_writes": run_failed_call_then_writes, "empty_writes": run_empty_writes, "clone_writes": run_clone_writes, "twins": run_twins, "table_own_columns": run_table_own_columns, "promote_with_holder": run_promote_with_holder, "table_sharing": run_table_sharing, "history": run_history, "burst": run_burst, "sharing": run_sharing, "derived": run_derived}


def setup(chk):
	pool.CENSUS.install()


def run(chk):
	rng = chk.rng
	for k in (2, 3):
		for n in (1, 2, 3, 5):
			for release in ("del-gc", "del", "cycle"):
				for rep in range(2):
					chk.case("sharing", {"sharers": k, "n": n, "release": release}, "sharing")
	for use in ("sort_by", "sort_by-list", "aggregate", "aggregate-values", "window", "join-key", "rshift", "rshift-dict", "attr-assign", "mask-of", "arith", "repr-fp", "table-ctor", "setitem-value"):
		for k in (2, 3):
			for n in (2, 4):
				chk.case("sharing", {"sharers": k, "n": n, "release": "del-gc", "use": use}, "sharing-after-use")
	for op in DERIVED_OPS:
		for kind in ("int", "str", "float", "object", "object-nullable"):
			for n in (1, 2, 5):
				chk.case("derived", {"op": op, "kind": kind, "n": n, "seed": rng.randrange(10**9)}, "derived")
	for maker in ("literal", "named", "slice", "mask", "sorted", "copy", "dropna", "table-column", "typed", "table", "table-emptied", "table-sorted", "csv-header-only"):
		for write in ("slice", "mask", "view", "attr"):
			chk.case("empty_writes", {"maker": maker, "write": write}, "empty-writes")
	for maker in ("slice", "mask", "typed", "typed-list", "dropna", "float-slice", "date-slice", "str-mask", "table-column-emptied"):
		for read in ("fillna-float", "fillna-complex", "fillna-datetime", "fillna-same", "fillna-none", "lshift-wider", "plus", "cast", "copy", "sort", "isna", "to_object"):
			chk.case("empty_reads", {"maker": maker, "read": read}, "empty-reads")
	for op in ("fillna-promoting", "fillna-same", "cast", "to_object", "dropna", "lshift-wider", "sort", "copy", "plus", "isna", "slice", "mask", "promote-copy-by-write", "table-column", "table-fillna-column"):
		for kind in ("int-gap", "int", "date-gap", "float-gap", "str"):
			for n in (1, 2, 3, 5):
				chk.case("result_then_flood", {"op": op, "kind": kind, "n": n, "flood": 40 if chk.quick() else 200}, "result-then-flood")
	for form in ("Vector(generator)", "Table(generator)", "Vector(iter)", "Table(iter)", "Vector(map)", "Table(zip-first)"):
		for n in (1, 2, 3):
			chk.case("iterator_of_vectors", {"form": form, "n": n}, "iterator-of-vectors")
	for what in ("window-raising-callback", "aggregate-raising-callback", "window-wrong-length-column", "aggregate-unsummable", "window-unsummable", "join-cardinality", "join-bad-key", "sort-bad-key", "replace-later-lookalike", "replace-by-vector-lookalike", "rename-lookalike"):
		for keep in (True, False):
			chk.case("failed_call_then_writes", {"what": what, "flood": 150 if chk.quick() else 600, "keep": keep}, "failed-call-then-writes")
	for how in ("copy", "deepcopy"):
		for n in (1, 2, 4):
			for writes in (1, 2, 3, 5):
				for pattern in ("c", "cv", "vc", "ccv"):
					for promote in (False, True):
						chk.case("clone_writes", {"how": how, "n": n, "writes": writes, "pattern": pattern, "promote": promote}, "clone-writes")
	for op in TWIN_OPS:
		for kind in ("int", "str", "float"):
			for n in (1, 2, 5):
				chk.case("twins", {"op": op, "kind": kind, "n": n, "seed": rng.randrange(10**9)}, "derived-twins")
	for form in ("region-self-swapped", "region-own-column-list", "region-self-rotated", "region-own-column-list-mask", "plain", "indexed", "indexed-first", "upper"):
		for n in (1, 2, 4):
			chk.case("table_own_columns", {"form": form, "n": n, "seed": rng.randrange(10**9)}, "table-own-columns")
	for how in ("copy.copy", "iterator", "row-then-cell", "row-then-view"):
		for n in (1, 2, 3, 5, 8):
			for wide in ("float", "complex"):
				chk.case("promote_with_holder", {"holder": how, "n": n, "wide": wide, "flood": 60 if chk.quick() else 300}, "promote-with-holder")
	for form in ("ctor", "rshift", "ctor3", "t>>col"):
		for n in (1, 2, 3):
			chk.case("table_sharing", {"scenario": "same-vector-twice", "form": form, "n": n, "c": 2, "pos": 0, "seed": rng.randrange(10**9)}, "table-sharing")
	for form in ("cell-name", "cell-int", "column", "view", "names-list", "mask-rows"):
		for c in (2, 3):
			for pos in range(c):
				for n in (1, 2, 3):
					chk.case("table_sharing", {"scenario": "shared-column", "form": form, "n": n, "c": c, "pos": pos, "seed": rng.randrange(10**9)}, "table-sharing")
	idx = 0
	for w in range(1, 9):
		for n in (1, 2, 3):
			for gcmode in ("end", "each", "none", "disabled"):
				idx += 1
				if not chk.mine(idx):
					continue
				if chk.quick() and (idx % 3):
					continue
				chk.case("burst", {"seed": rng.randrange(10**9), "width": w, "rows": n, "reps": 6 if chk.quick() else 12, "gc": gcmode,
					"flood": 120 if chk.quick() else 400, "keep_p": 0.3}, "burst")
	for i in range(150 if chk.quick() else 400):
		chk.case("history", {"seed": rng.randrange(10**9), "nsteps": rng.choice([20, 40]) if chk.quick() else rng.choice([20, 40, 80]), "profile": rng.choice(["alias", "alias", "mixed"])}, "history")
	chk.counters["hook:tracker-register"] = pool.TRACKER_EVENTS["register"]
	chk.counters["hook:tracker-unregister"] = pool.TRACKER_EVENTS["unregister"]
	chk.counters["hook:tracker-check_writable"] = pool.TRACKER_EVENTS["check_writable"]
	chk.counters["hook:census-vectors-created"] = pool.CENSUS.created
