"""C18 - names propagate by fixed rules: math drops them, structure keeps them."""
import random
from datetime import date, datetime
import re

from ..bind import Vector, Table
from ..core import call, short
from .. import models as M
from . import common
from . import pool
from .c17 import model_sanitise

from . import recompute

RULE = ("[plus the shared recompute-after-history monitor: this property's operations evaluated on long-lived objects between in-place writes / renames must equal the same operations on fresh objects rebuilt from the current contents] "
	"random compositions (depth 1-4) of the public operations over named / unnamed vectors and tables with repeated, unsanitary, reserved and "
	"missing names: after every operation the result's .name / .column_names() is compared with the rule table applied to the operands' actual "
	"names - vector-with-vector arithmetic and comparisons give unnamed results; copy, slice, mask, sort_by, in-place writes and promotion keep "
	"the name; table-with-scalar keeps every column name; table-with-table keeps the left name iff the right name is absent or equal; Table([..]), "
	"Vector([..]), >> (vector / table / dict), row mask, row slice, sort_by and the three joins keep the source names in order; aggregate and "
	"window name their outputs after the key names and <sanitised column>_<function>, pairwise distinct through numeric suffixes (same column "
	"aggregated up to three times, keys named like outputs, apply names colliding with built-in names, several keys with the same or no name). "
	"distinct = (operation, operand name classes, depth).")
ASSUMPTIONS = [
	"vector-with-scalar arithmetic, unary operations, cast / fillna / dropna and << are not in the statement and are not judged",
	"empty-string names are treated as unnamed (unconstrained) in aggregate / window naming; in table-with-table arithmetic a stored empty-string name is a present name (absent = None)",
	"for unnamed key / aggregated columns only uniqueness is required; for reserved column names both name_fn and name__fn are accepted",
	"the order of aggregate output columns is not part of the statement: names are matched as a multiset after the key columns",
]
EXHAUSTIVE = {"flag": False, "scope": "sampled compositions; the operation table is complete"}
ANCHOR_FUNCS = ["vector:Vector._elementwise_operation", "vector:Vector.copy", "table:_resolve_binary_name", "table:Table._table_elementwise_operation",
	"table:Table.aggregate", "table:Table.window", "table:Table.sort_by", "table:Table.__rshift__"]
REQUIRED_STRATA = {"recompute": 200, "vector-op": 400, "table-op": 400, "agg-names": 300}

NAMES = [None, None, "a", "b", "a", "Total $", "sum", "x y", "A", "k", "v_sum", "mean", "2x", "é", "count", ""]
FN_SUFFIX = ("sum", "mean", "min", "max", "count", "stdev")


def vec(rng, n, name):
	vals = [rng.choice([1, 2, 3, 4, None]) if rng.random() < 0.5 else rng.choice([1, 2, 3]) for _ in range(n)]
	if vals and all(x is None for x in vals):
		vals[0] = 1
	return Vector(vals, name=name) if name is not None else Vector(vals)


def table(rng, n, names):
	return Table([vec(rng, n, nm) for nm in names])


def ncls(nm):
	if nm is None:
		return "none"
	if nm == "":
		return "empty"
	return "dup-prone" if nm in ("a", "k") else ("odd" if re.search(r"[^a-z0-9_]", nm) else "plain")


def fail_names(chk, op, spec_desc, got, exp, what):
	chk.fail(what, f"names/{op}", f"{spec_desc}: got {got!r}, rule gives {exp!r}")


def run_chain(chk, spec):
	rng = random.Random(spec["seed"])
	n = spec["n"]
	vectors = [vec(rng, n, rng.choice(NAMES)) for _ in range(3)]
	tables = [table(rng, n, [rng.choice(NAMES) for _ in range(rng.choice([1, 2, 3]))]) for _ in range(2)]
	trace = []
	held = []

	def check_held():
		# no operation of the previous step may have renamed anything that already existed
		for x, nm in held:
			cur = x.column_names() if isinstance(x, Table) else x.name
			if cur != nm:
				fail_names(chk, f"operand-renamed/{trace[-1].split('(')[0].split(' ')[0] if trace else 'start'}", f"{trace}", cur, nm, "operations keep the stored names of the objects they read")
				return False
		return True
	for depth in range(spec["depth"]):
		if depth and not check_held():
			return
		held = [(x, x.name) for x in vectors] + [(t, t.column_names()) for t in tables]
		kind = rng.choice(["vv", "vkeep", "ts", "tt", "build", "tkeep", "join", "vv-date", "tattr", "rename-derived", "gather"])
		if kind == "vv":
			a, b = rng.choice(vectors), rng.choice(vectors)
			opn = rng.choice(["add", "sub", "mul", "truediv", "eq", "lt", "ne", "ge", "radd-list-none", "add-incompatible", "sub-incompatible", "mul-decimal"])
			if opn in ("add-incompatible", "sub-incompatible"):
				b = Vector(["x"] * len(a), name=rng.choice(NAMES))      # int (op) str: serif pairs the operands instead of raising - still a vector-vector result
			elif opn == "mul-decimal":
				from decimal import Decimal
				a = Vector([1.5] * len(a), name=rng.choice(NAMES))
				b = Vector([Decimal("2")] * len(a), name=rng.choice(NAMES))
			f = {"add-incompatible": lambda: a + b, "sub-incompatible": lambda: a - b, "mul-decimal": lambda: a * b, "add": lambda: a + b, "sub": lambda: a - b, "mul": lambda: a * b, "truediv": lambda: a / b, "eq": lambda: a == b, "lt": lambda: a < b,
				"ne": lambda: a != b, "ge": lambda: a >= b, "radd-list-none": lambda: a + b}[opn]
			o = call(f)
			chk.judged("vector-op", ("vv", opn, ncls(a.name), ncls(b.name), depth))
			trace.append(f"{opn}({a.name!r},{b.name!r})")
			if not o.ok:
				continue
			if o.value.name is not None:
				fail_names(chk, f"vector-vector/{'comparison' if opn in ('eq', 'lt', 'ne', 'ge') else 'arithmetic'}/result-named", f"{trace}", o.value.name, None,
					"binary arithmetic and comparisons between vectors give unnamed results")
				return
			vectors.append(o.value)
		elif kind == "vv-date":
			from datetime import date as _date
			a = rng.choice(vectors)
			d = Vector([_date(2020, 1, 1 + i) for i in range(n)], name=rng.choice(NAMES)) if n else None
			if d is None:
				continue
			days = Vector([rng.choice([1, 2, 30]) for _ in range(n)], name=rng.choice(NAMES))
			opn = rng.choice(["date+intvec", "date-date", "date<date", "date+days-list"])
			f = {"date+intvec": lambda: d + days, "date-date": lambda: d - d.copy(), "date<date": lambda: d < d.copy(), "date+days-list": lambda: d + days}[opn]
			o = call(f)
			chk.judged("vector-op", ("vv-date", opn, ncls(d.name), ncls(days.name), depth))
			trace.append(f"{opn}({d.name!r},{days.name!r})")
			if not o.ok or not isinstance(o.value, Vector):
				continue
			if o.value.name is not None:
				fail_names(chk, f"vector-vector/{opn}/result-named", f"{trace}", o.value.name, None, "binary arithmetic and comparisons between vectors give unnamed results")
				return
			if d.name is not None and (d.name, days.name) != (d.name, days.name):
				pass
		elif kind == "rename-derived":
			# a table derived from another is renamed: the other (held) keeps its names - checked by the held-names rule at the next step / at the end
			t0 = rng.choice(tables)
			how = rng.choice(["copy", "rshift-vector", "Table(cols)", "rowslice", "select-all"])
			d = call({"copy": lambda: t0.copy(), "rshift-vector": lambda: t0 >> vec(rng, len(t0), "extra"), "Table(cols)": lambda: Table(list(t0.cols())), "rowslice": lambda: t0[0:len(t0)],
				"select-all": lambda: t0[tuple(nm for nm in t0.column_names() if isinstance(nm, str))] if all(isinstance(nm, str) and nm for nm in t0.column_names()) else t0.copy()}[how])
			trace.append(f"rename-derived {how}")
			chk.judged("table-op", ("rename-derived", how, len(t0) == 0, depth))
			if not d.ok or not isinstance(d.value, Table) or not d.value.cols():
				continue
			dt = d.value
			nm0 = dt.column_names()[0]
			if isinstance(nm0, str) and nm0 and rng.random() < 0.5:
				call(dt.rename_column, nm0, "renamed_in_copy")
			else:
				call(lambda: setattr(dt.cols()[0], "name", "renamed_in_copy"))
			tables.append(dt)
		elif kind == "gather":
			# rows gathered by an index VECTOR (also on long tables: library fast paths by size): a selection like any other
			big = rng.random() < 0.15
			t0 = Table([Vector(list(range(1200)), name=nm) for nm in rng.choice(tables).column_names()[:2]]) if big else rng.choice(tables)
			m = len(t0)
			if m == 0 or not t0.cols():
				continue
			idx = Vector([rng.randrange(m) for _ in range(rng.choice([1, 2, 3]))])
			names0 = t0.column_names()
			o = call(lambda: t0[idx])
			v0 = t0.cols()[0]
			ov = call(lambda: v0[idx])
			chk.judged("table-op", ("gather", big, tuple(ncls(x) for x in names0), depth))
			trace.append(f"gather on {names0!r} big={big}")
			if o.ok and isinstance(o.value, Table) and len(o.value) and o.value.column_names() != names0:
				fail_names(chk, "table/gather" + ("-long" if big else ""), f"{trace}", o.value.column_names(), names0, "filtered, sliced and sorted tables keep each column's stored name in order")
				return
			if ov.ok and isinstance(ov.value, Vector) and len(ov.value) and ov.value.name != v0.name:
				fail_names(chk, "vector/gather" + ("-long" if big else "") + "/name-not-kept", f"{trace}", ov.value.name, v0.name, "copy, slicing, masking, sorting keep a vector's name")
				return
		elif kind == "tattr":
			# replacing a column through its accessor is an in-place write: every stored name stays (an unnamed column stays unnamed)
			from . import pool as _pool
			t0 = rng.choice(tables)
			c = call(t0.copy)
			if not c.ok or not isinstance(c.value, Table) or not c.value.cols() or len(c.value) == 0:
				continue
			t = c.value
			names = t.column_names()
			j = rng.randrange(len(names))
			acc = _pool.accessor_for(t, j)
			donor = vec(rng, len(t), rng.choice(["donor", "a", None, "Total $"]))
			form = rng.choice(["vector", "list", "derived"])
			src = donor if form == "vector" else (list(donor) if form == "list" else donor[::-1])
			if acc is None:
				continue
			o = call(lambda: setattr(t, acc, src))
			chk.judged("table-op", ("tattr", form, ncls(names[j]), ncls(donor.name), depth))
			trace.append(f"tattr {names!r}[{j}] = {form} named {donor.name!r}")
			if not o.ok:
				continue
			if t.column_names() != names:
				fail_names(chk, f"table/attribute-replacement/{'unnamed-column' if names[j] is None else 'named-column'}", f"{trace}", t.column_names(), names,
					"in-place writes keep the stored names (replacing a column keeps that column's stored name, None included)")
				return
			tables.append(t)
		elif kind == "vkeep":
			a = rng.choice(vectors)
			opn = rng.choice(["copy", "slice", "slice-empty", "mask", "mask-vector", "sort_by", "sort_by-reverse", "write", "write-slice", "promote", "write-none"])
			name_before = a.name
			if opn == "copy":
				o = call(a.copy)
			elif opn == "slice":
				o = call(lambda: a[0:max(1, n - 1)])
			elif opn == "slice-empty":
				o = call(lambda: a[n:n + 3])
			elif opn == "mask":
				o = call(lambda: a[[i % 2 == 0 for i in range(n)]])
			elif opn == "mask-vector":
				o = call(lambda: a[Vector([i % 2 == 1 for i in range(n)])] if n else a.copy())
			elif opn in ("sort_by", "sort_by-reverse"):
				o = call(lambda: a.sort_by(reverse=opn.endswith("reverse")))
			else:
				tgt = call(a.copy).value
				if opn == "write":
					w = call(tgt.__setitem__, 0, 9)
				elif opn == "write-slice":
					w = call(tgt.__setitem__, slice(None), [7] * len(tgt))
				elif opn == "promote":
					w = call(tgt.__setitem__, 0, 2.5)
				else:
					w = call(tgt.__setitem__, 0, None)
				o = w
				if w.ok:
					o = type(w)(True, tgt)
			chk.judged("vector-op", ("vkeep", opn, ncls(name_before), depth))
			trace.append(f"{opn}({name_before!r})")
			if not o.ok or not isinstance(o.value, Vector):
				continue
			if o.value.name != name_before:
				fail_names(chk, f"vector/{opn}/name-not-kept", f"{trace}", o.value.name, name_before, "copy, slicing, masking, sorting, in-place writes and promotion keep a vector's name")
				return
			if a.name != name_before:
				fail_names(chk, f"vector/{opn}/operand-renamed", f"{trace}", a.name, name_before, "operations do not rename their operands")
				return
			vectors.append(o.value)
		elif kind == "ts":
			t = rng.choice(tables)
			opn = rng.choice(["add", "sub", "mul", "truediv", "floordiv", "mod", "pow"])
			k = rng.choice([1, 2, 0.5])
			o = call(common.BIN_OPS[opn], t, k)
			chk.judged("table-op", ("ts", opn, tuple(ncls(x) for x in t.column_names()), depth))
			trace.append(f"table{t.column_names()!r} {opn} {k}")
			if not o.ok or not isinstance(o.value, Table):
				continue
			if o.value.column_names() != t.column_names():
				fail_names(chk, f"table-scalar/{opn}", f"{trace}", o.value.column_names(), t.column_names(), "table-with-scalar arithmetic keeps every column name")
				return
			tables.append(o.value)
		elif kind == "tt":
			t = rng.choice(tables)
			same_width = [u for u in tables if len(u.cols()) == len(t.cols())]
			u = rng.choice(same_width)
			if rng.random() < 0.5:
				# a right table with controlled names: equal, absent, different
				rn = [rng.choice([ln, None, "other", ln, "", ("".join(list(ln)) if isinstance(ln, str) else ln), ("".join(list(ln)) if isinstance(ln, str) else ln)]) for ln in t.column_names()]      # (equal names built at run time are other string objects)
				u = table(rng, n, rn)
			opn = rng.choice(["add", "sub", "mul", "truediv"])
			o = call(common.BIN_OPS[opn], t, u)
			ln, rn = t.column_names(), u.column_names()
			chk.judged("table-op", ("tt", opn, tuple((ncls(a), ncls(b), a == b) for a, b in zip(ln, rn)), depth))
			trace.append(f"table{ln!r} {opn} table{rn!r}")
			if not o.ok or not isinstance(o.value, Table):
				continue
			got = o.value.column_names()
			for i, (a, b) in enumerate(zip(ln, rn)):
				exp = a if (b is None or b == a) else None
				if got[i] != exp:
					cls = "kept-although-right-differs" if got[i] == a and exp is None else ("dropped-although-right-absent-or-equal" if got[i] is None else "wrong-name")
					fail_names(chk, f"table-table/{cls}", f"{trace} column {i}", got[i], exp, "table-with-table arithmetic keeps a left name only when the right name is absent or equal")
					return
			tables.append(o.value)
		elif kind == "build":
			opn = rng.choice(["Table", "Vector", "v>>w", "t>>v", "t>>t", "t>>dict", "t>>dict-vector", "t>>list"])
			a, b = rng.choice(vectors), rng.choice(vectors)
			t, u = rng.choice(tables), rng.choice(tables)
			if opn == "Table":
				o, exp = call(lambda: Table([a, b])), [a.name, b.name]
			elif opn == "Vector":
				o, exp = call(lambda: Vector([a, b])), [a.name, b.name]
			elif opn == "v>>w":
				o, exp = call(lambda: a >> b), [a.name, b.name]
			elif opn == "t>>v":
				o, exp = call(lambda: t >> a), t.column_names() + [a.name]
			elif opn == "t>>t":
				o, exp = call(lambda: t >> u), t.column_names() + u.column_names()
			elif opn == "t>>dict":
				nm = rng.choice(["new", "a", "Total $"])
				o, exp = call(lambda: t >> {nm: [1] * len(t)}), t.column_names() + [nm]
			elif opn == "t>>dict-vector":
				nm = rng.choice(["new", "a"])
				o, exp = call(lambda: t >> {nm: a}), t.column_names() + [nm]
			else:
				o, exp = call(lambda: t >> [1] * len(t)), None
			chk.judged("table-op", ("build", opn, depth))
			trace.append(f"{opn}")
			if not o.ok or not isinstance(o.value, Table):
				continue
			if exp is not None and o.value.column_names() != exp:
				fail_names(chk, f"build/{opn}", f"{trace}", o.value.column_names(), exp, "tables built from vectors or stacked with >> keep each source column's stored name in order")
				return
			if opn == "t>>dict-vector" and a.name != (trace and a.name):
				pass
			tables.append(o.value)
		elif kind == "tkeep":
			t = rng.choice(tables)
			names = t.column_names()
			opn = rng.choice(["rowmask", "rowmask-vector", "rowslice", "rowslice-empty", "sort_by", "sort_by-reverse", "sort_by-two"])
			m = len(t)
			if opn == "rowmask":
				o = call(lambda: t[[i % 2 == 0 for i in range(m)]]) if m else None
			elif opn == "rowmask-vector":
				o = call(lambda: t[Vector([True] * m)]) if m else None
			elif opn == "rowslice":
				o = call(lambda: t[0:max(1, m - 1)])
			elif opn == "rowslice-empty":
				o = call(lambda: t[m:m + 2])
			else:
				keys = [c for c in t.cols()]
				if opn == "sort_by-two" and len(keys) > 1:
					o = call(lambda: t.sort_by([keys[0], keys[-1]], reverse=[False, True]))
				else:
					o = call(lambda: t.sort_by(keys[0], reverse=opn.endswith("reverse")))
			if o is None:
				continue
			chk.judged("table-op", ("tkeep", opn, tuple(ncls(x) for x in names), len(set(names)) < len(names), depth))
			trace.append(f"{opn} on {names!r}")
			if not o.ok or not isinstance(o.value, Table):
				continue
			got = o.value.column_names()
			if len(o.value) == 0 and not got:
				continue
			if got != names:
				fail_names(chk, f"table/{opn}", f"{trace}", got, names, "filtered, sliced and sorted tables keep each column's stored name in order")
				return
			tables.append(o.value)
		else:
			t, u = rng.choice(tables), rng.choice(tables)
			how = rng.choice(["inner_join", "join", "full_join"])
			lk, rk = t.cols()[0], u.cols()[0]
			o = call(lambda: getattr(t, how)(u, lk, rk, expect="many_to_many"))
			chk.judged("table-op", ("join", how, depth))
			trace.append(f"{how} {t.column_names()!r} x {u.column_names()!r}")
			if not o.ok or not isinstance(o.value, Table) or len(o.value) == 0:
				continue
			exp = t.column_names() + u.column_names()
			if o.value.column_names() != exp:
				fail_names(chk, f"join/{how}", f"{trace}", o.value.column_names(), exp, "joined tables keep each source column's stored name in order")
				return
			tables.append(o.value)
		vectors = vectors[-6:]
		tables = tables[-5:]
	check_held()


def match_names(got, bases):
	"""every got name must be a base or base + digits of a distinct request (bipartite matching by backtracking);
	returns the got names that cannot be matched (empty list = a full assignment exists)"""
	got = list(got)

	def fits(g, alts):
		if alts is None:
			return True      # unconstrained request (unnamed column)
		return any(g == b or (isinstance(g, str) and g.startswith(b) and g[len(b):].isdigit()) for b in alts)

	cands = [[k for k, alts in enumerate(bases) if fits(g, alts)] for g in got]
	order = sorted(range(len(got)), key=lambda i: len(cands[i]))
	used = set()

	def solve(pos):
		if pos == len(order):
			return True
		i = order[pos]
		for k in cands[i]:
			if k not in used:
				used.add(k)
				if solve(pos + 1):
					return True
				used.discard(k)
		return False

	if len(got) <= len(bases) and solve(0):
		return []
	return [g for g, c in zip(got, cands) if not c] or got


def san_alts(name, fn):
	"""acceptable bases for <sanitised column>_<function>; None = unconstrained"""
	if name is None or name == "":
		return None
	s = model_sanitise(name)
	if s is None or s == ("unnamed",):
		return None
	from .c17 import base_dir
	_, public = base_dir()
	if s in {p.lower() for p in public}:
		return {f"{s}_{fn}", f"{s}__{fn}"}     # a reserved name gets a trailing underscore first: either spelling is accepted
	return {f"{s}_{fn}"}


def run_agg_names(chk, spec):
	t_pre = common.mk_table(spec["table"])
	ext = [common.resolve_ref(t_pre, r) for r in spec["over"]]
	ext_names = [(x, x.name) for x in ext if isinstance(x, Vector)]
	names_pre = t_pre.column_names()
	over = ext if not (spec.get("scalar_over") and len(ext) == 1) else ext[0]
	pre = call(lambda: getattr(t_pre, spec["op"])(over, count_over=[t_pre.cols()[-1]]))
	if t_pre.column_names() != names_pre or any(x.name != nm for x, nm in ext_names):
		chk.fail("aggregate / window name their OUTPUTS; the table and the key vectors they read keep their stored names", f"names/{spec['op']}/operand-renamed",
			f"{spec!r}: table names {names_pre!r} -> {t_pre.column_names()!r}; key vector names {[nm for _, nm in ext_names]!r} -> {[x.name for x, _ in ext_names]!r}")
		return
	o, t = common.do_agg(spec)
	op = spec["op"]
	keynames = [common.ref_name(r) for r in spec["over"]]
	chk.judged("agg-names", ("aggnames", op, tuple(ncls(k) for k in keynames), tuple(sorted((f, len(r)) for f, r in spec["aggs"].items())), tuple(a["out"] for a in spec["apply"])))
	if not o.ok or not isinstance(o.value, Table):
		chk.skip("agg-names-raised")
		return
	got = o.value.column_names()
	nk = len(keynames)
	if len(set(map(repr, got))) != len(got):
		dups = sorted({g for g in got if got.count(g) > 1}, key=str)
		chk.fail("aggregate / window output names are made unique by numeric suffixes", f"names/{op}/duplicate-output-names", f"{spec!r}: output names {got!r} repeat {dups!r}")
		return
	keyalts = [None if (k is None or k == "") else {k} for k in keynames]
	bad = match_names(got[:nk], keyalts)
	if bad:
		chk.fail("key columns come first under the key names", f"names/{op}/key-names", f"{spec!r}: first {nk} output names {got[:nk]!r}, key names {keynames!r}")
		return
	bases = []
	for fn, refs in spec["aggs"].items():
		for r in refs:
			bases.append(san_alts(common.ref_name(r), fn))
	for a in spec["apply"]:
		bases.append({a["out"]})
	bad = match_names(got[nk:], bases)
	if bad or len(got) - nk != len(bases):
		chk.fail("outputs are named <sanitised column>_<function> (custom outputs by their given name), suffixed to be unique", f"names/{op}/output-names",
			f"{spec!r}: output names {got[nk:]!r} do not match requests {[sorted(b) if b else None for b in bases]!r} (unmatched {bad!r})")


def run_label_names(chk, spec):
	"""labels that are not strings and compare equal across types (1, True, 1.0): each output is named after ITS column's label"""
	lab = {"1": 1, "True": True, "1.0": 1.0, "2023": 2023, "2023.0": 2023.0, "0": 0, "False": False, "0.0": 0.0}
	exp_base = {"1": "c1", "True": "true", "1.0": "c1_0", "2023": "c2023", "2023.0": "c2023_0", "0": "c0", "False": "false", "0.0": "c0_0"}
	n = 3
	cols = [Vector(["a", "b", "a"], name="k")] + [Vector([1, 2, 3], name=lab[x]) for x in spec["labels"]]
	t = Table(cols)
	fn = spec["fn"]
	o = call(lambda: getattr(t, spec["op"])(over="k", **{fn + "_over": list(t.cols()[1:])}))
	chk.judged("agg-names", ("label-names", spec["op"], fn, tuple(spec["labels"])))
	if not o.ok or not isinstance(o.value, Table):
		chk.skip("label-names-raised")
		return
	got = o.value.column_names()[1:]
	want = [f"{exp_base[x]}_{fn}" for x in spec["labels"]]
	if got != want:
		chk.fail("outputs are named <sanitised column>_<function>", f"names/{spec['op']}/output-names/non-string-labels", f"{spec!r}: labels {[lab[x] for x in spec['labels']]!r}: output names {got!r}, rule gives {want!r}")

def _str_labels():
	import enum

	class Col(str, enum.Enum):
		PRICE = "price"
		QTY = "Unit Qty"

	class Tagged(str):
		def __str__(self):
			return f"<col {str.__str__(self)}>"
		__repr__ = object.__repr__

	return {"enum-price": Col.PRICE, "enum-qty": Col.QTY, "tagged-amount": Tagged("amount"), "tagged-total": Tagged("Total $")}, {"enum-price": "price", "enum-qty": "unit_qty", "tagged-amount": "amount", "tagged-total": "total"}


def run_str_subclass_labels(chk, spec):
	"""a label that IS a string - an instance of a str subclass (a str-valued Enum member, a tagged label class) whose __str__ says something else - is
	sanitised from its characters: outputs are named <those characters sanitised>_<function>, and structural operations hand the label on as it is"""
	lab, base = _str_labels()
	keys = list(spec["labels"])
	t = Table([Vector(["a", "b", "a"], name="k")] + [Vector([1, 2, 3], name=lab[x]) for x in keys])
	fn = spec["fn"]
	o = call(lambda: getattr(t, spec["op"])(over="k", **{fn + "_over": list(t.cols()[1:])}))
	chk.judged("agg-names", ("str-subclass-labels", spec["op"], fn, tuple(keys)))
	if not o.ok or not isinstance(o.value, Table):
		chk.skip("label-names-raised")
		return
	got = o.value.column_names()[1:]
	want = [f"{base[x]}_{fn}" for x in keys]
	if got != want:
		chk.fail("outputs are named <sanitised column>_<function>", f"names/{spec['op']}/output-names/str-subclass-labels", f"{spec!r}: labels {[str.__str__(lab[x]) for x in keys]!r} (str subclass instances): output names {got!r}, rule gives {want!r}")
		return
	for what, r in (("slice", call(lambda: t[0:2])), ("sort", call(lambda: t.sort_by("k"))), ("copy", call(t.copy)), ("t+1", call(lambda: t[tuple(str.__str__(lab[x]) for x in keys)] + 1))):
		if r.ok and isinstance(r.value, Table):
			names = r.value.column_names()[-len(keys):]
			if any(a is not b and not (type(a) is type(b) and a == b) for a, b in zip(names, [lab[x] for x in keys])):
				chk.fail("structural operations keep each source column's stored name", f"names/{what}/str-subclass-label-changed", f"{spec!r}: {what} gives labels {[type(a).__name__ for a in names]!r}")
				return


def run_equal_label_rename(chk, spec):
	"""a rename to a label that compares EQUAL to the current one (1.0 -> 1, 1 -> True, 0 -> False, 'a' -> a str subclass 'a') is a rename: the stored label is
	the new object, structural operations carry it, aggregate / window sanitise it"""
	pairs = {"1.0->1": (1.0, 1, "c1"), "1->True": (1, True, "true"), "0->False": (0, False, "false"), "True->1": (True, 1, "c1"), "2023.0->2023": (2023.0, 2023, "c2023"), "1->1.0": (1, 1.0, "c1_0")}
	old, new, base = pairs[spec["pair"]]
	t = Table([Vector(["a", "b", "a"], name="k"), Vector([1, 2, 3], name=old)])
	how = spec["how"]
	if how == "view":
		o = call(setattr, t.cols()[1], "name", new)
	elif how == "view-after-dir":
		call(dir, t)
		o = call(setattr, t.cols()[1], "name", new)
	elif how == "rename_column":
		o = call(t.rename_column, old, new)
	else:
		o = call(t.rename_columns, [old], [new])
	chk.judged("chain", ("equal-label-rename", spec["pair"], how))
	if not o.ok:
		chk.skip("equal-label-rename-refused")
		return
	same = lambda a, b: type(a) is type(b) and a == b
	for what, f in (("column_names", lambda: t), ("slice", lambda: t[0:2]), ("mask", lambda: t[[True, False, True]]), ("sort", lambda: t.sort_by("k")), ("copy", lambda: t.copy()), ("t*2", lambda: t[1:2, 1:2] * 2), (">>", lambda: t >> Vector([7, 8, 9], name="z"))):
		r = call(f)
		if not r.ok or not isinstance(r.value, Table):
			continue
		names = r.value.column_names()
		hit = [nm for nm in names if nm == new and not isinstance(nm, str)]
		if not hit or not same(hit[0], new):
			chk.fail("a renamed column carries its new label through structural operations", f"names/{what}/equal-label-rename-lost/{how}", f"{spec!r}: after renaming {old!r} to {new!r} ({how}), {what} shows labels {[(type(x).__name__, x) for x in names]!r}")
			return
	for op in ("aggregate", "window"):
		a = call(lambda: getattr(t, op)(over="k", sum_over=t.cols()[1]))
		if a.ok and isinstance(a.value, Table):
			got = a.value.column_names()[-1]
			if got != f"{base}_sum":
				chk.fail("outputs are named <sanitised column>_<function>", f"names/{op}/output-names/equal-label-rename/{how}", f"{spec!r}: after renaming {old!r} to {new!r} the sum is named {got!r}, rule gives {base + '_sum'!r}")
				return

def run_more_name_rules(chk, spec):
	"""(a) labels with letters whose case fold is ASCII (ß, ſ, the fi ligature) are sanitised as the documented rule says - lower-case, every run of other characters one
	underscore - in the output names of aggregate / window; (b) a selection t[:, name] is a result of its own: renaming it leaves the source's names alone; (c) a string key
	in a non-exact spelling means the column the table would give for it NOW, also right after an earlier column was renamed through its vector; (d) fillna keeps the name,
	also when the fill value widens the kind"""
	import warnings
	what = spec["what"]
	chk.judged("chain", ("more-name-rules", what, spec.get("variant")))
	with warnings.catch_warnings():
		warnings.simplefilter("ignore")
		if what == "fold-letters":
			label, base = {"strasse": ("stra\u00dfe", "stra_e"), "long-s": ("ma\u017fs", "ma_s"), "fi": ("\ufb01n", "n"), "capital-sharp-s": ("STRA\u1e9eE", "stra_e"), "dotless-i": ("\u0131d", "d"), "plain": ("Stra Sse", "stra_sse")}[spec["variant"]]
			t = Table([Vector(["a", "b", "a"], name="k"), Vector([1, 2, 3], name=label)])
			for op in ("aggregate", "window"):
				o = call(lambda: getattr(t, op)(over="k", sum_over=t.cols()[1]))
				if o.ok and o.value.column_names()[-1] != f"{base}_sum":
					chk.fail("outputs are named <sanitised column>_<function>", f"names/{op}/output-names/fold-letters", f"{spec!r}: label {label!r}: output named {o.value.column_names()[-1]!r}, the documented rule gives {base + '_sum'!r}")
					return
		elif what == "selection-rename-local":
			t = Table({"a": [1, 2, 3], "b": [4, 5, 6], "c": [7, 8, 9]})
			sel = call({"t[:, name]": lambda: t[:, "b"], "t[:, j]": lambda: t[:, 1], "t[name, :]": lambda: t["b", :], "t[0:3, name]": lambda: t[0:3, "b"], "t[:, (name,)]": lambda: t[:, ("b",)], "t[mask][name]": lambda: t[[True, True, True]]["b"]}[spec["variant"]])
			if not sel.ok:
				return
			target = sel.value.cols()[0] if isinstance(sel.value, Table) else sel.value
			if target.name != "b":
				chk.fail("slicing keeps the source column's name", f"names/selection/name-lost/{spec['variant']}", f"{spec!r}: selection is named {target.name!r}")
				return
			call(setattr, target, "name", "renamed")
			call(target.alias, "aliased") if target.name is None else None
			if t.column_names() != ["a", "b", "c"]:
				chk.fail("a selection is a result of its own: naming it does not rename the source", f"names/selection/rename-reaches-source/{spec['variant']}", f"{spec!r}: source names now {t.column_names()!r}")
		elif what == "spelled-key-after-view-rename":
			def build(names):
				return Table([Vector([1, 1, 2], name=names[0]), Vector(["x", "y", "x"], name=names[1]), Vector([10, 20, 30], name=names[2])])
			t = build(["qty", "Units", "price"])
			if spec["variant"].startswith("touched"):
				call(dir, t)
			call(setattr, t.cols()[0], "name", "units")        # the first column's sanitised name now equals the accessor the second column had
			fresh = build(["units", "Units", "price"])
			for label, f in (("aggregate", lambda x: x.aggregate(over="UNITS", sum_over="price")), ("window", lambda x: x.window(over="UNITS", sum_over="price")), ("sort_by", lambda x: x.sort_by("UNITS")),
					("join", lambda x: x.join(Table({"u": [1, 2], "z": [5, 6]}), "UNITS", "u", expect="many_to_one") if False else x.aggregate(over=["UNITS"], max_over="price"))):
				a, b = call(f, t), call(f, fresh)
				if a.ok != b.ok or (a.ok and (a.value.column_names() != b.value.column_names() or [list(c._underlying) for c in a.value.cols()] != [list(c._underlying) for c in b.value.cols()])):
					chk.fail("a column asked for by name is the column the table holds under that name now", f"names/{label}/spelled-key-after-view-rename", f"{spec!r}: renamed table gives {short(a, 200)}, a table built with these names gives {short(b, 200)}")
					return
		elif what == "nested-apply-names":
			# an apply function that itself calls aggregate / window (on this or another table) while the outer call is naming its outputs: the outer names are
			# those the same request gets with a plain function
			t = Table({"k": ["a", "b", "a"], "v": [1, 2, 3], "w": [4, 5, 6]})
			other = Table({"k": [1, 1], "v": [2, 3]})
			inner = {"aggregate-same-table": lambda: t.aggregate(over="k", sum_over="v"), "window-same-table": lambda: t.window(over="k", sum_over="v"), "aggregate-other-table": lambda: other.aggregate(over="k", sum_over="v", max_over="v"),
				"window-other-table": lambda: other.window(over="k", count_over="v")}[spec["variant"]]
			def nested(vals):
				inner()
				return len(vals)
			for op in ("aggregate", "window"):
				for req in (dict(over="k", sum_over="v", apply={"k": ("w", None), "v_sum": ("v", None)}), dict(over=["k"], sum_over=["v", "v"], max_over="w", apply={"w_max": ("w", None), "k2": ("v", None), "v_sum2": ("w", None)})):
					a = call(lambda: getattr(t, op)(**dict(req, apply={nm: (c, nested) for nm, (c, _) in req["apply"].items()})))
					b = call(lambda: getattr(t, op)(**dict(req, apply={nm: (c, len) for nm, (c, _) in req["apply"].items()})))
					if a.ok and b.ok and a.value.column_names() != b.value.column_names():
						chk.fail("aggregate and window name their outputs after the key names and <column>_<function>, made unique by numeric suffixes", f"names/{op}/output-names/nested-apply/{spec['variant']}",
							f"{spec!r}: with an apply function that calls {spec['variant']}: {a.value.column_names()!r}; with a plain function: {b.value.column_names()!r}")
						return
		elif what == "empty-typed-arithmetic":
			# a NAMED vector filtered down to zero rows still has its dtype: arithmetic and comparisons with it give unnamed results like any other
			src = Vector([1, 2, 3], name="qty") if spec["variant"] != "float-column" else Table({"qty": [1.5, 2.5]})["qty"]
			e = {"mask": lambda: src[src > 99], "slice": lambda: src[0:0], "float-column": lambda: src[[False, False]], "typed-ctor": lambda: Vector([], dtype=int, name="qty"), "sorted-empty": lambda: src[0:0].sort_by()}[spec["variant"]]()
			if e.name != "qty":
				chk.fail("masking and slicing keep a vector's name", f"names/empty-selection/name-lost/{spec['variant']}", f"{spec!r}: the empty selection is named {e.name!r}")
				return
			for label, f in (("v+1", lambda: e + 1), ("v*2", lambda: e * 2), ("10-v", lambda: 10 - e), ("v/2", lambda: e / 2), ("v==1", lambda: e == 1), ("v<1", lambda: e < 1), ("-v", lambda: -e), ("v+v", lambda: e + e), ("v+[]", lambda: e + []), ("v**2", lambda: e ** 2)):
				o = call(f)
				if o.ok and isinstance(o.value, Vector) and label != "-v" and o.value.name is not None:
					chk.fail("binary arithmetic and comparisons between vectors give unnamed results", f"names/arithmetic-keeps-name/empty-typed-operand/{label}", f"{spec!r}: {label} on an empty <{e.schema()!r}> vector named 'qty' is named {o.value.name!r}")
					return
		elif what == "join-after-right-rename":
			# join - rename a column of the right table (no cell written) - join again: the result carries the names the tables store NOW
			L = Table({"k": [1, 2, 3], "a": [7, 8, 9]})
			R = Table({"r": [1, 2], "x": [5, 6], "y": ["p", "q"]})
			how = spec["variant"].split("/")[0]
			fn = {"left": L.join, "inner": L.inner_join, "full": L.full_join}[how]
			first = call(fn, R, "k", "r", expect="many_to_one")
			ren = spec["variant"].split("/")[1]
			call({"rename_column": lambda: R.rename_column("x", "price"), "rename_columns": lambda: R.rename_columns(["r", "x"], ["r", "price"]), "handle": lambda: setattr(R["x"], "name", "price"), "key-handle": lambda: setattr(R["r"], "name", "rk"),
				"left-handle": lambda: setattr(L["a"], "name", "alpha")}[ren])
			keyname = "rk" if ren == "key-handle" else "r"
			second = call(fn, R, "k", keyname, expect="many_to_one")
			if first.ok and second.ok:
				exp = L.column_names() + R.column_names()
				if second.value.column_names() != exp:
					chk.fail("joined tables keep each source column's stored name in order", f"names/join/stale-after-rename/{how}/{ren}", f"{spec!r}: the second join names its columns {second.value.column_names()!r}; the tables now store {exp!r}")
		elif what == "column-names-after-handle-rename":
			# column_names() - rename through a handle - something that refreshes the accessor map - column_names(): the header is what the columns are called NOW
			t = Table({"a": [1, 2], "b": [3, 4]})
			first = call(t.column_names)
			call(setattr, t[{"first": "a", "second": "b"}[spec["variant"].split("/")[0]]], "name", "z")
			refresh = spec["variant"].split("/")[1]
			call({"getattr": lambda: t.z, "dir": lambda: dir(t), "row": lambda: t[0], "iterate": lambda: [tuple(r) for r in t], "cell-write": lambda: t.__setitem__((0, "z"), 9), "repr": lambda: repr(t), "nothing": lambda: None}[refresh])
			second = call(t.column_names)
			exp = ["z", "b"] if spec["variant"].startswith("first") else ["a", "z"]
			if second.ok and second.value != exp:
				chk.fail("in-place renames are what the table shows", f"names/column_names/stale-after-handle-rename/{refresh}", f"{spec!r}: column_names() gives {second.value!r}; the columns are called {[c._name for c in t.cols()]!r}")
				return
			for label, f in (("copy", lambda: t.copy()), ("slice", lambda: t[0:1]), ("*2", lambda: t * 2), ("sort", lambda: t.sort_by("z"))):
				o = call(f)
				if o.ok and o.value.column_names() != exp:
					chk.fail("tables filtered, sliced, sorted keep each source column's stored name", f"names/{label}/after-handle-rename", f"{spec!r}: {label} names {o.value.column_names()!r}, expected {exp!r}")
					return
		elif what == "unsanitisable-key-labels":
			# a key whose label sanitises to nothing ('%', '#', ' ', '--') is still called what it is called: key columns keep their stored names
			lab = spec["variant"]
			t = Table([Vector(["a", "b", "a"], name=lab), Vector([1, 1, 2], name="g"), Vector([1, 2, 3], name="v")])
			for op in ("aggregate", "window"):
				for over in ([lab], [lab, "g"], ["g", lab]):
					o = call(lambda: getattr(t, op)(over=list(over), sum_over="v"))
					if o.ok and o.value.column_names()[:len(over)] != list(over):
						chk.fail("aggregate and window name their outputs after the key names", f"names/{op}/key-names/unsanitisable-label", f"{spec!r}: over={over!r}: key columns named {o.value.column_names()[:len(over)]!r}")
						return
		elif what == "join-onto-emptied-right":
			# a left / full join whose right table has columns but no rows left: every left row comes back padded, under left names then right names
			how, emptied = spec["variant"].split("/")
			L = Table({"k": [1, 2], "a": [7, 8]})
			R0 = Table({"r": [1, 2], "x": [5, 6], "y": ["p", "q"]})
			R = {"mask": lambda: R0[[False, False]], "slice": lambda: R0[0:0], "filter": lambda: R0[R0["r"] > 99], "ctor": lambda: Table({"r": [], "x": [], "y": []})}[emptied]()
			o = call({"left": L.join, "full": L.full_join}[how], R, "k", "r", expect="many_to_one")
			if o.ok and len(o.value) and o.value.column_names() != ["k", "a", "r", "x", "y"]:
				chk.fail("joined tables keep each source column's stored name in order", f"names/join/right-columns-lost/{how}/{emptied}", f"{spec!r}: {o.value.column_names()!r}")
		elif what == "keyword-labels":
			# a column whose label is a Python keyword: its sanitised name is the keyword itself (keywords are no Vector / Table attributes), whatever was printed before
			kw = spec["variant"]
			call(repr, Vector([1, 2], name="x"))
			call(repr, Table({"a": [1], kw: [2]}))
			t = Table({"k": ["a", "b", "a"], kw: [1, 2, 3]})
			for op in ("aggregate", "window"):
				o = call(lambda: getattr(t, op)(over="k", sum_over=kw, max_over=kw))
				if o.ok and o.value.column_names()[1:] != [f"{kw.lower()}_sum", f"{kw.lower()}_max"]:
					chk.fail("outputs are named <sanitised column>_<function>", f"names/{op}/output-names/keyword-label", f"{spec!r}: outputs named {o.value.column_names()[1:]!r}, the rule gives {[kw.lower() + '_sum', kw.lower() + '_max']!r}")
					return
		elif what == "copy-new-values":
			src = {"vector": lambda: Vector([1, 2, 3], name="qty"), "column": lambda: Table({"qty": [1, 2, 3]})["qty"], "float": lambda: Vector([1.5, 2.5, 3.5], name="qty"), "str": lambda: Vector(["a", "b", "c"], name="qty")}[spec["variant"]]()
			new = {"vector": [10, 20, 30], "column": [7, 8, 9], "float": [0.5, 0.25, 0.125], "str": ["x", "y", "z"]}[spec["variant"]]
			for label, f in (("copy(new_values)", lambda: src.copy(list(new))), ("copy(new_values=...)", lambda: src.copy(new_values=list(new))), ("copy(shorter values)", lambda: src.copy(list(new[:2]))), ("copy(tuple)", lambda: src.copy(tuple(new)))):
				o = call(f)
				if o.ok and isinstance(o.value, Vector) and o.value.name != "qty":
					chk.fail("copy keeps a vector's name", f"names/copy/name-lost/{label}", f"{spec!r}: {label} of a vector named 'qty' is named {o.value.name!r}")
					return
		elif what == "fillna-keeps-name":
			v = {"int<-float": (Vector([1, None, 3], name="x"), 2.5), "int<-complex": (Vector([1, None], name="x"), 2j), "float<-complex": (Vector([1.5, None], name="x"), 1j), "date<-datetime": (Vector([date(2020, 1, 1), None], name="x"), datetime(2020, 1, 1, 5)),
				"same-kind": (Vector([1, None], name="x"), 0), "column": (Table({"x": [1, None, 3]})["x"], 2.5)}[spec["variant"]]
			o = call(v[0].fillna, v[1])
			if o.ok and o.value.name != "x":
				chk.fail("fills and promotion keep a vector's name", f"names/fillna/name-lost/{spec['variant']}", f"{spec!r}: the filled vector is named {o.value.name!r}")


RUNNERS = {"more_name_rules": run_more_name_rules, "str_subclass_labels": run_str_subclass_labels, "equal_label_rename": run_equal_label_rename, "chain": run_chain, "agg_names": run_agg_names, "label_names": run_label_names}
RUNNERS["recompute"] = recompute.runner("C18")


def gen_agg_names_spec(rng):
	n = rng.choice([1, 2, 4])
	nkeys = rng.choice([1, 1, 2, 3])
	names, cols, over = [], [], []
	keypool = ["k", "k", "g", "v_sum", "Total $", "sum", None, None, "v", "k2", "Customer ID", "Unit-Price"]
	spellings = {"Customer ID": "customer_id", "Unit-Price": "unit_price"}
	for i in range(nkeys):
		nm = rng.choice(keypool)
		kc = [rng.choice(["x", "y"]) for _ in range(n)]
		if nm is None or rng.random() < 0.3:
			over.append({"mode": "external", "values": kc, "name": nm})
		else:
			if nm in names:
				over.append({"mode": "external", "values": kc, "name": nm})
			else:
				names.append(nm)
				cols.append(kc)
				over.append({"mode": rng.choice(["name", "vector"]), "name": nm})
				if nm in spellings and over[-1]["mode"] == "name" and rng.random() < 0.7:
					over[-1]["spelled"] = spellings[nm]      # asked for by its sanitised spelling: the output still carries the STORED name
	valnames = []
	for nm in rng.sample(["v", "V", "Total $", "v 1", "2x", "mean", "k", "w"], rng.choice([1, 2, 3])):
		if nm in names:
			continue
		names.append(nm)
		valnames.append(nm)
		cols.append([rng.choice([1, 2, None]) for _ in range(n)])
	if not valnames:
		names.append("val")
		valnames.append("val")
		cols.append([1] * n)
	aggs = {}
	for fn in FN_SUFFIX:
		if rng.random() < 0.5:
			k = rng.choice([1, 2, 3])
			refs = []
			for _ in range(k):
				if rng.random() < 0.2:
					refs.append({"mode": "external", "values": [1] * n, "name": rng.choice([None, "v", "ext"])})
				else:
					refs.append({"mode": rng.choice(["name", "vector"]), "name": rng.choice(valnames) if rng.random() < 0.7 else valnames[0]})
			aggs[fn] = refs
	apply = []
	for _ in range(rng.choice([0, 1, 2])):
		out = rng.choice(["custom", "v_sum", "v_sum2", "k", "out", f"{valnames[0].lower()}_mean"])
		if any(a["out"] == out for a in apply):
			continue
		apply.append({"out": out, "col": {"mode": "name", "name": valnames[0]}, "fn": "len"})
	if not aggs and not apply:
		aggs["sum"] = [{"mode": "name", "name": valnames[0]}] * 3
	return {"op": rng.choice(["aggregate", "window"]), "table": {"names": names, "cols": cols}, "n": n, "over": over, "scalar_over": len(over) == 1 and rng.random() < 0.5,
		"aggs": aggs, "apply": apply}


def run(chk):
	for what, variants in (("fold-letters", ["strasse", "long-s", "fi", "capital-sharp-s", "dotless-i", "plain"]), ("selection-rename-local", ["t[:, name]", "t[:, j]", "t[name, :]", "t[0:3, name]", "t[:, (name,)]", "t[mask][name]"]),
			("spelled-key-after-view-rename", ["untouched", "touched-first"]), ("nested-apply-names", ["aggregate-same-table", "window-same-table", "aggregate-other-table", "window-other-table"]), ("empty-typed-arithmetic", ["mask", "slice", "float-column", "typed-ctor", "sorted-empty"]),
			("join-after-right-rename", [f"{h}/{r}" for h in ("left", "inner", "full") for r in ("rename_column", "rename_columns", "handle", "key-handle", "left-handle")]), ("column-names-after-handle-rename", [f"{w}/{r}" for w in ("first", "second") for r in ("getattr", "dir", "row", "iterate", "cell-write", "repr", "nothing")]), ("unsanitisable-key-labels", ["%", "#", " ", "--", "!?", "\u00e9\u00e9"]), ("join-onto-emptied-right", [f"{h}/{e}" for h in ("left", "full") for e in ("mask", "slice", "filter", "ctor")]), ("keyword-labels", ["in", "class", "import", "lambda", "None", "is", "Not", "async"]), ("copy-new-values", ["vector", "column", "float", "str"]), ("fillna-keeps-name", ["int<-float", "int<-complex", "float<-complex", "date<-datetime", "same-kind", "column"])):
		for variant in variants:
			chk.case("more_name_rules", {"what": what, "variant": variant}, "more-name-rules")
	for op in ("aggregate", "window"):
		for fn in ("sum", "max", "count"):
			for labels in (["enum-price"], ["tagged-amount"], ["enum-price", "enum-qty"], ["tagged-total", "enum-price"], ["tagged-amount", "tagged-total", "enum-qty"]):
				chk.case("str_subclass_labels", {"op": op, "fn": fn, "labels": labels}, "str-subclass-labels")
	for pair in ("1.0->1", "1->True", "0->False", "True->1", "2023.0->2023", "1->1.0"):
		for how in ("view", "view-after-dir", "rename_column", "rename_columns"):
			chk.case("equal_label_rename", {"pair": pair, "how": how}, "equal-label-rename")
	recompute.add_cases(chk, "C18")
	rng = chk.rng
	for _ in range(900 if chk.quick() else 6000):
		chk.case("chain", {"seed": rng.randrange(10**9), "n": rng.choice([1, 2, 3, 4, 0]), "depth": rng.choice([1, 2, 3, 4])}, "chain")
	import itertools
	for labels in list(itertools.permutations(["1", "True", "1.0"], 2)) + list(itertools.permutations(["2023", "2023.0"], 2)) + list(itertools.permutations(["0", "False", "0.0"], 3)) + [("1",), ("True",), ("1.0",)]:
		for op in ("aggregate", "window"):
			chk.case("label_names", {"labels": list(labels), "op": op, "fn": rng.choice(["sum", "max", "count"])}, "label-names")
	for _ in range(500 if chk.quick() else 4000):
		chk.case("agg_names", gen_agg_names_spec(rng), "agg-names")
	for _ in range(200 if chk.quick() else 1500):
		chk.case("agg_names", common.gen_agg_spec(rng, max_rows=4), "agg-names-generic")
