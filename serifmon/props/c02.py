"""C02 - tables stay rectangular; row views agree with column views."""
import itertools

from ..bind import Vector, Table
from ..core import call, short
from .. import models as M
from .. import values as V
from . import pool
from . import common
from . import joinmodel as J

from . import recompute

RULE = ("[plus the shared recompute-after-history monitor: this property's operations evaluated on long-lived objects between in-place writes / renames must equal the same operations on fresh objects rebuilt from the current contents] "
	"(a) directed: for every shape rows 0-3 x columns 0-3, 19 structural operations (incl. attribute assignment from generators / iterators / map / zip of right and wrong size, and whole-table / region item assignment from a table with a different row count) (>> vector / list / dict / table with right and wrong "
	"lengths, << row with right, short and long width, << table, row slices, row masks, .T.T, attribute assignment with right and wrong length, "
	"Table([...]) / Table({...}) / Vector([...]) with unequal columns) are executed and compared cell for cell with list models: >> leaves existing "
	"columns untouched, << appends to every column, row selection is uniform, transposing twice restores the cells, ragged input is rejected (raises "
	"or is not a Table) and a rejected update leaves the table as it was; (b) the rectangularity / row-vs-column invariant is evaluated on every "
	"live table after every step of the object-pool histories (tables profile: joins, sorts, transposes, cell / row / column / region / attribute "
	"writes, renames, failing operations). distinct = (shape, operation, variant) and (operation, sub-form, pool size class).")
ASSUMPTIONS = [
	"a ragged request must either raise or yield something that is not a Table (serif returns a plain vector of vectors with a warning)",
	".T.T compares cells only and only for tables with at least one row and one column; zero-row results need not keep their columns",
	"tables whose columns are themselves tables (higher-dimensional) are not judged",
]
EXHAUSTIVE = {"flag": True, "scope": "all shapes 0..3 x 0..3 for every directed structural operation; histories are sampled"}
ANCHOR_FUNCS = ["table:Table.__init__", "table:Table.__rshift__", "table:Table.__lshift__", "table:Table.T", "table:Table.__getitem__", "table:Table.__iter__"]
REQUIRED_STRATA = {"recompute": 200, "structural": 200, "steps": 2000}

OPS = ["row-write-own-int-column", "promote-date-column-with-none", "cell-iterator-across-advance", ">>dict-ragged-onto-columnless", "rename-first-of-twins", "cell-by-name-first", "slice-write-reversed", "two-iterations-alive", "<<row-unsized", "<<row-onto-untyped-empty", "cells-with-shape-attribute", "rows-by-index-list", "rows-by-own-int-column", "mask-none-then-lshift", "select-accessor-before-stored", "row-write-own-column", "row-held-across-writes", "colselect-2d-then-write", "write-bad-column-position", "gather-big", "sort-repeated-labels", ">>own-column-then-write", "rowslice-2d", "<<table-zero-rows", "<<row-bytearray", ">>nothing", ">>vector", ">>vector-wrong", ">>list", ">>dict", ">>dict-wrong", ">>table", ">>table-wrong", "<<row", "<<row-short", "<<row-long", "<<table", "<<row-widen", ">>dict-own-column",
	"rowslice", "rowmask", "T.T", "attr", "attr-wrong", "ragged-ctor", "attr-iterable", "setitem-table", "<<table-dupnames", ">>table-dupnames", "vector>>"]


PURE_OPS = {">>vector", ">>list", ">>dict", ">>table", "<<row", "<<table", "rowslice", "rowmask", "T.T", ">>dict-own-column"}


def mk(rng, r, c):
	names = ["a", "b", "c"][:c]
	cols = [V.column(rng, ["int", "str", "float"][i % 3], r, rng.choice(["none", "low"]), small=True) for i in range(c)]
	if c == 0:
		return Table(()), names, cols
	return Table([Vector(col, name=nm) for col, nm in zip(cols, names)]), names, cols


def tcells(t):
	return [list(c._underlying) for c in t._underlying]


def fail_rect(chk, t, label, spec):
	msg = pool.rect_violation(t)
	if msg:
		chk.fail("every table is rectangular and its rows agree with its columns", "rect/" + msg[0], f"{spec!r} ({label}): {msg[1]}")
		return True
	return False


def expect_cells(chk, spec, res, exp, what, cls):
	if not isinstance(res, Table):
		chk.fail(f"{what} returns a table", f"structural/{spec['op']}/not-a-table", f"{spec!r} -> {type(res).__name__} {short(res, 120)}")
		return
	if fail_rect(chk, res, "result", spec):
		return
	got = tcells(res)
	nrows = len(exp[0]) if exp else 0
	if nrows == 0 and len(res) == 0 and len(got) in (0, len(exp)):
		return
	if len(got) != len(exp) or any(not M.same_list(g, e) for g, e in zip(got, exp)):
		chk.fail(what, f"structural/{spec['op']}/{cls}", f"{spec!r}: cells {short(got, 200)} vs model {short(exp, 200)}")


def rejected(chk, spec, o, t, before, what):
	"""ragged request: must raise or not be a Table; the operand must be unchanged"""
	if o.ok and isinstance(o.value, Table):
		msg = pool.rect_violation(o.value)
		chk.fail("input that would make a table ragged is rejected rather than stored", f"structural/{spec['op']}/ragged-accepted",
			f"{spec!r}: {what} returned a Table {short(tcells(o.value), 160)}" + (f" ({msg[1]})" if msg else ""))
	if t is not None and M.snap_table(t) != before:
		chk.fail("a rejected update leaves the table as it was", f"structural/{spec['op']}/rejected-update-changed-table", f"{spec!r}: {short(before, 160)} -> {short(M.snap_table(t), 160)}")


def run_structural(chk, spec):
	import random
	rng = random.Random(spec["seed"])
	r, c, op = spec["rows"], spec["cols"], spec["op"]
	t, names, cols = mk(rng, r, c)
	before = M.snap_table(t)
	chk.judged("structural", ("structural", r, c, op))
	if fail_rect(chk, t, "constructed", spec):
		return
	newcol = V.column(rng, "int", r, "none", small=True)
	if op in (">>vector", ">>list", ">>dict", ">>table"):
		if op == ">>vector":
			o = call(lambda: t >> Vector(newcol, name="n"))
		elif op == ">>list":
			o = call(lambda: t >> list(newcol))
		elif op == ">>dict":
			o = call(lambda: t >> {"n": list(newcol)})
		else:
			o = call(lambda: t >> Table([Vector(newcol, name="n"), Vector(newcol, name="m")]))
		if r == 0 and c == 0:
			chk.skip("structural-empty-plus-empty")
			return
		if not o.ok:
			if r == 0:
				chk.skip("structural-zero-row-append-refused")
				return
			chk.fail(">> appends columns", f"structural/{op}/raises/{type(o.exc).__name__}", f"{spec!r} raised {o!r}")
			return
		exp = [list(x) for x in cols] + [list(newcol)] + ([list(newcol)] if op == ">>table" else [])
		expect_cells(chk, spec, o.value, exp, ">> appends columns and leaves existing ones untouched", "existing-columns-changed-or-wrong")
	elif op == ">>dict-own-column":
		# t >> {new name: one of t's own columns}: the result gains a column, t keeps its cells and its names
		if c == 0 or r == 0:
			chk.skip("structural-no-columns")
			return
		j = spec["seed"] % c
		o = call(lambda: t >> {"again": t.cols()[j]})
		if not o.ok:
			chk.fail(">> appends columns", f"structural/{op}/raises/{type(o.exc).__name__}", f"{spec!r} raised {o!r}")
			return
		expect_cells(chk, spec, o.value, [list(x) for x in cols] + [list(cols[j])], ">> appends columns and leaves existing ones untouched", "existing-columns-changed-or-wrong")
		if isinstance(o.value, Table) and o.value.column_names() != names + ["again"]:
			chk.fail(">> appends columns and leaves existing ones untouched", f"structural/{op}/names", f"{spec!r}: result names {o.value.column_names()!r}")
	elif op in (">>vector-wrong", ">>dict-wrong", ">>table-wrong"):
		if c == 0:
			chk.skip("structural-no-columns-to-disagree-with")
			return
		bad = newcol + [7]
		if op == ">>vector-wrong":
			o = call(lambda: t >> Vector(bad, name="n"))
		elif op == ">>dict-wrong":
			o = call(lambda: t >> {"n": bad})
		else:
			o = call(lambda: t >> Table([Vector(bad, name="n")]))
		rejected(chk, spec, o, t, before, op)
	elif op in ("<<row", "<<row-short", "<<row-long", "<<table", "<<row-widen"):
		if c == 0:
			chk.skip("structural-no-columns")
			return
		row = [pool.make_like(rng, next((x for x in col if x is not None), [1, "s", 2.5][i % 3])) for i, col in enumerate(cols)]
		if op == "<<row-short":
			o = call(lambda: t << row[:-1])
			rejected(chk, spec, o, t, before, op) if c > 1 else chk.skip("structural-short-row-of-one")
			return
		if op == "<<row-long":
			o = call(lambda: t << (row + [1]))
			rejected(chk, spec, o, t, before, op)
			return
		if op == "<<row-widen":
			# the appended row widens int columns to float: the cells already stored must stay equal to what they were (ints beyond 2**53 included)
			big = [2 ** 53 + 1, -(2 ** 53) - 1, 10 ** 17 + 1, 3]
			cols = [[rng.choice(big) if isinstance(x, int) and not isinstance(x, bool) else x for x in col] for col in cols]
			t = Table([Vector(list(col), name=nm) for col, nm in zip(cols, names)])
			before = M.snap_table(t)
			row = [rng.choice([2.5, -0.5]) if any(isinstance(x, int) for x in col) else x for col, x in zip(cols, row)]
			o = call(lambda: t << row)
			exp = [list(col) + [x] for col, x in zip(cols, row)]
			if o.ok and isinstance(o.value, Table):
				got = tcells(o.value)
				if len(got) != len(exp) or any(not M.eq_list(g, e) for g, e in zip(got, exp)):
					chk.fail("<< appends rows to every column", "structural/<<row-widen/stored-cells-changed", f"{spec!r}: cells {short(got, 200)} vs model {short(exp, 200)}")
				fail_rect(chk, o.value, "result", spec)
			if M.snap_table(t) != before:
				chk.fail("operations that return a new table leave their operand as it was", "structural/<<row-widen/operand-changed", f"{spec!r}")
			return
		if op == "<<row":
			o = call(lambda: t << row)
			exp = [list(col) + [x] for col, x in zip(cols, row)]
		else:
			o = call(lambda: t << Table([Vector([x, x], name=nm) for x, nm in zip(row, names)]))
			exp = [list(col) + [x, x] for col, x in zip(cols, row)]
		if not o.ok:
			if r == 0:
				chk.skip("structural-append-to-zero-row-refused")
				return
			chk.fail("<< appends rows to every column", f"structural/{op}/raises/{type(o.exc).__name__}", f"{spec!r} raised {o!r}")
			return
		expect_cells(chk, spec, o.value, exp, "<< appends rows to every column", "wrong-cells")
	elif op == "gather-big":
		# row selection by an index VECTOR on a long table (library fast paths by size): exactly the rows named, every column alike, still a table
		nbig = [1001, 1500, 1000][spec["key"][0] % 3]
		idx = {0: [7], 1: [nbig - 1], 2: [3, 700], 3: [], 4: [5, 5, 5], 5: list(range(0, nbig, 97))}[spec["key"][1]]
		kinds = ["int", "str", "float"][:max(c, 1)]
		bcols = [[(i * 7 % 1013) if k == "int" else (f"s{i % 97}" if k == "str" else i / 4.0) for i in range(nbig)] for k in kinds]
		tb = Table([Vector(list(col), name=f"c{j}") for j, col in enumerate(bcols)])
		o = call(lambda: tb[Vector(list(idx))]) if idx else call(lambda: tb[Vector([], dtype=int)] if False else tb[0:0])
		if not o.ok:
			chk.fail("row selection applies uniformly to all columns", f"structural/{op}/raises/{type(o.exc).__name__}", f"{nbig}-row table, index vector {idx!r}: {o!r}")
			return
		exp = [[col[i] for i in idx] for col in bcols]
		res = o.value
		if not isinstance(res, Table):
			chk.fail("row selection returns a table", f"structural/{op}/not-a-table", f"{nbig}-row table, index vector {idx!r} -> {type(res).__name__} {short(res, 120)}")
			return
		expect_cells(chk, dict(spec, n=nbig, idx=idx), res, exp, "row selection applies uniformly to all columns", "wrong-cells")
		if idx and res.column_names() != [f"c{j}" for j in range(len(kinds))]:
			chk.fail("row selection keeps the columns", f"structural/{op}/names", f"{nbig}-row table, index vector {idx!r}: names {res.column_names()!r}")
		return
	elif op == "sort-repeated-labels":
		# sorting is a row permutation of EVERY column, also when labels repeat or are missing
		if c < 2 or r == 0:
			chk.skip("structural-needs-two-columns")
			return
		labels = {0: ["a"] * c, 1: [None] * c, 2: (["a", None, "a"] + [None] * c)[:c], 3: ["k"] + ["k"] * (c - 1)}[spec["key"][0]]
		icols = [[rng.choice([3, 1, 2]) for _ in range(r)]] + [[10 * j + i for i in range(r)] for j in range(1, c)]
		ts = Table([Vector(list(col), name=nm) if nm is not None else Vector(list(col)) for col, nm in zip(icols, labels)])
		how = spec["key"][1]
		o = call(lambda: ts.sort_by(ts.cols()[0]) if how == 0 else (ts.T.T.sort_by(ts.cols()[0]) if how == 1 else (ts << ts[0:0]).sort_by(ts.cols()[0], reverse=True)))
		if not o.ok:
			chk.skip("structural-sort-refused")
			return
		res = o.value
		if not isinstance(res, Table) or len(res.cols()) != c:
			chk.fail("sorting keeps every column", f"structural/{op}/columns-lost", f"{spec!r}: labels {labels!r}: result has {len(res.cols()) if isinstance(res, Table) else type(res).__name__} columns, source {c}")
			return
		order = sorted(range(r), key=lambda i: icols[0][i], reverse=(how == 2))
		exp = [[col[i] for i in order] for col in icols]
		got = tcells(res)
		if any(sorted(map(repr, g)) != sorted(map(repr, e)) for g, e in zip(got, exp)) or not M.same_list(got[0], exp[0]):
			chk.fail("sorting keeps every cell", f"structural/{op}/wrong-cells", f"{spec!r}: labels {labels!r}: {short(got, 160)} vs {short(exp, 160)}")
		fail_rect(chk, res, "result", spec)
		return
	elif op == ">>own-column-then-write":
		# the appended copy of one of the table's own columns is a column of its own: a cell write reaches exactly one cell
		if c == 0 or r == 0:
			chk.skip("structural-no-cells")
			return
		form = spec["key"][0]
		o = call(lambda: (t >> t.cols()[0]) if form == 0 else ((t >> t) if form == 1 else Table([t.cols()[0], t.cols()[0]])))
		if not o.ok or not isinstance(o.value, Table) or len(o.value.cols()) < 2:
			chk.skip("structural-twin-unavailable")
			return
		res = o.value
		before_r = tcells(res)
		j = len(res.cols()) - 1
		newv = pool.make_like(rng, cols[0][0] if cols[0][0] is not None else 1)
		w = call(res.__setitem__, (0, j), newv)
		if not w.ok:
			chk.skip("structural-twin-write-refused")
			return
		after_r = tcells(res)
		exp = [list(x) for x in before_r]
		exp[j][0] = newv
		if any(not M.eq_list(g, e) for g, e in zip(after_r, exp)):
			chk.fail("a cell write changes that cell only (columns built from one vector are separate columns)", f"structural/{op}/other-cells-changed", f"{spec!r}: {short(before_r, 160)} -> {short(after_r, 160)}, expected {short(exp, 160)}")
		return
	elif op == "rows-by-own-int-column":
		# t[t.pos, cols] = values: the rows are those the selector named when the statement started, for EVERY target column - also when the selector is one
		# of the table's own int columns, is itself among the targets and is written before the others
		if r < 2:
			chk.skip("structural-too-few-rows")
			return
		perm = list(range(r))
		rng.shuffle(perm)
		k = 2 if r > 2 else 1
		picks = perm[:k] if spec["key"][0] % 2 == 0 else [perm[0]] * 1 + perm[1:k]
		pos = [picks[i % len(picks)] for i in range(r)]
		t2 = Table([Vector(list(pos), name="pos"), Vector([100 + i for i in range(r)], name="x"), Vector([200 + i for i in range(r)], name="y")])
		sel = [t2.cols()[0], t2["pos"], t2.pos][spec["key"][1] % 3]
		rows_addressed = list(pos)
		form = spec["key"][2] % 3
		if form == 0:
			key, value, targets = (sel, ["pos", "x", "y"]), [[r - 1 - p for p in pos], [-1] * r, [-2] * r], [0, 1, 2]
		elif form == 1:
			key, value, targets = (sel, slice(None)), 0, [0, 1, 2]
		else:
			key, value, targets = (sel, ["pos", "y"]), [[0] * r, [-7] * r], [0, 2]
		exp = [list(pos), [100 + i for i in range(r)], [200 + i for i in range(r)]]
		for jj, tj in enumerate(targets):
			for m_, row_ in enumerate(rows_addressed):
				exp[tj][row_] = value if not isinstance(value, list) else value[jj][m_]
		o = call(lambda: t2.__setitem__(key, value))
		if fail_rect(chk, t2, op, spec):
			return
		if not o.ok:
			chk.skip("structural-rows-by-own-column-refused")
			return
		got = tcells(t2)
		if any(not M.eq_list(g, e) for g, e in zip(got, exp)):
			chk.fail("row selections apply uniformly to all columns (the rows addressed are those of the statement's start)", f"structural/{op}/wrong-cells", f"{spec!r}: pos {pos!r}: {short(got, 200)} vs model {short(exp, 200)}")
		return
	elif op == "mask-none-then-lshift":
		# a selection that keeps no row is still a table of those columns: rows can be appended to it, and appending it changes nothing
		if c == 0 or r == 0:
			chk.skip("structural-no-cells")
			return
		sel = call(lambda: [t[[False] * r], t[Vector([False] * r)], t[0:0], t[r:]][spec["key"][0] % 4])
		if not sel.ok or not isinstance(sel.value, Table):
			chk.fail("row slices and masks apply uniformly to all columns", f"structural/{op}/selection-raises", f"{spec!r}: {sel!r}")
			return
		row = [cols[j][0] for j in range(c)]
		how = spec["key"][1] % 3
		o = call(lambda: [lambda: sel.value << row, lambda: sel.value << t, lambda: t << sel.value][how]())
		if not o.ok:
			chk.fail("<< appends rows to every column", f"structural/{op}/raises/{['row', 'table', 'onto-table'][how]}/{type(o.exc).__name__}", f"{spec!r}: {o!r}")
			return
		exp = [[x] for x in row] if how == 0 else [list(x) for x in cols]
		expect_cells(chk, dict(spec, form=how), o.value, exp, "<< appends rows to every column", "wrong-cells")
		return
	elif op == "select-accessor-before-stored":
		# t[n1, n2, ...]: the selected columns come in the order asked for, whichever spelling (stored name, positional accessor) each name uses
		if c < 2 or r == 0:
			chk.skip("structural-too-narrow")
			return
		import warnings
		with warnings.catch_warnings():
			warnings.simplefilter("ignore")
			variant = spec["key"][0] % 3
			if variant == 0:
				t2 = Table([Vector(list(cols[0]))] + [Vector(list(cols[j]), name=names[j]) for j in range(1, c)])
				ask, want = ("col0_", names[c - 1]), [0, c - 1]
			elif variant == 1:
				t2 = Table([Vector(list(cols[j]), name="b") for j in range(c)])
				ask, want = (f"b__{c - 1}", "b"), [c - 1, 0]
			else:
				t2 = Table([Vector(list(cols[j]), name=names[j]) for j in range(c - 1)] + [Vector(list(cols[c - 1]))])
				ask, want = (f"col{c - 1}_", names[0]), [c - 1, 0]
			o = call(lambda: t2[ask] if spec["key"][1] % 2 == 0 else t2[0:r, ask])
		if not o.ok:
			chk.skip("structural-select-refused")
			return
		expect_cells(chk, dict(spec, ask=ask), o.value, [list(cols[j]) for j in want], "selected columns come in the order asked for", "wrong-cells")
		return
	elif op == "row-write-own-column":
		# t[i, cols] = (one of the table's own columns): the row takes the values that column held when the statement started
		if c == 0 or r == 0:
			chk.skip("structural-no-cells")
			return
		i, srcj = spec["key"][0] % r, spec["key"][1] % c
		k = min(r, c)
		targets = list(range(c))[:k] if spec["key"][2] == 0 else list(range(c))[::-1][:k]
		src = [t.cols()[srcj], t[names[srcj]], t.cols()[srcj][0:r]][spec["key"][2] % 3]
		vals = list(cols[srcj])[:k]
		if len(src) != len(targets):
			src = src[0:k]
		exp = [list(x) for x in cols]
		for jj, x in zip(targets, vals):
			exp[jj][i] = x
		o = call(lambda: t.__setitem__((i, targets), src))
		if fail_rect(chk, t, op, spec):
			return
		if not o.ok:
			if tcells(t) != [list(x) for x in cols] and False:
				pass
			chk.skip("structural-row-write-own-column-refused")
			return
		got = tcells(t)
		if any(not M.eq_list(g, e) for g, e in zip(got, exp)):
			chk.fail("a row write stores the given values in the addressed cells (the values of the statement's start, also when they come from the table itself)", f"structural/{op}/wrong-cells", f"{spec!r}: row {i} <- column {srcj}: {short(got, 160)} vs model {short(exp, 160)}")
		return
	elif op == "row-held-across-writes":
		# r = t[i] without reading it; write the table; read r; write again; read r.  A row is either a snapshot (both reads show the cells of the
		# moment it was obtained) or a live view (each read shows the cells of that moment) - never the cells of its first READ frozen
		if c == 0 or r == 0:
			chk.skip("structural-no-cells")
			return
		i = spec["key"][0] % r
		row = t[i]
		old = [cols[j][i] for j in range(c)]
		w1 = call(lambda: t.__setitem__((i, 0), t.cols()[0]._underlying[(i + 1) % r] if r > 1 and not M.same(cols[0][i], cols[0][(i + 1) % r]) else None))
		mid = [col._underlying[i] for col in t.cols()]
		a = call(lambda: [list(row), list(row[0:c]), [row[j] for j in range(c)]][spec["key"][1] % 3])
		w2 = call(lambda: t.__setitem__((i, 0), old[0]))
		w3 = call(lambda: t.__setitem__((i, c - 1), None))
		end = [col._underlying[i] for col in t.cols()]
		b = call(lambda: list(row))
		if not (a.ok and b.ok):
			chk.fail("the i-th row obtained by indexing equals the i-th values of the columns", f"structural/{op}/raises", f"{spec!r}: reading the kept row raised {a!r} / {b!r}")
			return
		snap_ok = M.same_list(a.value, old) and M.same_list(b.value, old)
		live_ok = M.same_list(a.value, mid) and M.same_list(b.value, end)
		if not (snap_ok or live_ok):
			chk.fail("the i-th row obtained by indexing equals the i-th values of the columns", f"structural/{op}/neither-snapshot-nor-view", f"{spec!r}: row {i} obtained as {old!r}; after a write ({mid!r}) it reads {a.value!r}; after more writes ({end!r}) it reads {b.value!r}")
		return
	elif op == "colselect-2d-then-write":
		# t[:, j] / t[:, name] / t[name, :] is a new object that preserves cells: a write (or rename) through it leaves the table's cells and names alone
		if c == 0 or r == 0:
			chk.skip("structural-no-cells")
			return
		j = spec["key"][0] % c
		key = [(slice(None), j), (slice(None), names[j]), (names[j], slice(None)), (slice(0, r), j), (slice(None), slice(j, j + 1))][spec["key"][1] % 5]
		o = call(lambda: t[key])
		if not o.ok:
			chk.fail("row slices and masks apply uniformly to all columns", f"structural/{op}/raises/{type(o.exc).__name__}", f"{spec!r} t[{key!r}] raised {o!r}")
			return
		sel = o.value
		got = list(sel.cols()[0]._underlying) if isinstance(sel, Table) else list(sel._underlying)
		if not M.eq_list(got, list(cols[j])):
			chk.fail("selections preserve cells", f"structural/{op}/wrong-cells", f"{spec!r}: t[{key!r}] = {short(got, 120)} vs column {short(cols[j], 120)}")
			return
		target = sel.cols()[0] if isinstance(sel, Table) else sel
		call(lambda: target.__setitem__(0, None))
		call(lambda: setattr(target, "name", "renamed_selection"))
		if M.snap_table(t) != before:
			chk.fail("a selection is a new object: writing or renaming it leaves the table as it was", f"structural/{op}/table-changed", f"{spec!r}: after writing into t[{key!r}]: {short(M.snap_table(t), 200)} vs {short(before, 200)}")
		return
	elif op == "write-bad-column-position":
		# a write addressing a column position the table does not have is rejected and changes nothing (-c-1 ... -2c wrap around twice)
		if c == 0 or r == 0:
			chk.skip("structural-no-cells")
			return
		bad = [-c - 1, -2 * c, c, c + 3, -c - 2][spec["key"][0] % 5]
		form = spec["key"][1] % 4
		key = [(0, bad), (slice(None), bad), (0, [0, bad]), (slice(None), (bad,))][form]
		val = [0, 0, [0, 0], 0][form]
		o = call(lambda: t.__setitem__(key, val))
		if fail_rect(chk, t, op, spec):
			return
		if o.ok or M.snap_table(t) != before:
			cls = "accepted" if o.ok else "rejected-but-changed"
			if form == 2 and not o.ok and tcells(t)[1:] == [list(x) for x in cols][1:]:
				# (the valid first target of a two-target write may have been written before the bad one was met: per-column atomicity, see C08)
				return
			chk.fail("a write addressing a column the table does not have is rejected and changes nothing", f"structural/{op}/{cls}", f"{spec!r}: t[{key!r}] = {val!r} -> {o!r}; table {short(M.snap_table(t), 200)}")
		return
	elif op == "rowslice-2d":
		# the two-axis spelling of a row slice: t[rows, :] and t[rows, column slice]
		if c == 0:
			chk.skip("structural-no-columns")
			return
		sl = slice(*spec["key"])
		for lab, key, sel in (("t[rows, :]", (sl, slice(None)), list(range(c))), ("t[rows, 0:c]", (sl, slice(0, c)), list(range(c))), ("t[rows, names]", (sl, tuple(names)), list(range(c)))):
			o = call(lambda: t[key])
			if not o.ok:
				chk.fail("row slices and masks apply uniformly to all columns", f"structural/{op}/raises/{type(o.exc).__name__}", f"{spec!r} {lab} raised {o!r}")
				return
			exp = [cols[j][sl] for j in sel]
			if exp and len(exp[0]) and isinstance(o.value, Table) and len(o.value) == 0:
				chk.fail("row slices and masks apply uniformly to all columns", f"structural/{op}/rows-lost", f"{spec!r} {lab}: zero rows, model {short(exp, 160)}")
				return
			expect_cells(chk, dict(spec, form=lab), o.value, exp, "row slices and masks apply uniformly to all columns", "wrong-cells")
	elif op in ("<<table-zero-rows", ">>nothing"):
		# appending nothing: the result holds the same cells and is a table of its own (a later write to it leaves the operand's cells untouched)
		if c == 0 or r == 0:
			chk.skip("structural-no-cells")
			return
		if op == "<<table-zero-rows":
			o = call(lambda: t << (t[0:0] if spec["key"][0] else Table([Vector([], name=nm) for nm in names])))
		else:
			o = call(lambda: t >> Table(()))
		if not o.ok:
			chk.skip("structural-append-nothing-refused")
			return
		res = o.value
		expect_cells(chk, spec, res, [list(x) for x in cols], "appending nothing preserves the cells", "wrong-cells")
		if isinstance(res, Table) and len(res) and res.cols():
			w = call(res.__setitem__, (0, 0), res.cols()[0]._underlying[-1] if cols[0][0] != cols[0][-1] else pool.make_like(rng, cols[0][0]))
			w2 = call(lambda: res.cols()[-1].__setitem__(r - 1, None))
			if M.snap_table(t) != before:
				chk.fail("structural operations leave existing cells untouched (the result is a table of its own)", f"structural/{op}/operand-follows-result", f"{spec!r}: writing into the result changed the operand: {short(before, 160)} -> {short(M.snap_table(t), 160)}")
				return
	elif op == ">>dict-ragged-onto-columnless":
		# a table without columns has nothing to measure new columns against: the new columns still have to agree with each other
		base = Table({"k": [1, 2], "v": [3, 4]})
		E = [lambda: Table(), lambda: Table({}), lambda: Table(()), lambda: base[:, 0:0], lambda: base.inner_join(Table({"k": [9], "z": [0]}), "k", "k")][spec["key"][0]]
		e = call(E)
		if not e.ok or not isinstance(e.value, Table) or len(e.value.cols()):
			chk.skip("structural-columnless-unavailable")
			return
		lens = [(3, 1), (1, 3), (2, 0), (0, 2)][spec["key"][1]]
		o = call(lambda: e.value >> {"a": list(range(lens[0])), "b": list(range(lens[1]))})
		rejected(chk, spec, o, None, None, f"column-less table >> dict of columns of {lens} cells")
		ok = call(lambda: e.value >> {"a": [1, 2, 3], "b": [4, 5, 6]})
		if ok.ok and isinstance(ok.value, Table):
			expect_cells(chk, spec, ok.value, [[1, 2, 3], [4, 5, 6]], ">> appends columns", "wrong-cells")
	elif op == "rename-first-of-twins":
		# two columns share a label (or labels that sanitise alike); the FIRST is renamed away: the survivor is addressed by that label like the column of a table built so
		twins = [("a", "a"), ("Qty", "qty"), ("x y", "x_y"), ("a", "A")][spec["key"][0]]
		how = spec["key"][1]
		def build(first):
			return Table([Vector([1, 2], name=first), Vector([5, 6], name="mid"), Vector([8, 9], name=twins[1])])
		import warnings
		with warnings.catch_warnings():
			warnings.simplefilter("ignore")
			live = build(twins[0])
			if how == 1:
				call(dir, live)
			ren = call(live.rename_column, twins[0], "fresh")
			if not ren.ok:
				chk.skip("structural-rename-refused")
				return
			ref = build("fresh")
			label = twins[1]
			acc = [n for n in dir(ref) if n not in dir(Table(()))]
			probes = {"t[i][label]": lambda x: x[1][label], "t[i, label]": lambda x: x[1, label], "t[label][i]": lambda x: x[label][1], "row-accessor": lambda x: getattr(x[1], acc[-1]), "table-accessor": lambda x: list(getattr(x, acc[-1])),
				"cell-write": lambda x: (x.__setitem__((0, acc[-1]), 77), [list(col) for col in x.cols()])[1], "attr-write": lambda x: (setattr(x, acc[-1], [70, 71]), [list(col) for col in x.cols()])[1]}
			for pname, f in probes.items():
				a, b = call(f, live), call(f, ref)
				if a.ok != b.ok or (a.ok and a.value != b.value):
					chk.fail("rows, columns and cells addressed by name agree with a table built with these labels", f"structural/{op}/{pname}", f"{spec!r}: labels now {live.column_names()!r}: {pname} gives {short(a, 120)}; a table built with these labels gives {short(b, 120)}")
					return
	elif op == "cell-by-name-first":
		# t[name, i] is the cell t[i, name] is: the i-th value of the column t[name]
		labels = [["unit price", "n"], ["a", "A"], ["name", "sum"], ["max", "shape"], ["2x", "\u00e9"], ["plain", "Plain_"]][spec["key"][0]]
		import warnings
		with warnings.catch_warnings():
			warnings.simplefilter("ignore")
			tt = Table([Vector([10, 20], name=labels[0]), Vector([30, 40], name=labels[1])])
			for j, lab in enumerate(labels):
				for i in (0, 1, -1):
					want = call(lambda: tt[lab][i])
					for form, f in (("t[name, i]", lambda: tt[lab, i]), ("t[i, name]", lambda: tt[i, lab])):
						got = call(f)
						if want.ok and (not got.ok or got.value != want.value or type(got.value) is not type(want.value)):
							chk.fail("the i-th row agrees with the i-th values of the columns", f"structural/{op}/{form.replace(' ', '')}", f"{spec!r}: {form} with name {lab!r}, i = {i}: {short(got, 100)}; t[name][i] is {want.value!r}")
							return
	elif op == "cell-iterator-across-advance":
		# the cells of a row are read by an iterator that was started on that row: advancing the table's iteration (one row view moved along) while it is open does not splice two rows
		if r < 2 or c < 2:
			chk.skip("structural-too-small")
			return
		form = spec["key"][0]
		rows_ = [tuple(col[i] for col in cols) for i in range(r)]
		if form == 0:
			it = iter(t); row = next(it); cells = iter(row); first = next(cells); next(it); got = (first,) + tuple(cells); want = rows_[0]
		elif form == 1:
			row = t[0]; cells = iter(row); first = next(cells); row.set_index(r - 1); got = (first,) + tuple(cells); want = rows_[0]
		else:
			got_rows = []
			for row in t:
				cells = iter(row)
				got_rows.append(tuple(cells))
			got, want = tuple(got_rows), tuple(rows_)
		if not M.same_list(list(got), list(want)) and not (form < 2 and M.same_list(list(got), [rows_[0][0]] + list(rows_[1 if form == 0 else r - 1][1:])) and False):
			chk.fail("the i-th row obtained by iteration equals the tuple of the i-th values of the columns", f"structural/{op}/{['iteration-advanced', 'view-moved', 'plain'][form]}", f"{spec!r}: cells read {short(got, 120)}; the row is {short(want, 120)}")
	elif op == "row-write-own-int-column":
		# deterministic form of the above: three int columns of distinct cells, the row values being one of them (live handle, by item, by attribute, a slice of it)
		i, srcj, form = spec["key"]
		tt = Table({"a": [1, 2, 3], "b": [10, 20, 30], "c": [100, 200, 300]})
		base = [[1, 2, 3], [10, 20, 30], [100, 200, 300]]
		src = [tt.cols()[srcj], tt[["a", "b", "c"][srcj]], getattr(tt, ["a", "b", "c"][srcj]), tt.cols()[srcj][0:3]][form]
		order = [["a", "b", "c"], ["c", "b", "a"], ["b", "c", "a"]][(i + srcj) % 3]
		exp = [list(x) for x in base]
		for nm, x in zip(order, base[srcj]):
			exp["abc".index(nm)][i] = x
		o = call(lambda: tt.__setitem__((i, order), src))
		if fail_rect(chk, tt, op, spec):
			return
		if not o.ok:
			chk.skip("structural-row-write-own-column-refused")
			return
		if tcells(tt) != exp:
			chk.fail("a row write stores the given values in the addressed cells (the values of the statement's start, also when they come from the table itself)", f"structural/row-write-own-column/wrong-cells", f"{spec!r}: row {i} of columns {order!r} <- column {srcj}: {short(tcells(tt), 160)} vs model {short(exp, 160)}")
	elif op == "promote-date-column-with-none":
		# a day column that holds None is promoted in place by a datetime written into it - through a cell, a row, a region, the column handle: every column keeps its length, None stays where it is
		from datetime import date as _d, datetime as _dt
		where, how = spec["key"][0], spec["key"][1]
		days = [_d(2020, 1, 1), _d(2020, 1, 2), _d(2020, 1, 3), _d(2020, 1, 4)]
		days[where] = None
		tt = Table({"day": list(days), "n": [1, 2, 3, 4]})
		at = (where + 1) % 4
		stamp = _dt(2021, 5, 6, 7, 8)
		o = call([lambda: tt.__setitem__((at, "day"), stamp), lambda: tt.__setitem__(at, [stamp, 9]), lambda: tt["day"].__setitem__(at, stamp), lambda: tt.__setitem__((slice(at, at + 1), ["day"]), [[stamp]]), lambda: tt.day.__setitem__(slice(at, at + 1), [stamp])][how])
		if fail_rect(chk, tt, op, spec):
			return
		col = list(tt.cols()[0]._underlying)
		if o.ok and (len(col) != 4 or col[where] is not None or col[at] != stamp):
			chk.fail("a write changes the addressed cells only", f"structural/{op}/wrong-cells", f"{spec!r}: day column now {col!r}")
	elif op == "slice-write-reversed":
		# a row slice whose bounds select nothing (reversed, or past the end): as for a list, writing nothing - or a scalar - into it is a no-op or an error, never a longer column
		if c == 0:
			chk.skip("structural-no-columns")
			return
		start, stop, form = spec["key"]
		if len(range(*slice(start, stop).indices(r))):
			chk.skip("structural-slice-not-empty")
			return
		j = spec["seed"] % c
		value = [[], 99 if j % 3 == 0 else ("z" if j % 3 == 1 else 2.5), None][form]
		keyforms = [(slice(start, stop), names[j]), (slice(start, stop), j)]
		o = call(t.__setitem__, keyforms[spec["seed"] // 7 % 2], value)
		if fail_rect(chk, t, "after t[%r:%r, col] = %r" % (start, stop, value), spec):
			return
		if tcells(t) != [list(x) for x in cols] and not (o.ok and form == 2):
			chk.fail("a write to an empty row slice changes no cell", f"structural/{op}/cells-changed", f"{spec!r}: cells {short(tcells(t), 200)} vs {short(cols, 200)} ({o!r})")
		if o.ok and form == 2 and [[x for x in col] for col in tcells(t)] != [list(x) for x in cols]:
			chk.fail("a write to an empty row slice changes no cell", f"structural/{op}/cells-changed", f"{spec!r}: cells {short(tcells(t), 200)} vs {short(cols, 200)}")
		# whole-row form: t[start:stop] = zero-row table
		o2 = call(t.__setitem__, slice(start, stop), t[0:0] if r else [])
		if fail_rect(chk, t, "after t[%r:%r] = no rows" % (start, stop), spec):
			return
		if len(t) != r and c:
			chk.fail("a write never changes the number of rows", f"structural/{op}/length-changed", f"{spec!r}: len {len(t)} after the write, was {r}")
	elif op == "two-iterations-alive":
		# two iterations of one table alive at once: each row obtained by iteration equals the tuple of the i-th column values while the other loop runs
		if r < 2 or c == 0:
			chk.skip("structural-too-small")
			return
		form = spec["key"][0]
		exp = [tuple(col[i] for col in cols) for i in range(r)]
		bad = None
		if form == 0:
			for i, outer in enumerate(t):
				for k, inner in enumerate(t):
					if not M.same_list(tuple(inner), exp[k]):
						bad = ("inner", k, tuple(inner))
				if not M.same_list(tuple(outer), exp[i]):
					bad = ("outer", i, tuple(outer))
					break
		elif form == 1:
			import itertools
			for i, (a, b) in enumerate(zip(t, itertools.islice(iter(t), 1, None))):
				if not M.same_list(tuple(a), exp[i]) or not M.same_list(tuple(b), exp[i + 1]):
					bad = ("pair", i, (tuple(a), tuple(b)))
					break
		else:
			it1 = iter(t)
			first = next(it1)
			seen = [tuple(x) for x in t]     # a complete second loop
			if not M.same_list(tuple(first), exp[0]):
				bad = ("kept-first", 0, tuple(first))
			second = next(it1)
			if bad is None and not M.same_list(tuple(second), exp[1]):
				bad = ("resumed", 1, tuple(second))
			if bad is None and any(not M.same_list(x, e) for x, e in zip(seen, exp)):
				bad = ("second-loop", -1, seen)
		if bad:
			chk.fail("the i-th row obtained by iteration equals the tuple of the i-th values of the columns", f"structural/{op}/{bad[0]}", f"{spec!r}: {bad[0]} row {bad[1]} reads {short(bad[2], 160)}; rows are {short(exp, 160)}")
	elif op == "<<row-unsized":
		# a row given as an iterator has no length to check beforehand: too few or too many cells must still be rejected, the right number appended (or refused)
		if c == 0:
			chk.skip("structural-no-columns")
			return
		delta, kind = spec["key"][0], spec["key"][1]
		row = [pool.make_like(rng, cols[j][0]) if r else [1, "s", 2.5][j % 3] for j in range(c)]
		cells_ = (row + [7, 8])[:c + delta] if delta >= 0 else row[:c + delta]
		operand = [lambda: (x for x in cells_), lambda: iter(cells_), lambda: map(lambda x: x, cells_)][kind]()
		o = call(lambda: t << operand)
		if delta != 0:
			if o.ok and isinstance(o.value, (Table, Vector)) and not (isinstance(o.value, Table) is False and len(cells_) == 0 and False):
				chk.fail("input that would make a table ragged is rejected rather than stored", f"structural/{op}/ragged-accepted", f"{spec!r}: t << <iterator of {len(cells_)} cells> on {c} columns returned {type(o.value).__name__} {short(o.value, 120)}")
		elif o.ok:
			expect_cells(chk, spec, o.value, [list(x) + [y] for x, y in zip(cols, row)], "<< appends one row to every column", "wrong-cells")
		else:
			chk.skip("structural-unsized-row-refused")
	elif op == "<<row-onto-untyped-empty":
		# a table built from empty lists has columns that were never typed: a row still appends to every one of them
		if c == 0:
			chk.skip("structural-no-columns")
			return
		form = spec["key"][0]
		e = Table({nm: [] for nm in names}) if form < 2 else Table([Vector([], name=nm) for nm in names])
		row = [[1, "s", 2.5][j % 3] for j in range(c)]
		o = call(lambda: e << (row if form % 2 == 0 else Table([Vector([x], name=nm) for x, nm in zip(row, names)])))
		if not o.ok:
			chk.fail("<< appends rows to every column", f"structural/{op}/raises/{type(o.exc).__name__}", f"{spec!r}: a row appended to a zero-row table of {c} untyped columns raised {o!r}")
			return
		expect_cells(chk, spec, o.value, [[x] for x in row], "<< appends one row to every column", "wrong-cells")
		lone = call(lambda: Vector([]) << row[0])
		if not lone.ok or list(lone.value._underlying) != [row[0]]:
			chk.fail("<< appends rows to every column", f"structural/{op}/vector/{'raises' if not lone.ok else 'wrong-cells'}", f"{spec!r}: Vector([]) << {row[0]!r} gave {lone!r}")
	elif op == "cells-with-shape-attribute":
		# a cell is a cell whatever attributes it has: objects carrying .shape (arrays) do not add dimensions to the table
		if r == 0 or c == 0:
			chk.skip("structural-no-cells")
			return
		class Arr:
			def __init__(self, shape): self.shape = shape
		where = spec["key"][0] % c
		shp = [(7,), (2, 2), ()][spec["key"][1]]
		acol = [Arr(shp) for _ in range(r)]
		cs = [list(x) for x in cols]
		cs[where] = acol
		ta = Table([Vector(col, name=nm) if j != where else Vector(col, dtype=object, name=nm) for j, (col, nm) in enumerate(zip(cs, names))])
		sh = call(lambda: ta.shape)
		if not sh.ok or tuple(sh.value) != (r, c):
			chk.fail("the shape of a table is (rows, columns)", f"structural/{op}/shape", f"{spec!r}: shape {sh!r} of a {r}x{c} table whose column {where} holds objects with .shape = {shp!r}")
			return
		if fail_rect(chk, ta, "table with .shape cells", spec):
			return
		cell = call(lambda: ta[r - 1, c - 1])
		if not cell.ok or not M.same(cell.value, cs[c - 1][r - 1]):
			chk.fail("the i-th row equals the tuple of the i-th values of the columns", f"structural/{op}/cell-read", f"{spec!r}: t[{r - 1}, {c - 1}] gave {cell!r}")
		rp = call(repr, ta)
		if not rp.ok or f"{r}×{c} table" not in rp.value:
			chk.fail("the shape of a table is (rows, columns)", f"structural/{op}/repr", f"{spec!r}: repr {short(rp.value if rp.ok else rp, 160)}")
	elif op == "rows-by-index-list":
		# t[[i, j, ...]] selects those rows from every column alike, as v[[i, j, ...]] does from one vector
		if r == 0 or c == 0:
			chk.skip("structural-no-cells")
			return
		idxs = [[0], [r - 1, 0], [0, 0, r - 1], [-1], list(range(r))[::-1]][spec["key"][0]]
		one = call(lambda: Vector(list(cols[0]))[idxs])
		o = call(lambda: t[idxs])
		if not one.ok:
			chk.skip("structural-index-list-not-supported")
			return
		if not o.ok:
			chk.fail("row selection applies to every column alike", f"structural/{op}/raises/{type(o.exc).__name__}", f"{spec!r}: t[{idxs!r}] raised {o!r}")
			return
		expect_cells(chk, spec, o.value, [[col[i] for i in idxs] for col in cols], "row selection applies to every column alike", "wrong-cells")
	elif op == "<<row-bytearray":
		# a cell that is itself a byte buffer is ONE cell
		if r == 0:
			chk.skip("structural-no-rows")
			return
		bcol = [rng.choice([bytearray(b"ab"), bytearray(b"\x07"), bytearray(b"")]) for _ in range(r)]
		tb = Table([Vector(list(range(r)), name="n"), Vector(list(bcol), name="buf"), Vector([b"z"] * r, name="z")])
		cell = rng.choice([bytearray(b"\x07"), bytearray(b"xyz"), bytearray(b"")])
		row = [99, cell, b"q"]
		form = spec["key"][0]
		o = call(lambda: tb << (row if form == 0 else (tuple(row) if form == 1 else Vector(row))))
		if not o.ok:
			chk.fail("<< appends rows to every column", f"structural/{op}/raises/{type(o.exc).__name__}", f"{spec!r}: row {row!r} raised {o!r}")
			return
		exp = [list(range(r)) + [99], list(bcol) + [cell], [b"z"] * r + [b"q"]]
		res = o.value
		if not isinstance(res, Table):
			chk.fail("<< appends rows to every column", f"structural/{op}/not-a-table", f"{spec!r}: row {row!r} -> {type(res).__name__}")
			return
		got = tcells(res)
		if len(got) != 3 or any(not M.eq_list(g, e) for g, e in zip(got, exp)) or type(got[1][-1]) is not bytearray:
			chk.fail("<< appends rows to every column", f"structural/{op}/wrong-cells", f"{spec!r}: row {row!r}: cells {short(got, 200)} vs model {short(exp, 200)}")
		fail_rect(chk, res, "result", spec)
		return
	elif op in ("rowslice", "rowmask"):
		if c == 0:
			chk.skip("structural-no-columns")
			return
		if op == "rowslice":
			s = slice(*spec["key"])
			o = call(lambda: t[s])
			exp = [col[s] for col in cols]
		else:
			bits = [bool((spec["key"][0] >> i) & 1) for i in range(r)]
			if r == 0:
				chk.skip("structural-zero-length-mask")
				return
			o = call(lambda: t[Vector(bits)] if spec["key"][1] else t[bits])
			exp = [[x for x, m in zip(col, bits) if m] for col in cols]
		if not o.ok:
			chk.fail("row slices and masks apply uniformly to all columns", f"structural/{op}/raises/{type(o.exc).__name__}", f"{spec!r} raised {o!r}")
			return
		expect_cells(chk, spec, o.value, exp, "row slices and masks apply uniformly to all columns", "wrong-cells")
	elif op == "T.T":
		if r == 0 or c == 0:
			chk.skip("structural-transpose-of-empty")
			return
		o = call(lambda: t.T.T)
		if not o.ok:
			chk.fail("transposing twice gives back the original cells", f"structural/T.T/raises/{type(o.exc).__name__}", f"{spec!r} raised {o!r}")
			return
		expect_cells(chk, spec, o.value, [list(x) for x in cols], "transposing twice gives back the original cells", "wrong-cells")
		o1 = call(lambda: t.T)
		if o1.ok and isinstance(o1.value, Table):
			fail_rect(chk, o1.value, "t.T", spec)
			got = tcells(o1.value)
			exp = [[col[i] for col in cols] for i in range(r)]
			if len(got) != len(exp) or any(not M.same_list(g, e) for g, e in zip(got, exp)):
				chk.fail("transpose turns rows into columns", "structural/T/wrong-cells", f"{spec!r}: {short(got, 160)} vs {short(exp, 160)}")
	elif op in ("attr", "attr-wrong"):
		if c == 0:
			chk.skip("structural-no-columns")
			return
		vals = [pool.make_like(rng, next((x for x in cols[0] if x is not None), 1)) for _ in range(r + (1 if op == "attr-wrong" else 0))]
		src = Vector(vals, name="donor") if spec["key"][1] and vals else vals
		o = call(lambda: setattr(t, "a", src))
		if op == "attr-wrong":
			if o.ok:
				chk.fail("input that would make a table ragged is rejected rather than stored", "structural/attr-wrong/ragged-accepted", f"{spec!r}: column lengths now {[len(x) for x in t.cols()]}")
			elif M.snap_table(t) != before:
				chk.fail("a rejected update leaves the table as it was", "structural/attr-wrong/rejected-update-changed-table", f"{spec!r}")
		else:
			if not o.ok:
				chk.fail("attribute assignment replaces a column", f"structural/attr/raises/{type(o.exc).__name__}", f"{spec!r} raised {o!r}")
				return
			exp = [list(vals)] + [list(x) for x in cols[1:]]
			got = tcells(t)
			if any(not M.eq_list(g, e) for g, e in zip(got, exp)):
				chk.fail("attribute assignment replaces exactly that column", "structural/attr/wrong-cells", f"{spec!r}: {short(got, 160)} vs {short(exp, 160)}")
		fail_rect(chk, t, "after " + op, spec)
	elif op == "attr-iterable":
		# attribute assignment from iterables without __len__ (generator, iterator, map, zip), right and wrong sizes
		if c == 0:
			chk.skip("structural-no-columns")
			return
		form, delta = spec["key"]
		m = max(0, r + delta)
		vals = [pool.make_like(rng, next((x for x in cols[0] if x is not None), 1)) for _ in range(m)]
		src = {0: (x for x in vals), 1: iter(vals), 2: map(lambda x: x, vals), 3: (a for a, _ in zip(vals, vals)), 4: tuple(vals), 5: range(m) if all(isinstance(x, int) for x in cols[0]) else list(vals)}[form]
		o = call(lambda: setattr(t, "a", src))
		if m != r:
			if o.ok and pool.rect_violation(t):
				chk.fail("input that would make a table ragged is rejected rather than stored", "structural/attr-iterable/ragged-accepted",
					f"{spec!r}: t.a = <iterable form {form} yielding {m} items> on {r} rows was stored; column lengths {[len(x) for x in t.cols()]}")
			elif not o.ok and M.snap_table(t) != before:
				chk.fail("a rejected update leaves the table as it was", "structural/attr-iterable/rejected-update-changed-table", f"{spec!r}")
		fail_rect(chk, t, "after attr-iterable", spec)
	elif op == "setitem-table":
		# item assignment of a whole table / region from another table whose row count may differ
		if c == 0 or r == 0:
			chk.skip("structural-no-cells")
			return
		keyform, delta = spec["key"]
		m = max(0, r + delta)
		other = Table([Vector([pool.make_like(rng, next((x for x in col if x is not None), [1, "s", 2.5][i % 3])) for _ in range(m)] or [], name=f"o{i}") for i, col in enumerate(cols)]) if m else None
		if other is None:
			chk.skip("structural-empty-source")
			return
		key = {0: slice(None), 1: (slice(None), slice(None)), 2: (slice(0, r), slice(0, c)), 3: (slice(None), slice(0, c))}[keyform]
		o = call(lambda: t.__setitem__(key, other))
		if m != r:
			if o.ok and (pool.rect_violation(t) or len(t) != r):
				chk.fail("input that would make a table ragged is rejected rather than stored", "structural/setitem-table/wrong-row-count-accepted",
					f"{spec!r}: assigning a {m}-row table over {r} rows was accepted; len(t)={len(t)}, column lengths {[len(x) for x in t.cols()]}")
		elif not o.ok:
			chk.fail("a region of matching shape can be assigned", f"structural/setitem-table/raises/{type(o.exc).__name__}", f"{spec!r}: {o!r}")
		else:
			exp = [list(x._underlying) for x in other.cols()]
			got = tcells(t)
			if any(not M.eq_list(g, e) for g, e in zip(got, exp)):
				chk.fail("table assignment writes the addressed cells", "structural/setitem-table/wrong-cells", f"{spec!r}: {short(got, 160)} vs {short(exp, 160)}")
		fail_rect(chk, t, "after setitem-table", spec)
	elif op == "vector>>":
		# column stacking that starts from a vector or a plain sequence
		if r == 0:
			chk.skip("structural-empty-vector")
			return
		a = V.column(rng, "int", r, "none", small=True)
		form = spec["key"][0]
		# (two typesafe vectors of different kinds are refused by design, so the vector-with-vector form uses one kind)
		b = V.column(rng, "int" if form in (0, 4) else "float", r, "none" if form in (0, 4) else rng.choice(["none", "low"]), small=True)
		va = Vector(list(a), name="a")
		if form == 0:
			o, exp = call(lambda: va >> Vector(list(b), name="b")), [a, b]
		elif form == 1:
			o, exp = call(lambda: va >> list(b)), [a, b]
		elif form == 2:
			o, exp = call(lambda: va >> t), [a] + [list(x) for x in cols]
		elif form == 3:
			o, exp = call(lambda: list(b) >> va), [b, a]
		elif form == 4:
			o, exp = call(lambda: va >> Vector(list(b) + [1], name="b")), None      # unequal lengths: must not become a Table
		else:
			o, exp = call(lambda: va >> tuple(b)), [a, b]
		if exp is None:
			rejected(chk, spec, o, None, None, "vector >> longer vector")
			return
		if not o.ok:
			chk.fail(">> stacks columns", f"structural/vector>>/raises/form{form}/{type(o.exc).__name__}", f"{spec!r} raised {o!r}")
			return
		expect_cells(chk, spec, o.value, [list(x) for x in exp], ">> stacks columns and leaves existing ones untouched", "wrong-cells")
		return
	elif op in ("<<table-dupnames", ">>table-dupnames"):
		# tables whose column names repeat: << appends to every column BY POSITION, >> keeps every column
		if c < 2 or r == 0:
			chk.skip("structural-needs-two-columns")
			return
		dn = ["a"] * c if spec["key"][0] == 0 else (["a", "b", "a"][:c] if c >= 3 else ["a", "a"])
		kinds = ["int"] * c
		colsA = [[rng.choice([1, 2, 3]) + 10 * i for _ in range(r)] for i in range(c)]
		colsB = [[rng.choice([1, 2, 3]) + 100 * (i + 1) for _ in range(spec["key"][1] + 1)] for i in range(c)]
		ta = Table([Vector(list(x), name=nm) for x, nm in zip(colsA, dn)])
		tb = Table([Vector(list(x), name=nm) for x, nm in zip(colsB, dn)])
		if op == "<<table-dupnames":
			o = call(lambda: ta << tb)
			exp = [a + b for a, b in zip(colsA, colsB)]
			what = "<< appends rows to every column (by position, also when names repeat)"
		else:
			tb = Table([Vector(list(x)[:1] * r, name=nm) for x, nm in zip(colsB, dn)])
			o = call(lambda: ta >> tb)
			exp = [list(a) for a in colsA] + [[b[0]] * r for b in colsB]
			what = ">> appends columns and leaves existing ones untouched (also when names repeat)"
		if not o.ok:
			chk.fail(what, f"structural/{op}/raises/{type(o.exc).__name__}", f"{spec!r} raised {o!r}")
			return
		expect_cells(chk, spec, o.value, exp, what, "wrong-cells")
		return
	elif op == "ragged-ctor":
		a = Vector(V.column(rng, "int", r + 1, "none", small=True), name="a")
		b = Vector(V.column(rng, "int", r, "none", small=True), name="b")
		order = [a, b] if spec["key"][1] else [b, a]
		for label, f in (("Table([..])", lambda: Table(order)), ("Table({..})", lambda: Table({"a": list(order[0]), "b": list(order[1])})),
			("Vector([..])", lambda: Vector(order)), ("a >> b", lambda: order[0] >> order[1])):
			if label in ("Vector([..])", "a >> b") and min(len(order[0]), len(order[1])) == 0:
				continue
			o = call(f)
			rejected(chk, dict(spec, ctor=label), o, None, None, label)
	# the operand itself must still be a sound table, and operations that build a new table leave it as it was (cells AND names)
	fail_rect(chk, t, "operand after " + op, spec)
	if op in PURE_OPS and M.snap_table(t) != before:
		chk.fail("operations that return a new table leave their operand as it was", f"structural/{op}/operand-changed", f"{spec!r}: {short(before, 200)} -> {short(M.snap_table(t), 200)}")


def run_history(chk, spec):
	m = pool.Machine(chk, spec["seed"], spec["nsteps"], spec.get("profile", "tables"))
	m.run()


RUNNERS = {"structural": run_structural, "history": run_history, "recompute": recompute.runner("C02")}

def setup(chk):
	pool.CENSUS.install()


def run(chk):
	recompute.add_cases(chk, "C02")
	rng = chk.rng
	idx = 0
	for r in range(4):
		for c in range(4):
			for op in OPS:
				variants = [(None, None, None)]
				if op == "gather-big":
					variants = [(a, b) for a in range(3) for b in range(6)] if (r, c) in ((1, 1), (2, 2), (3, 3)) else []
				elif op == "sort-repeated-labels":
					variants = [(a, b) for a in range(4) for b in range(3)]
				elif op == ">>own-column-then-write":
					variants = [(0, 0), (1, 0), (2, 0)]
				elif op == "rows-by-own-int-column":
					variants = [(a, b, f) for a in range(2) for b in range(3) for f in range(3)] if r >= 2 and c == 1 else []
				elif op == "mask-none-then-lshift":
					variants = [(a, b, 0) for a in range(4) for b in range(3)] if r and c else []
				elif op == "select-accessor-before-stored":
					variants = [(a, b, 0) for a in range(3) for b in range(2)] if r and c >= 2 else []
				elif op == "row-write-own-column":
					variants = [(i, j, f) for i in range(max(r, 1)) for j in range(max(c, 1)) for f in range(3)] if r and c else []
				elif op == "row-held-across-writes":
					variants = [(i, f, 0) for i in range(max(r, 1)) for f in range(3)] if r and c else []
				elif op == "colselect-2d-then-write":
					variants = [(j, f, 0) for j in range(max(c, 1)) for f in range(5)] if r and c else []
				elif op == "write-bad-column-position":
					variants = [(b, f, 0) for b in range(5) for f in range(4)] if r and c else []
				elif op == ">>dict-ragged-onto-columnless":
					variants = [(e_, l_, 0) for e_ in range(5) for l_ in range(4)] if (r, c) == (0, 0) else []
				elif op == "rename-first-of-twins":
					variants = [(tw, h, 0) for tw in range(4) for h in range(2)] if (r, c) == (2, 2) else []
				elif op == "cell-by-name-first":
					variants = [(l_, 0, 0) for l_ in range(6)] if (r, c) == (2, 2) else []
				elif op == "cell-iterator-across-advance":
					variants = [(f, 0, 0) for f in range(3)] if r >= 2 and c >= 2 else []
				elif op == "row-write-own-int-column":
					variants = [(i, j, f) for i in range(3) for j in range(3) for f in range(4)] if (r, c) == (3, 3) else []
				elif op == "promote-date-column-with-none":
					variants = [(w, h, 0) for w in range(4) for h in range(5)] if (r, c) == (3, 3) else []
				elif op == "slice-write-reversed":
					variants = [(a, b, f) for (a, b) in ((3, 1), (2, 0), (-1, 1), (4, 2), (9, 12), (2, 2), (-1, -3)) for f in range(3)] if c else []
				elif op == "two-iterations-alive":
					variants = [(f, 0, 0) for f in range(3)] if r >= 2 and c else []
				elif op == "<<row-unsized":
					variants = [(d, k, 0) for d in (-1, 0, 1, -c) for k in range(3)] if c else []
				elif op == "<<row-onto-untyped-empty":
					variants = [(f, 0, 0) for f in range(4)] if c and r == 0 else []
				elif op == "cells-with-shape-attribute":
					variants = [(w, s_, 0) for w in range(max(c, 1)) for s_ in range(3)] if r and c else []
				elif op == "rows-by-index-list":
					variants = [(f, 0, 0) for f in range(5)] if r and c else []
				elif op == "rowslice-2d":
					variants = [(None, None, None), (1, None, None), (None, None, -1), (None, -1, None), (-1, None, -1), (5, None, -2), (2, 0, -1), (-9, 2, 2), (None, None, -2)]
				elif op == "<<row-bytearray":
					variants = [(0, 0), (1, 0), (2, 0)]
				elif op == "<<table-zero-rows":
					variants = [(0, 0), (1, 0)]
				elif op == "rowslice":
					variants = [(None, None, None), (1, None, None), (None, -1, None), (None, None, -1), (5, 9, None), (1, 1, None), (-9, 2, 2)]
				elif op == "rowmask":
					variants = [(m, flag) for m in range(2 ** r) for flag in (0, 1)]
				elif op in ("attr", "attr-wrong", "ragged-ctor"):
					variants = [(0, 0), (0, 1)]
				elif op == "attr-iterable":
					variants = [(form, delta) for form in range(6) for delta in (0, 1, 2, -1)]
				elif op == "setitem-table":
					variants = [(kf, delta) for kf in range(4) for delta in (0, 1, -1, 2)]
				elif op in ("<<table-dupnames", ">>table-dupnames"):
					variants = [(a, b) for a in (0, 1) for b in (0, 1)]
				elif op == "vector>>":
					variants = [(f, 0) for f in range(6)]
				for key in variants:
					idx += 1
					if not chk.mine(idx):
						continue
					chk.case("structural", {"rows": r, "cols": c, "op": op, "key": key, "seed": rng.randrange(10**9)}, "structural")
	for i in range(150 if chk.quick() else 400):
		chk.case("history", {"seed": rng.randrange(10**9), "nsteps": rng.choice([15, 30]) if chk.quick() else rng.choice([15, 30, 60]), "profile": rng.choice(["tables", "tables", "mixed"])}, "history")
