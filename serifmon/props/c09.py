"""C09 - inner join returns exactly the key-equal row pairs, in left-major order, under every hash seed."""
import itertools

from ..bind import Vector, Table
from ..core import call, short
from .. import models as M
from .. import values as V
from . import common
from . import joinmodel as J

HOW = "inner"
from . import recompute

RULE = ("[plus the shared recompute-after-history monitor: this property's operations evaluated on long-lived objects between in-place writes / renames must equal the same operations on fresh objects rebuilt from the current contents] "
	"every pair of key columns over {None, 1, 2} with 0-3 rows per side (1600 pairs) x key given by name / by vector, plus sampled tables "
	"with 1-3 key columns over int/str/bool/date/None (and ints colliding modulo 2**61-1), duplicates on both sides, composite keys agreeing on a "
	"proper subset, 0-3 payload columns, keys by name / own column vector / external vector, plus multi-step histories (join, edit a key or "
	"payload cell in place through a column view / table item / attribute assignment, join again) are run through the real join and compared "
	"row for row, in order, with a nested-loop model over the tables' current contents; every row carries a unique id per side. The same "
	"workload runs under several PYTHONHASHSEED values and the digests of all results must agree. distinct = (join kind, #keys, key mode, size "
	"class, matched?) per case.")
ASSUMPTIONS = [
	"a join may be refused only when the model kinds of the two key columns differ, a key column is float, or a key column's kind is not settled (all None)",
	"results with zero rows need not carry columns",
	"the model reads the tables' current contents through their columns",
]
EXHAUSTIVE = {"flag": True, "scope": "all key columns over {None,1,2} with 0..3 rows on each side, by name and by vector"}
ANCHOR_FUNCS = ["table:Table.inner_join", "table:Table._validate_join_keys"]
REQUIRED_STRATA = {"recompute": 200, "exhaustive": 3000, "sampled": 300, "history": 100}


def tables_from(spec):
	return common.mk_table(spec["left"]), common.mk_table(spec["right"])


def run_join(chk, spec, how=None, stratum="sampled"):
	L, R = tables_from(spec)
	J.check_join(chk, chk.pid, stratum, how or spec.get("how", HOW), L, R, spec["lon"], spec["ron"], key_mode=spec.get("key_mode", "name"),
		expect=spec.get("expect", "many_to_many"), single_as_scalar=spec.get("single_as_scalar", False))


def run_exhaustive(chk, spec):
	left = {"names": ["k", "lid"], "cols": [list(spec["lk"]), [f"L{i}" for i in range(len(spec["lk"]))]]}
	right = {"names": ["k" if spec["same"] else "r", "rid"], "cols": [list(spec["rk"]), [f"R{i}" for i in range(len(spec["rk"]))]]}
	L, R = common.mk_table(left), common.mk_table(right)
	J.check_join(chk, chk.pid, "exhaustive", spec["how"], L, R, ["k"], ["k" if spec["same"] else "r"], key_mode=spec["key_mode"],
		expect="many_to_many", single_as_scalar=spec["scalar"], sig=("ex", spec["how"], tuple(spec["lk"]), tuple(spec["rk"]), spec["key_mode"]))


def apply_edit(chk, tables, step):
	"""in-place edit of one of the tables between two joins; returns False when the edit was refused"""
	t = tables[step["side"]]
	via = step["via"]
	if via == "view":
		o = call(lambda: t[step["col"]].__setitem__(step["row"], step["value"]))
	elif via == "item":
		o = call(lambda: t.__setitem__((step["row"], step["col"]), step["value"]))
	elif via == "attr":
		o = call(lambda: setattr(t, step["col"], list(step["column"])))
	elif via == "rename":
		o = call(lambda: t.rename_column(step["col"], step["new"]))
	else:
		raise ValueError(via)
	return o.ok


def run_history(chk, spec, how=None):
	L, R = tables_from(spec)
	tables = {"L": L, "R": R}
	lon, ron = list(spec["lon"]), list(spec["ron"])
	items = []        # results enter the hash-seed digest only when every edit of the history was accepted
	refused = False   # (a refused edit is an alias-tracking matter - C15 - and must not look like seed dependence here)
	for n, step in enumerate(spec["steps"]):
		if step["op"] == "join":
			J.check_join(chk, chk.pid, "history", how or step.get("how", HOW), L, R, lon, ron, key_mode=step.get("key_mode", "name"),
				expect="many_to_many", label=f"after-{spec['steps'][n - 1]['via']}-edit" if n and spec["steps"][n - 1]["op"] == "edit" else "",
				sig=("hist", how or step.get("how", HOW), n, step.get("key_mode", "name")), digest=items)
		else:
			ok = apply_edit(chk, tables, step)
			refused = refused or not ok
			chk.counters["history_edit_ok" if ok else "history_edit_refused"] += 1
			if ok and step["via"] == "rename":
				names = lon if step["side"] == "L" else ron
				for i, k in enumerate(names):
					if k == step["col"]:
						names[i] = step["new"]
	if not refused:
		chk.feed_digest(items)


def gen_history(rng, how=None):
	spec = common.gen_join_spec_named(rng, max_rows=5, how=how or HOW)
	while not spec["left"]["cols"][0] or not spec["right"]["cols"][0]:
		spec = common.gen_join_spec_named(rng, max_rows=5, how=how or HOW)
	# unique column names so that name-addressed edits hit what the model expects
	for side, pre in ((spec["left"], "l"), (spec["right"], "r")):
		seen = set()
		for i, nm in enumerate(side["names"]):
			if nm in seen:
				side["names"][i] = f"{pre}x{i}"
			seen.add(side["names"][i])
	steps = [{"op": "join", "key_mode": rng.choice(["name", "vector"])}]
	for _ in range(rng.choice([1, 2, 3])):
		side = rng.choice(["L", "R", "R"])
		ts = spec["left"] if side == "L" else spec["right"]
		n = len(ts["cols"][0])
		keynames = spec["lon"] if side == "L" else spec["ron"]
		col = rng.choice(keynames + keynames + [nm for nm in ts["names"] if nm not in keynames][:1])
		ci = ts["names"].index(col)
		existing = [x for x in ts["cols"][ci] if x is not None]
		other = spec["right"] if side == "L" else spec["left"]
		pool = existing + [x for c, nm in zip(other["cols"], other["names"]) if nm in (spec["lon"] + spec["ron"]) for x in c if x is not None and existing and type(x) is type(existing[0])]
		if not pool:
			continue
		via = rng.choice(["view", "view", "item", "attr"])
		if via == "attr":
			newcol = list(ts["cols"][ci])
			rng.shuffle(newcol)
			if all(x is None for x in newcol):
				continue
			steps.append({"op": "edit", "side": side, "via": "attr", "col": col, "column": newcol})
		else:
			steps.append({"op": "edit", "side": side, "via": via, "col": col, "row": rng.randrange(n), "value": rng.choice(pool)})
		steps.append({"op": "join", "key_mode": rng.choice(["name", "vector"])})
	spec["steps"] = steps
	return spec


RUNNERS = {"join": run_join, "exhaustive": run_exhaustive, "history": run_history}
RUNNERS["recompute"] = recompute.runner("C09")


def key_seqs(maxlen=3, dom=(None, 1, 2)):
	for n in range(maxlen + 1):
		for seq in itertools.product(dom, repeat=n):
			yield seq


def ratio_cases(chk, how, count):
	rng = chk.rng
	# one side much larger than the other (library build-side choices by size), duplicate keys on the small side
	for _ in range(count):
		ns = rng.choice([1, 2, 3])
		nb = rng.choice([10 * ns, 10 * ns + 3, 16 * ns, 40])
		small = [rng.choice([1, 2, None]) if rng.random() < 0.8 else 3 for _ in range(ns)]
		if ns > 1 and rng.random() < 0.6:
			small[-1] = small[0]
		big = [rng.choice([1, 2, 3, 4, None]) for _ in range(nb)]
		lk, rk = (small, big) if rng.random() < 0.7 else (big, small)
		spec = {"op": "join", "how": how, "left": {"names": ["k", "lid"], "cols": [lk, [f"L{i}" for i in range(len(lk))]]},
			"right": {"names": ["r", "rid"], "cols": [rk, [f"R{i}" for i in range(len(rk))]]}, "lon": ["k"], "ron": ["r"],
			"key_mode": rng.choice(["name", "vector"]), "single_as_scalar": rng.random() < 0.5, "expect": "many_to_many"}
		chk.case("join", spec, "sampled-size-ratio")


def run_family(chk, how, nsample, nhist):
	rng = chk.rng
	idx = 0
	for lk in key_seqs():
		for rk in key_seqs():
			for key_mode in ("name", "vector"):
				idx += 1
				if not chk.mine(idx):
					continue
				chk.case("exhaustive", {"lk": lk, "rk": rk, "key_mode": key_mode, "how": how, "same": idx % 3 == 0, "scalar": idx % 2 == 0}, "exhaustive")
	for _ in range(nsample):
		spec = common.gen_join_spec(rng, max_rows=rng.choice([4, 8, 12]) if chk.quick() else rng.choice([4, 8, 12, 40, 200]), how=how)
		chk.case("join", spec, "sampled")
	ratio_cases(chk, how, 40 if chk.quick() else 300)
	for _ in range(nhist):
		chk.case("history", gen_history(rng, how), "history")


def run_self_join(chk, spec):
	"""the same Table object on both sides, the left key columns differing from the right ones (manager = id)"""
	T = common.mk_table(spec["table"])
	J.check_join(chk, chk.pid, "sampled", spec["how"], T, T, spec["lon"], spec["ron"], key_mode=spec["key_mode"], expect="many_to_many", label="self",
		sig=("self", spec["how"], len(spec["lon"]), spec["key_mode"], tuple(a == b for a, b in zip(spec["lon"], spec["ron"]))))


def run_derived_right(chk, spec):
	"""a right table DERIVED from one that an earlier join (with an expectation) has already seen: whatever that join learnt about its keys says nothing about
	the derived table (rows repeated by stacking / gathering, keys edited in place, rows re-ordered by a multi-key sort)"""
	import random
	rng = random.Random(spec["seed"])
	L = common.mk_table(spec["left"])
	R = common.mk_table(spec["right"])
	how = spec["how"]
	fn = {"inner": L.inner_join, "left": L.join, "full": L.full_join}[how]
	first = call(fn, R, ["k"], ["r"], expect=spec["first_expect"])      # may be rejected: that is part of the history
	d = spec["derive"]
	nr = len(R)
	if d == "stack":
		o = call(lambda: R << R)
	elif d == "gather":
		o = call(lambda: R[Vector([rng.randrange(nr) for _ in range(nr + 2)])]) if nr else None
	elif d == "same":
		o = call(lambda: R)
	elif d == "copy-then-edit":
		o = call(R.copy)
		if o.ok and nr > 1:
			call(lambda: o.value["r"].__setitem__(0, o.value["r"]._underlying[-1]))
	elif d == "edit-in-place":
		o = call(lambda: R)
		if nr > 1:
			call(lambda: R["r"].__setitem__(0, R["r"]._underlying[-1]))
	elif d == "sort-two-keys":
		o = call(lambda: R.sort_by(["g", "r"]))
	elif d == "sort-key":
		o = call(lambda: R.sort_by("r", reverse=rng.random() < 0.5))
	else:
		o = call(lambda: R[[True] * nr]) if nr else None
	if o is None or not o.ok or not isinstance(o.value, Table) or not o.value.cols():
		chk.skip("derived-right-unavailable")
		return
	R2 = o.value
	if d == "stack" and "r" not in R2.column_names() and len(R2.cols()) == 3:
		for j, nm in enumerate(["g", "r", "rid"]):      # (row stacking gives unnamed columns: name them again through their views)
			call(lambda: setattr(R2.cols()[j], "name", nm))
	if "r" not in R2.column_names():
		chk.counters[f"derived-right-lost-key-column:{d}"] += 1
		chk.skip("derived-right-without-key-column")
		return
	for how2 in spec["then"]:
		J.check_join(chk, chk.pid, "sampled", how2, L, R2, ["k"], ["r"], key_mode=spec["key_mode"], expect="many_to_many", label=f"after-{spec['first_expect']}-join-then-{d}",
			sig=("derived-right", how, how2, spec["first_expect"], d, first.ok), strict=True)


def run_label_accessor(chk, spec):
	"""column labels that are not strings (1, True, 1.0, 2023, 2023.0): a key given by a label's sanitised spelling reaches that column, whatever other
	labels were sanitised earlier in the process"""
	def lab(x):
		return {"1": 1, "True": True, "1.0": 1.0, "2023": 2023, "2023.0": 2023.0, "0": 0, "False": False}[x]
	def spelling(x):
		import re
		s0 = re.sub(r"[^a-z0-9_]+", "_", str(x).lower()).strip("_")
		return ("c" + s0) if s0[:1].isdigit() else s0
	for first in spec["order"]:
		t0 = Table([Vector([1, 2], name=lab(first)), Vector([5, 6], name="z")])
		call(lambda: t0[spelling(lab(first))])
		call(dir, t0)
	lname, rname = lab(spec["left_label"]), lab(spec["right_label"])
	L = Table([Vector([1, 2, 3], name=lname), Vector(["L0", "L1", "L2"], name="lid")])
	R = Table([Vector([3, 1, 1], name=rname), Vector(["R0", "R1", "R2"], name="rid")])
	how = spec.get("how", "inner")
	fn = {"inner": L.inner_join, "left": L.join, "full": L.full_join}[how]
	o = call(fn, R, spelling(lname), spelling(rname), expect="many_to_many")
	chk.judged("sampled", ("label-accessor", how, spec["left_label"], spec["right_label"], tuple(spec["order"])))
	if not o.ok:
		chk.fail("the join is computed for every admissible input", f"join/raises/{how}/label-accessor/{type(o.exc).__name__}",
			f"{spec!r}: join on {spelling(lname)!r} / {spelling(rname)!r} (labels {lname!r} / {rname!r}) raised {o!r}")
		return
	names, rows = J.result_rows(o.value)
	lcols, rcols = [[1, 2, 3], ["L0", "L1", "L2"]], [[3, 1, 1], ["R0", "R1", "R2"]]
	exp, _ = J.expected_rows(how, lcols, rcols, J.rows_from([lcols[0]], 3), J.rows_from([rcols[0]], 3))
	if not J.rows_same(rows, exp):
		chk.fail("join rows equal the nested-loop definition, in the documented order", f"join/wrong-rows/{how}/label-accessor", f"{spec!r}: rows {rows!r} vs {exp!r}")
	elif [repr(x) for x in names] != [repr(x) for x in (lname, "lid", rname, "rid")]:
		chk.fail("output carries all left columns then all right columns under their original names", f"join/column-names/{how}/label-accessor", f"{spec!r}: names {names!r}")


def run_chain(chk, spec):
	from . import c10
	c10.run_chain(chk, spec)


RUNNERS["chain"] = run_chain
RUNNERS["self_join"] = run_self_join
RUNNERS["derived_right"] = run_derived_right
RUNNERS["label_accessor"] = run_label_accessor

def run_special_keys(chk, spec):
	"""key shapes that come out of a table's history rather than its construction: a date key meeting a datetime key (refused or answered - the operands
	are left as they are and a later date-to-date join still hands out dates), a date key column PROMOTED to datetime by a write, a right table that
	lost all its rows to a mask / slice (typed, zero-length key), composite string keys whose cells contain separator characters"""
	import random, warnings
	from datetime import date, datetime
	rng = random.Random(spec["seed"])
	how, variant = spec["how"], spec["variant"]
	days = [date(2024, 3, 1 + i) for i in range(4)]
	with warnings.catch_warnings():
		warnings.simplefilter("ignore")
		if variant == "date-vs-datetime":
			L = Table({"day": [rng.choice(days) for _ in range(spec["nl"])], "lid": list(range(spec["nl"]))})
			R = Table({"ts": [datetime(d.year, d.month, d.day) for d in rng.sample(days, 3)], "rid": ["a", "b", "c"]})
			J.check_join(chk, chk.pid, "sampled", how, L, R, ["day"], ["ts"], key_mode=spec["key_mode"], expect="many_to_many", label="date-vs-datetime", sig=("special", variant, how, "first"))
			R2 = Table({"d2": rng.sample(days, 3), "x": [1, 2, 3]})
			J.check_join(chk, chk.pid, "sampled", "inner", L, R2, ["day"], ["d2"], key_mode=spec["key_mode"], expect="many_to_many", label="date-after-datetime-attempt", sig=("special", variant, how, "follow-up"), strict=True)
		elif variant in ("left-promoted", "both-promoted"):
			L = Table({"day": [rng.choice(days) for _ in range(spec["nl"])], "lid": list(range(spec["nl"]))})
			L["day"][0] = datetime(2024, 3, 2, 9, 30)          # promotes the column in place: its cells are datetimes now
			pool_ = [datetime(d.year, d.month, d.day) for d in days] + [datetime(2024, 3, 2, 9, 30), datetime(2024, 3, 2, 18, 0)]
			if variant == "both-promoted":
				R = Table({"ts": rng.sample(days, 3), "rid": ["a", "b", "c"]})
				R["ts"][1] = datetime(2024, 3, 2, 18, 0)
			else:
				R = Table({"ts": rng.sample(pool_, 4), "rid": ["a", "b", "c", "d"]})
			J.check_join(chk, chk.pid, "sampled", how, L, R, ["day"], ["ts"], key_mode=spec["key_mode"], expect="many_to_many", label=variant, sig=("special", variant, how))
		elif variant in ("right-emptied-by-mask", "right-emptied-by-slice", "left-emptied-by-mask"):
			L = Table({"k": [1, 2, 3][:spec["nl"]] or [1], "lid": ["p", "q", "r"][:spec["nl"]] or ["p"]})
			R = Table({"r": [1, 2, 2, 5], "rid": [10, 20, 30, 40]})
			if variant == "right-emptied-by-mask":
				R = R[[False] * len(R)]
			elif variant == "right-emptied-by-slice":
				R = R[0:0]
			else:
				L, R = L[[False] * len(L)], Table({"r": [1, 2, 5], "rid": [10, 20, 40]})
			J.check_join(chk, chk.pid, "sampled", how, L, R, ["k"], ["r"], key_mode=spec["key_mode"], expect=spec["expect"], label=variant, sig=("special", variant, how, spec["expect"]))
		elif variant == "none-keys-none-payload":
			# None meets None: the matched right row may consist of None only (a key-only right table, a payload of gaps) - it is a partner all the same
			lk = [rng.choice([None, 1, 2]) for _ in range(spec["nl"] + 1)]
			lk[0] = None
			L = Table({"k": lk, "lid": list(range(len(lk)))})
			form = spec["nkeys"] % 3
			if form == 0:
				R = Table({"r": [None, 2, 5]})
			elif form == 1:
				R = Table({"r": [None, 2, None], "p": [None, 7, None]})
			else:
				R = Table({"r": [None, 1], "p": [None, None], "q": [None, None]})
			J.check_join(chk, chk.pid, "sampled", how, L, R, ["k"], ["r"], key_mode=spec["key_mode"], expect="many_to_many", label=variant, sig=("special", variant, how, form))
		elif variant == "separator-strings":
			cells_ = ["x", "y", "z", "x\x1fy", "y\x1fz", "", "\x1f", "x\x1f", "\x1fz", "x\x00y", "x\ty"]
			nk = spec["nkeys"]
			nl, nr = spec["nl"] + 1, rng.choice([2, 3, 5])
			L = Table({**{f"k{j}": [rng.choice(cells_) for _ in range(nl)] for j in range(nk)}, "lid": list(range(nl))})
			R = Table({**{f"r{j}": [rng.choice(cells_) for _ in range(nr)] for j in range(nk)}, "rid": list(range(nr))})
			if nk == 2:
				# the pair that a separator-joined key cannot tell apart, forced in
				L[f"k0"][0], L[f"k1"][0] = "x\x1fy", "z"
				R[f"r0"][0], R[f"r1"][0] = "x", "y\x1fz"
			J.check_join(chk, chk.pid, "sampled", how, L, R, [f"k{j}" for j in range(nk)], [f"r{j}" for j in range(nk)], key_mode=spec["key_mode"], expect="many_to_many", label=variant, sig=("special", variant, how, nk))
		else:
			raise ValueError(variant)


RUNNERS["special_keys"] = run_special_keys


def special_cases(chk, hows, count):
	rng = chk.rng
	variants = ["none-keys-none-payload", "none-keys-none-payload", "date-vs-datetime", "left-promoted", "both-promoted", "right-emptied-by-mask", "right-emptied-by-slice", "left-emptied-by-mask", "separator-strings", "separator-strings"]
	for how in hows:
		for variant in variants:
			for _ in range(count):
				chk.case("special_keys", {"how": how, "variant": variant, "seed": rng.randrange(10**9), "nl": rng.choice([1, 2, 3, 4]), "key_mode": rng.choice(["name", "vector"]),
					"expect": rng.choice(["many_to_one", "one_to_one", "many_to_many", "one_to_many"]), "nkeys": rng.choice([2, 2, 3])}, "special-keys")

def run_crossed_and_kept(chk, spec):
	"""(a) key specs that mix names and vectors differently on the two sides are still paired position by position; (b) a join result is a table of its own:
	writes to either input afterwards do not show in it, writes to it do not show in the inputs, and the same join asked again gives the same rows"""
	import random, warnings
	rng = random.Random(spec["seed"])
	how = spec["how"]
	nl, nr = spec["nl"] + 1, rng.choice([2, 3, 4])
	with warnings.catch_warnings():
		warnings.simplefilter("ignore")
		L = Table({"a": [rng.choice([1, 2, 3]) for _ in range(nl)], "b": [rng.choice([1, 2, 3]) for _ in range(nl)], "lid": list(range(nl))})
		R = Table({"x": [rng.choice([1, 2, 3]) for _ in range(nr)], "y": [rng.choice([1, 2, 3]) for _ in range(nr)], "rid": [10 + i for i in range(nr)]})
		if spec["unique_right"]:
			R = Table({"x": [1, 2, 3][:nr], "y": [1, 2, 3][:nr], "rid": [10, 11, 12][:nr]})
		if spec["what"] == "crossed":
			J.check_join(chk, chk.pid, "sampled", how, L, R, ["a", "b"], ["x", "y"], key_mode="crossed", expect="many_to_many", label="crossed-specs", sig=("crossed", how))
			return
		expect = "many_to_one" if spec["unique_right"] else "many_to_many"
		fn = {"inner": L.inner_join, "left": L.join, "full": L.full_join}[how]
		o = call(fn, R, "a", "x", expect=expect)
		chk.judged("sampled", ("kept-result", how, spec["unique_right"], spec["write"]))
		if not o.ok or not isinstance(o.value, Table) or len(o.value) == 0:
			chk.skip("kept-result-unavailable")
			return
		res = o.value
		snap_res, snap_L, snap_R = M.snap_table(res), M.snap_table(L), M.snap_table(R)
		w = spec["write"]
		if w == "left-cell":
			call(L.__setitem__, (0, "lid"), 999)
		elif w == "left-view":
			call(L["b"].__setitem__, 0, 999)
		elif w == "left-rename":
			call(L.rename_column, "b", "bee")
		elif w == "right-cell":
			call(R.__setitem__, (0, "rid"), 999)
		elif w in ("result-cell", "result-rename"):
			call(res.__setitem__, (0, 2), 555) if w == "result-cell" else call(res.rename_column, "lid", "left_id")
			if M.snap_table(L) != snap_L or M.snap_table(R) != snap_R:
				chk.fail("a join does not modify its inputs (nor does a later write to its result)", f"join/result-shares-with-input/{how}/{w}", f"{spec!r}: writing the result changed an input: L {short(snap_L, 120)} -> {short(M.snap_table(L), 120)}", prop=chk.pid)
			return
		if M.snap_table(res) != snap_res:
			chk.fail("output rows hold the values the inputs had when the join was made (a kept result does not follow later writes to an input)", f"join/result-follows-input/{how}/{w}",
				f"{spec!r}: after {w} the kept result changed: {short(snap_res, 160)} -> {short(M.snap_table(res), 160)}", prop=chk.pid)


RUNNERS["crossed_and_kept"] = run_crossed_and_kept


def crossed_kept_cases(chk, hows, count):
	rng = chk.rng
	for how in hows:
		for _ in range(count):
			chk.case("crossed_and_kept", {"how": how, "what": "crossed", "seed": rng.randrange(10**9), "nl": rng.choice([1, 2, 4]), "unique_right": False, "write": None}, "crossed-specs")
		for write in ("left-cell", "left-view", "left-rename", "right-cell", "result-cell", "result-rename"):
			for unique_right in (True, False):
				chk.case("crossed_and_kept", {"how": how, "what": "kept", "seed": rng.randrange(10**9), "nl": rng.choice([2, 3]), "unique_right": unique_right, "write": write}, "kept-result")


def run_unique_keys_expect(chk, spec):
	"""keys unique on both sides satisfy every expectation: whichever one is passed, the rows - and their ORDER (left position, then right position) - are those of the definition"""
	import random, warnings
	from datetime import date, timedelta
	rng = random.Random(spec["seed"])
	n = spec["n"]
	dom = {"str": ["pear", "apple", "fig", "kiwi", "lime", "plum", "date", "yam", "nut", "oat"], "int": [40, 7, 1000003, -5, 2 ** 61, 12, 0, 99, 3, 8],
		"date": [date(2020, 1, 1) + timedelta(days=37 * i) for i in range(10)], "mixed-none": [None, "b", "a", "zz", "c", "q", "k", "m", "n", "o"]}[spec["kind"]]
	lk = rng.sample(dom, n)
	rk = rng.sample(dom, max(2, n - 1))
	with warnings.catch_warnings():
		warnings.simplefilter("ignore")
		L = Table({"k": list(lk), "lid": list(range(n))})
		R = Table({"r": list(rk), "rid": [100 + i for i in range(len(rk))]})
		J.check_join(chk, chk.pid, "sampled", spec["how"], L, R, ["k"], ["r"], key_mode=spec["key_mode"], expect=spec["expect"], label=f"unique-keys-{spec['expect']}", sig=("unique-keys", spec["how"], spec["expect"], spec["kind"], spec["key_mode"]))


RUNNERS["unique_keys_expect"] = run_unique_keys_expect


def run_repeated_name_after_other_table(chk, spec):
	"""a key given by a name the table carries TWICE means the first such column (what t[name] returns) - whatever position that name had in some other table an
	earlier call looked at"""
	import warnings
	how = spec["how"]
	with warnings.catch_warnings():
		warnings.simplefilter("ignore")
		p = spec["position"]
		names0 = ["a", "b", "c"]
		names0[p] = "k"
		other = Table([Vector([1, 2, 3], name=nm) for nm in names0])
		probe = Table({"z": [1, 2], "w": [5, 6]})
		# (1) earlier calls resolve 'k' at position p of an unrelated table
		for f in (lambda: other.inner_join(probe, "k", "z"), lambda: other.aggregate(over="k", count_over=names0[(p + 1) % 3]), lambda: other.sort_by("k")):
			call(f)
		# (2) a table that carries 'k' at position 0 and again at position p (different cells), (3) joined by 'k'
		cols = [[1, 2, 2], [7, 8, 9], [4, 5, 6]]
		names = ["k", "x", "y"]
		if p:
			names[p] = "k"
			cols[p] = [2, 1, 1]
		else:
			names[2] = "k"
			cols[2] = [2, 1, 1]
		T = Table([Vector(list(c), name=nm) for c, nm in zip(cols, names)])
		R = Table({"r": [1, 2, 3], "rid": [10, 20, 30]})
		if spec["side"] == "left":
			J.check_join(chk, chk.pid, "sampled", how, T, R, ["k"], ["r"], key_mode="name", expect="many_to_many", label="repeated-name-after-other-table", sig=("repeated-name-after-other-table", how, p, "left"))
		else:
			J.check_join(chk, chk.pid, "sampled", how, R, T, ["r"], ["k"], key_mode="name", expect="many_to_many", label="repeated-name-after-other-table", sig=("repeated-name-after-other-table", how, p, "right"))


RUNNERS["repeated_name_after_other_table"] = run_repeated_name_after_other_table


def run_hash_equal_right_tables(chk, spec):
	"""two joins in a row whose right key columns differ only in values Python's hash() cannot tell apart (-1 / -2, 0 / 2**61 - 1, n / n + 2**61 - 1) at the same positions -
	another table, or the same one after an in-place write: each join pairs by ==, nothing remembered under a hash of the first contents answers for the second"""
	import warnings
	P = 2 ** 61 - 1
	how = spec["how"]
	first_keys, second_keys = {"minus": ([-1, 5, 0], [-2, 5, 0]), "modulus": ([0, 5, 7], [P, 5, 7 + P]), "both": ([-1, 0, 3], [-2, P, 3]), "text-and-int": ([-1, 4, 4], [-2, 4, 4])}[spec["pair"]]
	with warnings.catch_warnings():
		warnings.simplefilter("ignore")
		L = Table({"k": [-1, -2, 0, P, 5, 7, 7 + P, 3, 4], "lid": list(range(9))})
		R1 = Table({"r": list(first_keys), "rid": [10, 11, 12]})
		if spec["prefingerprint"]:
			call(R1.fingerprint); call(R1["r"].fingerprint)
		J.check_join(chk, chk.pid, "sampled", how, L, R1, ["k"], ["r"], key_mode=spec["key_mode"], expect="many_to_many", label="hash-equal-right-tables/first", sig=("hash-equal-right", how, spec["pair"], "first"))
		if spec["second"] == "other-table":
			R2 = Table({"r": list(second_keys), "rid": [10, 11, 12]})
		else:
			R2 = R1
			for i, (a, b) in enumerate(zip(first_keys, second_keys)):
				if a != b:
					call(R2["r"].__setitem__, i, b) if spec["second"] == "written-through-handle" else call(R2.__setitem__, (i, "r"), b)
		if spec["prefingerprint"]:
			call(R2.fingerprint)
		J.check_join(chk, chk.pid, "sampled", how, L, R2, ["k"], ["r"], key_mode=spec["key_mode"], expect="many_to_many", label="hash-equal-right-tables/second", sig=("hash-equal-right", how, spec["pair"], spec["second"]))
		# ... and the roles exchanged: the hash-equal values on the LEFT of two successive joins
		L2 = Table({"k": list(second_keys), "lid": [0, 1, 2]})
		J.check_join(chk, chk.pid, "sampled", how, L2, R1 if R2 is not R1 else Table({"r": list(first_keys), "rid": [10, 11, 12]}), ["k"], ["r"], key_mode=spec["key_mode"], expect="many_to_many", label="hash-equal-right-tables/left", sig=("hash-equal-right", how, spec["pair"], "left"))


RUNNERS["hash_equal_right_tables"] = run_hash_equal_right_tables


def unique_keys_cases(chk, hows):
	rng = chk.rng
	for how in hows:
		for pair in ("minus", "modulus", "both", "text-and-int"):
			for second in ("other-table", "written-through-handle", "written-through-table"):
				for key_mode in ("name", "vector"):
					for pre in (False, True):
						chk.case("hash_equal_right_tables", {"how": how, "pair": pair, "second": second, "key_mode": key_mode, "prefingerprint": pre}, "hash-equal-right-tables")
	for how in hows:
		for position in (0, 1, 2):
			for side in ("left", "right"):
				chk.case("repeated_name_after_other_table", {"how": how, "position": position, "side": side}, "repeated-name-after-other-table")
	for how in hows:
		for expect in ("one_to_one", "many_to_one", "one_to_many", "many_to_many"):
			for kind in ("str", "int", "date", "mixed-none"):
				for key_mode in ("name", "vector"):
					chk.case("unique_keys_expect", {"how": how, "expect": expect, "kind": kind, "key_mode": key_mode, "n": rng.choice([4, 6, 9]), "seed": rng.randrange(10**9)}, "unique-keys-expect")


def run_repeated_key_column(chk, spec):
	"""a composite key that names one column twice with different partners (ship_to = cust AND bill_to = cust; a = x AND a = y): every pair counts"""
	L, R = common.mk_table(spec["left"]), common.mk_table(spec["right"])
	ln, lc = J.cells(L)
	rn, rc = J.cells(R)
	lkeys = J.rows_from([lc[ln.index(k)] for k in spec["lon"]], len(lc[0]))
	rkeys = J.rows_from([rc[rn.index(k)] for k in spec["ron"]], len(rc[0]))
	exp, pairs = J.expected_rows(spec["how"], lc, rc, lkeys, rkeys)
	lon = [L[k] for k in spec["lon"]] if spec["key_mode"] == "vector" else list(spec["lon"])
	ron = [R[k] for k in spec["ron"]] if spec["key_mode"] == "vector" else list(spec["ron"])
	fn = {"inner": L.inner_join, "left": L.join, "full": L.full_join}[spec["how"]]
	o = call(fn, R, lon, ron, expect=spec["expect"])
	chk.judged("sampled", ("repeated-key-column", spec["how"], tuple(spec["lon"]), tuple(spec["ron"]), spec["expect"], spec["key_mode"]))
	lu, ru = J.unique_keys(lkeys), J.unique_keys(rkeys)
	must_raise = (spec["expect"] in ("one_to_one", "one_to_many") and not lu) or (spec["expect"] in ("one_to_one", "many_to_one") and not ru)
	if not o.ok and J.refusal_allowed([lc[ln.index(k)] for k in spec["lon"]], [rc[rn.index(k)] for k in spec["ron"]], [L[k].schema() for k in spec["lon"]], [R[k].schema() for k in spec["ron"]]):
		chk.skip("join-refusal-allowed")
		return
	if must_raise:
		if o.ok:
			chk.fail("the call raises when a required uniqueness fails (uniqueness of the whole key tuples)", f"cardinality/accepted/{spec['how']}/{spec['expect']}/repeated-key-column", f"{spec!r}: returned", prop="C11")
		return
	if not o.ok:
		chk.fail("the join is computed for every admissible input", f"join/raises/{spec['how']}/repeated-key-column/{type(o.exc).__name__}", f"{spec!r}: raised {o!r} (key tuples L {lkeys} R {rkeys})", prop=chk.pid if chk.pid != "C11" else "C11")
		return
	got = J.result_rows(o.value)[1]
	if (got or exp) and not J.rows_same(got, exp):
		chk.fail("join rows equal the nested-loop definition, in the documented order", f"join/{J.describe_diff(got, exp)}/{spec['how']}/repeated-key-column", f"{spec!r}: rows {short(got, 240)} vs model {short(exp, 240)}")


def run_empty_chain(chk, spec):
	a, b = Table({"k": [1, 2]}), Table({"k": [3, 4]})
	e1 = call(a.inner_join, b, "k", "k", expect="many_to_many")
	e2 = call(b.inner_join, a, "k", "k", expect="many_to_many")
	chk.judged("sampled", ("empty-chain", spec["how"], spec["keyform"]))
	if not (e1.ok and e2.ok) or len(e1.value) or len(e2.value):
		chk.skip("empty-chain-setup")
		return
	fn = {"inner": e1.value.inner_join, "left": e1.value.join, "full": e1.value.full_join}[spec["how"]]
	k = (Vector([]), Vector([])) if spec["keyform"] == "vector-empty" else ([Vector([])], [Vector([])])
	for expect in ("many_to_many", "one_to_one"):
		o = call(fn, e2.value, k[0], k[1], expect=expect)
		if not o.ok:
			chk.fail("the join is computed for every admissible input (two results without rows join to a result without rows)", f"join/raises/{spec['how']}/empty-with-empty/{type(o.exc).__name__}", f"{spec!r} expect={expect}: {o!r}")
			return
		if not isinstance(o.value, Table) or len(o.value) != 0:
			chk.fail("join rows equal the nested-loop definition", f"join/extra-rows/{spec['how']}/empty-with-empty", f"{spec!r}: {short(o.value, 100)}")
			return


RUNNERS["repeated_key_column"] = run_repeated_key_column
RUNNERS["empty_chain"] = run_empty_chain


def repeated_key_cases(chk, how, count, expects=("many_to_many",)):
	rng = chk.rng
	for _ in range(count):
		nl, nr = rng.choice([1, 2, 3, 4]), rng.choice([1, 2, 3, 4])
		side = rng.choice(["left-twice", "right-twice", "both"])
		dom = [1, 2, None] if rng.random() < 0.2 else [1, 2]
		left = {"names": ["a", "b", "lid"], "cols": [[rng.choice(dom) for _ in range(nl)], [rng.choice(dom) for _ in range(nl)], [f"L{i}" for i in range(nl)]]}
		right = {"names": ["x", "y", "rid"], "cols": [[rng.choice(dom) for _ in range(nr)], [rng.choice(dom) for _ in range(nr)], [f"R{i}" for i in range(nr)]]}
		lon, ron = {"left-twice": (["a", "a"], ["x", "y"]), "right-twice": (["a", "b"], ["x", "x"]), "both": (["a", "b", "a"], ["x", "x", "y"])}[side]
		chk.case("repeated_key_column", {"left": left, "right": right, "lon": lon, "ron": ron, "how": how, "expect": rng.choice(list(expects)), "key_mode": rng.choice(["name", "vector"])}, "repeated-key-column")


def label_cases(chk, hows):
	labels = ["1", "True", "1.0", "2023", "2023.0", "0", "False"]
	for how in hows:
		for a in labels:
			for b in labels:
				for order in ([a, b], [b, a], [x for x in labels if x not in (a, b)][:2] + [a]):
					chk.case("label_accessor", {"left_label": a, "right_label": b, "order": order, "how": how}, "label-accessor")


def extra_cases(chk, how, count):
	"""self joins, derived right tables (shared by the inner / left / full families)"""
	rng = chk.rng
	repeated_key_cases(chk, how, count)
	# a long right table with dense non-negative int keys (direct-address tables, sorted-run merges ...) and left keys outside its range
	for _ in range(6 if chk.quick() else 40):
		nr = rng.choice([512, 600, 1024])
		rk = list(range(nr))
		if rng.random() < 0.5:
			rng.shuffle(rk)
		lk = [rng.choice([-1, -5, 0, nr - 1, nr, nr + 7, 3, -nr, None]) for _ in range(rng.choice([3, 6]))]
		spec = {"op": "join", "how": how, "left": {"names": ["k", "lid"], "cols": [lk, [f"L{i}" for i in range(len(lk))]]}, "right": {"names": ["r", "rid"], "cols": [rk, [f"R{i}" for i in range(nr)]]},
			"lon": ["k"], "ron": ["r"], "key_mode": rng.choice(["name", "vector"]), "single_as_scalar": rng.choice([True, False, "left-only"]), "expect": "many_to_many"}
		chk.case("join", spec, "sampled-dense-big-right")
	# results without any column (joins that matched nothing) joined with each other
	for keyform in ("vector-empty", "list-empty"):
		chk.case("empty_chain", {"how": how, "keyform": keyform}, "empty-chain")
	for _ in range(count):
		n = rng.choice([2, 3, 4, 6])
		ids = list(range(1, n + 1))
		mgr = [rng.choice(ids + [None, 99]) for _ in range(n)]
		dept = [rng.choice(["d1", "d2"]) for _ in range(n)]
		tb = {"names": ["id", "mgr", "dept", "lid"], "cols": [ids, mgr, dept, [f"E{i}" for i in range(n)]]}
		lon, ron = rng.choice([(["mgr"], ["id"]), (["dept", "mgr"], ["dept", "id"]), (["mgr", "dept"], ["id", "dept"]), (["id"], ["id"]), (["dept"], ["dept"])])
		chk.case("self_join", {"table": tb, "lon": lon, "ron": ron, "how": how, "key_mode": rng.choice(["name", "vector"])}, "self-join")
	# directed: a right table whose key REPEATS (so many_to_one / one_to_one are rejected) or is unique, every derivation, every first expectation
	for first_expect in ("many_to_one", "one_to_one", "many_to_many", "one_to_many"):
		for derive in ("same", "stack", "gather", "copy-then-edit", "edit-in-place", "sort-two-keys", "sort-key", "mask"):
			for rk in ([1, 2, 2, 1], [1, 2, 3, 4]):
				left = {"names": ["k", "lid"], "cols": [[2, 1, None, 2], ["L0", "L1", "L2", "L3"]]}
				right = {"names": ["g", "r", "rid"], "cols": [["x", "y", "x", "y"], list(rk), ["R0", "R1", "R2", "R3"]]}
				chk.case("derived_right", {"left": left, "right": right, "how": how, "first_expect": first_expect, "derive": derive, "then": ["inner", "left", "full"] if how != "inner" else ["inner"],
					"key_mode": "name" if derive in ("same", "stack") else "vector", "seed": 7}, "derived-right-directed")
	for _ in range(count):
		nl, nr = rng.choice([1, 2, 3, 4]), rng.choice([2, 3, 4])
		rk = rng.sample([1, 2, 3, 4, 5], nr) if rng.random() < 0.6 else [rng.choice([1, 2, 3]) for _ in range(nr)]
		left = {"names": ["k", "lid"], "cols": [[rng.choice([1, 2, 3, 4, None]) for _ in range(nl)], [f"L{i}" for i in range(nl)]]}
		right = {"names": ["g", "r", "rid"], "cols": [[rng.choice(["x", "y"]) for _ in range(nr)], rk, [f"R{i}" for i in range(nr)]]}
		derive = rng.choice(["stack", "gather", "same", "copy-then-edit", "edit-in-place", "sort-two-keys", "sort-two-keys", "sort-key", "mask"])
		if derive == "sort-two-keys":
			# the join key is the SECONDARY sort key: its equal values are not adjacent after the sort
			nr = rng.choice([3, 4, 5, 6])
			right = {"names": ["g", "r", "rid"], "cols": [[["x", "y", "z"][i % rng.choice([2, 3])] for i in range(nr)], [rng.choice([1, 2]) for _ in range(nr)], [f"R{i}" for i in range(nr)]]}
		chk.case("derived_right", {"left": left, "right": right, "how": how, "first_expect": rng.choice(["many_to_one", "one_to_one", "many_to_many", "one_to_many"]),
			"derive": derive, "then": rng.sample(["inner", "left", "full"], 2) if how != "inner" else ["inner"],
			"key_mode": rng.choice(["name", "vector"]), "seed": rng.randrange(10**9)}, "derived-right")


def run(chk):
	recompute.add_cases(chk, "C09")
	run_family(chk, HOW, 500 if chk.quick() else 2500, 150 if chk.quick() else 800)
	from . import c10
	c10.chain_cases(chk, 150 if chk.quick() else 1000, ["inner"], ["inner"])
	extra_cases(chk, HOW, 150 if chk.quick() else 1000)
	label_cases(chk, [HOW])
	special_cases(chk, [HOW], 4 if chk.quick() else 25)
	crossed_kept_cases(chk, [HOW], 6 if chk.quick() else 40)
	unique_keys_cases(chk, [HOW])
