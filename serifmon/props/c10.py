"""C10 - left and full outer joins keep every row and pad with None."""
import itertools

from ..bind import Vector, Table
from ..core import call, short
from .. import models as M
from . import common
from . import joinmodel as J
from . import c09

RULE = ("the C09 workloads (all key columns over {None,1,2} with 0-3 rows per side, sampled 1-3 key columns with duplicates / None / partial "
	"agreement, multi-step join-edit-join histories) are run through join (left) and full_join and compared row for row with the nested-loop model "
	"(unmatched left rows padded in place, unmatched right rows appended in right order); in addition every case is checked for conservation on the "
	"unique row ids (each left id appears max(1, #matches) times, each right id of a full join max(1, #matches) times), containment inner <= left "
	"<= full as multisets, and symmetry of full_join(L,R) with full_join(R,L) up to row and column order. distinct = (join kind, key multiset "
	"class / #keys, key mode, size class).")
ASSUMPTIONS = c09.ASSUMPTIONS
EXHAUSTIVE = {"flag": True, "scope": "all key columns over {None,1,2} with 0..3 rows on each side for left and full joins (every subset of unmatched rows)"}
ANCHOR_FUNCS = ["table:Table.join", "table:Table.full_join"]
REQUIRED_STRATA = {"exhaustive": 6000, "sampled": 300, "history": 100, "relations": 300}


def run_join(chk, spec):
	c09.run_join(chk, spec, how=spec["how"])


def run_history(chk, spec):
	for step in spec["steps"]:
		if step["op"] == "join":
			step.setdefault("how", spec["how"])
	c09.run_history(chk, spec, how=spec["how"])


def multiset(rows):
	out = {}
	for r in rows:
		k = repr(r)
		out[k] = out.get(k, 0) + 1
	return out


def contained(a, b):
	return all(b.get(k, 0) >= n for k, n in a.items())


def run_relations(chk, spec):
	"""conservation, containment and symmetry between the three joins on one pair of tables"""
	L, R = c09.tables_from(spec)
	lon, ron = spec["lon"], spec["ron"]
	ln, lc = J.cells(L)
	rn, rc = J.cells(R)
	nl = len(lc[0]) if lc else 0
	nr = len(rc[0]) if rc else 0
	lkeycols = [lc[ln.index(k)] for k in lon]
	rkeycols = [rc[rn.index(k)] for k in ron]
	if J.refusal_allowed(lkeycols, rkeycols):
		chk.skip("relations-refusal-allowed")
		return
	lkeys = J.rows_from(lkeycols, nl)
	rkeys = J.rows_from(rkeycols, nr)
	res = {}
	for how, fn, a, b, x, y in (("inner", L.inner_join, R, None, lon, ron), ("left", L.join, R, None, lon, ron), ("full", L.full_join, R, None, lon, ron)):
		o = call(fn, a, x, y, expect="many_to_many")
		if not o.ok:
			chk.judged("relations", ("rel-raise", how))
			chk.fail("the join is computed for every admissible input", f"join/raises/{how}/{type(o.exc).__name__}", f"{spec!r}: {how} raised {o!r}")
			return
		res[how] = J.result_rows(o.value)[1]
		chk.observe(o.value, "relations-" + how)
	o = call(R.full_join, L, ron, lon, expect="many_to_many")
	chk.judged("relations", ("rel", len(lon), min(nl, 4), min(nr, 4)))
	wl, wr = len(lc), len(rc)
	lid = ln.index("lid")
	rid = rn.index("rid")
	# conservation on ids
	for how in ("left", "full"):
		rows = res[how]
		if not rows and not (nl or (how == "full" and nr)):
			continue
		counts = {}
		for r in rows:
			counts[r[lid]] = counts.get(r[lid], 0) + 1
		for i in range(nl):
			m = sum(1 for rk in rkeys if J.key_eq(lkeys[i], rk))
			want = max(1, m)
			have = counts.get(f"L{i}", 0)
			if have != want:
				chk.fail("every left row appears max(1, #matches) times", f"relations/left-row-count/{how}/{'missing' if have < want else 'duplicated'}",
					f"{spec!r}: {how} join has left row L{i} {have} times, expected {want}; rows {short(rows, 300)}")
				return
	if res["full"] or nr:
		counts = {}
		for r in res["full"]:
			counts[r[wl + rid]] = counts.get(r[wl + rid], 0) + 1
		for j in range(nr):
			m = sum(1 for lk in lkeys if J.key_eq(lk, rkeys[j]))
			want = max(1, m)
			have = counts.get(f"R{j}", 0)
			if have != want:
				chk.fail("every right row appears max(1, #matches) times in a full join", f"relations/right-row-count/full/{'missing' if have < want else 'duplicated'}",
					f"{spec!r}: full join has right row R{j} {have} times, expected {want}; rows {short(res['full'], 300)}")
				return
	mi, ml, mf = multiset(res["inner"]), multiset(res["left"]), multiset(res["full"])
	if res["inner"] and not contained(mi, ml):
		chk.fail("inner is contained in left", "relations/inner-not-in-left", f"{spec!r}: inner {short(res['inner'], 200)} left {short(res['left'], 200)}")
	if res["left"] and not contained(ml, mf):
		chk.fail("left is contained in full", "relations/left-not-in-full", f"{spec!r}: left {short(res['left'], 200)} full {short(res['full'], 200)}")
	if not o.ok:
		chk.fail("the swapped full join is computed", f"join/raises/full-swapped/{type(o.exc).__name__}", f"{spec!r}: full_join(R, L) raised {o!r}")
		return
	swapped = J.result_rows(o.value)[1]
	a = multiset([(r[:wl], r[wl:]) for r in res["full"]])
	b = multiset([(r[wr:], r[:wr]) for r in swapped])
	if (res["full"] or swapped) and a != b:
		chk.fail("swapping the tables of a full join gives the same rows up to column and row order", "relations/full-join-not-symmetric",
			f"{spec!r}: full(L,R) {short(res['full'], 240)} vs full(R,L) {short(swapped, 240)}")


RUNNERS = {"join": run_join, "exhaustive": c09.run_exhaustive, "history": run_history, "relations": run_relations}


def run(chk):
	rng = chk.rng
	for how in ("left", "full"):
		idx = 0
		for lk in c09.key_seqs():
			for rk in c09.key_seqs():
				for key_mode in ("name", "vector"):
					idx += 1
					if not chk.mine(idx):
						continue
					chk.case("exhaustive", {"lk": lk, "rk": rk, "key_mode": key_mode, "how": how, "same": idx % 3 == 0, "scalar": idx % 2 == 0}, "exhaustive")
		for _ in range(300 if chk.quick() else 1500):
			spec = common.gen_join_spec(rng, max_rows=rng.choice([4, 8, 12]) if chk.quick() else rng.choice([4, 8, 12, 40, 200]), how=how)
			chk.case("join", spec, "sampled")
		for _ in range(100 if chk.quick() else 500):
			spec = c09.gen_history(rng, how)
			spec["how"] = how
			chk.case("history", spec, "history")
	# relations: exhaustive small keys + sampled
	idx = 0
	for lk in c09.key_seqs():
		for rk in c09.key_seqs():
			idx += 1
			if not chk.mine(idx) or (chk.quick() and idx % 4):
				continue
			spec = {"left": {"names": ["k", "lid"], "cols": [list(lk), [f"L{i}" for i in range(len(lk))]]},
				"right": {"names": ["r", "rid"], "cols": [list(rk), [f"R{i}" for i in range(len(rk))]]}, "lon": ["k"], "ron": ["r"]}
			chk.case("relations", spec, "relations")
	for _ in range(300 if chk.quick() else 1500):
		spec = common.gen_join_spec(rng, max_rows=rng.choice([3, 6, 10]))
		chk.case("relations", spec, "relations")
