"""C10 - left and full outer joins keep every row and pad with None."""
import itertools

from ..bind import Vector, Table
from ..core import call, short
from .. import models as M
from . import common
from . import joinmodel as J
from . import c09

from . import recompute

RULE = ("[plus the shared recompute-after-history monitor: this property's operations evaluated on long-lived objects between in-place writes / renames must equal the same operations on fresh objects rebuilt from the current contents] "
	"the C09 workloads (all key columns over {None,1,2} with 0-3 rows per side, sampled 1-3 key columns with duplicates / None / partial "
	"agreement, multi-step join-edit-join histories) are run through join (left) and full_join and compared row for row with the nested-loop model "
	"(unmatched left rows padded in place, unmatched right rows appended in right order); in addition every case is checked for conservation on the "
	"unique row ids (each left id appears max(1, #matches) times, each right id of a full join max(1, #matches) times), containment inner <= left "
	"<= full as multisets, and symmetry of full_join(L,R) with full_join(R,L) up to row and column order. distinct = (join kind, key multiset "
	"class / #keys, key mode, size class).")
ASSUMPTIONS = c09.ASSUMPTIONS
EXHAUSTIVE = {"flag": True, "scope": "all key columns over {None,1,2} with 0..3 rows on each side for left and full joins (every subset of unmatched rows)"}
ANCHOR_FUNCS = ["table:Table.join", "table:Table.full_join"]
REQUIRED_STRATA = {"recompute": 200, "unmatched-order": 40, "chain": 100, "exhaustive": 6000, "sampled": 300, "history": 100, "relations": 300}


def run_join(chk, spec):
	c09.run_join(chk, spec, how=spec["how"])


def run_history(chk, spec):
	for step in spec["steps"]:
		if step["op"] == "join":
			step.setdefault("how", spec["how"])
	c09.run_history(chk, spec, how=spec["how"])


def multiset(rows):
	out = {}
	for r in rows:
		k = repr(r)
		out[k] = out.get(k, 0) + 1
	return out


def contained(a, b):
	return all(b.get(k, 0) >= n for k, n in a.items())


def run_relations(chk, spec):
	"""conservation, containment and symmetry between the three joins on one pair of tables"""
	L, R = c09.tables_from(spec)
	lon, ron = spec["lon"], spec["ron"]
	ln, lc = J.cells(L)
	rn, rc = J.cells(R)
	nl = len(lc[0]) if lc else 0
	nr = len(rc[0]) if rc else 0
	lkeycols = [lc[ln.index(k)] for k in lon]
	rkeycols = [rc[rn.index(k)] for k in ron]
	if J.refusal_allowed(lkeycols, rkeycols, [L.cols()[ln.index(k)].schema() for k in lon], [R.cols()[rn.index(k)].schema() for k in ron]):
		chk.skip("relations-refusal-allowed")
		return
	lkeys = J.rows_from(lkeycols, nl)
	rkeys = J.rows_from(rkeycols, nr)
	res = {}
	for how, fn, a, b, x, y in (("inner", L.inner_join, R, None, lon, ron), ("left", L.join, R, None, lon, ron), ("full", L.full_join, R, None, lon, ron)):
		o = call(fn, a, x, y, expect="many_to_many")
		if not o.ok:
			chk.judged("relations", ("rel-raise", how))
			chk.fail("the join is computed for every admissible input", f"join/raises/{how}/{type(o.exc).__name__}", f"{spec!r}: {how} raised {o!r}")
			return
		res[how] = J.result_rows(o.value)[1]
		chk.observe(o.value, "relations-" + how)
	o = call(R.full_join, L, ron, lon, expect="many_to_many")
	chk.judged("relations", ("rel", len(lon), min(nl, 4), min(nr, 4)))
	wl, wr = len(lc), len(rc)
	lid = ln.index("lid")
	rid = rn.index("rid")
	# conservation on ids
	for how in ("left", "full"):
		rows = res[how]
		if not rows and not (nl or (how == "full" and nr)):
			continue
		counts = {}
		for r in rows:
			counts[r[lid]] = counts.get(r[lid], 0) + 1
		for i in range(nl):
			m = sum(1 for rk in rkeys if J.key_eq(lkeys[i], rk))
			want = max(1, m)
			have = counts.get(f"L{i}", 0)
			if have != want:
				chk.fail("every left row appears max(1, #matches) times", f"relations/left-row-count/{how}/{'missing' if have < want else 'duplicated'}",
					f"{spec!r}: {how} join has left row L{i} {have} times, expected {want}; rows {short(rows, 300)}")
				return
	if res["full"] or nr:
		counts = {}
		for r in res["full"]:
			counts[r[wl + rid]] = counts.get(r[wl + rid], 0) + 1
		for j in range(nr):
			m = sum(1 for lk in lkeys if J.key_eq(lk, rkeys[j]))
			want = max(1, m)
			have = counts.get(f"R{j}", 0)
			if have != want:
				chk.fail("every right row appears max(1, #matches) times in a full join", f"relations/right-row-count/full/{'missing' if have < want else 'duplicated'}",
					f"{spec!r}: full join has right row R{j} {have} times, expected {want}; rows {short(res['full'], 300)}")
				return
	mi, ml, mf = multiset(res["inner"]), multiset(res["left"]), multiset(res["full"])
	if res["inner"] and not contained(mi, ml):
		chk.fail("inner is contained in left", "relations/inner-not-in-left", f"{spec!r}: inner {short(res['inner'], 200)} left {short(res['left'], 200)}")
	if res["left"] and not contained(ml, mf):
		chk.fail("left is contained in full", "relations/left-not-in-full", f"{spec!r}: left {short(res['left'], 200)} full {short(res['full'], 200)}")
	if not o.ok:
		chk.fail("the swapped full join is computed", f"join/raises/full-swapped/{type(o.exc).__name__}", f"{spec!r}: full_join(R, L) raised {o!r}")
		return
	swapped = J.result_rows(o.value)[1]
	a = multiset([(r[:wl], r[wl:]) for r in res["full"]])
	b = multiset([(r[wr:], r[:wr]) for r in swapped])
	if (res["full"] or swapped) and a != b:
		chk.fail("swapping the tables of a full join gives the same rows up to column and row order", "relations/full-join-not-symmetric",
			f"{spec!r}: full(L,R) {short(res['full'], 240)} vs full(R,L) {short(swapped, 240)}")


def run_unmatched_order(chk, spec):
	"""many unmatched right rows (>= 9 rows, non-adjacent unmatched indices): they must be appended in right-table order"""
	left = {"names": ["k", "lid"], "cols": [list(spec["lk"]), [f"L{i}" for i in range(len(spec["lk"]))]]}
	right = {"names": ["r", "rid"], "cols": [list(spec["rk"]), [f"R{i}" for i in range(len(spec["rk"]))]]}
	L, R = common.mk_table(left), common.mk_table(right)
	J.check_join(chk, chk.pid, "unmatched-order", spec["how"], L, R, ["k"], ["r"], key_mode=spec["key_mode"], expect="many_to_many",
		sig=("unmatched-order", spec["how"], len(spec["rk"]) // 8, spec["key_mode"]))


def run_chain(chk, spec):
	"""the result of one join is the input of the next: every stage is judged against the model over the actual contents"""
	A, B, C = common.mk_table(spec["A"]), common.mk_table(spec["B"]), common.mk_table(spec["C"])
	o1 = J.check_join(chk, chk.pid, "chain", spec["how1"], A, B, ["id"], ["cust"], key_mode="name", expect="many_to_many", sig=("chain1", spec["how1"]))
	if not o1.ok or not isinstance(o1.value, Table) or len(o1.value) == 0:
		return
	book = o1.value
	key2 = spec["key2"]
	if key2 not in book.column_names():
		return
	for how2 in spec["how2"]:
		J.check_join(chk, chk.pid, "chain", how2, C, book, ["who"], [key2], key_mode=spec["key_mode2"], expect="many_to_many", label="second-stage", sig=("chain2", spec["how1"], how2, key2), strict=True)
	# and the other way round: the earlier result on the left
	J.check_join(chk, chk.pid, "chain", spec["how2"][0], book, C, [key2], ["who"], key_mode="name", expect="many_to_many", label="second-stage-left", sig=("chain3", spec["how1"], key2), strict=True)


def chain_cases(chk, count, how1s, how2s):
	rng = chk.rng
	# directed: the first join leaves None in a KEY column of its result (padded unmatched rows, either side), the second join meets it with a None key of its own
	for how1 in dict.fromkeys(how1s):
		for ids, custs in (([1, 2], [2, 3]), ([1, 2, None], [2, 3]), ([1, 2], [2, None, 3]), ([1], [2]), ([None, 1], [1, 1, 4])):
			for who in ([None, 1, 3], [3, None], [None], [2, 2, None, 4]):
				for key2 in ("id", "cust"):
					for key_mode2 in ("name", "vector"):
						A = {"names": ["id", "lid"], "cols": [list(ids), [f"A{i}" for i in range(len(ids))]]}
						B = {"names": ["cust", "rid"], "cols": [list(custs), [f"B{i}" for i in range(len(custs))]]}
						C = {"names": ["who", "cid"], "cols": [list(who), [f"C{i}" for i in range(len(who))]]}
						chk.case("chain", {"A": A, "B": B, "C": C, "how1": how1, "how2": list(dict.fromkeys(how2s)), "key2": key2, "key_mode2": key_mode2}, "chain-directed")
	# directed: a key column of mixed kinds (ints and bools typed int; ints and texts typed object) whose SURVIVING rows are of one kind - the next join is keyed on it
	for how1 in dict.fromkeys(how1s):
		for ids, custs, who in (([True, 7, False, 9], [1, 0, 5], [True, False, True]), ([1, True, 0, 2], [True, False], [False, True]), ([True, 7, False], [True, False, 7], [7, 1]), ([2, True, 3], [2, 3, 4], [2, 3, 3])):
			for key2 in ("id", "cust"):
				for key_mode2 in ("name", "vector"):
					A = {"names": ["id", "lid"], "cols": [list(ids), [f"A{i}" for i in range(len(ids))]]}
					B = {"names": ["cust", "rid"], "cols": [list(custs), [f"B{i}" for i in range(len(custs))]]}
					C = {"names": ["who", "cid"], "cols": [list(who), [f"C{i}" for i in range(len(who))]]}
					chk.case("chain", {"A": A, "B": B, "C": C, "how1": how1, "how2": list(dict.fromkeys(how2s)), "key2": key2, "key_mode2": key_mode2}, "chain-directed-mixed-kinds")
	for _ in range(count):
		dom = rng.choice([[1, 2, 3, 4, None], [1, 2, 3, 4, None], [1, True, 0, False, 2, None], [True, False, 7, 9]])     # mixed int / bool columns: the surviving rows may all be bool

		def keycol(n):
			return [rng.choice(dom) for _ in range(n)]
		na, nb, nc = rng.choice([1, 2, 3, 4]), rng.choice([1, 2, 3, 4]), rng.choice([1, 2, 3])
		A = {"names": ["id", "lid"], "cols": [keycol(na), [f"A{i}" for i in range(na)]]}
		B = {"names": ["cust", "rid"], "cols": [keycol(nb), [f"B{i}" for i in range(nb)]]}
		C = {"names": ["who", "cid"], "cols": [keycol(nc), [f"C{i}" for i in range(nc)]]}
		if all(x is None for x in A["cols"][0]) or all(x is None for x in B["cols"][0]) or all(x is None for x in C["cols"][0]):
			continue
		chk.case("chain", {"A": A, "B": B, "C": C, "how1": rng.choice(how1s), "how2": rng.sample(how2s, min(2, len(how2s))),
			"key2": rng.choice(["id", "cust"]), "key_mode2": rng.choice(["name", "vector"])}, "chain")


def run_fan_in(chk, spec):
	"""one row of one table matched by hundreds of rows of the other (a fact table against a dimension table), both ways round: every pair is a row,
	unmatched rows of either side are kept once"""
	import warnings
	m, how = spec["matches"], spec["how"]
	with warnings.catch_warnings():
		warnings.simplefilter("ignore")
		big = Table({"k": [1] * m + [5, 1], "bid": list(range(m + 2))})
		small = Table({"r": [1, 2, None], "sid": ["x", "y", "z"]})
		if spec["big_side"] == "left":
			J.check_join(chk, chk.pid, "sampled", how, big, small, ["k"], ["r"], key_mode=spec["key_mode"], expect=spec["expect"], label=f"fan-in-{m}", sig=("fan-in", how, m, "big-left", spec["expect"]))
		else:
			J.check_join(chk, chk.pid, "sampled", how, small, big, ["r"], ["k"], key_mode=spec["key_mode"], expect="many_to_many" if spec["expect"] == "many_to_one" else spec["expect"], label=f"fan-out-{m}", sig=("fan-in", how, m, "big-right", spec["expect"]))


def run_history_keys(chk, spec):
	"""key vectors and operand tables with a history: a key made by Vector.new and written to afterwards; an aggregate result whose key column was written to through its
	handle (so that group keys repeat): the join is that of the cells they hold now"""
	import warnings
	how = spec["how"]
	with warnings.catch_warnings():
		warnings.simplefilter("ignore")
		what = spec["what"]
		if what == "vector-new-key":
			L = Table({"lid": [0, 1, 2, 3], "p": ["a", "b", "c", "d"]})
			R = Table({"r": [1, 2, 3], "rid": [10, 20, 30]})
			k = Vector.new(1, 4)
			first = call({"inner": L.inner_join, "left": L.join, "full": L.full_join}[how], R, k, "r", expect="many_to_many") if spec["join_first"] else None
			k[1] = 2
			k[3] = 9
			cur = list(k._underlying)
			o = call({"inner": L.inner_join, "left": L.join, "full": L.full_join}[how], R, k, "r", expect="many_to_many")
			chk.judged("sampled", ("history-keys", what, how, spec["join_first"]))
			if not o.ok:
				chk.fail("the join is computed for every admissible input", f"join/raises/{how}/vector-new-key/{type(o.exc).__name__}", f"{spec!r}: {o!r}")
				return
			ln, lc = J.cells(L)
			rn, rc = J.cells(R)
			exp, _ = J.expected_rows(how, lc, rc, J.rows_from([cur], 4), J.rows_from([rc[0]], 3))
			got = J.result_rows(o.value)[1]
			if not J.rows_same(got, exp):
				chk.fail("join rows equal the nested-loop definition, in the documented order", f"join/{J.describe_diff(got, exp)}/{how}/vector-new-key-written-afterwards", f"{spec!r}: key vector now {cur!r}: rows {short(got, 200)} vs model {short(exp, 200)}")
		else:
			sales = Table({"region": ["n", "s", "w", "n"], "amt": [1, 2, 3, 4]})
			agg = sales.aggregate(over="region", sum_over="amt")
			kc = agg["region"]
			kc[0] = kc._underlying[1]        # group keys now repeat: 's', 's', 'w'
			X = Table({"rg": ["s", "w", "q", "s"], "xid": [1, 2, 3, 4]})
			if spec["side"] == "right":
				J.check_join(chk, chk.pid, "sampled", how, X, agg, ["rg"], ["region"], key_mode=spec["key_mode"], expect="many_to_many", label="aggregate-result-key-written-by-handle", sig=("history-keys", what, how, "right"), strict=True)
			else:
				J.check_join(chk, chk.pid, "sampled", how, agg, X, ["region"], ["rg"], key_mode=spec["key_mode"], expect="many_to_many", label="aggregate-result-key-written-by-handle", sig=("history-keys", what, how, "left"), strict=True)


def run_columnless_operand(chk, spec):
	"""a table without columns (what a join returns when nothing matched) has no rows: joined - by a detached empty key vector - to a table that has rows,
	every row of that table is unmatched, so a left join from it and a full join on either side return exactly its rows"""
	import warnings
	with warnings.catch_warnings():
		warnings.simplefilter("ignore")
		T = Table({"k": [1, 2, 2, None], "v": ["a", "b", "c", "d"]})
		E = {"Table()": lambda: Table(), "Table(())": lambda: Table(()), "no-match-inner-join": lambda: T.inner_join(Table({"k": [9], "z": [1]}), "k", "k"), "empty-left-join": lambda: T[0:0].join(T, "k", "k", expect="many_to_many")}[spec["empty"]]()
		if len(E.cols()) != 0:
			chk.skip("columnless-operand-has-columns")
			return
		K = Vector([])
		form = spec["form"]
		o = call({"T.join(E)": lambda: T.join(E, "k", K), "T.full_join(E)": lambda: T.full_join(E, "k", K), "E.full_join(T)": lambda: E.full_join(T, K, "k", expect="many_to_many"), "T.join(E) by handle": lambda: T.join(E, T["k"], K)}[form])
	chk.judged("sampled", ("columnless-operand", spec["empty"], form))
	if not o.ok:
		chk.skip("columnless-operand-refused")
		return
	r = o.value
	got = [list(c._underlying) for c in r.cols()] if isinstance(r, Table) else None
	exp = [[1, 2, 2, None], ["a", "b", "c", "d"]]
	if got != exp:
		chk.fail("every row of a table joined to a table without rows comes back once", f"join/rows-lost/columnless-operand/{form}", f"{spec!r}: {form} gave {short(got if got is not None else r, 160)}, expected the rows of T {exp!r}")


RUNNERS = {"history_keys": run_history_keys, "fan_in": run_fan_in, "columnless_operand": run_columnless_operand, "unique_keys_expect": c09.run_unique_keys_expect, "repeated_name_after_other_table": c09.run_repeated_name_after_other_table, "hash_equal_right_tables": c09.run_hash_equal_right_tables, "crossed_and_kept": c09.run_crossed_and_kept, "special_keys": c09.run_special_keys, "label_accessor": c09.run_label_accessor, "repeated_key_column": c09.run_repeated_key_column, "empty_chain": c09.run_empty_chain, "self_join": c09.run_self_join, "derived_right": c09.run_derived_right, "join": run_join, "exhaustive": c09.run_exhaustive, "history": run_history, "relations": run_relations, "unmatched_order": run_unmatched_order, "chain": run_chain}
RUNNERS["recompute"] = recompute.runner("C10")


def run(chk):
	recompute.add_cases(chk, "C10")
	rng = chk.rng
	for how in ("left", "full"):
		idx = 0
		for lk in c09.key_seqs():
			for rk in c09.key_seqs():
				for key_mode in ("name", "vector"):
					idx += 1
					if not chk.mine(idx):
						continue
					chk.case("exhaustive", {"lk": lk, "rk": rk, "key_mode": key_mode, "how": how, "same": idx % 3 == 0, "scalar": idx % 2 == 0}, "exhaustive")
		for _ in range(300 if chk.quick() else 1500):
			spec = common.gen_join_spec(rng, max_rows=rng.choice([4, 8, 12]) if chk.quick() else rng.choice([4, 8, 12, 40, 200]), how=how)
			chk.case("join", spec, "sampled")
		c09.ratio_cases(chk, how, 40 if chk.quick() else 300)
		c09.extra_cases(chk, how, 120 if chk.quick() else 800)
		for _ in range(100 if chk.quick() else 500):
			spec = c09.gen_history(rng, how)
			spec["how"] = how
			chk.case("history", spec, "history")
	for _ in range(80 if chk.quick() else 600):
		nr = rng.choice([9, 10, 12, 17, 33, 40])
		rk = list(range(nr))
		if rng.random() < 0.3:
			rk[rng.randrange(nr)] = None
		matched = set(rng.sample(range(nr), rng.randrange(0, nr - 1)))
		lk = [k for k in rk if k in matched and k is not None]
		rng.shuffle(lk)
		if rng.random() < 0.3:
			lk = lk + lk[:2]
		chk.case("unmatched_order", {"lk": lk, "rk": rk, "how": "full", "key_mode": rng.choice(["name", "vector"])}, "unmatched-order")
	for how in ("left", "full"):
		for m in (255, 256, 257, 300) if chk.quick() else (255, 256, 257, 300, 513, 70000):
			for big_side in ("left", "right"):
				for expect in ("many_to_many", "many_to_one"):
					chk.case("fan_in", {"how": how, "matches": m, "big_side": big_side, "expect": expect, "key_mode": "name" if m % 2 else "vector"}, "fan-in")
	for how in ("left", "full", "inner"):
		for join_first in (False, True):
			chk.case("history_keys", {"what": "vector-new-key", "how": how, "join_first": join_first}, "history-keys")
		for side in ("right", "left"):
			for key_mode in ("name", "vector"):
				chk.case("history_keys", {"what": "aggregate-key-written", "how": how, "side": side, "key_mode": key_mode}, "history-keys")
	for empty in ("Table()", "Table(())", "no-match-inner-join", "empty-left-join"):
		for form in ("T.join(E)", "T.full_join(E)", "E.full_join(T)", "T.join(E) by handle"):
			chk.case("columnless_operand", {"empty": empty, "form": form}, "columnless-operand")
	c09.unique_keys_cases(chk, ["left", "full"])
	chain_cases(chk, 150 if chk.quick() else 1000, ["full", "full", "left", "inner"], ["left", "full", "inner"])
	c09.label_cases(chk, ["left", "full"])
	c09.special_cases(chk, ["left", "full"], 4 if chk.quick() else 25)
	c09.crossed_kept_cases(chk, ["left", "full"], 6 if chk.quick() else 40)
	# relations: exhaustive small keys + sampled
	idx = 0
	for lk in c09.key_seqs():
		for rk in c09.key_seqs():
			idx += 1
			if not chk.mine(idx) or (chk.quick() and idx % 4):
				continue
			spec = {"left": {"names": ["k", "lid"], "cols": [list(lk), [f"L{i}" for i in range(len(lk))]]},
				"right": {"names": ["r", "rid"], "cols": [list(rk), [f"R{i}" for i in range(len(rk))]]}, "lon": ["k"], "ron": ["r"]}
			chk.case("relations", spec, "relations")
	for _ in range(300 if chk.quick() else 1500):
		spec = common.gen_join_spec_named(rng, max_rows=rng.choice([3, 6, 10]))
		chk.case("relations", spec, "relations")
