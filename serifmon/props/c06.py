"""C06 - None propagates, compares False, is skipped by reductions; isna/dropna/fillna agree."""
import itertools
import math
from datetime import date, datetime, timedelta

from ..bind import Vector, Table
from ..core import call, short
from .. import models as M
from .. import values as V
from . import common
from .common import py_elementwise, do_arith, BIN_OPS, UN_OPS, CMP_OPS, LOG_OPS, ARITH_VALUES

from . import recompute

RULE = ("[plus the shared recompute-after-history monitor: this property's operations evaluated on long-lived objects between in-place writes / renames must equal the same operations on fresh objects rebuilt from the current contents] "
	"every subset of None positions for lengths 1-5 (62 masks) x 8 dtypes is run through: 10 arithmetic operators in 5 operand forms "
	"(None must appear exactly at the positions where an operand is None and the operation must not fail because of it); 6 comparisons and "
	"& | ^ in vector/list/scalar/reflected forms (False at None, non-nullable bool result, equal to the None-free comparison elsewhere); "
	"sum/mean/min/max/stdev/any/all against the reduction of the None-free list; per-group aggregates; len; isna/dropna/fillna triples with "
	"same-kind, wider-kind and None fill values. distinct = (family, operator, form, kind, None mask).")
ASSUMPTIONS = [
	"a case is constrained only when Python defines the operation on the None-free operands",
	"v == None / v != None with the scalar None: only the None positions are judged (False there); the other positions are C07's (Python's own comparison)",
	"fillna with a value of an unrelated kind may raise; empty schema-less vectors are not fed to dropna/fillna",
	"float reductions are compared with math.isclose(rel_tol=1e-9)",
]
EXHAUSTIVE = {"flag": True, "scope": "all None-position subsets for lengths 1..5 over 8 dtypes for every listed operation (values sampled)"}
ANCHOR_FUNCS = ["vector:Vector._elementwise_operation", "vector:Vector._elementwise_compare", "vector:Vector.sum", "vector:Vector.mean",
	"vector:Vector.max", "vector:Vector.min", "vector:Vector.stdev", "vector:Vector.fillna", "vector:Vector.dropna", "vector:Vector.isna",
	"vector:_Date._elementwise_compare"]
REQUIRED_STRATA = {"recompute": 200, "arith-none": 1500, "compare-none": 1500, "reduce": 1000, "na-triple": 800, "group-reduce": 50}

KINDS = ["bool", "int", "float", "complex", "str", "bytes", "date", "datetime"]
PARTNER = {"bool": ["int", "bool"], "int": ["int", "float"], "float": ["int", "float"], "complex": ["int", "complex"], "str": ["str", "int"],
	"bytes": ["bytes", "int"], "date": ["timedelta", "date"], "datetime": ["timedelta", "datetime"]}


def masked(vals, mask):
	return [None if m else v for v, m in zip(vals, mask)]


def mask_sig(mask):
	return "".join("N" if m else "v" for m in mask)


def run_arith_none(chk, spec):
	kind, exp = py_elementwise(spec)
	if kind != "value":
		chk.skip("arith-" + kind)
		return
	a, b = spec["a"], spec.get("b")
	o = do_arith(spec)
	tag = f"{spec['opname']}/{spec['form']}"
	chk.judged("arith-none", ("arith", spec["opname"], spec["form"], spec.get("kind"), spec.get("mask")))
	if not o.ok:
		chk.fail("None propagates through arithmetic instead of making it fail", f"arith-none/raises/{tag}/{type(o.exc).__name__}",
			f"{spec!r}: python on the non-None pairs gives {short(exp, 160)} but serif raised {o!r}")
		return
	chk.observe(o.value, "arith-none")
	got = list(o.value._underlying)
	if len(got) != len(exp):
		chk.fail("result keeps the length", f"arith-none/length/{tag}", f"{spec!r} -> {short(got, 160)}")
		return
	for i, (g, e) in enumerate(zip(got, exp)):
		if (g is None) != (e is None):
			chk.fail("the result is None exactly where an operand is None", f"arith-none/none-positions/{tag}",
				f"{spec!r}: position {i} is {g!r}, expected {e!r}; result {short(got, 160)}")
			return
	d = M.first_diff(got, exp)
	if d:
		chk.fail("non-None positions carry the Python result", f"arith-none/value/{tag}", f"{spec!r}: {short(got, 160)} vs {short(exp, 160)}: {d}")


def cmp_expected(spec):
	"""python model of comparison / logical operator, False at None"""
	opname, form = spec["opname"], spec["form"]
	op = CMP_OPS.get(opname) or LOG_OPS[opname]
	a, b = spec["a"], spec["b"]
	if form in ("vs", "sv"):
		if b is None or isinstance(b, (list, tuple, dict, set)):
			return None
		pairs = [(x, b) if form == "vs" else (b, x) for x in a]
		nones = [x is None for x in a]
	else:
		if len(a) != len(b):
			return None
		pairs = [(x, y) if form in ("vv", "vl") else (y, x) for x, y in zip(a, b)]
		nones = [x is None or y is None for x, y in zip(a, b)]
	out = []
	for (x, y), isn in zip(pairs, nones):
		if isn:
			out.append(False)
			continue
		try:
			out.append(bool(op(x, y)))
		except Exception:
			return None
	return out


def run_compare_none(chk, spec):
	exp = cmp_expected(spec)
	if exp is None:
		chk.skip("compare-python-undefined")
		return
	o = do_arith(spec)
	tag = f"{spec['opname']}/{spec['form']}/{spec.get('kind')}"
	chk.judged("compare-none", ("cmp", spec["opname"], spec["form"], spec.get("kind"), spec.get("mask")))
	if not o.ok:
		chk.fail("a None makes the comparison False instead of making it fail", f"compare-none/raises/{tag}/{type(o.exc).__name__}",
			f"{spec!r}: expected {exp} but serif raised {o!r}")
		return
	r = o.value
	chk.observe(r, "compare-none")
	got = list(r._underlying)
	if not M.same_list(got, exp):
		nonepos = [i for i, (x, e) in enumerate(zip(got, exp)) if x is not e and (spec["a"][i] is None or (isinstance(spec["b"], list) and spec["b"][i] is None))]
		chk.fail("comparison is False at None and Python's comparison elsewhere",
			f"compare-none/{'true-at-none' if nonepos else 'value'}/{tag}", f"{spec!r}: serif {got} vs {exp}")
		return
	sch = r.schema()
	if sch is None or sch.kind is not bool or sch.nullable:
		chk.fail("comparison result is a non-nullable bool vector", f"compare-none/schema/{tag}", f"{spec!r}: schema {sch!r}")


def run_compare_meta(chk, spec):
	"""metamorphic: comparison restricted to the non-None positions equals the comparison of the None-free vector (covers serif-specific
	comparisons such as date vector vs ISO string that Python itself does not define)"""
	a, mask, other, opname = spec["a"], spec["mask_bits"], spec["other"], spec["opname"]
	op = CMP_OPS[opname]
	om = spec.get("other_mask")
	if om is not None:
		# None in the OTHER vector as well: False there too
		other_m = masked(other, om)
		if all(x is None for x in other_m) or all(x is None for x in masked(a, mask)):
			chk.skip("compare-meta-all-none")
			return
		base = call(lambda: op(Vector(list(a)), Vector(list(other))))
		if not base.ok:
			chk.skip("compare-meta-base-raises")
			return
		o = call(lambda: op(Vector(masked(a, mask)), Vector(other_m)))
		chk.judged("compare-none", ("cmpmeta2", opname, spec["kind"], mask_sig(mask), mask_sig(om)))
		tag = f"{opname}/{spec['kind']}-vs-vector-with-none"
		if not o.ok:
			chk.fail("a None makes the comparison False instead of making it fail", f"compare-none/raises-meta/{tag}/{type(o.exc).__name__}",
				f"{spec!r}: without None -> {list(base.value)}, with None at {mask_sig(mask)} / {mask_sig(om)} (other operand) serif raised {o!r}")
			return
		got = list(o.value._underlying)
		exp = [False if (m or m2) else bv for bv, m, m2 in zip(base.value._underlying, mask, om)]
		if got != exp:
			chk.fail("comparison is False at None and unchanged elsewhere", f"compare-none/meta-value/{tag}", f"{spec!r}: {got} vs {exp}")
		return
	full = Vector(list(a))
	base = call(lambda: op(full, other if not isinstance(other, list) else Vector(list(other))))
	if not base.ok:
		chk.skip("compare-meta-base-raises")
		return
	basevals = list(base.value._underlying)
	am = masked(a, mask)
	if all(x is None for x in am):
		chk.skip("compare-meta-all-none")
		return
	o = call(lambda: op(Vector(am), other if not isinstance(other, list) else Vector(list(other))))
	chk.judged("compare-none", ("cmpmeta", opname, spec["kind"], type(other).__name__, mask_sig(mask)))
	tag = f"{opname}/{spec['kind']}-vs-{type(other).__name__ if not isinstance(other, list) else 'vector'}"
	if not o.ok:
		chk.fail("a None makes the comparison False instead of making it fail", f"compare-none/raises-meta/{tag}/{type(o.exc).__name__}",
			f"{spec!r}: without None -> {basevals}, with None at {mask_sig(mask)} serif raised {o!r}")
		return
	got = list(o.value._underlying)
	exp = [False if m else bv for bv, m in zip(basevals, mask)]
	if got != exp:
		chk.fail("comparison is False at None and unchanged elsewhere", f"compare-none/meta-value/{tag}", f"{spec!r}: {got} vs {exp}")


def close(a, b):
	if a is None or b is None:
		return a is b
	if isinstance(a, bool) or isinstance(b, bool):
		return type(a) is type(b) and a == b
	if isinstance(a, (float, complex)) or isinstance(b, (float, complex)):
		if isinstance(a, complex) or isinstance(b, complex):
			try:
				return abs(a - b) <= 1e-9 * max(1.0, abs(a), abs(b))
			except Exception:
				return False
		if isinstance(a, float) and isinstance(b, float) and (a != a or b != b):
			return a != a and b != b
		try:
			return math.isclose(a, b, rel_tol=1e-9, abs_tol=1e-12)
		except Exception:
			return a == b
	return M.same(a, b)


def textbook(red, clean):
	if red == "sum":
		return sum(clean)
	if red == "mean":
		return sum(clean) / len(clean)
	if red == "min":
		return min(clean)
	if red == "max":
		return max(clean)
	if red == "any":
		return any(clean)
	if red == "all":
		return all(clean)
	if red == "stdev-pop":
		if len(clean) < 2:
			raise ValueError("needs two values")
		m = sum(clean) / len(clean)
		return (sum((x - m) * (x - m) for x in clean) / len(clean)) ** 0.5
	if red == "stdev":
		if len(clean) < 2:
			raise ValueError("needs two values")
		m = sum(clean) / len(clean)
		return (sum((x - m) * (x - m) for x in clean) / (len(clean) - 1)) ** 0.5
	raise ValueError(red)


def run_reduce(chk, spec):
	vals, red = spec["values"], spec["red"]
	clean = [x for x in vals if x is not None]
	try:
		exp = textbook(red, clean)
	except Exception:
		chk.skip("reduce-python-undefined")
		return
	v = build_vector(chk, spec) if spec.get("build") else Vector(list(vals))
	if v is None:
		chk.skip("reduce-build-refused")
		return
	if spec.get("presort"):
		# the vector comes straight out of sort_by(): the reduction still skips None wherever the None block was put
		sv = call(v.sort_by, reverse=spec["presort"][0], na_last=spec["presort"][1])
		if not sv.ok or not isinstance(sv.value, Vector) or len(sv.value) != len(vals):
			chk.skip("reduce-presort-refused")
			return
		v = sv.value
		vals = list(v._underlying)
	if red == "stdev-pop":
		o = call(lambda: v.stdev(population=True) if len(vals) % 2 else v.stdev(True))
	else:
		o = call(getattr(v, red))
	chk.judged("reduce", ("reduce", red, spec.get("kind"), spec.get("mask")))
	if len(v) != len(vals):
		chk.fail("len counts None", "len/none-not-counted", f"len(Vector({vals!r})) = {len(v)}")
	if not o.ok:
		chk.fail("reductions skip None", f"reduce/raises/{red}/{type(o.exc).__name__}", f"Vector({vals!r}).{red}() raised {o!r}; None-free reduction is {exp!r}")
		return
	if not close(o.value, exp):
		chk.fail("a reduction equals the reduction of the None-free list", f"reduce/value/{red}", f"Vector({vals!r}).{red}() = {o.value!r}, None-free list gives {exp!r}")


def run_group_reduce(chk, spec):
	keys, vals = spec["keys"], spec["values"]
	t = Table([Vector(list(keys), name="k"), Vector(list(vals), name="v")])
	o = call(lambda: t.aggregate(over="k", sum_over="v", mean_over="v", min_over="v", max_over="v", count_over="v", stdev_over="v"))
	if spec.get("count_key"):
		# counting the key column itself (by name or as the column): the None-key group counts 0 non-None keys
		ck = call(lambda: t.aggregate(over="k", count_over=["k", "v"] if spec["count_key"] == "name" else [t["k"], t["v"]]))
		chk.judged("group-reduce", ("group-count-key", spec.get("kind"), spec["count_key"], any(k is None for k in keys)))
		if ck.ok and isinstance(ck.value, Table) and len(ck.value.cols()) == 3:
			kc, cntk, cntv = [list(c._underlying) for c in ck.value.cols()]
			for gk, a, b in zip(kc, cntk, cntv):
				rows = [i for i, k in enumerate(keys) if (k is None and gk is None) or (k is not None and gk is not None and k == gk)]
				ea, eb = sum(1 for i in rows if keys[i] is not None), sum(1 for i in rows if vals[i] is not None)
				if a != ea or b != eb:
					chk.fail("per-group aggregates skip None (count counts the non-None values of the counted column)", "group-reduce/value/count-of-key-column",
						f"{spec!r}: group {gk!r}: count of the key column {a!r} (expected {ea}), count of v {b!r} (expected {eb})")
					return
		elif not ck.ok:
			chk.fail("per-group aggregates skip None", f"group-reduce/raises/count-of-key-column/{type(ck.exc).__name__}", f"{spec!r} raised {ck!r}")
			return
	groups = []
	for k, x in zip(keys, vals):
		for g in groups:
			if g[0] == k and (g[0] is None) == (k is None):
				g[1].append(x)
				break
		else:
			groups.append((k, [x]))
	chk.judged("group-reduce", ("group", spec.get("kind"), len(groups), sum(1 for x in vals if x is None) > 0))
	if not o.ok:
		chk.fail("per-group aggregates skip None", f"group-reduce/raises/{type(o.exc).__name__}", f"{spec!r} raised {o!r}")
		return
	r = o.value
	chk.observe(r, "group-reduce")
	cols = [list(c._underlying) for c in r._underlying]
	if len(cols) != 7 or len(cols[0]) != len(groups):
		chk.fail("one row per group", "group-reduce/shape", f"{spec!r} -> {short(cols, 200)}")
		return
	for gi, (k, xs) in enumerate(groups):
		clean = [x for x in xs if x is not None]
		exp = {
			1: sum(clean), 2: (sum(clean) / len(clean)) if clean else None, 3: min(clean) if clean else None,
			4: max(clean) if clean else None, 5: len(clean),
			6: textbook("stdev", clean) if len(clean) >= 2 else None,
		}
		for ci, name in ((1, "sum"), (2, "mean"), (3, "min"), (4, "max"), (5, "count"), (6, "stdev")):
			if not close(cols[ci][gi], exp[ci]):
				chk.fail("per-group aggregates equal the textbook function over the group's non-None values", f"group-reduce/value/{name}",
					f"{spec!r}: group {k!r} values {xs!r}: {name} = {cols[ci][gi]!r}, expected {exp[ci]!r}")
				return


def build_vector(chk, spec):
	"""the vector under test: built directly, or built None-free and given its None values by writes / concatenation"""
	vals = spec["values"]
	how = spec.get("build", "direct")
	if how == "was-none":
		# None-free now, but a None was stored and overwritten: the dtype still says nullable
		v = Vector(list(vals), name=spec.get("name"))
		if not vals or any(x is None for x in vals):
			return v
		o = call(v.__setitem__, 0, None)
		o2 = call(v.__setitem__, 0, vals[0])
		if not (o.ok and o2.ok) or not M.same_list(list(v._underlying), vals):
			chk.counters["build_was_none_refused"] += 1
			return None
		return v
	if how == "slice-of-nullable":
		if not vals or any(x is None for x in vals):
			return Vector(list(vals), name=spec.get("name"))
		o = call(lambda: Vector(list(vals) + [None], name=spec.get("name"))[0:len(vals)])
		if not o.ok or not M.same_list(list(o.value._underlying), vals):
			chk.counters["build_slice_of_nullable_refused"] += 1
			return None
		return o.value
	if how == "direct" or not any(x is None for x in vals) or all(x is None for x in vals):
		return Vector(list(vals), name=spec.get("name"))
	filler = next(x for x in vals if x is not None)
	if how == "setitem":
		v = Vector([filler if x is None else x for x in vals], name=spec.get("name"))
		for i, x in enumerate(vals):
			if x is None:
				o = call(v.__setitem__, i, None)
				if not o.ok:
					chk.counters["build_setitem_none_refused"] += 1
					return None
		return v
	if how == "slice-assign":
		v = Vector([filler if x is None else x for x in vals], name=spec.get("name"))
		o = call(v.__setitem__, slice(None), list(vals))
		if not o.ok:
			chk.counters["build_sliceassign_refused"] += 1
			return None
		return v
	if how == "lshift-vector":
		# the None arrives inside a same-kind Vector appended with <<
		k = next((i for i, x in enumerate(vals) if x is None), None)
		if k is None or k == 0 or not any(x is not None for x in vals[k:]):
			return Vector(list(vals), name=spec.get("name"))
		o = call(lambda: Vector(list(vals[:k])) << Vector(list(vals[k:])))
		if not o.ok or list(o.value._underlying) != list(vals):
			chk.counters["build_lshift_vector_unusable"] += 1
			return None
		return o.value
	if how == "lshift":
		k = max(i for i, x in enumerate(vals) if x is not None) + 1    # longest None-free-start prefix that ends with a value
		head = [x for x in vals[:k]]
		if any(x is None for x in head):
			return Vector(list(vals), name=spec.get("name"))
		o = call(lambda: Vector(head) << list(vals[k:]))
		if not o.ok or list(o.value._underlying) != list(vals):
			chk.counters["build_lshift_unusable"] += 1
			return None
		return o.value
	raise ValueError(how)


def run_na(chk, spec):
	vals, fill = spec["values"], spec["fill"]
	v = build_vector(chk, spec)
	if v is None:
		chk.skip("na-build-refused")
		return
	if spec.get("build", "direct") != "direct" and spec.get("name") is not None and v.name != spec.get("name"):
		pass
	n = len(vals)
	isn = [x is None for x in vals]
	chk.judged("na-triple", ("na", spec.get("kind"), spec.get("mask"), spec.get("fillclass"), spec.get("build", "direct")))
	if len(v) != n:
		chk.fail("len counts None", "len/none-not-counted", f"len(Vector({vals!r})) = {len(v)}")
	o = call(v.isna)
	if not o.ok:
		chk.fail("isna works on every vector", f"na/isna-raises/{type(o.exc).__name__}", f"Vector({vals!r}).isna() raised {o!r}")
		return
	chk.observe(o.value, "isna")
	if list(o.value._underlying) != isn or not all(type(x) is bool for x in o.value._underlying):
		chk.fail("isna marks exactly the None positions", "na/isna-wrong", f"Vector({vals!r}).isna() = {list(o.value)!r}")
		return
	# the mask is a vector of its own: editing it says nothing about any later isna()
	if n and not any(isn):
		m0 = o.value
		call(m0.__setitem__, 0, True)
		twin = Vector([x for x in vals])
		o2 = call(twin.isna)
		o3 = call(v.isna)
		for lab, oo in (("another vector of the same length", o2), ("the same vector again", o3)):
			if oo.ok and list(oo.value._underlying) != isn:
				chk.fail("isna marks exactly the None positions", "na/isna-wrong/after-an-earlier-mask-was-edited", f"Vector({vals!r}).isna() on {lab} after an earlier isna() result was written to: {list(oo.value)!r}")
				return
	d = call(v.dropna)
	if not d.ok:
		chk.fail("dropna works", f"na/dropna-raises/{type(d.exc).__name__}", f"Vector({vals!r}).dropna() raised {d!r}")
	else:
		chk.observe(d.value, "dropna")
		exp = [x for x in vals if x is not None]
		if not M.same_list(list(d.value._underlying), exp):
			chk.fail("dropna removes exactly the positions isna marks", "na/dropna-wrong", f"Vector({vals!r}).dropna() = {list(d.value)!r}, expected {exp!r}")
		elif d.value.schema() is not None and d.value.schema().nullable:
			chk.fail("dropna reports non-nullable", "na/dropna-nullable", f"Vector({vals!r}).dropna().schema() = {d.value.schema()!r}")
	f = call(v.fillna, fill)
	before = M.snap_vector(v)
	if not f.ok:
		if spec["fillclass"] in ("same", "wider", "none", "into-all-none"):
			chk.fail("fillna with a compatible value works", f"na/fillna-raises/{spec['fillclass']}/{type(f.exc).__name__}",
				f"Vector({vals!r}).fillna({fill!r}) raised {f!r}")
		return
	r = f.value
	chk.observe(r, "fillna")
	got = list(r._underlying)
	if len(got) != n:
		chk.fail("fillna keeps the length", "na/fillna-length", f"Vector({vals!r}).fillna({fill!r}) = {got!r}")
		return
	kind = r.schema().kind if r.schema() is not None else object
	for i, (g, x) in enumerate(zip(got, vals)):
		if x is None:
			e = fill
		else:
			e = x
		ok = (g is None and e is None) or (g is not None and e is not None and M.eq_list([g], [M.widen(e, kind)]))
		if not ok:
			where = "at-none-position" if x is None else "outside-none-positions"
			chk.fail("fillna(x) replaces exactly the None positions and nothing else", f"na/fillna-wrong/{where}/{spec['fillclass']}",
				f"Vector({vals!r}).fillna({fill!r}) = {got!r} (position {i}: {g!r}, expected {e!r})")
			return
	if fill is not None and r.schema() is not None and r.schema().nullable:
		chk.fail("fillna(x) with x other than None reports non-nullable", f"na/fillna-nullable/{spec['fillclass']}", f"Vector({vals!r}).fillna({fill!r}).schema() = {r.schema()!r}")
	if M.snap_vector(v) != before:
		chk.fail("fillna does not change its operand", "na/fillna-mutates", f"Vector({vals!r}).fillna({fill!r}) changed the vector")


def run_row_none(chk, spec):
	"""rows are vectors: after None is written into a cell (through the column handle or the table), a row read again treats it as None everywhere"""
	import random
	rng = random.Random(spec["seed"])
	n, c = spec["n"], spec["c"]
	cols = [[rng.choice([1, 2, 3, 5]) for _ in range(n)] for _ in range(c)]
	t = Table([Vector(list(col), name=f"c{j}") for j, col in enumerate(cols)])
	i, j = rng.randrange(n), rng.randrange(c)
	if spec["read_first"] == "row":
		list(t[i])
	elif spec["read_first"] == "shape":
		t.shape
	elif spec["read_first"] == "iterate":
		for _ in t:
			pass
	via = spec["via"]
	w = call(lambda: {"attr": lambda: getattr(t, f"c{j}").__setitem__(i, None), "item": lambda: t[f"c{j}"].__setitem__(i, None), "cols": lambda: t.cols()[j].__setitem__(i, None), "cell": lambda: t.__setitem__((i, j), None)}[via]())
	if not w.ok:
		chk.skip("row-none-write-refused")
		return
	cols[j][i] = None
	row_model = [cols[k][i] for k in range(c)]
	chk.judged("na-triple", ("row-none", spec["read_first"], via, n, c))
	r = call(lambda: t[i])
	if not r.ok:
		chk.skip("row-none-row-raised")
		return
	row = r.value
	clean = [x for x in row_model if x is not None]
	checks = [("isna", lambda: list(row.isna()), [x is None for x in row_model]), ("sum", lambda: row.sum(), sum(clean)), ("max", lambda: row.max(), max(clean) if clean else None),
		("row+1", lambda: list(row + 1), [None if x is None else x + 1 for x in row_model]), ("row>0", lambda: list(row > 0), [False if x is None else x > 0 for x in row_model]),
		("fillna", lambda: list(row.fillna(0)), [0 if x is None else x for x in row_model]), ("dropna", lambda: list(row.dropna()), clean), ("len", lambda: len(row), c)]
	for name, f, exp in checks:
		if name in ("max",) and not clean:
			continue
		o = call(f)
		if not o.ok:
			chk.fail("None is treated as None in rows as in any vector", f"row-none/raises/{name}/{type(o.exc).__name__}", f"{spec!r}: row {row_model!r}: {name} raised {o!r}")
			return
		if o.value != exp:
			chk.fail("None is treated as None in rows as in any vector", f"row-none/{name}", f"{spec!r}: row {i} is {row_model!r} (None written through {via}): {name} gives {o.value!r}, expected {exp!r}")
			return


def run_arith_meta(chk, spec):
	"""serif's own date arithmetic (dates + days, also on a date vector promoted in place to datetime): with None among the operands the result is None
	exactly there and what the None-free operation gives elsewhere"""
	dates, days, form = list(spec["dates"]), spec["days"], spec["form"]
	n = len(dates)

	def build(vals):
		v = Vector(list(vals))
		if spec["promoted"]:
			# promote in place, then restore the element: the vector is datetime-typed but still the object born as a date vector
			k = next(i for i, x in enumerate(vals) if x is not None)
			v[k] = V.datetime(2020, 1, 31, 12, 30)
		return v
	other_full = days if form == "scalar" else (Vector(list(days)) if form == "vector" else list(days))
	base = call(lambda: build(dates) + other_full)
	if not base.ok or len(base.value) != n:
		chk.skip("arith-meta-base-raises")
		return
	basevals = list(base.value._underlying)
	if any(isinstance(x, tuple) for x in basevals):
		chk.skip("arith-meta-pairing-fallback")      # serif pairs operands it cannot combine into tuples: not an arithmetic result
		return
	lm, rm = spec["left_mask"], spec["right_mask"]
	left = masked(dates, lm)
	if all(x is None for x in left):
		chk.skip("arith-meta-all-none")
		return
	if form == "scalar":
		other = days
		rm = [False] * n
	else:
		od = masked(days, rm)
		if all(x is None for x in od):
			chk.skip("arith-meta-all-none")
			return
		other = Vector(od) if form == "vector" else od
	o = call(lambda: build(left) + other)
	chk.judged("arith-none", ("arith-meta", form, spec["promoted"], mask_sig(lm), mask_sig(rm)))
	tag = f"dates+days/{form}/{'promoted' if spec['promoted'] else 'plain'}"
	if not o.ok:
		chk.fail("None propagates through arithmetic instead of making it fail", f"arith-none/raises-meta/{tag}/{type(o.exc).__name__}", f"{spec!r}: without None -> {short(basevals, 120)}; with None serif raised {o!r}")
		return
	got = list(o.value._underlying)
	for k in range(n):
		e = None if (lm[k] or rm[k]) else basevals[k]
		if spec["promoted"] and not (lm[k] or rm[k]) and k == next(i for i, x in enumerate(left) if x is not None) and basevals[k] != got[k]:
			continue      # (the element used for the promotion differs between the two builds)
		if (got[k] is None) != (e is None) or (e is not None and got[k] != e):
			chk.fail("the result is None exactly where an operand is None", f"arith-none/meta-value/{tag}", f"{spec!r}: position {k} is {got[k]!r}, expected {e!r}; result {short(got, 160)}")
			return


def run_group_reduce_count(chk, spec):
	"""count counts what is not None - identity, not equality"""
	keys, vals = spec["keys"], spec["values"]
	t = Table([Vector(list(keys), name="k"), Vector(list(vals), name="v")])
	chk.judged("group-reduce", ("group-count-eqall", len(keys), sum(1 for x in vals if x is None)))
	for opn in ("aggregate", "window"):
		o = call(lambda: getattr(t, opn)(over="k", count_over="v"))
		if not o.ok:
			chk.fail("per-group aggregates skip None", f"group-reduce/raises/{opn}/{type(o.exc).__name__}", f"{spec!r} raised {o!r}")
			return
		kc, cc = [list(c._underlying) for c in o.value.cols()][:2]
		for gk, got in zip(kc, cc):
			exp = sum(1 for k, x in zip(keys, vals) if k == gk and x is not None)
			if got != exp:
				chk.fail("count counts the values that are not None", f"group-reduce/value/count-identity/{opn}", f"{spec!r}: {opn} group {gk!r}: count {got!r}, expected {exp}")
				return
	v = Vector(list(vals))
	o = call(v.isna)
	if o.ok and list(o.value._underlying) != [x is None for x in vals]:
		chk.fail("isna marks exactly the None positions", "na/isna-wrong/eq-all-objects", f"{spec!r}: isna {list(o.value)!r}")

def run_compare_none_scalar(chk, spec):
	"""v == None / v != None (and the reflected spellings): whatever the library answers at the other positions, at a None element EVERY comparison is
	False - != included (a constant all-True answer to != is wrong exactly there)"""
	import operator, warnings
	a = list(spec["a"])
	v = Vector(list(a))
	op = {"eq": operator.eq, "ne": operator.ne, "lt": operator.lt, "ge": operator.ge}[spec["opname"]]
	# (the scalar is None or a value of ANOTHER family - a number next to a text column, a text next to numbers: whatever is answered - or refused -
	# for the other positions, a None element compares False)
	k = spec.get("scalar")
	with warnings.catch_warnings():
		warnings.simplefilter("ignore")
		o = call(lambda: op(v, k) if spec["form"] == "vs" else op(k, v))
	chk.judged("compare-none", ("compare-none-scalar", spec["opname"], spec["form"], spec["kind"], spec["mask"], type(k).__name__))
	if not o.ok or not isinstance(o.value, Vector):
		return
	got = list(o.value._underlying)
	if len(got) != len(a):
		chk.fail("a comparison has one answer per element", f"compare/none-scalar/length/{spec['opname']}", f"Vector({a!r}) {spec['opname']} None -> {got!r}")
		return
	bad = [i for i, x in enumerate(a) if x is None and got[i] is not False]
	if bad:
		chk.fail("a None element makes every comparison at its position False", f"compare/none-scalar/true-at-none/{spec['opname']}/{spec['form']}", f"Vector({a!r}) {spec['opname']} {k!r} -> {got!r}: position {bad[0]} holds None")

def run_group_same_name(chk, spec):
	"""two operands of one aggregate / window call that carry the SAME name but hold None at different positions (the two 'v' columns of a join
	result, a column next to a copy of it that was written): each is reduced over its own values - None skipped per operand, not per name"""
	import warnings
	keys, x, y = list(spec["keys"]), list(spec["x"]), list(spec["y"])
	n = len(keys)
	how = spec["how"]
	with warnings.catch_warnings():
		warnings.simplefilter("ignore")
		if how == "copy-written":
			t = Table([Vector(list(keys), name="k"), Vector(list(x), name="v")])
			a = t["v"]
			b = Vector(list(y), name="v")
		elif how == "repeated-name-columns":
			t = Table([Vector(list(keys), name="k"), Vector(list(x), name="v"), Vector(list(y), name="v")])
			a, b = t.cols()[1], t.cols()[2]
		else:      # external twins: both operands are vectors outside the table
			t = Table([Vector(list(keys), name="k")])
			a, b = Vector(list(x), name="v"), Vector(list(y), name="v")
		fn = spec["fn"]
		o = call(lambda: getattr(t, spec["opn"])(over="k", **{f"{fn}_over": [a, b]}))
	chk.judged("group-reduce", ("group-same-name", spec["opn"], fn, how, n))
	groups = {}
	for i, k in enumerate(keys):
		groups.setdefault(k, []).append(i)
	def red(vals):
		vs = [v for v in vals if v is not None]
		if fn == "count":
			return len(vs)
		if not vs:
			return None if fn != "sum" else 0
		return {"sum": sum, "min": min, "max": max}[fn](vs)
	if not o.ok:
		chk.fail("per-group aggregates skip None", f"group-reduce/raises/same-name-operands/{spec['opn']}/{fn}/{type(o.exc).__name__}", f"{spec!r} raised {o!r}")
		return
	cols = [list(c._underlying) for c in o.value.cols()]
	if len(cols) < 3:
		chk.fail("every operand gets its own result column", f"group-reduce/same-name-operands/columns-missing/{spec['opn']}", f"{spec!r}: {short(cols, 160)}")
		return
	kc, ca, cb = cols[0], cols[-2], cols[-1]
	for r, gk in enumerate(kc):
		idxs = groups.get(gk, [])
		ea, eb = red([x[i] for i in idxs]), red([y[i] for i in idxs])
		ga, gb = ca[r], cb[r]
		if fn == "sum" and ((ea == 0 and ga is None) or (eb == 0 and gb is None)):
			continue     # sum of an all-None group: 0 or None both seen as "skipped"
		if ga != ea or gb != eb:
			chk.fail("per-group aggregates skip None (per operand)", f"group-reduce/value/same-name-operands/{spec['opn']}/{fn}", f"{spec!r}: row {r} key {gk!r}: got ({ga!r}, {gb!r}), expected ({ea!r}, {eb!r})")
			return

def run_apply_edits_argument(chk, spec):
	"""an apply= callback that edits the list it is handed (fills the gaps before summing) edits ITS list: the table still holds the None cells, and a later
	aggregate / window over the same keys still skips them"""
	import warnings
	keys = ["a", "b", "a", "b", "a"]
	x = [1, None, 3, 4, None]
	t = Table({"k": list(keys), "x": list(x)})
	def fill_and_sum(vals):
		for i, v in enumerate(vals):
			if v is None:
				vals[i] = 0
		return sum(vals)
	def collect(vals):
		return vals
	first = call(lambda: getattr(t, spec["first"])(over="k", apply={"s": ("x", fill_and_sum if spec["callback"] == "fill" else collect)}, **({"sum_over": "x"} if spec["with_builtin"] else {})))
	if spec["callback"] == "collect" and first.ok:
		# the caller edits what the callback handed back
		col = first.value.cols()[-1] if not spec["with_builtin"] else first.value["s"]
		for cell in col._underlying:
			if isinstance(cell, list):
				for i in range(len(cell)):
					if cell[i] is None:
						cell[i] = 0
	chk.judged("group-reduce", ("apply-edits-argument", spec["first"], spec["second"], spec["callback"], spec["with_builtin"]))
	if list(t["x"]._underlying) != x:
		chk.fail("a None element is skipped, not rewritten", "group-reduce/apply-callback-edit-reached-the-table", f"{spec!r}: column x is now {list(t['x']._underlying)!r}", prop="C01")
		return
	second = call(lambda: getattr(t, spec["second"])(over="k", count_over="x", mean_over="x", min_over="x", sum_over="x"))
	if not second.ok:
		chk.fail("per-group aggregates skip None", f"group-reduce/raises/after-editing-callback/{type(second.exc).__name__}", f"{spec!r}: {second!r}")
		return
	names = second.value.column_names()
	cols = {nm: list(c._underlying) for nm, c in zip(names, second.value.cols())}
	per = {"a": [1, 3], "b": [4]}
	kcol = cols["k"]
	for r, kk in enumerate(kcol):
		vs = per[kk]
		exp = {"x_count": len(vs), "x_sum": sum(vs), "x_min": min(vs), "x_mean": sum(vs) / len(vs)}
		for nm, e in exp.items():
			g = cols[nm][r]
			if g != e and not (isinstance(g, float) and abs(g - e) < 1e-12):
				chk.fail("per-group aggregates skip None", f"group-reduce/value/after-editing-callback/{spec['second']}/{nm.split('_')[1]}", f"{spec!r}: key {kk!r}: {nm} = {g!r}, expected {e!r} (the table holds {x!r})")
				return


RUNNERS = {"apply_edits_argument": run_apply_edits_argument, "group_same_name": run_group_same_name, "compare_none_scalar": run_compare_none_scalar, "group_reduce_count": run_group_reduce_count, "row_none": run_row_none, "arith_meta": run_arith_meta, "arith_none": run_arith_none, "compare_none": run_compare_none, "compare_meta": run_compare_meta, "reduce": run_reduce,
	"group_reduce": run_group_reduce, "na": run_na}
RUNNERS["recompute"] = recompute.runner("C06")


def run_nothing_left(chk, spec):
	"""a column that is TYPED (it held values once, or is a selection of a typed column) but holds nothing except None - or nothing at all: skipping None leaves nothing, so min / max
	have no value to return: they raise or answer None, never a value that is in no cell; sum is 0, mean and stdev are None, any is False, all is True"""
	import warnings
	from datetime import date
	src = {"bool": [True, False, True], "int": [3, 1, 2], "float": [1.5, 0.5, 2.5], "str": ["b", "a", "c"], "date": [date(2020, 1, 2), date(2020, 1, 1), date(2020, 1, 3)]}[spec["kind"]]
	with warnings.catch_warnings():
		warnings.simplefilter("ignore")
		how = spec["how"]
		if how == "overwritten":
			v = Vector(list(src))
			for i in range(len(src)):
				v[i] = None
		elif how == "slice-assigned":
			v = Vector(list(src))
			v[0:3] = [None, None, None]
		elif how == "table-column":
			t = Table({"ok": list(src), "n": [1, 2, 3]})
			t[:, "ok"] = [None, None, None]
			v = t["ok"]
		elif how == "selection-of-nones":
			v = Vector([src[0], None, None])[1:]
		elif how == "mask-of-isna":
			w = Vector([src[0], None, src[1], None])
			v = w[w.isna()]
		elif how == "empty-slice":
			v = Vector(list(src))[0:0]
		else:
			v = Vector([src[0], None])[1:].dropna()
		o = call(getattr(v, spec["red"]))
	chk.judged("reduce", ("nothing-left", spec["kind"], how, spec["red"]))
	red = spec["red"]
	if red in ("min", "max"):
		if o.ok and o.value is not None:
			chk.fail("None is skipped by every reduction", f"reduce/value-from-nowhere/{red}/nothing-left", f"{spec!r}: {red}() of {list(v._underlying)!r} typed {v.schema()!r} returned {o.value!r}, which is in no cell")
	elif o.ok:
		exp = {"sum": (0,), "mean": (None,), "stdev": (None,), "any": (False,), "all": (True,)}[red]
		if not any(M.same(o.value, e) or (e == 0 and o.value == 0) for e in exp) and not (red == "sum" and spec["kind"] in ("str", "date")):
			chk.fail("None is skipped by every reduction", f"reduce/nothing-left/{red}", f"{spec!r}: {red}() of {list(v._underlying)!r} returned {o.value!r}")


RUNNERS["nothing_left"] = run_nothing_left

WIDER = {"int": 2.5, "float": 1 + 1j, "date": V.DT0}


def all_masks(maxlen=5):
	for n in range(1, maxlen + 1):
		for bits in itertools.product([False, True], repeat=n):
			yield bits


def run(chk):
	recompute.add_cases(chk, "C06")
	rng = chk.rng
	for first in ("aggregate", "window"):
		for second in ("aggregate", "window"):
			for callback in ("fill", "collect"):
				for with_builtin in (False, True):
					chk.case("apply_edits_argument", {"first": first, "second": second, "callback": callback, "with_builtin": with_builtin}, "apply-edits-argument")
	for opn in ("window", "aggregate"):
		for fn in ("sum", "count", "min", "max"):
			for how in ("copy-written", "repeated-name-columns", "external-twins"):
				for _ in range(3 if chk.quick() else 12):
					n = rng.choice([3, 4, 6])
					keys = [rng.choice(["a", "b"]) for _ in range(n)]
					x = [rng.choice([1, 2, 5, None]) for _ in range(n)]
					y = [rng.choice([10, 20, None, None]) for _ in range(n)]
					x[0], y[0] = 3, None
					x[-1], y[-1] = None, 30
					chk.case("group_same_name", {"keys": keys, "x": x, "y": y, "opn": opn, "fn": fn, "how": how}, "group-same-name")
	idx = 0
	for mask in all_masks():
		n = len(mask)
		for kind in KINDS:
			idx += 1
			if not chk.mine(idx):
				continue
			base = [rng.choice(ARITH_VALUES[kind]) for _ in range(n)]
			a = masked(base, mask)
			ms = mask_sig(mask)
			# arithmetic
			for opname in BIN_OPS:
				for form in ("vv", "vs", "sv", "vl", "lv"):
					kb = rng.choice(PARTNER[kind])
					if opname == "pow":
						if kind not in ("bool", "int", "float", "complex"):
							continue
						small = [0, 1, 2, 3, -1, 0.5]
						if form == "vs":
							aa, b = a, rng.choice(small)
						elif form == "sv":
							aa, b = masked([rng.choice(small) for _ in range(n)], mask), rng.choice(ARITH_VALUES[kind])
						elif form in ("vv", "vl"):
							aa, b = a, masked([rng.choice(small) for _ in range(n)], [rng.random() < 0.2 for _ in range(n)])
						else:
							aa, b = masked([rng.choice(small) for _ in range(n)], mask), [rng.choice(ARITH_VALUES[kind]) for _ in range(n)]
					else:
						aa = a
						if form in ("vs", "sv"):
							b = rng.choice(ARITH_VALUES[kb])
						else:
							b = masked([rng.choice(ARITH_VALUES[kb]) for _ in range(n)], [rng.random() < 0.25 for _ in range(n)])
					chk.case("arith_none", {"op": "arith", "opname": opname, "form": form, "a": aa, "b": b, "kind": kind, "mask": ms}, "arith-none")
			for opname in UN_OPS:
				if kind in ("bool", "int", "float", "complex"):
					chk.case("arith_none", {"op": "arith", "opname": opname, "form": "unary", "a": a, "kind": kind, "mask": ms}, "arith-none-unary")
			# comparisons and logical operators
			for opname in list(CMP_OPS) + list(LOG_OPS):
				if opname in LOG_OPS and kind not in ("bool", "int"):
					continue
				for form in ("vv", "vs", "sv", "vl", "lv"):
					if form in ("vs", "sv"):
						b = rng.choice(ARITH_VALUES[kind])
					else:
						b = masked([rng.choice(ARITH_VALUES[kind]) for _ in range(n)], [rng.random() < 0.25 for _ in range(n)])
					chk.case("compare_none", {"op": "arith", "opname": opname, "form": form, "a": a, "b": b, "kind": kind, "mask": ms}, "compare-none")
			for opname in ("eq", "ne"):
				for form in ("vs", "sv"):
					chk.case("compare_none_scalar", {"a": a, "opname": opname, "form": form, "kind": kind, "mask": ms}, "compare-none-scalar")
			if any(x is None for x in a):
				for opname in ("eq", "ne", "lt", "ge"):
					for form in ("vs", "sv"):
						for k in ([5, 2.5, b"x", True] if kind in ("str", "date", "datetime") else ["a", b"x", ""]):
							chk.case("compare_none_scalar", {"a": a, "opname": opname, "form": form, "kind": kind, "mask": ms, "scalar": k}, "compare-none-foreign-scalar")
			if kind in ("date", "datetime"):
				for opname in CMP_OPS:
					others = [rng.choice(ARITH_VALUES[kind]), [rng.choice(ARITH_VALUES[kind]) for _ in range(n)]]
					if kind == "date":
						others += ["2020-06-01", V.DT0, [x.isoformat() for x in base], [V.datetime(x.year, x.month, x.day, 6, 0) for x in base]]
					for other in others:
						chk.case("compare_meta", {"a": base, "mask_bits": list(mask), "other": other, "opname": opname, "kind": kind}, "compare-meta")
						if isinstance(other, list) and n > 1:
							om = [rng.random() < 0.4 for _ in range(n)]
							if not any(om):
								om[rng.randrange(n)] = True
							chk.case("compare_meta", {"a": base, "mask_bits": list(mask), "other": other, "other_mask": om, "opname": opname, "kind": kind}, "compare-meta-other-none")
			# reductions
			for red in ("sum", "mean", "min", "max", "stdev", "any", "all", "stdev-pop"):
				chk.case("reduce", {"values": a, "red": red, "kind": kind, "mask": ms}, "reduce")
				if any(mask) and not all(mask) and red in ("sum", "mean", "min", "max") and kind not in ("complex",):
					chk.case("reduce", {"values": a, "red": red, "kind": kind, "mask": ms, "presort": [(False, False), (True, False), (False, True), (True, True)][(idx + len(red)) % 4]}, "reduce-presorted")
				if any(mask) and not all(mask) and red in ("sum", "mean", "max", "all"):
					chk.case("reduce", {"values": a, "red": red, "kind": kind, "mask": ms, "build": ["setitem", "lshift-vector", "slice-assign"][idx % 3]}, "reduce-built")
			# isna / dropna / fillna
			fills = [("same", rng.choice(ARITH_VALUES[kind])), ("none", None)]
			if kind in WIDER:
				fills.append(("wider", WIDER[kind]))
				fills.append(("wider", {"int": 2.0, "float": complex(3, 0), "date": V.datetime(2020, 1, 31, 0, 0)}[kind]))     # wider kind, value equal to a narrower one
			fills.append(("unrelated", "zz" if kind != "str" else 5))
			for fc, fill in fills:
				if all(mask):
					fc = "into-all-none" if fill is not None else "none"
				for build in ("direct", "setitem", "slice-assign", "lshift", "lshift-vector", "was-none", "slice-of-nullable"):
					if build in ("was-none", "slice-of-nullable"):
						if any(mask):
							continue
					elif build != "direct" and (not any(mask) or all(mask)):
						continue
					chk.case("na", {"values": a, "fill": fill, "fillclass": fc, "kind": kind, "mask": ms, "name": rng.choice([None, "nm"]) if not build.startswith("lshift") else None,
						"build": build}, "na-triple-" + build)
	# zero / falsy values next to None (reductions and dropna must filter None, not falsy values)
	for _ in range(200 if chk.quick() else 1200):
		n = rng.choice([1, 2, 3, 4, 6])
		kind = rng.choice(["int", "float", "bool", "str"])
		dom = {"int": [0, 0, 1, -2], "float": [0.0, -0.0, 1.5, -2.0], "bool": [False, False, True], "str": ["", "", "a"]}[kind]
		vals = [None if rng.random() < 0.35 else rng.choice(dom) for _ in range(n)]
		for red in ("sum", "mean", "min", "max", "stdev", "any", "all"):
			chk.case("reduce", {"values": vals, "red": red, "kind": kind, "mask": mask_sig([x is None for x in vals])}, "reduce-falsy")
		chk.case("na", {"values": vals, "fill": rng.choice(dom), "fillclass": "same" if any(x is not None for x in vals) else "into-all-none",
			"kind": kind, "mask": mask_sig([x is None for x in vals]), "name": None}, "na-falsy")
	for kind in ("bool", "int", "float", "str", "date"):
		for how in ("overwritten", "slice-assigned", "table-column", "selection-of-nones", "mask-of-isna", "empty-slice", "dropna-of-nones"):
			for red in ("min", "max", "sum", "mean", "any", "all"):
				if red in ("mean",) and kind in ("str", "date", "bool") or red in ("any", "all") and kind in ("str", "date"):
					continue
				chk.case("nothing_left", {"kind": kind, "how": how, "red": red}, "reduce-nothing-left")
	# nothing to mark, drop or fill: an empty vector - typed or never typed - answers all three alike
	for fill in (0, "x", 2.5, None):
		chk.case("na", {"values": [], "fill": fill, "fillclass": "same" if fill is not None else "none", "kind": "empty-untyped", "mask": "", "name": None, "build": "direct"}, "na-empty")
	# fill values that are containers are single values; objects that compare equal to everything are not None
	for _ in range(40 if chk.quick() else 300):
		n = rng.choice([2, 3, 4])
		vals = [rng.choice([1, "a", None, 2.5, None]) for _ in range(n)]
		if not any(x is None for x in vals):
			vals[rng.randrange(n)] = None
		if all(x is None for x in vals):
			vals[0] = 1
		vals = ["s", 3] + vals      # (a str next to a number: the vector is object-typed and takes any fill value)
		fill = rng.choice([(7, 8), [1], frozenset({1, 2}), range(2), {"k": 1}, (), "xy", b"ab", bytearray(b"q")])
		chk.case("na", {"values": vals, "fill": fill, "fillclass": "same", "kind": "object-container-fill", "mask": mask_sig([x is None for x in vals]), "name": None, "build": "direct"}, "na-container-fill")
	for _ in range(30 if chk.quick() else 200):
		n = rng.choice([2, 3, 5])
		keys = [rng.choice(["a", "b"]) for _ in range(n)]
		vals = [rng.choice([V.EqAll(), None, 3, V.EqAll()]) for _ in range(n)]
		chk.case("group_reduce_count", {"keys": keys, "values": vals}, "group-reduce-eqall")
	# NaN is a value, not a missing value: only None is marked / dropped / filled
	nan = float("nan")
	for _ in range(60 if chk.quick() else 400):
		n = rng.choice([1, 2, 3, 5])
		vals = [rng.choice([None, nan, 1.5, -2.0, float("inf")]) for _ in range(n)]
		if not any(isinstance(x, float) and x != x for x in vals):
			vals[rng.randrange(n)] = nan
		if all(x is None for x in vals):
			continue
		for build in ("direct", "setitem") if any(x is None for x in vals) else ("direct",):
			chk.case("na", {"values": vals, "fill": rng.choice([0.0, 9.5]), "fillclass": "same", "kind": "float-nan", "mask": mask_sig([x is None for x in vals]), "name": None, "build": build}, "na-nan")
	for _ in range(200 if chk.quick() else 1200):
		chk.case("row_none", {"seed": rng.randrange(10**9), "n": rng.choice([1, 2, 3]), "c": rng.choice([2, 3]), "read_first": rng.choice(["row", "shape", "iterate", "nothing"]),
			"via": rng.choice(["attr", "item", "cols", "cell"])}, "row-none")
	for _ in range(200 if chk.quick() else 1500):
		n = rng.choice([1, 2, 3, 4])
		dates = [rng.choice(ARITH_VALUES["date"]) for _ in range(n)]
		form = rng.choice(["scalar", "vector", "list"])
		days = rng.choice([1, 30, -2]) if form == "scalar" else [rng.choice([0, 1, 30, -2]) for _ in range(n)]
		lm = [rng.random() < 0.3 for _ in range(n)]
		rm = [rng.random() < 0.3 for _ in range(n)]
		if all(lm):
			lm[0] = False
		chk.case("arith_meta", {"dates": dates, "days": days, "form": form, "promoted": rng.random() < 0.4, "left_mask": lm, "right_mask": rm}, "arith-meta")
	# per-group aggregates
	for _ in range(150 if chk.quick() else 1000):
		n = rng.choice([1, 2, 3, 5, 8])
		kind = rng.choice(["int", "float", "bool"])
		dom = {"int": [0, 1, -2, 3], "float": [0.0, 1.5, -2.0, 2.5], "bool": [False, True]}[kind]
		keys = [rng.choice(["a", "b", None, "c"]) for _ in range(n)]
		vals = [None if rng.random() < 0.4 else rng.choice(dom) for _ in range(n)]
		if rng.random() < 0.3:
			vals = [None if k == keys[0] else v for k, v in zip(keys, vals)]
		chk.case("group_reduce", {"keys": keys, "values": vals, "kind": kind, "count_key": rng.choice([None, "name", "vector"])}, "group-reduce")
