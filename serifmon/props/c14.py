"""C14 - sorting is a stable permutation with direction-independent None placement."""
import itertools
from datetime import date, datetime

from ..bind import Vector, Table
from ..core import call, short
from .. import models as M
from .. import values as V
from . import common
from . import joinmodel as J

from . import recompute

RULE = ("[plus the shared recompute-after-history monitor: this property's operations evaluated on long-lived objects between in-place writes / renames must equal the same operations on fresh objects rebuilt from the current contents] "
	"every table carries a hidden unique row-id column. exhaustive: all key columns over {None,1,2} of length 0-5 x reverse x na_last for "
	"Table.sort_by (key by name / own column / external vector; reverse given as bool, list or tuple) and Vector.sort_by; sampled: 1-3 keys with "
	"every combination of per-key direction and na_last, heavy ties, str/date/float/bool/int keys, keys already ordered in the input, re-sorting a "
	"sorted table. The oracle is a checker, not a second sort: ids form a permutation, cells stay with their id, adjacent rows are in order under "
	"the lexicographic per-key comparator with None last (first with na_last=False) in both directions, rows tying on all keys keep input "
	"order, the input is unchanged and sorting twice equals sorting once. distinct = (kind, #keys, directions, na_last, key modes, size class, "
	"has None, has ties).")
ASSUMPTIONS = [
	"for Vector.sort_by stability is judged where it is observable (equal values of different type such as 1 / 1.0 / True)",
	"NaN keys are not generated (no total order)",
]
EXHAUSTIVE = {"flag": True, "scope": "all single key columns over {None,1,2} up to length 5 x reverse x na_last, tables and vectors"}
ANCHOR_FUNCS = ["table:Table.sort_by", "vector:Vector.sort_by"]
REQUIRED_STRATA = {"recompute": 200, "table-sort": 1500, "vector-sort": 800, "resort": 300}


def cmp_vals(a, b):
	if a is b or a == b:
		return 0
	if a < b:
		return -1
	# (values ordered by < alone: neither smaller is a tie, whatever == says)
	return 1 if b < a else 0


def cmp_keys(ka, kb, revs, na_last):
	for a, b, rev in zip(ka, kb, revs):
		if a is None and b is None:
			continue
		if a is None:
			return 1 if na_last else -1
		if b is None:
			return -1 if na_last else 1
		c = cmp_vals(a, b)
		if c:
			return -c if rev else c
	return 0


def check_sorted(chk, tag, spec, in_rows, keycols, ids_in, out_rows, id_pos, revs, na_last):
	"""out_rows: result rows (tuples incl. id). returns False on violation"""
	ids_out = [r[id_pos] for r in out_rows]
	if sorted(ids_out) != sorted(ids_in):
		cls = "lost" if len(set(ids_out)) < len(ids_in) or len(ids_out) < len(ids_in) else "extra"
		chk.fail("sort_by returns every row exactly once", f"{tag}/not-a-permutation/{cls}", f"{spec!r}: ids {ids_out} from {ids_in}")
		return False
	by_id = {r[id_pos]: r for r in in_rows}
	for r in out_rows:
		if not M.same_list(r, by_id[r[id_pos]]):
			chk.fail("cells of a row are kept together", f"{tag}/cells-separated", f"{spec!r}: output row {r!r} vs input row {by_id[r[id_pos]]!r}")
			return False
	key_of = {i: tuple(kc[n] for kc in keycols) for n, i in enumerate(ids_in)}
	pos_of = {i: n for n, i in enumerate(ids_in)}
	for x, y in zip(ids_out, ids_out[1:]):
		c = cmp_keys(key_of[x], key_of[y], revs, na_last)
		if c > 0:
			kx, ky = key_of[x], key_of[y]
			none_issue = any((a is None) != (b is None) for a, b in zip(kx, ky))
			chk.fail("rows are ordered lexicographically by the keys, each in its own direction, None last/first whatever the direction",
				f"{tag}/out-of-order/{'none-placement' if none_issue else 'values'}",
				f"{spec!r}: key {kx!r} precedes {ky!r} (reverse={revs}, na_last={na_last}); output ids {ids_out}")
			return False
		if c == 0 and pos_of[x] > pos_of[y]:
			chk.fail("rows that tie on all keys keep their original relative order", f"{tag}/unstable/{'descending' if any(revs) else 'ascending'}",
				f"{spec!r}: rows {x} and {y} tie on {key_of[x]!r} but were swapped; output ids {ids_out}")
			return False
	return True


def build(spec):
	ts = spec["table"]
	if ts["cols"]:
		n = len(ts["cols"][0])
	else:
		n = max([len(r["values"]) for r in spec["by"] if r["mode"] == "external"] or [0])
	ids = list(range(100, 100 + n))
	full = {"names": ts["names"] + ["__id"], "cols": [list(c) for c in ts["cols"]] + [ids]}
	if spec.get("id_first"):
		full = {"names": ["__id"] + ts["names"], "cols": [ids] + [list(c) for c in ts["cols"]]}
	return full, ids


def key_arg(t, spec):
	by = []
	for ref in spec["by"]:
		by.append(common.resolve_ref(t, ref))
	if len(by) == 1 and spec.get("scalar_by"):
		return by[0]
	return by if spec.get("by_container", "list") == "list" else tuple(by)


def reverse_arg(spec):
	revs = spec["reverse"]
	form = spec.get("reverse_form", "bool")
	if form == "bool":
		return revs[0]
	return list(revs) if form == "list" else tuple(revs)


def run_table_sort(chk, spec):
	full, ids = build(spec)
	t = common.mk_table(full)
	keycols = [common.ref_values({"table": full}, r) for r in spec["by"]]
	revs = list(spec["reverse"])
	if spec.get("reverse_form", "bool") == "bool":
		revs = [revs[0]] * len(keycols)
	na_last = spec["na_last"]
	if spec.get("stale"):
		# every column's dtype says nullable although it holds no None any more (a None was stored and overwritten): still the input, still unchanged afterwards
		for col in t.cols():
			if len(col) and col._underlying[0] is not None:
				x0 = col._underlying[0]
				if call(col.__setitem__, 0, None).ok:
					call(col.__setitem__, 0, x0)
	if spec.get("prefingerprint"):
		# every fingerprint that can be memoised is memoised before the call
		call(t.fingerprint)
		[call(c.fingerprint) for c in t.cols()]
	before = M.snap_table(t)
	o = call(lambda: t.sort_by(key_arg(t, spec), reverse=reverse_arg(spec), na_last=na_last))
	n = len(ids)
	has_none = any(v is None for kc in keycols for v in kc)
	ties = len({tuple(kc[i] for kc in keycols) for i in range(n)}) < n
	chk.judged("table-sort", ("tsort", len(keycols), tuple(revs), na_last, tuple(r["mode"] for r in spec["by"]), spec.get("reverse_form"), min(n, 6), has_none, ties))
	if M.snap_table(t) != before:
		chk.fail("sort_by does not modify its input", "table-sort/input-modified", f"{spec!r}")
	if not o.ok:
		chk.fail("sort_by sorts every admissible input", f"table-sort/raises/{type(o.exc).__name__}", f"{spec!r} raised {o!r}")
		return
	r = o.value
	chk.observe(r, "table-sort")
	if not isinstance(r, Table):
		chk.fail("sort_by returns a table", "table-sort/not-a-table", f"{spec!r} -> {type(r).__name__}")
		return
	names, cols = J.cells(r)
	chk.feed_digest((names, cols))
	if n == 0:
		if len(r) != 0:
			chk.fail("sorting an empty table gives an empty table", "table-sort/empty-not-empty", f"{spec!r} -> {short(cols, 100)}")
		return
	if names != full["names"]:
		chk.fail("sort_by keeps the columns", "table-sort/columns-changed", f"{spec!r}: names {names!r} vs {full['names']!r}")
		return
	id_pos = full["names"].index("__id")
	in_rows = J.rows_from(full["cols"], n)
	out_rows = J.rows_from(cols, len(cols[0]))
	if not check_sorted(chk, "table-sort", spec, in_rows, keycols, ids, out_rows, id_pos, revs, na_last):
		return
	# sorting a sorted table changes nothing (keys re-resolved against the sorted table)
	chk.judged("resort", ("resort", len(keycols), tuple(revs), na_last))
	perm = [ids.index(rw[id_pos]) for rw in out_rows]
	spec2 = dict(spec)
	by2 = []
	for ref, kc in zip(spec["by"], keycols):
		if ref["mode"] == "external":
			by2.append({"mode": "external", "values": [kc[i] for i in perm], "name": ref.get("name")})
		else:
			by2.append(ref)
	spec2["by"] = by2
	o2 = call(lambda: r.sort_by(key_arg(r, spec2), reverse=reverse_arg(spec), na_last=na_last))
	if not o2.ok:
		chk.fail("a sorted table can be sorted again", f"table-sort/resort-raises/{type(o2.exc).__name__}", f"{spec!r}: second sort raised {o2!r}")
		return
	names2, cols2 = J.cells(o2.value)
	if names2 != names or not all(M.same_list(a, b) for a, b in zip(cols, cols2)):
		chk.fail("sorting a sorted table changes nothing", "table-sort/not-idempotent", f"{spec!r}: first {short(cols, 200)} second {short(cols2, 200)}")
		return
	if spec.get("rewrite") and all(ref["mode"] != "external" for ref in spec["by"]) and n > 1:
		# the sorted table is an ordinary table: disturb a key cell through its column vector, then ask for the same order again
		import random
		rr = random.Random(n * 7919 + len(names))
		ref = spec["by"][0]
		kpos = names.index(ref["name"])
		donor = [x for x in cols[kpos] if x is not None]
		if not donor:
			return
		i = rr.randrange(n)
		newval = cols[kpos][n - 1 - i] if cols[kpos][n - 1 - i] is not None else donor[0]
		w = call(lambda: (r[ref["name"]] if rr.random() < 0.5 else r.cols()[kpos]).__setitem__(i, newval))
		if not w.ok:
			chk.counters["resort-rewrite-refused"] += 1
			return
		names3, cols3 = J.cells(r)
		o3 = call(lambda: r.sort_by(key_arg(r, spec2), reverse=reverse_arg(spec), na_last=na_last))
		chk.judged("resort", ("resort-after-write", len(keycols), tuple(revs), na_last))
		if not o3.ok:
			chk.fail("a sorted table can be sorted again", f"table-sort/resort-raises/{type(o3.exc).__name__}", f"{spec!r}: sort after a view write raised {o3!r}")
			return
		names4, cols4 = J.cells(o3.value)
		in3 = J.rows_from(cols3, n)
		keycols3 = [cols3[names3.index(rf["name"])] for rf in spec["by"]]
		ids3 = [rw[id_pos] for rw in in3]
		check_sorted(chk, "table-sort/after-view-write", spec, in3, keycols3, ids3, J.rows_from(cols4, len(cols4[0]) if cols4 else 0), id_pos, revs, na_last)


def run_vector_sort(chk, spec):
	vals = spec["values"]
	v = Vector(list(vals), name=spec.get("name"))
	before = M.snap_vector(v)
	o = call(lambda: v.sort_by(reverse=spec["reverse"], na_last=spec["na_last"]))
	n = len(vals)
	chk.judged("vector-sort", ("vsort", spec.get("kind"), spec["reverse"], spec["na_last"], min(n, 6), any(x is None for x in vals), len(set(map(repr, vals))) < n))
	if M.snap_vector(v) != before:
		chk.fail("sort_by does not modify its input", "vector-sort/input-modified", f"{spec!r}")
	if not o.ok:
		chk.fail("Vector.sort_by sorts every admissible input", f"vector-sort/raises/{type(o.exc).__name__}", f"{spec!r} raised {o!r}")
		return
	r = o.value
	chk.observe(r, "vector-sort")
	got = list(r._underlying)
	# match output elements back to input positions: type-aware, leftmost unused first (so stability is observable only across types)
	used = [False] * n
	ids_out = []
	for g in got:
		for i, x in enumerate(vals):
			if not used[i] and M.same(x, g):
				used[i] = True
				ids_out.append(i)
				break
		else:
			chk.fail("Vector.sort_by returns a permutation of the values", "vector-sort/not-a-permutation/extra", f"{spec!r}: output {got!r} has {g!r} which is not an unused input value")
			return
	if len(got) != n:
		chk.fail("Vector.sort_by returns a permutation of the values", "vector-sort/not-a-permutation/lost", f"{spec!r}: output {got!r}")
		return
	in_rows = [(x, i) for i, x in enumerate(vals)]
	out_rows = [(vals[i], i) for i in ids_out]
	if not check_sorted(chk, "vector-sort", spec, in_rows, [list(vals)], list(range(n)), out_rows, 1, [spec["reverse"]], spec["na_last"]):
		return
	if r.name != v.name:
		chk.fail("sorting keeps the vector's name", "vector-sort/name-lost", f"{spec!r}: name {r.name!r}")
	o2 = call(lambda: r.sort_by(reverse=spec["reverse"], na_last=spec["na_last"]))
	if not o2.ok or not M.same_list(list(o2.value._underlying), got):
		chk.fail("sorting a sorted vector changes nothing", "vector-sort/not-idempotent", f"{spec!r}: {got!r} then {o2!r}")
		return
	# the result is a vector of its own: it and the input both take a write, and neither sees the other's
	if n and r is not v:
		b_in = M.snap_vector(v)
		w1 = call(r.__setitem__, 0, r._underlying[-1])
		w2 = call(v.__setitem__, 0, v._underlying[-1])
		if M.snap_vector(v)[0][1:] != b_in[0][1:] and False:
			pass
		for which, w in (("result", w1), ("input", w2)):
			if not w.ok:
				chk.fail("the input is not modified and the result is a vector of its own", f"vector-sort/write-refused-after-sort/{which}/{type(w.exc).__name__}", f"{spec!r}: after s = v.sort_by(..) a write to the {which} raised {w!r}")
				return
	elif n and r is v:
		chk.fail("the input is not modified and the result is a vector of its own", "vector-sort/returns-its-input", f"{spec!r}")


def run_sort_history(chk, spec):
	"""one long-lived table: sort it, write its key cells k times in place (through the column vector, the table cell, a row), sort it again ...
	every sort is judged on the contents at that moment"""
	import random
	rng = random.Random(spec["seed"])
	n = spec["n"]
	dom = spec["dom"]
	keys = [rng.choice(dom) for _ in range(n)]
	t = Table([Vector(list(keys), name="k"), Vector([rng.choice([1, 2]) for _ in range(n)], name="g"), Vector(list(range(100, 100 + n)), name="__id")])
	for rnd, writes in enumerate(spec["writes"]):
		names, cols = J.cells(t)
		rev, na_last, by = spec["reverse"], spec["na_last"], spec["by"]
		keycols = [cols[names.index(b)] for b in by]
		arg = by if spec["key_form"] == "name" else [t[b] for b in by]
		o = call(lambda: t.sort_by(arg if len(by) > 1 else arg[0], reverse=rev, na_last=na_last))
		chk.judged("resort", ("sort-history", rnd, tuple(by), rev, na_last, writes))
		if not o.ok:
			chk.fail("sort_by sorts every admissible input", f"table-sort/raises/{type(o.exc).__name__}", f"{spec!r} round {rnd}: {o!r}")
			return
		on, oc = J.cells(o.value)
		ids = cols[2]
		if not check_sorted(chk, "table-sort/after-writes", spec, J.rows_from(cols, n), keycols, list(ids), J.rows_from(oc, len(oc[0]) if oc else 0), 2, [rev] * len(by), na_last):
			return
		if spec.get("failing_sort") and rnd == 0:
			# a sort request that is rejected while it is being carried out (keys of kinds that have no order): nothing of it may remain
			bad = Table([Vector([rng.choice(["x", 7, "y", 3]) for _ in range(n)], name="bad"), Vector([rng.choice([2, 1]) for _ in range(n)], name="tie"), Vector(list(range(n)), name="__id")])
			if len({type(x) for x in bad.cols()[0]._underlying}) > 1:
				call(lambda: bad.sort_by(["bad", "tie"]))
				call(lambda: bad.sort_by(["tie", "bad"]))
		for _ in range(writes):
			i = rng.randrange(n)
			val = rng.choice(dom)
			via = rng.choice(["view", "view-attr", "cell", "cell-name"])
			if via == "view":
				call(lambda: t.cols()[0].__setitem__(i, val))
			elif via == "view-attr":
				call(lambda: t.k.__setitem__(i, val))
			elif via == "cell":
				call(t.__setitem__, (i, 0), val)
			else:
				call(t.__setitem__, (i, "k"), val)


RUNNERS = {"table_sort": run_table_sort, "vector_sort": run_vector_sort, "sort_history": run_sort_history}
RUNNERS["recompute"] = recompute.runner("C14")

from decimal import Decimal as _Dec
from fractions import Fraction as _Frac

SORT_DOMAINS = {
	"int": [1, 2, 3, 1, 2, 0, -1],
	"str": ["a", "b", "c", "a", "", "B"],
	"float": [0.5, 1.5, -2.0, 0.5, 1e300, -0.0, 0.0],
	"floatinf": [float("inf"), 1.0, float("-inf"), 0.5, float("inf"), -2.0],
	"bool": [True, False],
	"date": [V.D0, date(2021, 2, 28), date(1999, 12, 31)],
	"mixed": [1, 1.0, True, 0, 0.0, False, 2],
	"decimal": [_Dec("1.0000000000000000000000000000001"), _Dec("1.0000000000000000000000000000002"), _Dec("1"), _Dec("-2.5"), _Dec("1.0000000000000000000000000000001")],      # differ beyond 28 significant digits
	"fraction": [_Frac(1, 3), _Frac(2, 6), _Frac(10 ** 30 + 1, 10 ** 30), _Frac(1), _Frac(-1, 7)],
	"bigint": [2 ** 53, 2 ** 53 + 1, 10 ** 400, -(10 ** 400), 2 ** 53 + 2],
	"int-fraction": [1, _Frac(1, 2), 2, _Frac(5, 2), 0, _Frac(3, 1)],      # an object-typed column whose values nevertheless have one order
	"int-decimal": [1, _Dec("0.5"), 3, _Dec("2.5"), 2],
	"datetime-sameday": [datetime(2020, 1, 31, 17, 30), datetime(2020, 1, 31, 5, 0), datetime(2020, 1, 31, 0, 0), datetime(2020, 1, 30, 23, 59), datetime(2020, 1, 31, 5, 0, 1)],
}


def gen_sort_spec(rng, max_rows=8):
	n = rng.choice([0, 1, 2, 3, max_rows // 2, max_rows, max_rows])
	nkeys = rng.choice([1, 1, 2, 2, 3])
	names, cols, by = [], [], []
	for i in range(nkeys):
		kind = rng.choice(["int", "str", "float", "bool", "date", "int", "mixed", "floatinf", "decimal", "fraction", "bigint", "int-fraction", "int-decimal", "datetime-sameday"])
		dom = SORT_DOMAINS[kind][:rng.choice([1, 2, 3, 7])]
		p_none = rng.choice([0.0, 0.0, 0.2, 0.5])
		kc = [None if rng.random() < p_none else rng.choice(dom) for _ in range(n)]
		if rng.random() < 0.25:
			nn = sorted([x for x in kc if x is not None], reverse=rng.random() < 0.5)   # a key already ordered in the input
			kc = nn + [None] * (n - len(nn))
		mode = rng.choice(["name", "name", "vector", "external"])
		if mode == "external":
			by.append({"mode": "external", "values": kc, "name": rng.choice([None, f"x{i}"])})
		else:
			names.append(f"k{i}")
			cols.append(kc)
			by.append({"mode": mode, "name": f"k{i}"})
	for j in range(rng.choice([0, 1, 2])):
		names.append(rng.choice(["p", "q", f"p{j}"]) if rng.random() < 0.3 else f"pay{j}")
		cols.append(V.column(rng, rng.choice(["int", "str", "float"]), n, rng.choice(["none", "low", "high"]), small=True))
	if n and rng.random() < 0.3:
		# a payload column whose cells all compare equal without being the same (1 / True, 'x' / a str-subclass 'x', 0 / False): cells stay with their rows
		fam = rng.choice([[1, True], [0, False], ["x", V.MyStr("x")], [5, V.MyInt(5)], [2, 2, 2]])
		names.append("same")
		cols.append([fam[i % len(fam)] if rng.random() < 0.7 else fam[0] for i in range(n)])
	# a column whose name differs from a key's name only by case / punctuation, placed BEFORE it: a key given by name means the exact name
	if rng.random() < 0.15 and names:
		cand = [i for i, r in enumerate(by) if r["mode"] in ("name", "vector")]
		if cand:
			ref = by[rng.choice(cand)]
			exact, lookalike = rng.choice([("score", "Score"), ("unit_price", "unit price"), ("id", "ID"), ("a_b", "a-b")])
			pos = names.index(ref["name"])
			names[pos] = exact
			for r in by:
				if r.get("name") == ref["name"] and r is not ref and r["mode"] != "external":
					r["name"] = exact
			ref["name"] = exact
			twin = list(cols[pos])
			rng.shuffle(twin)
			names.insert(pos, lookalike)
			cols.insert(pos, twin)
	form = rng.choice(["bool", "bool", "list", "tuple"])
	revs = [rng.random() < 0.5 for _ in range(nkeys)]
	if nkeys < 3 and rng.random() < 0.2:
		# the same key column mentioned twice with opposite directions: the first mention decides
		j = rng.randrange(nkeys)
		by.append(dict(by[j]))
		revs.append(not revs[j])
		nkeys += 1
		form = rng.choice(["list", "tuple"])
	return {"stale": rng.random() < 0.25, "prefingerprint": rng.random() < 0.25, "rewrite": rng.random() < 0.35, "table": {"names": names, "cols": cols}, "by": by, "reverse": revs, "reverse_form": form, "na_last": rng.random() < 0.6,
		"scalar_by": nkeys == 1 and rng.random() < 0.5, "by_container": rng.choice(["list", "tuple"]), "id_first": rng.random() < 0.3}

def run_detached_key(chk, spec):
	"""a key given as a vector orders the rows by THAT vector's cells - also when the vector once was a column of this table (or is a same-named column of
	another table / of an earlier sort result) and the table's column of that name holds other values now"""
	import random
	rng = random.Random(spec["seed"])
	n = spec["n"]
	old = [rng.choice([1, 2, 3, 4]) for _ in range(n)]
	new = [rng.choice([1, 2, 3, 4]) for _ in range(n)]
	t = Table({"k": list(old), "pay": [f"p{i}" for i in range(n)], "__id": list(range(100, 100 + n))})
	how = spec["how"]
	if how == "replaced-column":
		h = t["k"]
		call(setattr, t, "k", list(new))
	elif how == "other-table":
		h = Table({"k": list(old)})["k"]
		call(setattr, t, "k", list(new))
	elif how == "earlier-sort-result":
		t = Table({"k": list(new), "pay": [f"p{i}" for i in range(n)], "__id": list(range(100, 100 + n))})
		h = Table({"k": list(old), "z": list(range(n))}).sort_by("z")["k"]
	else:
		h = t["k"]
		call(t.rename_column, "k", "was_k")
		t = t >> Vector(list(new), name="k")
	before = M.snap_table(t)
	o = call(lambda: t.sort_by(h, reverse=spec["reverse"]))
	chk.judged("table-sort", ("detached-key", how, spec["reverse"], n))
	if M.snap_table(t) != before:
		chk.fail("sort_by does not modify its input", "table-sort/input-modified", f"{spec!r}")
		return
	if not o.ok:
		chk.fail("sort_by sorts every admissible input", f"table-sort/raises/{type(o.exc).__name__}", f"{spec!r} raised {o!r}")
		return
	names, cols = J.cells(o.value)
	ids = cols[names.index("__id")]
	order = [i - 100 for i in ids]
	keyseq = [old[i] for i in order]
	exp = sorted(range(n), key=lambda i: old[i], reverse=spec["reverse"])      # stable in both directions: ties keep input order
	if spec["reverse"]:
		exp = [i for kv in sorted(set(old), reverse=True) for i in range(n) if old[i] == kv]
	if order != exp:
		chk.fail("rows are ordered by the given key vector's own cells", f"table-sort/out-of-order/detached-key/{how}", f"{spec!r}: key cells {old!r} (the table's column 'k' holds {new!r}): row order {order!r}, expected {exp!r}")


RUNNERS["detached_key"] = run_detached_key


def directed_sort_specs(rng):
	out = []
	P = 2 ** 61 - 1
	# a second key that differs from the first only in cells hash() cannot tell apart - at rows that tie on the first
	for a, b in (([-1, -1, 5, 5, -1], [-1, -2, 5, 5, -2]), ([0, 0, 3, 0], [P, 0, 3, 0]), ([7, 7, 7], [7 + P, 7, 7 + 2 * P]), ([-2, -2, 1], [-1, -2, 1])):
		for revs in ([False, False], [False, True], [True, False]):
			for modes in (("name", "name"), ("vector", "name"), ("name", "vector")):
				out.append({"rewrite": False, "table": {"names": ["a", "b", "pay"], "cols": [list(a), list(b), [f"p{i}" for i in range(len(a))]]}, "by": [{"mode": modes[0], "name": "a"}, {"mode": modes[1], "name": "b"}],
					"reverse": list(revs), "reverse_form": "list", "na_last": True, "scalar_by": False, "by_container": "list", "id_first": False, "prefingerprint": True})
	# a str key vector whose cells spell the table's own column labels, passed as a bare vector: it is a key like any other
	for cells_ in (["dst", "src", "w", "src", "dst"], ["w", "w", "src"], ["src"], ["dst", "src"]):
		n = len(cells_)
		for mode in ("vector", "external"):
			for revform, rev in (("bool", [True]), ("bool", [False]), ("list", [False])):
				ref = {"mode": "vector", "name": "src"} if mode == "vector" else {"mode": "external", "values": list(cells_), "name": None}
				out.append({"rewrite": False, "table": {"names": ["src", "dst", "w"], "cols": [list(cells_), [rng.choice(["a", "b", "c"]) for _ in range(n)], [rng.randrange(5) for _ in range(n)]]}, "by": [ref],
					"reverse": list(rev), "reverse_form": revform, "na_last": True, "scalar_by": True, "by_container": "list", "id_first": False})
	# an earlier key whose cells are ordered by < alone (ties between different, unequal objects), a later key that has to order the tied rows
	for ranks, second in (([1, 0, 1, 0, 1], [3, 2, 1, 0, 0]), ([0, 0, 0], [2, 1, 0]), ([2, 1, 2, 1], ["b", "b", "a", "a"]), ([1, 1, 0, 1], [None, 5, 1, 4])):
		for revs in ([False, False], [False, True], [True, False], [True, True]):
			for modes in (("name", "name"), ("vector", "name")):
				n = len(ranks)
				out.append({"rewrite": False, "table": {"names": ["o", "k", "pay"], "cols": [[V.OrdOnly(r, "abcde"[i]) for i, r in enumerate(ranks)], list(second), [f"p{i}" for i in range(n)]]},
					"by": [{"mode": modes[0], "name": "o"}, {"mode": modes[1], "name": "k"}], "reverse": list(revs), "reverse_form": "list", "na_last": True, "scalar_by": False, "by_container": "list", "id_first": False})
	# labels that begin with a dash are labels: the key is that column, in the direction asked for
	for names, keyname in ((["-x", "x", "pay"], "-x"), (["x", "-x", "pay"], "-x"), (["-1d", "k", "pay"], "-1d"), (["--", "-", "pay"], "--"), (["-x y", "x_y", "pay"], "-x y"), (["+x", "x", "pay"], "+x"), (["~x", "x", "pay"], "~x"), (["!x", "x", "pay"], "!x")):
		for rev in (False, True):
			for scalar in (True, False):
				out.append({"rewrite": False, "table": {"names": list(names), "cols": [[3, 1, 2, 1, None], [1, 2, 3, 4, 5], [f"p{i}" for i in range(5)]]}, "by": [{"mode": "name", "name": keyname}],
					"reverse": [rev], "reverse_form": "bool", "na_last": True, "scalar_by": scalar, "by_container": "list", "id_first": False})
	return out


def run_row_sort(chk, spec):
	"""a row is a vector: sort_by of each row of ONE iteration (a single view moved along the table), and of one row object moved by hand, is the sorted
	permutation of THAT row's cells"""
	rows = spec["rows"]
	cols = [list(c) for c in zip(*rows)]
	t = Table({f"c{j}": col for j, col in enumerate(cols)})
	got = {}
	if spec["how"] == "iteration":
		for i, row in enumerate(t):
			got[i] = call(lambda: row.sort_by(reverse=spec["reverse"], na_last=spec["na_last"]))
			if got[i].ok:
				got[i] = list(got[i].value._underlying)
	elif spec["how"] == "moved-by-hand":
		r = t[0]
		for i in (0, len(rows) - 1, 1 % len(rows)):
			o = call(lambda: r.set_index(i).sort_by(reverse=spec["reverse"], na_last=spec["na_last"]))
			got[i] = list(o.value._underlying) if o.ok else o
	else:
		for i in range(len(rows)):
			o = call(lambda: t[i].sort_by(reverse=spec["reverse"], na_last=spec["na_last"]))
			got[i] = list(o.value._underlying) if o.ok else o
	chk.judged("vector-sort", ("row-sort", spec["how"], spec["reverse"], spec["na_last"], len(rows)))
	for i, g in sorted(got.items()):
		vals = list(rows[i])
		if not isinstance(g, list):
			chk.fail("Vector.sort_by sorts every admissible input", f"vector-sort/row/raises/{spec['how']}", f"{spec!r}: row {i} {vals!r}: {g!r}")
			return
		nn = [x for x in vals if x is not None]
		exp = sorted(nn, reverse=spec["reverse"])
		nones = [None] * (len(vals) - len(nn))
		exp = exp + nones if spec["na_last"] else nones + exp
		if g != exp:
			chk.fail("Vector.sort_by returns the sorted permutation of the values", f"vector-sort/row/wrong-cells/{spec['how']}", f"{spec!r}: row {i} = {vals!r} sorted gives {g!r}, expected {exp!r}")
			return


RUNNERS["row_sort"] = run_row_sort


def run_sort_replace_sort(chk, spec):
	"""sort by a label, replace that column as a whole (attribute assignment, indexed accessor, by list or by vector), sort by the label again: the second result is
	ordered by the column the table holds NOW"""
	import warnings
	with warnings.catch_warnings():
		warnings.simplefilter("ignore")
		names = ["score", "pay"] if spec["layout"] == "plain" else ["score", "pay", "score"]
		cols = [[3, 1, 2, None, 1], ["a", "b", "c", "d", "e"]] + ([[9, 8, 7, 6, 5]] if spec["layout"] != "plain" else [])
		t = Table([Vector(list(c), name=nm) for c, nm in zip(cols, names)])
		t = t >> {"__id": [100, 101, 102, 103, 104]}
		first = call({"sort_by": lambda: t.sort_by("score"), "sort_by-list": lambda: t.sort_by(["score", "pay"]), "aggregate": lambda: t.aggregate(over="score", count_over="pay"), "window": lambda: t.window(over="score", count_over="pay")}[spec["first"]])
		new = [1, 5, None, 2, 4]
		how = spec["replace"]
		w = call({"attr-list": lambda: setattr(t, "score", list(new)), "attr-vector": lambda: setattr(t, "score", Vector(list(new), name="score")), "attr-vector-other-name": lambda: setattr(t, "score", Vector(list(new), name="zzz")),
			"column-item": lambda: t.__setitem__((slice(None), "score"), list(new))}[how])
		if not w.ok:
			chk.skip("sort-replace-refused")
			return
		keyname = t.column_names()[0]
		now = list(t.cols()[0]._underlying)
		o = call(lambda: t.sort_by(keyname, reverse=spec["reverse"]))
	chk.judged("table-sort", ("sort-replace-sort", spec["first"], how, spec["layout"], spec["reverse"]))
	if not o.ok:
		chk.fail("sort_by sorts every admissible input", f"table-sort/raises/after-column-replaced/{type(o.exc).__name__}", f"{spec!r}: {o!r}")
		return
	names_out, cols_out = J.cells(o.value)
	in_rows = J.rows_from([list(c._underlying) for c in t.cols()], 5)
	out_rows = J.rows_from(cols_out, len(cols_out[0]) if cols_out else 0)
	idpos = names_out.index("__id")
	check_sorted(chk, "table-sort/after-column-replaced", spec, in_rows, [now], [r[idpos] for r in in_rows], out_rows, idpos, [spec["reverse"]], True)


RUNNERS["sort_replace_sort"] = run_sort_replace_sort


def run_row_view_keys(chk, spec):
	"""keys given as ROW views of another table (crit[0], crit[1], ...: vectors whose storage is made up afresh every time it is asked for): each is a key of its own, in the order given"""
	import random, warnings
	rng = random.Random(spec["seed"])
	n = spec["n"]
	first = [rng.choice([1, 2]) for _ in range(n)]
	second = [rng.randrange(50) for _ in range(n)]
	third = [rng.randrange(3) for _ in range(n)]
	with warnings.catch_warnings():
		warnings.simplefilter("ignore")
		crit = Table({f"c{j}": [first[j], second[j], third[j]] for j in range(n)})
		t = Table({"pay": [f"p{i}" for i in range(n)], "__id": list(range(100, 100 + n))})
		keys = {"two-rows": lambda: [crit[0], crit[1]], "three-rows": lambda: [crit[0], crit[2], crit[1]], "row-and-name": lambda: [crit[0], "pay"], "same-row-twice": lambda: [crit[0], crit[0], crit[1]]}[spec["keys"]]()
		keycols = {"two-rows": [first, second], "three-rows": [first, third, second], "row-and-name": [first, [f"p{i}" for i in range(n)]], "same-row-twice": [first, first, second]}[spec["keys"]]
		revs = [spec["reverse"]] * len(keycols)
		o = call(lambda: t.sort_by(keys, reverse=spec["reverse"]))
	chk.judged("table-sort", ("row-view-keys", spec["keys"], min(n, 30), spec["reverse"]))
	if not o.ok:
		chk.skip("row-view-keys-refused")
		return
	names_out, cols_out = J.cells(o.value)
	in_rows = J.rows_from([list(c._underlying) for c in t.cols()], n)
	out_rows = J.rows_from(cols_out, len(cols_out[0]) if cols_out else 0)
	idpos = names_out.index("__id")
	check_sorted(chk, "table-sort/row-view-keys", spec, in_rows, keycols, [r[idpos] for r in in_rows], out_rows, idpos, revs, True)


RUNNERS["row_view_keys"] = run_row_view_keys


def run_empty_table_sort(chk, spec):
	"""a table that a filter reduced to zero rows - with repeated labels, unnamed columns, labels that sanitise alike - sorted by any key: every column is still there, under its label"""
	import warnings
	with warnings.catch_warnings():
		warnings.simplefilter("ignore")
		names = {"repeated": ["a", "b", "a"], "unnamed": [None, None, "k"], "lookalike": ["x y", "x_y", "k"], "plain": ["a", "b", "k"], "all-unnamed": [None, None, None]}[spec["names"]]
		t = Table([Vector([3, 1, 2], name=names[0]), Vector(["p", "q", "r"], name=names[1]), Vector([1.5, 2.5, 0.5], name=names[2])])
		e = {"slice": lambda: t[0:0], "mask": lambda: t[[False, False, False]], "slice-end": lambda: t[3:]}[spec["how"]]()
		key = e.cols()[0] if spec["key"] == "vector" else (names[2] if names[2] is not None else e.cols()[2])
		o = call(lambda: e.sort_by(key, reverse=spec["reverse"]))
	chk.judged("table-sort", ("empty-table-sort", spec["names"], spec["how"], spec["key"]))
	if not o.ok:
		chk.skip("empty-sort-refused")
		return
	r = o.value
	if not isinstance(r, Table) or len(r.cols()) != 3 or [c._name for c in r.cols()] != names or len(r) != 0:
		chk.fail("sort_by returns a permutation of the input rows - cells kept together, every column", f"table-sort/empty-table/columns-lost-or-renamed/{spec['names']}", f"{spec!r}: sorting a 0x3 table with labels {names!r} gave columns {[c._name for c in r.cols()] if isinstance(r, Table) else r!r}")
		return
	o2 = call(lambda: r.sort_by(r.cols()[0]))
	if o2.ok and isinstance(o2.value, Table) and len(o2.value.cols()) != 3:
		chk.fail("sorting a sorted table changes nothing", f"table-sort/empty-table/not-idempotent/{spec['names']}", f"{spec!r}: sorted again: {len(o2.value.cols())} columns")


RUNNERS["empty_table_sort"] = run_empty_table_sort


def run(chk):
	recompute.add_cases(chk, "C14")
	rng = chk.rng
	for spec in directed_sort_specs(rng):
		chk.case("table_sort", spec, "table-sort-directed")
	for rows in ([[3, 1, 2], [9, 8, 7], [5, 6, 4]], [[1, None, 0], [None, 2, 1], [3, 3, None]], [[2, 1], [1, 2]], [[1, 2, 3, 4]]):
		for how in ("iteration", "moved-by-hand", "fetched"):
			for reverse in (False, True):
				for na_last in (True, False):
					chk.case("row_sort", {"rows": rows, "how": how, "reverse": reverse, "na_last": na_last}, "row-sort")
	# ties between equal but DIFFERENT cells a typed vector may legally hold (bools and int subclasses in an <int> vector, str subclasses in a <str> vector): they keep their order, both directions
	class _I(int):
		pass
	for vals, kind in (([1, True, 1, True, 0, False], "int"), ([True, 1, 0, False, 1, True, None], "int"), ([2, 1, 1.0, 2.0, 1, 2], "float"), ([0, False, 0, False], "int"), ([3, None, 3, True, 1], "int")):
		for reverse in (False, True):
			for na_last in (True, False):
				chk.case("vector_sort", {"values": list(vals), "reverse": reverse, "na_last": na_last, "kind": kind + "-mixed-classes", "name": None}, "vector-sort-directed")
	for keys in ("two-rows", "three-rows", "row-and-name", "same-row-twice"):
		for n in (3, 8, 19, 25, 40, 64) if chk.quick() else (3, 8, 19, 25, 40, 64, 200, 1000):
			for reverse in (False, True):
				chk.case("row_view_keys", {"keys": keys, "n": n, "reverse": reverse, "seed": rng.randrange(10**9)}, "row-view-keys")
	for names in ("repeated", "unnamed", "lookalike", "plain", "all-unnamed"):
		for how in ("slice", "mask", "slice-end"):
			for key in ("vector", "name"):
				for reverse in (False, True):
					chk.case("empty_table_sort", {"names": names, "how": how, "key": key, "reverse": reverse}, "empty-table-sort")
	for first in ("sort_by", "sort_by-list", "aggregate", "window"):
		for replace in ("attr-list", "attr-vector", "attr-vector-other-name", "column-item"):
			for layout in ("plain", "repeated-label"):
				for reverse in (False, True):
					chk.case("sort_replace_sort", {"first": first, "replace": replace, "layout": layout, "reverse": reverse}, "sort-replace-sort")
	for how in ("replaced-column", "other-table", "earlier-sort-result", "renamed-and-restacked"):
		for reverse in (False, True):
			for n in (3, 5, 8):
				chk.case("detached_key", {"how": how, "reverse": reverse, "n": n, "seed": rng.randrange(10**9)}, "detached-key")
	idx = 0
	for n in range(0, 6):
		for keys in itertools.product([None, 1, 2], repeat=n):
			for reverse in (False, True):
				for na_last in (True, False):
					idx += 1
					if not chk.mine(idx):
						continue
					form = ["bool", "list", "tuple"][idx % 3]
					mode = ["name", "vector", "external"][(idx // 3) % 3]
					ref = {"mode": mode, "name": "k", "values": list(keys)}
					tcols = {"names": ["k", "pay"], "cols": [list(keys), [f"r{i}" for i in range(n)]]} if mode != "external" else {"names": ["pay"], "cols": [[f"r{i}" for i in range(n)]]}
					chk.case("table_sort", {"table": tcols, "by": [ref], "reverse": [reverse], "reverse_form": form, "na_last": na_last,
						"scalar_by": idx % 2 == 0, "by_container": "list", "id_first": False}, "table-sort-exhaustive")
					if n:
						chk.case("vector_sort", {"values": list(keys), "reverse": reverse, "na_last": na_last, "kind": "int", "name": [None, "nm"][idx % 2]}, "vector-sort-exhaustive")
	for _ in range(250 if chk.quick() else 2000):
		dom = rng.choice([[1, 2, 3, 4, 5, None], ["a", "b", "c", "d"], [0.5, 1.5, -2.0, 3.25, None], [5, 4, 3, 2, 1]])
		by = rng.choice([["k"], ["k"], ["g", "k"]])
		chk.case("sort_history", {"seed": rng.randrange(10**9), "n": rng.choice([3, 4, 6, 9]), "dom": dom, "by": by, "reverse": rng.random() < 0.4, "na_last": rng.random() < 0.6,
			"key_form": rng.choice(["name", "vector"]), "writes": [rng.choice([0, 1, 2, 2, 3, 4]) for _ in range(rng.choice([2, 3, 4]))], "failing_sort": rng.random() < 0.5}, "sort-history")
	for _ in range(800 if chk.quick() else 5000):
		chk.case("table_sort", gen_sort_spec(rng, max_rows=rng.choice([6, 12]) if chk.quick() else rng.choice([6, 12, 60, 300])), "table-sort-sampled")
	for _ in range(500 if chk.quick() else 3000):
		kind = rng.choice(list(SORT_DOMAINS))
		n = rng.choice([1, 2, 3, 5, 9])
		dom = SORT_DOMAINS[kind]
		vals = [None if rng.random() < 0.25 else rng.choice(dom) for _ in range(n)]
		chk.case("vector_sort", {"values": vals, "reverse": rng.random() < 0.5, "na_last": rng.random() < 0.5, "kind": kind, "name": rng.choice([None, "nm"])}, "vector-sort-sampled")
