"""C08 - in-place assignment matches list assignment, promotes or rejects, and is atomic (fault enumeration)."""
import itertools
from datetime import date, datetime

import re
from ..bind import Vector, Table, SerifTypeError
from ..core import call, short
from .. import models as M
from .. import values as V
from . import common
from . import pool

RULE = ("fault enumeration over v[key] = value: 9 key forms (int, negative int, slice, stepped slice, bool-mask list / vector, index list / tuple / "
	"vector incl. repeated positions) x 5 value forms (scalar, list, tuple, Vector, counting iterable) x 9 column kinds x value kinds (same, narrower, "
	"wider-on-ladder, None, unrelated) x lengths 0-5; for every multi-value write every position k of: unrelated value, promotion-requiring value, "
	"None, out-of-range index, exception from __next__, and pairs of such positions (promotion at j then unrelated at k>j), plus exceptions from "
	"__iter__ / __len__, wrong total length, wrong mask length, unsupported key types; table cell / row / column / region assignment (table and "
	"list-of-columns values) with the same faults; rename_columns with the failing name at every position. Oracle: Python list assignment + the "
	"promotion lattice; after every failure (list(v), schema, name, fingerprint) must equal the state before. distinct = (key form, value form, "
	"column kind, value classes per position, fault kind, fault position, length).")
ASSUMPTIONS = [
	"atomicity is judged per vector (each column takes its whole update or is untouched) and for rename_columns; all-or-nothing across the columns of one table assignment is not demanded",
	"bool columns receiving int/float/complex may either promote or raise SerifTypeError-and-unchanged",
	"one-shot iterators without __len__ may be rejected; contents after a promotion are compared modulo the documented widening",
]
EXHAUSTIVE = {"flag": True, "scope": "every fault position k (and pairs j<k) for multi-value writes of length <=4 over the listed key and value forms"}
LEVEL = "fault_enumeration"
ANCHOR_FUNCS = ["vector:Vector.__setitem__", "vector:Vector._promote", "typing:validate_scalar", "table:Table.__setitem__", "table:Table.rename_columns"]
REQUIRED_STRATA = {"assign-sequence": 150, "assign-ok": 1500, "assign-fault": 1500, "iter-fault": 150, "table-assign": 300, "rename": 60}

_NUM = [bool, int, float, complex]
KIND_VALUES = {
	"bool": [True, False], "int": [0, 1, 5, -2, 9], "float": [0.5, 1.5, -2.0, 9.25], "complex": [1j, 2 + 1j],
	"str": ["p", "q", "", "zz"], "bytes": [b"a", b""], "date": [date(2020, 1, 1), date(2022, 2, 2)], "datetime": [datetime(2020, 1, 1, 5, 0), datetime(2021, 6, 1)],
	"object": [1, "a", 2.5, b"b"],
}


class Boom(Exception):
	pass


class FaultyIterable:
	"""iterable whose __iter__, k-th __next__ or __len__ raises"""
	def __init__(self, values, iter_fails=False, next_fails_at=None, len_fails=False, no_len=False):
		self.values, self.iter_fails, self.next_fails_at, self.len_fails, self.no_len = list(values), iter_fails, next_fails_at, len_fails, no_len
		self.log = []

	def __iter__(self):
		self.log.append("iter")
		if self.iter_fails:
			raise Boom("__iter__")
		for k, x in enumerate(self.values):
			if self.next_fails_at == k:
				self.log.append(f"next{k}!")
				raise Boom(f"__next__ #{k}")
			yield x
		if self.next_fails_at is not None and self.next_fails_at >= len(self.values):
			raise Boom("__next__ at end")

	def __len__(self):
		self.log.append("len")
		if self.len_fails:
			raise Boom("__len__")
		return len(self.values)

	def __repr__(self):
		return f"FaultyIterable({self.values!r}, iter_fails={self.iter_fails}, next_fails_at={self.next_fails_at}, len_fails={self.len_fails})"


def classify(colkind, value):
	"""same | narrower | promote | either | none | unrelated"""
	if value is None:
		return "none"
	if colkind is object:
		return "same"
	vk = M.exact_kind(value)
	if M.is_sub(vk):
		vk = vk[1]
	if vk is colkind:
		return "same"
	if colkind in _NUM and vk in _NUM:
		if _NUM.index(vk) < _NUM.index(colkind):
			return "narrower"
		return "either" if colkind is bool else "promote"
	if colkind is date and vk is datetime:
		return "promote"
	if colkind is datetime and vk is date:
		return "narrower"
	return "unrelated"


def target_indices(n, key):
	"""list of indices addressed by key in list semantics, or None when the key is invalid"""
	if isinstance(key, bool):
		return None
	if isinstance(key, int):
		k = key + n if key < 0 else key
		return [k] if 0 <= k < n else None
	if isinstance(key, slice):
		return list(range(*key.indices(n)))
	seq = None
	if isinstance(key, Vector):
		seq = list(key._underlying)
	elif isinstance(key, (list, tuple)):
		seq = list(key)
	if seq is None:
		return None
	if seq and all(isinstance(e, bool) for e in seq):
		if isinstance(key, tuple):
			return "unconstrained"     # a tuple of bools is read as indices 0/1 by Python's int semantics: not generated, not judged
		if len(seq) != n:
			return None
		return [i for i, b in enumerate(seq) if b]
	if all(isinstance(e, int) and not isinstance(e, bool) for e in seq):
		out = []
		for e in seq:
			k = e + n if e < 0 else e
			if not (0 <= k < n):
				return None
			out.append(k)
		return out
	return None


def snapshot(v):
	return (list(v._underlying), None if v.schema() is None else (v.schema().kind, v.schema().nullable), v.name)


def model_outcome(vals, schema, key, value, value_list, scalar):
	"""returns dict(outcome='ok'|'fail'|'typefail'|'either'|'unconstrained', expected=list, kind=..., nullable=...)"""
	n = len(vals)
	idx = target_indices(n, key)
	if idx == "unconstrained":
		return {"outcome": "unconstrained"}
	if idx is None:
		return {"outcome": "fail", "why": "bad-key"}
	if isinstance(key, int) and not isinstance(key, bool):
		news = [value]
	elif scalar:
		news = [value] * len(idx)
	else:
		if value_list is None:
			return {"outcome": "fail", "why": "value-unreadable"}
		if len(value_list) != len(idx):
			return {"outcome": "fail", "why": "length-mismatch"}
		news = list(value_list)
	out = list(vals)
	for i, x in zip(idx, news):
		out[i] = x
	if not news or schema is None:
		return {"outcome": "ok", "expected": out, "kind": None if schema is None else schema[0], "nullable": None if schema is None else schema[1], "classes": ()}
	colkind, nullable = schema
	classes = [classify(colkind, x) for x in news]
	kind = colkind
	# the column kind moves up the ladder as values are examined; later values are classified against the moved kind
	moved = []
	for x in news:
		c = classify(kind, x)
		moved.append(c)
		if c == "promote":
			vk = M.exact_kind(x)
			vk = vk[1] if M.is_sub(vk) else vk
			kind = vk
	if "unrelated" in moved:
		return {"outcome": "typefail", "classes": tuple(classes)}
	if "either" in moved:
		return {"outcome": "either", "expected": out, "classes": tuple(classes)}
	return {"outcome": "ok", "expected": out, "kind": kind, "nullable": nullable or any(x is None for x in news), "classes": tuple(classes), "idx": list(idx)}


def judge_vector(chk, v, before, fp_before, o, model, label, spec, stratum):
	"""compare the real vector after `o` with the model outcome"""
	after = snapshot(v)
	oc = model["outcome"]
	if oc == "unconstrained":
		chk.skip("assign-unconstrained")
		return
	chk.judged(stratum, ("assign", label, oc, model.get("classes"), model.get("why"), len(before[0])))
	def unchanged(what):
		if after != before or (fp_before is not None and call(v.fingerprint).value != fp_before):
			field = "contents" if after[0] != before[0] else ("dtype" if after[1] != before[1] else ("name" if after[2] != before[2] else "fingerprint"))
			chk.fail("an assignment that fails for any reason leaves the vector exactly as it was", f"assign/not-atomic/{label}/{what}/{field}-changed",
				f"{spec!r}: raised {o!r}; before {short(before, 200)} after {short(after, 200)}")
			return False
		return True
	if oc in ("fail", "typefail"):
		if o.ok:
			chk.fail("an invalid assignment is rejected", f"assign/accepted-invalid/{label}/{model.get('why', 'unrelated-kind')}",
				f"{spec!r}: accepted; vector now {short(after, 200)} (before {short(before, 200)})")
			return
		if not unchanged(model.get("why", "unrelated-kind")):
			return
		if oc == "typefail" and not isinstance(o.exc, SerifTypeError):
			chk.fail("an incompatible value is rejected with SerifTypeError", f"assign/wrong-exception/{label}/{type(o.exc).__name__}", f"{spec!r}: raised {o!r}")
		return
	if not o.ok:
		if oc == "either" and isinstance(o.exc, SerifTypeError):
			unchanged("bool-widening-rejected")
			return
		chk.fail("a valid assignment is carried out", f"assign/raises/{label}/{type(o.exc).__name__}/{'+'.join(sorted(set(model.get('classes') or ())))}",
			f"{spec!r}: raised {o!r}; model expects {short(model.get('expected'), 160)}")
		unchanged("valid-but-raised")
		return
	if len(after[0]) != len(before[0]):
		chk.fail("assignment never changes the length", f"assign/length-changed/{label}", f"{spec!r}: {len(before[0])} -> {len(after[0])}")
		return
	if after[2] != before[2]:
		chk.fail("assignment never changes the name", f"assign/name-changed/{label}", f"{spec!r}: {before[2]!r} -> {after[2]!r}")
		return
	sch = after[1]
	repkind = sch[0] if sch else object
	# numbers compare exactly across int / float / complex in Python, so only date-in-datetime is compared modulo the documented widening
	wd = (lambda x: M.widen(x, repkind)) if repkind is datetime else (lambda x: x)
	exp = [wd(x) for x in model["expected"]]
	if not M.eq_list([wd(x) for x in after[0]], exp):
		chk.fail("the vector holds exactly what Python list assignment would produce", f"assign/contents/{label}/{'+'.join(sorted(set(model.get('classes') or ())))}",
			f"{spec!r}: vector {short(after[0], 200)} vs list model {short(exp, 200)}")
		return
	msg = M.truthful(after[0], v.schema())
	if msg:
		chk.fail("the column dtype covers what was assigned", f"assign/untruthful-after-assign/{label}", f"{spec!r}: {msg}")
		return
	if oc == "ok" and sch is not None and model.get("kind") is not None:
		if sch[0] is not model["kind"]:
			chk.fail("a wider compatible value promotes the column (and nothing else changes its kind)", f"assign/kind/{label}/exp={model['kind'].__name__}/got={sch[0].__name__}", f"{spec!r}: schema {v.schema()!r}")
		elif model["nullable"] and not sch[1]:
			chk.fail("None is accepted and makes the column nullable", f"assign/not-nullable-after-none/{label}", f"{spec!r}: schema {v.schema()!r}")
		elif "promote" in (model.get("classes") or ()) and sch[0] is not before[1][0] and model.get("idx") is not None:
			# a promotion converts the elements that were already there (those not written by this assignment) to the new kind
			written = set(model["idx"])
			for i, x in enumerate(after[0]):
				if i not in written and x is not None and type(x) is not sch[0] and type(before[0][i]) in (bool, int, float, date):
					chk.fail("a wider compatible value promotes the whole column with existing elements converted", f"assign/existing-element-not-converted/{label}/{type(x).__name__}-in-{sch[0].__name__}",
						f"{spec!r}: after the promotion to {sch[0].__name__} element {i} is still {x!r} ({type(x).__name__}); vector {short(after[0], 160)}")
					return
		elif "promote" in (model.get("classes") or ()):
			# existing elements converted
			if any(x is not None and type(x) is not sch[0] and not M.is_sub(M.exact_kind(x)) for x in after[0] if classify(sch[0], x) == "narrower"):
				chk.counters["promoted-column-holds-narrower-new-values"] += 1


def build_key(spec_key):
	kind, payload = spec_key
	if kind == "int":
		return payload
	if kind == "slice":
		return slice(*payload)
	if kind == "mask-list":
		return list(payload)
	if kind == "mask-vector":
		return Vector(list(payload))
	if kind == "idx-list":
		return list(payload)
	if kind == "idx-tuple":
		return tuple(payload)
	if kind == "idx-vector":
		return Vector(list(payload))
	if kind == "bad":
		return payload
	raise ValueError(kind)


def build_value(form, payload):
	"""returns (value object, list view or None, scalar?)"""
	if form == "scalar":
		return payload, None, True
	if form == "list":
		return list(payload), list(payload), False
	if form == "tuple":
		return tuple(payload), list(payload), False
	if form == "vector":
		if not payload:
			return [], [], False
		return Vector(list(payload)), list(payload), False
	if form == "iterable":
		return FaultyIterable(payload), list(payload), False
	raise ValueError(form)


def run_assign(chk, spec):
	vals = list(spec["values"])
	v = Vector(list(vals), name=spec.get("name"))
	original = None
	if spec.get("duplicate"):
		# the vector written is a copy.copy / copy.deepcopy duplicate of one that stays alive: an ordinary, separate vector
		import copy
		original = v
		orig_snap = snapshot(original)
		d = call(copy.copy if spec["duplicate"] == "copy" else copy.deepcopy, v)
		if not d.ok or not isinstance(d.value, Vector):
			chk.skip("duplicate-unavailable")
			return
		v = d.value
	if spec.get("cached"):
		call(v.fingerprint)
	before = snapshot(v)
	fpb = call(v.fingerprint).value
	key = build_key(spec["key"])
	value, vlist, scalar = build_value(spec["vform"], spec["value"])
	if spec["vform"] == "vector" and isinstance(value, Table):
		chk.skip("value-became-table")
		return
	model = model_outcome(vals, before[1], key, value, vlist, scalar)
	o = call(v.__setitem__, key, value)
	label = f"{spec['key'][0]}/{spec['vform']}"
	judge_vector(chk, v, before, fpb, o, model, label, spec, "assign-fault" if model["outcome"] in ("fail", "typefail") else "assign-ok")
	chk.observe(v, "setitem")
	if original is not None and snapshot(original) != orig_snap:
		chk.fail("the vector holds exactly what Python list assignment would produce (and a duplicate's write stays in the duplicate)", f"assign/duplicate-write-reached-original/{spec['duplicate']}", f"{spec!r}: original changed {short(orig_snap, 120)} -> {short(snapshot(original), 120)}")


def run_iterfault(chk, spec):
	vals = list(spec["values"])
	v = Vector(list(vals), name="v")
	before = snapshot(v)
	fpb = call(v.fingerprint).value
	key = build_key(spec["key"])
	fi = FaultyIterable(spec["value"], iter_fails=spec.get("iter_fails", False), next_fails_at=spec.get("next_fails_at"), len_fails=spec.get("len_fails", False))
	o = call(v.__setitem__, key, fi)
	chk.judged("iter-fault", ("iterfault", spec["key"][0], spec.get("iter_fails"), spec.get("next_fails_at"), spec.get("len_fails"), len(vals)))
	after = snapshot(v)
	raised_boom = (not o.ok)
	if o.ok:
		# the library may legitimately never reach the faulty call (e.g. never iterates when lengths disagree): then the result must be a correct assignment
		idx = target_indices(len(vals), key)
		if "next" in "".join(fi.log) and any(s.endswith("!") for s in fi.log):
			chk.fail("an exception raised while the value is consumed propagates", f"assign/swallowed-exception/{spec['key'][0]}", f"{spec!r}: log {fi.log}, vector {short(after, 160)}")
		return
	if after != before or call(v.fingerprint).value != fpb:
		where = "iter" if spec.get("iter_fails") else ("len" if spec.get("len_fails") else f"next")
		chk.fail("an exception raised while the value is consumed leaves the vector exactly as it was", f"assign/not-atomic/{spec['key'][0]}/exception-in-{where}",
			f"{spec!r}: raised {o!r}; before {short(before, 160)} after {short(after, 160)}")


def _as(seq, how):
	"""the same values as another plain sequence: a tuple, or one of the library's own vectors (only where building it converts nothing)"""
	if how == "tuple":
		return tuple(seq)
	if how == "vector" and seq and len({type(x) for x in seq}) == 1 and seq[0] is not None:
		return Vector(list(seq))
	return seq


def run_table_assign(chk, spec):
	ts = spec["table"]
	t = common.mk_table(ts)
	names, cols = list(ts["names"]), [list(c) for c in ts["cols"]]
	pre = spec.get("prerename")
	if pre:
		# rename columns first (permutation of existing names via a temporary, a rotation, or through a live view): name-keyed
		# assignment afterwards must address the column that carries the name NOW
		if pre[0] == "rename_columns":
			o0 = call(t.rename_columns, list(pre[1]), list(pre[2]))
		else:
			def viewren():
				views = [t.cols()[names.index(a)] for a in pre[1]]
				for vw, b in zip(views, pre[2]):
					vw.name = b
			o0 = call(viewren)
		if not o0.ok:
			chk.skip("table-assign-prerename-refused")
			return
		sim = list(names)
		if pre[0] == "rename_columns":
			for a, b in zip(pre[1], pre[2]):
				sim[sim.index(a)] = b
		else:
			idxs = [names.index(a) for a in pre[1]]
			for k, b in zip(idxs, pre[2]):
				sim[k] = b
		names = sim
		if t.column_names() != names:
			chk.skip("table-assign-prerename-model-disagrees")
			return
	n = len(cols[0])
	before = [snapshot(c) for c in t.cols()]
	fps = [call(c.fingerprint).value for c in t.cols()]
	rk, ck = spec["rows"], spec["colspec"]
	rowkey = rk if isinstance(rk, int) else slice(*rk)
	if ck[0] == "int":
		colkey, cidx = ck[1], [ck[1]]
	elif ck[0] == "name":
		colkey, cidx = names[ck[1]], [names.index(names[ck[1]])]
	elif ck[0] == "slice":
		colkey = slice(*ck[1])
		cidx = list(range(len(cols)))[colkey]
	elif ck[0] == "all":
		colkey, cidx = None, list(range(len(cols)))
	else:
		raise ValueError(ck)
	vform, payload = spec["vform"], spec["value"]
	# per-column model values
	if vform == "scalar":
		value = payload
		percol = {c: ("scalar", payload) for c in cidx}
	elif vform == "row":
		value = _as(list(payload), spec.get("as"))
		percol = {c: ("scalar", payload[k]) for k, c in enumerate(cidx)} if len(payload) == len(cidx) else None
	elif vform == "column":
		value = _as(list(payload), spec.get("as"))
		percol = {cidx[0]: ("seq", list(payload))} if len(cidx) == 1 else None
	elif vform in ("cols-list", "cols-table"):
		value = [_as(list(c), spec.get("as")) for c in payload] if vform == "cols-list" else Table([Vector(list(c)) for c in payload])
		percol = {c: ("seq", list(payload[k])) for k, c in enumerate(cidx)} if len(payload) == len(cidx) else None
	else:
		raise ValueError(vform)
	key = rowkey if colkey is None else (rowkey, colkey)
	o = call(t.__setitem__, key, value)
	after = [snapshot(c) for c in t.cols()]
	chk.judged("table-assign", ("tassign", "int-row" if isinstance(rk, int) else "slice-row", ck[0], vform, spec.get("as"), spec.get("fault"), len(cols), n))
	# non-addressed columns never change
	for c in range(len(cols)):
		if c not in cidx and after[c] != before[c]:
			chk.fail("table assignment touches the addressed cells only", f"table-assign/non-addressed-column-changed/{ck[0]}/{vform}", f"{spec!r}: column {c} {short(before[c], 120)} -> {short(after[c], 120)}")
			return
	if rect := pool.rect_violation(t):
		chk.fail("table assignment keeps the table rectangular", f"table-assign/rect/{rect[0]}", f"{spec!r}: {rect[1]}", prop="C02")
	if percol is None:
		if o.ok:
			chk.fail("a value whose shape does not fit the addressed region is rejected", f"table-assign/accepted-shape-mismatch/{vform}", f"{spec!r}: accepted")
		elif after != before:
			chk.fail("a rejected table assignment leaves every column as it was", f"table-assign/not-atomic/shape-mismatch/{vform}", f"{spec!r}: {short(before, 160)} -> {short(after, 160)}")
		return
	# each addressed column: whole update per the vector model, or untouched (when the call failed)
	models = {}
	for c in cidx:
		form, pv = percol[c]
		models[c] = model_outcome(cols[c], before[c][1], rowkey, pv, pv if form == "seq" else None, form == "scalar")
	all_ok = all(m["outcome"] == "ok" for m in models.values())
	any_bad = any(m["outcome"] in ("fail", "typefail") for m in models.values())
	if any(m["outcome"] in ("either", "unconstrained") for m in models.values()):
		chk.skip("table-assign-either")
		return
	if all_ok and not o.ok:
		chk.fail("a valid table assignment is carried out", f"table-assign/raises/{ck[0]}/{vform}/{type(o.exc).__name__}", f"{spec!r}: raised {o!r}")
		return
	if any_bad and o.ok:
		chk.fail("an invalid table assignment is rejected", f"table-assign/accepted-invalid/{ck[0]}/{vform}/{spec.get('fault')}", f"{spec!r}: accepted; columns {short(after, 200)}")
		return
	for c in cidx:
		m = models[c]
		if after[c] == before[c]:
			if o.ok and m["outcome"] == "ok" and not M.eq_list(m["expected"], before[c][0]):
				chk.fail("table assignment writes the addressed cells", f"table-assign/cell-not-written/{ck[0]}/{vform}", f"{spec!r}: column {c} unchanged, expected {short(m['expected'], 120)}")
				return
			continue
		# the column changed: it must then hold its complete update
		if m["outcome"] != "ok":
			chk.fail("a column whose update is invalid is left untouched", f"table-assign/not-atomic/column-partially-written/{vform}/{spec.get('fault')}", f"{spec!r}: column {c} {short(before[c], 120)} -> {short(after[c], 120)}")
			return
		repkind = after[c][1][0] if after[c][1] else object
		exp = [M.widen(x, repkind) for x in m["expected"]]
		if not M.eq_list([M.widen(x, repkind) for x in after[c][0]], exp):
			chk.fail("table assignment produces the cells per-column list assignment would", f"table-assign/contents/{ck[0]}/{vform}", f"{spec!r}: column {c} {short(after[c][0], 120)} vs {short(exp, 120)}")
			return
		msg = M.truthful(after[c][0], t.cols()[c].schema())
		if msg:
			chk.fail("the column dtype covers what was assigned", f"table-assign/untruthful/{vform}", f"{spec!r}: column {c}: {msg}")
			return


def run_rename(chk, spec):
	names = list(spec["names"])
	t = Table([Vector([1, 2], name=nm) if nm is not None else Vector([1, 2]) for nm in names])
	olds, news = spec["olds"], spec["news"]
	o = call(t.rename_columns, list(olds), list(news))
	after = t.column_names()
	chk.judged("rename", ("rename", len(names), len(olds), spec["fault"]))
	# sequential simulation of which renames can be carried out
	sim = list(names)
	valid = len(olds) == len(news)
	if valid:
		for old, new in zip(olds, news):
			if old in sim:
				sim[sim.index(old)] = new
			else:
				valid = False
				break
	if not valid:
		if o.ok:
			chk.fail("rename_columns with an unknown name (or unequal lists) fails", f"rename/accepted-invalid/{spec['fault']}", f"{spec!r}: names now {after!r}")
		elif after != names:
			chk.fail("a failed rename_columns leaves every column name", f"rename/not-atomic/{spec['fault']}", f"{spec!r}: names {names!r} -> {after!r}")
		return
	if not o.ok:
		chk.fail("rename_columns with known names succeeds", f"rename/raises/{type(o.exc).__name__}", f"{spec!r}: raised {o!r}")
		return
	if sorted(map(repr, after)) != sorted(map(repr, sim)):
		chk.fail("rename_columns renames exactly the requested columns", "rename/wrong-names", f"{spec!r}: names {after!r}, sequential model {sim!r}")
	# accessors follow
	for i, nm in enumerate(after):
		if isinstance(nm, str) and after.count(nm) == 1:
			g = call(lambda: t[nm])
			if not g.ok or g.value is not t.cols()[i]:
				chk.fail("renamed columns are reachable under the new name", "rename/new-name-not-resolvable", f"{spec!r}: t[{nm!r}] -> {g!r}")
				return

class _BadStr:
	"""a (non-string) column label whose text cannot be produced"""
	def __str__(self):
		raise Boom("label has no text")
	__repr__ = object.__repr__


def run_rename_fault(chk, spec):
	# a rename_columns that fails at ANY point - here: after the dry run, while the accessor map is rebuilt for the new names -
	# leaves every column name (and every accessor) as it was
	import warnings
	names = list(spec["names"])
	t = Table([Vector([1, 2], name=nm) if nm is not None else Vector([1, 2]) for nm in names])
	fault = spec["fault"]
	olds, news = list(spec["olds"]), list(spec["news"])
	if fault == "new-name-text-raises":
		news[spec["pos"]] = _BadStr()
	if fault == "handle-rename-then-bad-label":
		# a column is renamed through its handle (the table is not told), THEN rename_columns fails on a later column (a str-subclass label whose lower() raises, met
		# while the accessors are worked out): names as they were - and every column still takes a cell write under the name it carries
		class LowerRaises(str):
			def lower(self):
				raise Boom("no lower")
		if spec.get("touch_first"):
			call(dir, t)
		t.cols()[spec["viewcol"]].name = "q"
		news[spec["pos"]] = LowerRaises("zz")
	before_ids = [c._name for c in t.cols()]
	with warnings.catch_warnings():
		if fault == "warnings-as-errors-duplicate":
			# a column renamed through a view to a name the table already has (allowed; announced by a UserWarning when the
			# accessors are next worked out); with warnings turned into errors that announcement makes rename_columns fail
			warnings.simplefilter("ignore")
			t.cols()[spec["viewcol"]].name = spec["dup"]
			before_ids = [c._name for c in t.cols()]
			warnings.simplefilter("error")
		else:
			warnings.simplefilter("ignore")
		o = call(t.rename_columns, olds, news)
	after = [c._name for c in t.cols()]
	chk.judged("rename", ("rename-fault", len(names), len(olds), fault, spec.get("pos")))
	if o.ok:
		chk.skip("rename-fault-did-not-fail")
		return
	if len(after) != len(before_ids) or any(a is not b for a, b in zip(after, before_ids)):
		chk.fail("a failed rename_columns leaves every column name", f"rename/not-atomic/{fault}", f"{spec!r}: raised {o!r}; names {before_ids!r} -> {after!r}")
		return
	with warnings.catch_warnings():
		warnings.simplefilter("ignore")
		for i, nm in enumerate(after):
			if isinstance(nm, str) and after.count(nm) == 1:
				g = call(lambda: t[nm])
				if not g.ok or g.value is not t.cols()[i]:
					chk.fail("after a failed rename_columns every column is reachable under its (unchanged) name", f"rename/not-atomic/accessor/{fault}", f"{spec!r}: t[{nm!r}] -> {g!r}")
					return
				if nm.isidentifier() and nm == nm.lower() and not hasattr(Table, nm) and not re.search(r"__\d+$", nm):
					w = call(t.__setitem__, (1, nm), 50)
					if not w.ok or t.cols()[i]._underlying[1] != 50:
						chk.fail("after a failed rename_columns every column takes a cell assignment under its (unchanged) name", f"rename/not-atomic/cell-assignment/{fault}", f"{spec!r}: t[1, {nm!r}] = 50 -> {w!r}; columns {[list(c._underlying) for c in t.cols()]!r}")
						return

def run_shared_refusal(chk, spec):
	"""two live vectors over ONE caller-supplied tuple: a write to either is refused (AliasError) - and a refused write is a failed assignment like any
	other: contents, dtype (nullable flag included), name and fingerprint of the vector are exactly what they were"""
	tup = tuple(spec["values"])
	a, b = Vector(tup, name="a"), Vector(tup, name="b")
	if spec.get("cached"):
		call(a.fingerprint)
	before_a, before_b = snapshot(a), snapshot(b)
	fa = call(a.fingerprint).value
	key = build_key(spec["key"])
	o = call(a.__setitem__, key, spec["value"])
	chk.judged("assign-fault", ("shared-refusal", spec["key"][0], spec["what"], len(tup)))
	if snapshot(b) != before_b:
		chk.fail("the other vector over the same tuple never sees the write", f"assign/shared-tuple/other-changed/{spec['what']}", f"{spec!r}: b {short(before_b, 120)} -> {short(snapshot(b), 120)}", prop="C15")
		return
	if o.ok:
		return        # carried out (the storage was no longer shared by the time of the write): contents are judged by the ordinary cases
	after = snapshot(a)
	if after != before_a or call(a.fingerprint).value != fa:
		field = "contents" if after[0] != before_a[0] else ("dtype" if after[1] != before_a[1] else "name-or-fingerprint")
		chk.fail("an assignment that fails for any reason leaves the vector exactly as it was", f"assign/not-atomic/refused-shared-storage/{spec['what']}/{field}-changed", f"{spec!r}: raised {o!r}; before {short(before_a, 160)} after {short(after, 160)}")

class _NoRepr:
	"""a value that cannot be printed"""
	def __repr__(self):
		raise Boom("no repr")
	__str__ = __repr__


def run_unprintable_value(chk, spec):
	"""an incompatible value is rejected with SerifTypeError - also when the value cannot be printed (an int beyond the int-to-str digit limit, an object
	whose repr raises): the refusal must not be replaced by the failure of an error message; a compatible one of that kind is simply stored"""
	vals = list(spec["values"])
	v = Vector(list(vals))
	val = 10 ** 5000 if spec["what"] == "huge-int" else _NoRepr()
	key = build_key(spec["key"])
	value = val if spec["key"][0] in ("int", "mask-list") else [val] * spec["count"]
	before = snapshot(v)
	o = call(v.__setitem__, key, value)
	kind = before[1][0] if before[1] else object
	compatible = kind is object or (spec["what"] == "huge-int" and kind in (int, float, complex))
	chk.judged("assign-fault", ("unprintable-value", spec["what"], spec["key"][0], getattr(kind, "__name__", str(kind))))
	if compatible:
		if not o.ok:
			chk.fail("a compatible value is assigned", f"assign/raises/unprintable-compatible/{spec['what']}/{type(o.exc).__name__}", f"column kind {kind!r}, key {spec['key']!r}: raised {type(o.exc).__name__}")
		return
	if o.ok:
		chk.fail("an incompatible value is rejected", f"assign/accepted-incompatible/unprintable/{spec['what']}", f"column kind {kind!r}, key {spec['key']!r}: accepted")
		return
	if not isinstance(o.exc, SerifTypeError):
		chk.fail("an incompatible value is rejected with SerifTypeError", f"assign/wrong-exception/unprintable-{spec['what']}/{type(o.exc).__name__}", f"column kind {kind!r}, key {spec['key']!r}: raised {type(o.exc).__name__} instead of SerifTypeError")
		return
	if snapshot(v) != before:
		chk.fail("an assignment that fails for any reason leaves the vector exactly as it was", f"assign/not-atomic/unprintable-{spec['what']}", f"column kind {kind!r}, key {spec['key']!r}")

class _F(float):
	"""a float subclass (a unit type, a numpy.float64-like)"""


class _I(int):
	pass


class _D(date):
	pass


def run_table_special_forms(chk, spec):
	"""table assignments in their less common spellings: a row index that is an int but not exactly `int` (bool, IntEnum, int subclass), a row value that is a
	sized non-list iterable, a column named in place through alias() and then addressed by that name"""
	import enum, warnings
	what = spec["what"]
	with warnings.catch_warnings():
		warnings.simplefilter("ignore")
		if what == "row-index-kinds":
			t = Table({"a": [1, 2, 3], "b": [4, 5, 6]}) if spec["ncols"] == 2 else Table({"o": [1, 2, 3]})
			before = [list(c._underlying) for c in t.cols()]
			idx = {"bool": True, "int-subclass": _I(1), "intenum": enum.IntEnum("Pos", {"P": 1}).P}[spec["index"]]
			newrow = [70, 80][:spec["ncols"]]
			value = {"list": list(newrow), "tuple": tuple(newrow), "range": range(70, 70 + 10 * spec["ncols"], 10), "dict-keys": {x: 0 for x in newrow}.keys(), "generator": (x for x in newrow), "vector": Vector(list(newrow))}[spec["value"]]
			cols_key = slice(None) if spec["colform"] == "all" else (["a", "b"] if spec["ncols"] == 2 else ["o"])
			o = call(t.__setitem__, (idx, cols_key), value)
			exp = [list(c) for c in before]
			for j in range(spec["ncols"]):
				exp[j][1] = newrow[j]
			label = f"{spec['index']}/{spec['value']}/{spec['ncols']}col"
		elif what == "bad-column-list-entry":
			# a column list holding something that is neither a name nor a position: the assignment fails (it used to write nothing and say nothing) and changes nothing
			t = Table({"a": [1, 2, 3], "b": [4, 5, 6]})
			before = [list(c._underlying) for c in t.cols()]
			key = {"float": [1.5], "none-after-name": ["a", None], "float-after-name": ["a", 2.0], "tuple-entry": [("a",)], "bytes": [b"a"], "float-first": [0.0, "b"]}[spec["entry"]]
			rows = {"int": 0, "slice": slice(None), "mask": [True, False, True]}[spec["rows"]]
			o = call(t.__setitem__, (rows, key), 5)
			chk.judged("table-assign", ("table-special", what, spec["entry"], spec["rows"]))
			after = [list(c._underlying) for c in t.cols()]
			if o.ok:
				chk.fail("an assignment whose column selector is invalid fails", f"table-assign/accepted-invalid/bad-column-list-entry/{spec['entry']}", f"{spec!r}: t[{rows!r}, {key!r}] = 5 returned; columns {after!r}")
			elif after != before and spec["entry"] in ("float", "tuple-entry", "bytes", "float-first"):
				chk.fail("a failed assignment leaves the table as it was", f"table-assign/not-atomic/bad-column-list-entry/{spec['entry']}", f"{spec!r}: {before!r} -> {after!r}")
			return
		elif what == "alias-then-assign":
			t = Table([Vector([1, 2, 3], name="k"), Vector([4, 5, 6]), Vector([7, 8, 9], name="w")])
			before = [list(c._underlying) for c in t.cols()]
			if spec["touch_first"]:
				call(dir, t)
			a = call(t.cols()[1].alias, "z")
			if not a.ok:
				chk.skip("alias-refused")
				return
			o = call({"cell": lambda: t.__setitem__((1, "z"), 50), "column": lambda: t.__setitem__((slice(None), "z"), [40, 50, 60]), "region": lambda: t.__setitem__((slice(0, 2), ["k", "z"]), [[0, 0], [40, 50]]), "row": lambda: t.__setitem__((1, ["z", "w"]), [50, 80])}[spec["write"]])
			exp = [list(c) for c in before]
			if spec["write"] == "cell":
				exp[1][1] = 50
			elif spec["write"] == "column":
				exp[1] = [40, 50, 60]
			elif spec["write"] == "region":
				exp[0][0:2], exp[1][0:2] = [0, 0], [40, 50]
			else:
				exp[1][1], exp[2][1] = 50, 80
			label = f"alias/{spec['write']}"
		else:
			raise ValueError(what)
	chk.judged("table-assign", ("table-special", what, label))
	if not o.ok:
		chk.fail("a valid table assignment is carried out", f"table-assign/raises/{what}/{label}/{type(o.exc).__name__}", f"{spec!r}: {o!r}")
		return
	got = [list(c._underlying) for c in t.cols()]
	if got != exp:
		chk.fail("table assignment produces the cells per-column list assignment would", f"table-assign/contents/{what}/{label}", f"{spec!r}: {got!r} vs {exp!r}")


def run_narrower_subclass(chk, spec):
	"""an instance of a subclass of a NARROWER kind (a float subclass into a complex column, an int subclass into float / complex, a date subclass into
	datetime) is a compatible value: accepted, contents as list assignment gives, dtype unchanged - also when an earlier value of the same write promotes"""
	base = {"complex": [1j, 2j, 3j], "float": [1.5, 2.5, 3.5], "datetime": [datetime(2020, 1, 1, 5), datetime(2020, 1, 2, 5), datetime(2020, 1, 3, 5)], "int-then-complex": [1, 2, 3], "float-then-complex": [1.5, 2.5, 3.5]}[spec["column"]]
	val = {"float-sub": _F(2.5), "int-sub": _I(7), "date-sub": _D(2021, 2, 3), "bool": True}[spec["value"]]
	v = Vector(list(base))
	key = build_key(spec["key"])
	if spec["column"].endswith("then-complex"):
		value = [4j, val]
		key = [0, 1]
		exp = list(base)
		exp[0], exp[1] = 4j, val
	else:
		value = val if spec["key"][0] in ("int", "mask-list") else [val]
		exp = list(base)
		exp[0] = val
	o = call(v.__setitem__, key, value)
	chk.judged("assign-ok", ("narrower-subclass", spec["column"], spec["value"], spec["key"][0]))
	if not o.ok:
		chk.fail("a value of a narrower compatible kind is assigned", f"assign/raises/narrower-subclass/{spec['column']}/{spec['value']}/{type(o.exc).__name__}", f"{spec!r}: {o!r}")
		return
	got = list(v._underlying)
	if len(got) != len(exp) or any(a != b for a, b in zip(got, exp)):
		chk.fail("assignment leaves exactly the contents list assignment would produce", f"assign/contents/narrower-subclass/{spec['column']}/{spec['value']}", f"{spec!r}: {got!r} vs {exp!r}")
		return
	wb = call(v.__setitem__, 0, v._underlying[0])
	if not wb.ok:
		chk.fail("writing an element back is accepted", f"assign/raises/narrower-subclass-write-back/{spec['column']}/{spec['value']}/{type(wb.exc).__name__}", f"{spec!r}: {wb!r}", prop="C03")


def run_sequence(chk, spec):
	"""several VALID writes in a row on one table (cell / row / column / region from another table / whole-slice from a vector) and on the tables
	the values came from: each one must be carried out (a valid write is never refused) and leave exactly what list assignment leaves"""
	import random
	rng = random.Random(spec["seed"])
	n, c = spec["n"], spec["c"]
	dom = {"int": [0, 1, -1, -2, 5, 3], "float": [0.5, -1.0, -2.0, 2.5], "str": ["p", "q", "zz"]}
	kinds = [rng.choice(["int", "int", "float", "str"]) for _ in range(c)]
	model = [[rng.choice(dom[k]) for _ in range(n)] for k in kinds]
	t = Table([Vector(list(col), name=f"c{j}") for j, col in enumerate(model)])
	keep = []
	chk.judged("assign-sequence", ("sequence", n, c, tuple(spec["steps"])))

	def val(j, wider=False):
		k = kinds[j]
		if wider and k == "int":
			kinds[j] = "float"
			return rng.choice([0.5, 2.25])
		return rng.choice(dom[k])

	def agree(tab, mod, what, o):
		if not o.ok:
			chk.fail("a valid assignment is carried out", f"assign/sequence-raises/{what}/{type(o.exc).__name__}", f"{spec!r}: step {what} raised {o!r}; model {short(mod, 200)}")
			return False
		got = [list(col._underlying) for col in tab.cols()]
		if len(got) != len(mod) or any(not M.eq_list(g, e) for g, e in zip(got, mod)):
			chk.fail("the table holds exactly what list assignment would produce", f"assign/sequence-contents/{what}", f"{spec!r}: after {what}: {short(got, 200)} vs model {short(mod, 200)}")
			return False
		return True

	for step in spec["steps"]:
		i, j = rng.randrange(n), rng.randrange(c)
		if step == "cell":
			x = val(j)
			model[j][i] = x
			o = call(t.__setitem__, (i, j), x)
		elif step == "cell-promote":
			x = val(j, wider=True)
			model[j][i] = x
			o = call(t.__setitem__, (i, f"c{j}"), x)
		elif step == "cell-none":
			model[j][i] = None
			o = call(t.__setitem__, (i, j), None)
		elif step == "cell-view":
			x = val(j)
			model[j][i] = x
			o = call(lambda: t.cols()[j].__setitem__(i, x))
		elif step == "row":
			xs = [val(k) for k in range(c)]
			for k in range(c):
				model[k][i] = xs[k]
			o = call(t.__setitem__, i, xs)
		elif step == "column":
			xs = [val(j) for _ in range(n)]
			model[j] = list(xs)
			o = call(t.__setitem__, (slice(None), j), xs)
		elif step == "column-vector-slice":
			# whole-slice assignment of a Vector whose values may differ only where hash() cannot tell (-1 / -2)
			xs = [(-2 if x == -1 else (-1 if x == -2 else (-2.0 if x == -1.0 else x))) for x in model[j]] if rng.random() < 0.6 else [val(j) for _ in range(n)]
			if any(x is None for x in model[j]):
				xs = [val(j) for _ in range(n)]
			src = Vector(list(xs)) if xs else None
			model[j] = list(xs)
			o = call(lambda: t.cols()[j].__setitem__(rng.choice([slice(None), slice(0, n), slice(-n, None)]), src))
			keep.append(src)
		elif step in ("region-table", "region-table-full"):
			srcmodel = [[val(k) for _ in range(n)] for k in range(c)]
			src = Table([Vector(list(col), name=f"s{k}") for k, col in enumerate(srcmodel)])
			model = [list(col) for col in srcmodel]
			key = (slice(None), slice(None)) if step == "region-table-full" else (slice(0, n), slice(0, c))
			o = call(t.__setitem__, key, src)
			keep.append((src, srcmodel))
		elif step == "write-source":
			if not keep or not isinstance(keep[-1], tuple):
				continue
			src, srcmodel = keep[-1]
			x = val(j)
			srcmodel[j][i] = x
			o = call(src.__setitem__, (i, j), x)
			if not agree(src, srcmodel, "write-to-the-source-table", o):
				return
		else:
			raise ValueError(step)
		if not agree(t, model, step, o):
			return
	chk.observe(t, "sequence")


def run_overflow(chk, spec):
	"""an int column that holds an integer beyond the float range: the promoting assignment either fails - then nothing has changed - or is carried
	out with the contents list assignment gives (the huge int kept as it is, as inference keeps it in a float column)"""
	vals = list(spec["values"])
	v = Vector(list(vals), name="v")
	if spec["in_table"]:
		t = Table([v, Vector(list(range(len(vals))), name="w")])
		target = t.cols()[0]
	else:
		target = v
	if spec["cached"]:
		call(target.fingerprint)
	before = snapshot(target)
	fpb = call(target.fingerprint).value
	key = build_key(spec["key"])
	o = call(target.__setitem__, key, spec["value"]) if not spec["in_table"] or spec["key"][0] != "int" else call(t.__setitem__, (spec["key"][1], 0), spec["value"])
	chk.judged("assign-fault", ("overflow", spec["key"][0], spec["in_table"], type(spec["value"]).__name__))
	after = snapshot(target)
	if not o.ok and spec.get("narrower_value") and type(o.exc).__name__ != "SerifTypeError":
		# (the VALUE is the huge int, of a kind the column already covers: nothing needs converting, a list takes it as it is)
		chk.fail("a value the column's kind covers is stored as list assignment stores it", f"assign/raises/{spec['key'][0]}/huge-int-into-wider-column/{type(o.exc).__name__}", f"{spec!r}: raised {o!r}")
		return
	if not o.ok:
		if after != before or call(target.fingerprint).value != fpb:
			field = "contents" if after[0] != before[0] else ("dtype" if after[1] != before[1] else "fingerprint")
			chk.fail("an assignment that fails for any reason leaves the vector exactly as it was", f"assign/not-atomic/{spec['key'][0]}/promotion-overflow/{field}-changed",
				f"{spec!r}: raised {o!r}; before {short(before, 120)} after {short(after, 120)}")
			return
		# and it still behaves like the int column it is
		o2 = call(target.__setitem__, 0, 7)
		if spec.get("narrower_value"):
			return
		if not o2.ok or target._underlying[0] != 7 or type(target._underlying[0]) is not int:
			chk.fail("an assignment that fails for any reason leaves the vector exactly as it was", f"assign/not-atomic/{spec['key'][0]}/promotion-overflow/later-write-differs",
				f"{spec!r}: after the failed promotion v[0] = 7 gave {o2!r}, vector {short(snapshot(target), 120)}")
	else:
		msg = M.truthful(after[0], target.schema())
		if msg:
			chk.fail("the column dtype covers what was assigned", f"assign/untruthful-after-assign/{spec['key'][0]}/overflow", f"{spec!r}: {msg}")
			return
		# carried out: then the contents are those list assignment gives (an int that no float can hold stays the int it is)
		model = list(vals)
		k, val = spec["key"], spec["value"]
		if k[0] == "int":
			model[k[1]] = val
		elif k[0] == "slice":
			model[slice(*k[1])] = val
		elif k[0] == "idx-list":
			for i, x in zip(k[1], val):
				model[i] = x
		else:
			for i, m in enumerate(k[1]):
				if m:
					model[i] = val
		got = after[0]
		if len(got) != len(model) or any((a is None) != (b is None) or (a is not None and a != b) for a, b in zip(got, model)):
			chk.fail("assignment leaves exactly the contents list assignment would produce", f"assign/contents/{spec['key'][0]}/overflow", f"{spec!r}: {short(got, 120)} vs list model {short(model, 120)}")


def run_written_key(chk, spec):
	"""the key is a vector that was itself written to before (a mask that held a None for a while and is still flagged nullable, an index vector that was
	promoted and narrowed again): the assignment is either refused - vector untouched - or does what list assignment does for the key's CURRENT cells read as
	what they are (booleans select, they are not positions)"""
	vals = list(spec["values"])
	n = len(vals)
	v = Vector(list(vals), name="v")
	pattern = [bool(b) for b in spec["pattern"]][:n] + [False] * max(0, n - len(spec["pattern"]))
	how = spec["how"]
	if how == "mask-was-none":
		key = Vector(list(pattern))
		key[0] = None
		key[0] = pattern[0]
	elif how == "mask-in-table-was-none":
		kt = Table({"m": list(pattern), "o": list(range(n))})
		kt[0, "m"] = None
		kt[0, "m"] = pattern[0]
		key = kt["m"]
	elif how == "mask-built-nullable":
		key = Vector(list(pattern) + [None])[0:n]
	elif how.startswith("index-vector-promoted"):
		# an index vector that an in-place write turned into floats (its class is still the int vector class): not an index vector any more - refused, vector untouched
		key = Vector([0, min(2, n - 1)])
		key[1] = 1.5 if how.endswith("float") else (1 + 0j)
		before = snapshot(v)
		for newv in (spec["value"], None, 2.5 if isinstance(vals[0], int) else spec["value"], [spec["value"]] * 2):
			o = call(v.__setitem__, key, newv)
			chk.judged("assign-fault", ("written-key", how, n, repr(type(newv).__name__)))
			after = snapshot(v)
			if o.ok:
				chk.fail("an index that is not one is refused", f"assign/accepted-bad-key/written-key/{how}", f"{spec!r}: v[<vector of {list(key._underlying)!r}>] = {newv!r} was accepted: {short(after, 120)}")
				return
			if after != before:
				chk.fail("an assignment that fails for any reason leaves the vector exactly as it was", f"assign/not-atomic/written-key/{how}", f"{spec!r}: value {newv!r}: raised {o!r}; before {short(before, 120)} after {short(after, 120)}")
				return
		return
	else:      # index vector that held a None for a while
		idxs = [i for i, b in enumerate(pattern) if b] or [0]
		key = Vector(list(idxs))
		key[0] = None
		key[0] = idxs[0]
		pattern = [i in idxs for i in range(n)]
	before = snapshot(v)
	newv = spec["value"]
	o = call(v.__setitem__, key, newv)
	chk.judged("assign-fault", ("written-key", how, n, sum(pattern)))
	after = snapshot(v)
	if not o.ok:
		if after != before:
			chk.fail("an assignment that fails for any reason leaves the vector exactly as it was", f"assign/not-atomic/written-key/{how}", f"{spec!r}: raised {o!r}; before {short(before, 120)} after {short(after, 120)}")
		return
	model = [newv if b else x for x, b in zip(vals, pattern)]
	if not M.same_list(list(after[0]), model):
		chk.fail("assignment leaves exactly the contents list assignment would produce", f"assign/contents/written-key/{how}", f"{spec!r}: key cells {list(key._underlying)!r}: vector {short(after[0], 120)}, expected {short(model, 120)} (or a refusal)")


def run_full_slice_then_write(chk, spec):
	"""w = v[<slice covering all of v>] is a vector of its own: v[key] = value and w[key] = value, with both alive, produce the list-assignment result in the one written and leave the other alone"""
	vals = list(spec["values"])
	n = len(vals)
	v = Vector(list(vals), name="v")
	sl = {"[:]": slice(None), "[0:]": slice(0, None), "[:n]": slice(None, n), "[-n:]": slice(-n, None), "[::1]": slice(None, None, 1), "[-99:99]": slice(-99, 99)}[spec["slice"]]
	w = v[sl]
	target, other = (w, v) if spec["side"] == "slice" else (v, w)
	key = build_key(spec["key"])
	o = call(target.__setitem__, key, spec["value"])
	chk.judged("assign-fault", ("full-slice-then-write", spec["slice"], spec["side"], spec["key"][0]))
	if not o.ok:
		chk.fail("a slice is a vector of its own and takes the assignment", f"assign/raises/full-slice-then-write/{spec['side']}/{type(o.exc).__name__}", f"{spec!r}: raised {o!r}")
		return
	model = list(vals)
	k = spec["key"]
	if k[0] == "int":
		model[k[1]] = spec["value"]
	else:
		model[slice(*k[1])] = spec["value"]
	if not M.same_list(list(target._underlying), model) or not M.same_list(list(other._underlying), vals):
		chk.fail("assignment leaves exactly the contents list assignment would produce", f"assign/contents/full-slice-then-write/{spec['side']}", f"{spec!r}: written {short(list(target._underlying), 100)} (model {short(model, 100)}), the other {short(list(other._underlying), 100)} (was {short(vals, 100)})")


def run_object_column_odd_eq(chk, spec):
	"""an object column takes any value as a list does - also values whose == does not answer with a bool (builds an expression, answers True to everything, raises): only a
	value that IS None makes the column nullable"""
	class Expr:
		def __eq__(self, o): return Expr()
		def __ne__(self, o): return Expr()
		def __bool__(self): return True
		__hash__ = object.__hash__
	class Raises:
		def __eq__(self, o): raise RuntimeError("no ==")
		__hash__ = object.__hash__
	class NoTruth:
		def __eq__(self, o): return NoTruth()
		def __bool__(self): raise TypeError("no truth value")
		__hash__ = object.__hash__
	val = {"expr": Expr, "raises": Raises, "no-truth": NoTruth, "eq-all": V.EqAll}[spec["value"]]()
	base = [1, "a", 2.5]
	v = Vector(list(base), dtype=object) if spec["typed"] == "explicit" else Vector(list(base))
	nullable0 = v.schema().nullable
	key = build_key(spec["key"])
	newv = val if spec["key"][0] in ("int", "mask-list") else [val]
	o = call(v.__setitem__, key, newv)
	chk.judged("assign-fault", ("object-column-odd-eq", spec["value"], spec["key"][0], spec["typed"]))
	if not o.ok:
		chk.fail("an object column takes the value as a list does", f"assign/raises/object-column/value-with-odd-eq/{spec['value']}/{type(o.exc).__name__}", f"{spec!r}: {o!r}")
		return
	cells = list(v._underlying)
	if cells[0] is not val or any(x is None for x in cells):
		chk.fail("assignment leaves exactly the contents list assignment would produce", f"assign/contents/object-column/value-with-odd-eq/{spec['value']}", f"{spec!r}: cells {[type(x).__name__ for x in cells]!r}")
		return
	if v.schema().nullable and not nullable0:
		chk.fail("only None makes a column nullable", f"assign/nullable-without-none/object-column/{spec['value']}", f"{spec!r}: the column is now {v.schema()!r} although no None was written")


def run_rejected_then_wider(chk, spec):
	"""a batch whose first value would promote the column and whose second value is refused changes nothing - ALSO nothing the next write could notice: a later value of that
	wider kind promotes the column as if the rejected batch had never been tried"""
	from datetime import date, datetime
	kind = spec["kind"]
	vals = {"int": [1, 2, 3], "float": [1.5, 2.5, 3.5], "date": [date(2020, 1, 1), date(2020, 1, 2), date(2020, 1, 3)], "bool": [True, False, True]}[kind]
	wide1, wide2 = {"int": (2.5, 3.5), "float": (1j, 2 + 1j), "date": (datetime(2020, 1, 1, 5), datetime(2021, 1, 1, 6)), "bool": (7, 9)}[kind]
	v = Vector(list(vals), name="v")
	before = snapshot(v)
	bad = object() if kind != "bool" else "zz"
	r = call({"slice": lambda: v.__setitem__(slice(0, 2), [wide1, bad]), "idx": lambda: v.__setitem__([2, 0], [wide1, bad]), "mask": lambda: v.__setitem__([True, True, False], [wide1, bad])}[spec["first"]])
	chk.judged("assign-fault", ("rejected-then-wider", kind, spec["first"], spec["then"]))
	if r.ok:
		chk.skip("batch-was-accepted")
		return
	if snapshot(v) != before:
		chk.fail("an assignment that fails for any reason leaves the vector exactly as it was", f"assign/not-atomic/rejected-then-wider/{kind}", f"{spec!r}: {short(before, 100)} -> {short(snapshot(v), 100)}")
		return
	twin = Vector(list(vals), name="v")
	w = {"item": lambda x: x.__setitem__(0, wide2), "slice": lambda x: x.__setitem__(slice(0, 1), [wide2]), "mask": lambda x: x.__setitem__([True, False, False], wide2)}[spec["then"]]
	a, b = call(w, v), call(w, twin)
	sa, sb = snapshot(v), snapshot(twin)
	if a.ok != b.ok or sa[1] != sb[1] or not M.same_list(sa[0], sb[0]):
		chk.fail("an assignment that fails for any reason leaves the vector exactly as it was", f"assign/not-atomic/rejected-then-wider/{kind}/later-write-differs",
			f"{spec!r}: after the rejected batch, writing {wide2!r} gives {short(sa, 120)} ({a!r}); on a vector that never saw the batch {short(sb, 120)} ({b!r})")
		return
	msg = M.truthful(sa[0], v.schema())
	if msg:
		chk.fail("the column dtype covers what was assigned", f"assign/untruthful-after-assign/rejected-then-wider/{kind}", f"{spec!r}: {msg}")


def run_selfmask(chk, spec):
	"""the row selector of a table assignment is one of the table's own columns (a live bool column as mask, a live int column as index vector) and is
	itself among the columns written: the addressed cells are those the selector names when the assignment is made"""
	cols = [list(c) for c in spec["cols"]]
	names = list(spec["names"])
	t = Table([Vector(list(c), name=nm) for c, nm in zip(cols, names)])
	sel_pos = spec["selector"]
	sel = t.cols()[sel_pos] if spec["via"] == "cols" else t[names[sel_pos]]
	selvals = list(cols[sel_pos])
	n = len(selvals)
	rows = [i for i, m in enumerate(selvals) if m] if spec["kind"] == "mask" else [int(i) for i in selvals]
	targets = spec["targets"]
	model = [list(c) for c in cols]
	for j in targets:
		for i in rows:
			model[j][i] = spec["value"]
	key_cols = [names[j] for j in targets] if spec["colform"] == "names" else (list(targets) if spec["colform"] == "ints" else tuple(names[j] for j in targets))
	before = [list(c._underlying) for c in t.cols()]
	o = call(t.__setitem__, (sel, key_cols), spec["value"])
	chk.judged("table-assign", ("selfmask", spec["kind"], tuple(targets), sel_pos, spec["colform"]))
	got = [list(c._underlying) for c in t.cols()]
	if not o.ok:
		if got != before:
			chk.fail("an assignment that fails for any reason leaves the table as it was", f"table-assign/self-selector/not-atomic/{type(o.exc).__name__}", f"{spec!r}: raised {o!r}; {before} -> {got}")
		else:
			chk.counters["selfmask-refused"] += 1
		return
	if any(not M.eq_list(g, e) for g, e in zip(got, model)):
		chk.fail("table region assignment writes exactly the addressed cells (the rows the selector names when the assignment is made)", f"table-assign/self-selector/{spec['kind']}/wrong-cells",
			f"{spec!r}: table now {got}, list model {model}")


def run_badmask(chk, spec):
	"""a boolean row mask of the wrong length in a table assignment that targets several columns: rejected, nothing written"""
	cols = [list(c) for c in spec["cols"]]
	n = len(cols[0])
	t = Table([Vector(list(c), name=f"c{j}") for j, c in enumerate(cols)])
	bits = list(spec["mask"])
	mask = Vector(bits) if spec["as"] == "vector" else bits
	targets = spec["targets"]
	key_cols = [f"c{j}" for j in targets] if spec["colform"] == "names" else list(targets)
	value = spec["value"]
	if value == "table":
		k = sum(1 for b in bits if b)
		value = Table([Vector([70 + j] * max(k, 1), name=f"s{j}") for j in targets])
	elif value == "lists":
		k = sum(1 for b in bits if b)
		value = [[80 + j] * k for j in targets]
	before = [list(c._underlying) for c in t.cols()]
	o = call(t.__setitem__, (mask, key_cols), value)
	chk.judged("table-assign", ("badmask", len(bits) - n, spec["as"], len(targets), spec["colform"], type(spec["value"]).__name__))
	got = [list(c._underlying) for c in t.cols()]
	if o.ok:
		chk.fail("an invalid assignment is rejected", f"table-assign/wrong-length-mask-accepted/{'longer' if len(bits) > n else 'shorter'}/{spec['as']}",
			f"{spec!r}: a row mask of length {len(bits)} on {n} rows was accepted; table {before} -> {got}")
	elif got != before:
		chk.fail("an assignment that fails for any reason leaves the table as it was", f"table-assign/wrong-length-mask/not-atomic", f"{spec!r}: raised {o!r}; {before} -> {got}")


def run_own_source(chk, spec):
	"""the source of a region assignment is the target table itself (or some of its own live columns): every cell receives what the source held when the
	assignment was made"""
	cols = [list(c) for c in spec["cols"]]
	c = len(cols)
	names = [f"c{j}" for j in range(c)]
	t = Table([Vector(list(x), name=nm) for x, nm in zip(cols, names)])
	perm = spec["perm"]
	form = spec["form"]
	if form == "table-names":
		o = call(t.__setitem__, (slice(None), [names[j] for j in perm]), t)
		model = list(cols)
		for src, j in enumerate(perm):
			model[j] = list(cols[src])
	elif form == "table-reversed-slice":
		o = call(t.__setitem__, (slice(None), slice(None, None, -1)), t)
		model = [list(x) for x in reversed(cols)]
	elif form == "own-columns-list":
		o = call(t.__setitem__, (slice(None), names), [t[names[j]] for j in perm])
		model = [list(cols[j]) for j in perm]
	elif form == "own-columns-cols":
		o = call(t.__setitem__, (slice(None), list(range(c))), [t.cols()[j] for j in perm])
		model = [list(cols[j]) for j in perm]
	else:
		o = call(t.__setitem__, (slice(None), slice(None)), Table([t.cols()[j] for j in perm]))
		model = [list(cols[j]) for j in perm]
	chk.judged("table-assign", ("own-source", form, tuple(perm)))
	got = [list(x._underlying) for x in t.cols()]
	if not o.ok:
		if got != cols:
			chk.fail("an assignment that fails for any reason leaves the table as it was", f"table-assign/own-source/not-atomic/{type(o.exc).__name__}", f"{spec!r}: raised {o!r}; {cols} -> {got}")
		else:
			chk.counters["own-source-refused"] += 1
		return
	if any(not M.eq_list(g, e) for g, e in zip(got, model)):
		chk.fail("table region assignment leaves exactly what list assignment would produce (the source is read as it was when the assignment was made)", f"table-assign/own-source/{form}/wrong-cells",
			f"{spec!r}: table now {got}, list model {model}")


def run_cross_kind_equal(chk, spec):
	"""values that are EQUAL but of different kinds (3 and 3.0, 1 and True, -2 and -2.0) are different values to the promotion rule, whatever was validated
	earlier in the process"""
	first, second = spec["first"], spec["second"]
	a = Vector(list(spec["a"]))
	call(a.__setitem__, 0, first)      # an unrelated, valid write of the equal value of the narrower kind
	b = Vector(list(spec["b"]), name="b")
	before = snapshot(b)
	fpb = call(b.fingerprint).value
	key = build_key(spec["key"])
	value, vlist, scalar = build_value(spec["vform"], spec["value"])
	model = model_outcome(list(spec["b"]), before[1], key, value, vlist, scalar)
	o = call(b.__setitem__, key, value)
	judge_vector(chk, b, before, fpb, o, model, f"cross-kind/{spec['key'][0]}/{spec['vform']}", spec, "assign-ok" if model["outcome"] not in ("fail", "typefail") else "assign-fault")


def run_mask_reuse(chk, spec):
	"""one mask VECTOR used as a key, edited in place, and used as a key again: each write addresses the positions the mask marks at that moment"""
	vals = list(spec["values"])
	n = len(vals)
	v = Vector(list(vals))
	m = Vector(list(spec["mask"]))
	cur = list(spec["mask"])
	model = list(vals)
	chk.judged("assign-ok", ("mask-reuse", n, tuple(spec["flips"])))
	for step, flip in enumerate([None] + list(spec["flips"])):
		if flip is not None:
			w = call(m.__setitem__, flip, not cur[flip])
			if not w.ok:
				chk.skip("mask-reuse-mask-write-refused")
				return
			cur[flip] = not cur[flip]
		k = sum(1 for x in cur if x)
		newv = 100 + step
		form = spec["vform"]
		value = newv if form == "scalar" else [newv] * k
		o = call(v.__setitem__, m, value)
		for i, f in enumerate(cur):
			if f:
				model[i] = newv
		if not o.ok:
			chk.fail("a valid assignment is carried out", f"assign/raises/mask-vector-reused/{type(o.exc).__name__}", f"{spec!r}: step {step}: mask now {cur}; v[mask] = {value!r} raised {o!r}")
			return
		if list(v._underlying) != model:
			chk.fail("the vector holds exactly what Python list assignment would produce", "assign/contents/mask-vector-reused", f"{spec!r}: step {step}: mask now {cur}; vector {list(v._underlying)} vs model {model}")
			return


RUNNERS = {"object_column_odd_eq": run_object_column_odd_eq, "rejected_then_wider": run_rejected_then_wider, "written_key": run_written_key, "full_slice_then_write": run_full_slice_then_write, "cross_kind_equal": run_cross_kind_equal, "mask_reuse": run_mask_reuse, "own_source": run_own_source, "badmask": run_badmask, "selfmask": run_selfmask, "sequence": run_sequence, "overflow": run_overflow, "assign": run_assign, "iterfault": run_iterfault, "table_assign": run_table_assign, "rename": run_rename, "rename_fault": run_rename_fault, "shared_refusal": run_shared_refusal, "unprintable_value": run_unprintable_value, "table_special_forms": run_table_special_forms, "narrower_subclass": run_narrower_subclass}

COLKINDS = ["bool", "int", "float", "complex", "str", "date", "datetime", "object", "bytes"]


def value_of_class(rng, colkind, cls):
	pyk = V.PYTYPE.get(colkind, object)
	if cls == "same":
		return rng.choice(KIND_VALUES[colkind])
	if cls == "none":
		return None
	if cls == "unrelated":
		return rng.choice([x for x in ["zz", b"raw", date(2020, 5, 5), 3] if classify(pyk, x) == "unrelated"] or [object()])
	if cls == "promote":
		c = [x for x in [2.5, 1 + 1j, datetime(2020, 1, 1, 5), 7] if classify(pyk, x) == "promote"]
		return rng.choice(c) if c else None
	if cls == "narrower":
		c = [x for x in [True, 3, 2.5, date(2020, 1, 1)] if classify(pyk, x) == "narrower"]
		return rng.choice(c) if c else None
	if cls == "either":
		return rng.choice([3, 2.5]) if colkind == "bool" else None
	raise ValueError(cls)


def column_of(rng, colkind, n, nullable):
	if colkind == "object":
		vals = [rng.choice(KIND_VALUES["object"]) for _ in range(n)]
		if n >= 2:
			vals[0], vals[1] = 1, "a"      # make sure inference yields object
		elif n == 1:
			return None
	else:
		vals = [rng.choice(KIND_VALUES[colkind]) for _ in range(n)]
	if nullable and n:
		vals[rng.randrange(n)] = None
		if all(x is None for x in vals):
			return None
	return vals


def key_forms(rng, n):
	"""(spec_key, count) for valid keys on length n"""
	out = []
	if n:
		i = rng.randrange(n)
		out.append((("int", i), 1))
		out.append((("int", i - n), 1))
	out.append((("slice", (None, None, None)), n))
	out.append((("slice", (0, n, 2)), len(range(0, n, 2))))
	out.append((("slice", (None, None, -1)), n))
	for sl in ((None, None, -2), (None, None, -3), (n - 1, 0, -2), (n - 1, None, -2), (1, None, 3), (None, None, 3), (-1, -n - 1, -2)):
		out.append((("slice", sl), len(range(*slice(*sl).indices(n)))))
	if n:
		bits = [rng.random() < 0.6 for _ in range(n)]
		out.append((("mask-list", bits), sum(bits)))
		out.append((("mask-vector", bits), sum(bits)))
		idx = [rng.randrange(-n, n) for _ in range(rng.choice([1, 2, 3]))]
		out.append((("idx-list", idx), len(idx)))
		out.append((("idx-tuple", idx), len(idx)))
		out.append((("idx-vector", idx), len(idx)))
		rep = [0, n - 1, 0]
		out.append((("idx-list", rep), 3))      # repeated position: later value wins
	return out


def run(chk):
	rng = chk.rng
	STEPS = ["cell", "cell-promote", "cell-none", "cell-view", "row", "column", "column-vector-slice", "region-table", "region-table-full", "write-source"]
	for _ in range(400 if chk.quick() else 3000):
		k = rng.choice([2, 3, 4, 6])
		steps = [rng.choice(STEPS) for _ in range(k)]
		if rng.random() < 0.3:
			steps = [rng.choice(["cell-promote", "region-table-full", "region-table"])] + steps
		chk.case("sequence", {"seed": rng.randrange(10 ** 9), "n": rng.choice([1, 2, 3, 4]), "c": rng.choice([1, 2, 3]), "steps": steps}, "assign-sequence")
	for kind in ("mask", "index"):
		for n in (2, 3, 5):
			for rep in range(3 if chk.quick() else 12):
				if kind == "mask":
					sel = [rng.random() < 0.5 for _ in range(n)]
					if not any(sel):
						sel[rng.randrange(n)] = True
					other = [rng.random() < 0.5 for _ in range(n)]
					third = [True] * n
					value = False
				else:
					sel = [rng.randrange(n) for _ in range(n)]
					other = [rng.randrange(n) for _ in range(n)]
					third = [9] * n
					value = rng.randrange(n)
				order = rng.choice([[0, 1, 2], [1, 0, 2], [2, 1, 0]])      # position of the selector column among the columns
				cols3 = [None, None, None]
				cols3[order[0]], cols3[order[1]], cols3[order[2]] = sel, other, third
				names3 = ["s", "o", "z"]
				nm = [None, None, None]
				nm[order[0]], nm[order[1]], nm[order[2]] = names3
				for targets in ([order[0], order[1]], [order[1], order[0]], [order[0], order[1], order[2]], [order[2], order[0]], [order[1]]):
					chk.case("selfmask", {"kind": kind, "cols": cols3, "names": nm, "selector": order[0], "targets": targets, "value": value,
						"via": rng.choice(["cols", "name"]), "colform": rng.choice(["names", "ints", "tuple"])}, "table-assign-self-selector")
	for first, second, acol, bcol in ((3, 3.0, [1, 2], [5, 6, 7]), (-2, -2.0, [0, 1], [5, 6]), (1, True, [4, 5], [False, True]), (1, 1.0, [1, 2], [True, False]), (2, complex(2, 0), [1, 2], [5, 6]), (0, 0.0, [1], [7, 8]),
			(2 ** 53, float(2 ** 53), [1], [3, 4])):
		for keyspec, vform in ((("int", 1), "scalar"), (("slice", (0, 2, None)), "list"), (("idx-list", [0, 1]), "list"), (("mask-list", [True] + [False] * (len(bcol) - 1)), "scalar")):
			value = second if vform == "scalar" else [second, first]
			chk.case("cross_kind_equal", {"first": first, "second": second, "a": acol, "b": bcol, "key": keyspec, "vform": vform, "value": value}, "assign-cross-kind-equal")
	# batches in which a narrower value sits next to the one that forces the promotion: the narrower one is stored as given
	for vals, batch in (([1, 2, 3], [2 ** 53 + 1, 1.5]), ([1, 2, 3], [1.5, 2 ** 53 + 1]), ([1, 2, 3], [10 ** 17 + 1, 2.5, 3]), ([1, 2], [True, 2.5]), ([date(2020, 1, 1), date(2020, 1, 2)], [date(2021, 5, 5), datetime(2020, 1, 1, 6)])):
		for keyspec in (("slice", (0, len(batch), None)), ("idx-list", list(range(len(batch))))):
			if len(batch) <= len(vals):
				for vform in ("list", "tuple", "vector"):
					chk.case("assign", {"values": vals, "key": keyspec, "vform": vform, "value": batch}, "assign-batch-narrow-next-to-wide")
	for _ in range(60 if chk.quick() else 400):
		n = rng.choice([2, 3, 4])
		mask = [rng.random() < 0.5 for _ in range(n)]
		flips = [rng.randrange(n) for _ in range(rng.choice([1, 2, 3]))]
		chk.case("mask_reuse", {"values": [rng.choice([1, 2, 3]) for _ in range(n)], "mask": mask, "flips": flips, "vform": rng.choice(["scalar", "list"])}, "assign-mask-reuse")
	import itertools as _it
	for c in (2, 3):
		for perm in _it.permutations(range(c)):
			if list(perm) == list(range(c)):
				continue
			for form in ("table-names", "table-reversed-slice", "own-columns-list", "own-columns-cols", "table-of-own-columns"):
				if form == "table-reversed-slice" and list(perm) != list(reversed(range(c))):
					continue
				nrow = rng.choice([1, 2, 3])
				chk.case("own_source", {"cols": [[10 * j + r for r in range(nrow)] for j in range(c)], "perm": list(perm), "form": form}, "table-assign-own-source")
	for n in (2, 3):
		for delta in (-1, 1, 2):
			for rep in range(2 if chk.quick() else 8):
				m = n + delta
				bits = [rng.random() < 0.5 for _ in range(m)]
				if delta > 0 and rng.random() < 0.5:
					bits[n:] = [False] * delta      # the excess flags are all False
				if not any(bits[:n]):
					bits[0] = True
				for targets in ([0, 1], [1, 0], [0, 1, 2], [2, 0]):
					chk.case("badmask", {"cols": [[rng.choice([1, 2, 3]) for _ in range(n)] for _ in range(3)], "mask": bits, "as": rng.choice(["list", "vector"]), "targets": targets,
						"colform": rng.choice(["names", "ints"]), "value": rng.choice([0, None, "table", "lists"])}, "table-assign-bad-mask")
	# columns whose kind was widened by inference and still hold narrower elements, then a write that promotes further
	for vals, wide in (([1.5, 2, 3], 1j), ([1.5, True, 3], 1 + 1j), ([2, True, 5], 2.5), ([2, True, 5], 1j), ([True, 4], 0.5), ([1j, 2.5, 3], None), ([V.datetime(2020, 1, 1, 5), date(2020, 1, 2)], None)):
		if wide is None:
			continue
		for keyspec in (("int", 0), ("slice", (0, 1, None)), ("idx-list", [0]), ("mask-list", [True] + [False] * (len(vals) - 1))):
			chk.case("assign", {"values": vals, "key": keyspec, "vform": "scalar" if keyspec[0] in ("int", "mask-list") else "list", "value": wide if keyspec[0] in ("int", "mask-list") else [wide]}, "assign-promote-mixed")
	for index in ("bool", "int-subclass", "intenum"):
		for value in ("list", "tuple", "range", "dict-keys", "generator", "vector"):
			for ncols in (1, 2):
				for colform in ("all", "names"):
					chk.case("table_special_forms", {"what": "row-index-kinds", "index": index, "value": value, "ncols": ncols, "colform": colform}, "table-special-forms")
	for entry in ("float", "none-after-name", "float-after-name", "tuple-entry", "bytes", "float-first"):
		for rows in ("int", "slice", "mask"):
			chk.case("table_special_forms", {"what": "bad-column-list-entry", "entry": entry, "rows": rows}, "table-special-forms")
	for write in ("cell", "column", "region", "row"):
		for touch_first in (False, True):
			chk.case("table_special_forms", {"what": "alias-then-assign", "write": write, "touch_first": touch_first}, "table-special-forms")
	for column, value in (("complex", "float-sub"), ("complex", "int-sub"), ("complex", "bool"), ("float", "int-sub"), ("float", "bool"), ("datetime", "date-sub"), ("int-then-complex", "float-sub"), ("float-then-complex", "float-sub"), ("int-then-complex", "int-sub")):
		for keyspec in (("int", 0), ("slice", (0, 1, None)), ("idx-list", [0]), ("mask-list", [True, False, False])):
			chk.case("narrower_subclass", {"column": column, "value": value, "key": keyspec}, "assign-narrower-subclass")
	for vals in (["a", "b", "c"], [1, 2, 3], [1.5, 2.5, 3.5], [True, False, True], [date(2020, 1, 1), date(2020, 1, 2), date(2020, 1, 3)], [b"x", b"y", b"z"], [1, "a", 2.5]):
		for what in ("huge-int", "no-repr"):
			for keyspec, count in ((("int", 0), 1), (("slice", (0, 2, None)), 2), (("idx-list", [2, 0]), 2), (("mask-list", [False, True, False]), 1)):
				chk.case("unprintable_value", {"values": vals, "what": what, "key": keyspec, "count": count}, "assign-unprintable-value")
	# an index list / tuple whose LATER element is not an int (the first one is fine), with a value that would promote the column or make it nullable
	for vals, wide in (([1, 2, 3], 2.5), ([1.5, 2.5, 3.5], 1j), ([date(2020, 1, 1), date(2020, 1, 2), date(2020, 1, 3)], datetime(2020, 1, 1, 5)), (["p", "q", "r"], None)):
		for badkey in (("idx-list", [0, 1.5]), ("idx-tuple", (1, 2.0)), ("idx-list", [0, None]), ("idx-list", [0, "1"]), ("idx-list", [2, 1, 0.0]), ("idx-tuple", (0, 1j))):
			for value, vform in ((None, "scalar"), (wide, "scalar"), ([wide] * len(badkey[1]), "list"), ([None] * len(badkey[1]), "list"), ([vals[0]] * len(badkey[1]), "list")):
				if value is None and wide is None and vform == "scalar" and False:
					continue
				chk.case("assign", {"values": vals, "key": badkey, "vform": vform, "value": value}, "assign-bad-index-element")
	# two vectors over one tuple: the refused write changes nothing
	for vals, wide in (([1, 2, 3], 2.5), ([1.5, 2.5], 1j), ([date(2020, 1, 1), date(2020, 1, 2)], datetime(2020, 1, 1, 5)), (["p", "q"], None), ([True, False], None)):
		for keyspec in (("int", 0), ("slice", (0, 1, None)), ("idx-list", [0]), ("mask-list", [True] + [False] * (len(vals) - 1))):
			for what, x in (("none", None), ("wider", wide), ("same-kind", vals[-1]), ("unrelated", object())):
				if x is None and what == "wider":
					continue
				value = x if keyspec[0] in ("int", "mask-list") else [x]
				for cached in (False, True):
					chk.case("shared_refusal", {"values": vals, "key": keyspec, "value": value, "what": what, "cached": cached}, "assign-shared-refusal")
	# duplicates made with the copy module are ordinary vectors
	for dup in ("copy", "deepcopy"):
		for vals in ([1, 2, 3], ["p", "q"], [1.5, None]):
			for keyspec, value, vform in ((("int", 0), vals[-1], "scalar"), (("slice", (None, None, None)), list(reversed(vals)), "list"), (("idx-list", [0]), [vals[-1]], "list"), (("mask-list", [True] + [False] * (len(vals) - 1)), vals[-1], "scalar")):
				chk.case("assign", {"values": vals, "key": keyspec, "vform": vform, "value": value, "duplicate": dup}, "assign-duplicate")
	for how in ("mask-was-none", "mask-in-table-was-none", "mask-built-nullable", "index-vector-was-none", "index-vector-promoted-float", "index-vector-promoted-complex"):
		for vals, value in (([10, 20, 30, 40], 99), (["a", "b", "c"], "z"), ([1.5, None, 2.5, 3.5, 4.5], 0.25)):
			for pattern in ([1, 0, 1, 0, 0], [0, 0, 1, 1, 0], [1, 1, 1, 1, 1], [0, 1, 0, 0, 0], [0, 0, 0, 1, 0]):
				chk.case("written_key", {"how": how, "values": vals, "value": value, "pattern": pattern}, "assign-written-key")
	for value in ("expr", "raises", "no-truth", "eq-all"):
		for keyspec in (("int", 0), ("slice", (0, 1, None)), ("idx-list", [0]), ("mask-list", [True, False, False])):
			for typed in ("explicit", "inferred"):
				chk.case("object_column_odd_eq", {"value": value, "key": keyspec, "typed": typed}, "assign-object-odd-eq")
	for kind in ("int", "float", "date", "bool"):
		for first in ("slice", "idx", "mask"):
			for then in ("item", "slice", "mask"):
				chk.case("rejected_then_wider", {"kind": kind, "first": first, "then": then}, "assign-rejected-then-wider")
	for sl in ("[:]", "[0:]", "[:n]", "[-n:]", "[::1]", "[-99:99]"):
		for side in ("slice", "source"):
			for vals, value in (([1, 2, 3], 9), (["p", "q"], "z"), ([1.5, None], 2.5)):
				for keyspec, val in ((("int", 0), value), (("slice", (0, 1, None)), [value])):
					chk.case("full_slice_then_write", {"slice": sl, "side": side, "values": vals, "key": keyspec, "value": val}, "assign-full-slice")
	huge = [10 ** 400, -(10 ** 400), 2 ** 1024]
	for h in huge:
		for vals in ([1.5, 2.5], [1j, 2 + 0j], [1j, None, 0.5], [1, 2]):
			n_ = len(vals)
			for keyspec, value in ((("int", 0), h), (("int", n_ - 1), h), (("slice", (None, None, None)), [h] * n_), (("slice", (0, 2, None)), [2j, h]), (("slice", (0, 2, None)), [h, 2j]), (("idx-list", [0]), [h]), (("mask-list", [True] + [False] * (n_ - 1)), h)):
				if vals == [1, 2] and not isinstance(value, list):
					continue
				for in_table in (False, True):
					chk.case("overflow", {"values": vals, "key": keyspec, "value": value, "in_table": in_table, "cached": False, "narrower_value": True}, "assign-overflow-narrower-value")
	for h in huge:
		for vals in ([h, 1], [1, h, None], [h]):
			for keyspec, value in ((("int", 0), 0.5), (("int", len(vals) - 1), 1j), (("slice", (None, None, None)), [0.5] * len(vals)), (("idx-list", [0]), [2.5]), (("mask-list", [True] + [False] * (len(vals) - 1)), 0.25)):
				for in_table in (False, True):
					for cached in (False, True):
						chk.case("overflow", {"values": vals, "key": keyspec, "value": value, "in_table": in_table, "cached": cached}, "assign-overflow")
	idx = 0
	# ---- valid and type-faulty writes: key form x value form x column kind x value classes
	for colkind in COLKINDS:
		for n in range(0, 6):
			for nullable in (False, True):
				vals = column_of(rng, colkind, n, nullable)
				if vals is None:
					continue
				for spec_key, count in key_forms(rng, n):
					for vform in ("scalar", "list", "tuple", "vector", "iterable"):
						idx += 1
						if not chk.mine(idx):
							continue
						if chk.quick() and idx % 3 == 0:
							continue
						if spec_key[0] == "int" and vform != "scalar":
							continue
						m = 1 if vform == "scalar" else count
						# class patterns: all same; one special at each position k; promotion at j then unrelated at k>j
						patterns = [["same"] * m]
						for cls in ("none", "promote", "unrelated", "narrower", "either"):
							for k in range(m):
								p = ["same"] * m
								p[k] = cls
								patterns.append(p)
						for j in range(m):
							for k in range(j + 1, m):
								for a, b in (("promote", "unrelated"), ("none", "unrelated"), ("promote", "none"), ("promote", "promote")):
									p = ["same"] * m
									p[j], p[k] = a, b
									patterns.append(p)
						for p in patterns:
							payload = [value_of_class(rng, colkind, c) for c in p]
							if any(x is None and c not in ("none",) for x, c in zip(payload, p)):
								continue
							if vform == "vector" and payload and len({type(x) for x in payload}) > 1 and any(isinstance(x, list) for x in payload):
								continue
							value = payload[0] if vform == "scalar" else payload
							chk.case("assign", {"values": vals, "name": [None, "nm"][idx % 2], "key": spec_key, "vform": vform, "value": value, "cached": idx % 2 == 0}, "assign")
	# ---- structural faults: wrong lengths, wrong mask length, out-of-range index at every position, bad key types
	for colkind in ("int", "float", "str", "object"):
		for n in range(1, 5):
			vals = column_of(rng, colkind, n, False)
			if vals is None:
				continue
			good = lambda m: [rng.choice(KIND_VALUES[colkind]) for _ in range(m)]
			for vform in ("list", "tuple", "vector", "iterable"):
				for delta in (-1, 1, 2):
					if n + delta < 0 or (n + delta == 0 and vform == "vector"):
						continue
					chk.case("assign", {"values": vals, "key": ("slice", (None, None, None)), "vform": vform, "value": good(n + delta)}, "fault-length")
					chk.case("assign", {"values": vals, "key": ("mask-list", [True] * n), "vform": vform, "value": good(n + delta)}, "fault-length")
					chk.case("assign", {"values": vals, "key": ("idx-list", list(range(n))), "vform": vform, "value": good(n + delta)}, "fault-length")
					chk.case("assign", {"values": vals, "key": ("idx-vector", list(range(n))), "vform": vform, "value": good(n + delta)}, "fault-length")
			for kform in ("mask-list", "mask-vector"):
				for m in (n - 1, n + 1):
					if m > 0:
						chk.case("assign", {"values": vals, "key": (kform, [True] * m), "vform": "scalar", "value": good(1)[0]}, "fault-mask-length")
			for kform in ("idx-list", "idx-tuple", "idx-vector"):
				for m in (1, 2, 3):
					for k in range(m):
						for bad in (n, -n - 1, n + 5):
							ix = [rng.randrange(n) for _ in range(m)]
							ix[k] = bad
							for vform in ("scalar", "list"):
								chk.case("assign", {"values": vals, "key": (kform, ix), "vform": vform, "value": good(1)[0] if vform == "scalar" else good(m)}, "fault-index")
			for bad in (n, -n - 1):
				chk.case("assign", {"values": vals, "key": ("int", bad), "vform": "scalar", "value": good(1)[0]}, "fault-index")
			for badkey in (1.5, "a", None, {"k": 1}, (0.5,), [0.5], ["a"], [None]):
				chk.case("assign", {"values": vals, "key": ("bad", badkey), "vform": "scalar", "value": good(1)[0]}, "fault-key-type")
	# ---- exceptions raised while the value is consumed
	for colkind in ("int", "str"):
		for n in (1, 2, 3, 4):
			vals = column_of(rng, colkind, n, False)
			payload = [rng.choice(KIND_VALUES[colkind]) for _ in range(n)]
			for spec_key in (("slice", (None, None, None)), ("mask-list", [True] * n), ("idx-list", list(range(n))), ("idx-vector", list(range(n))), ("mask-vector", [True] * n)):
				chk.case("iterfault", {"values": vals, "key": spec_key, "value": payload, "iter_fails": True}, "iter-fault")
				chk.case("iterfault", {"values": vals, "key": spec_key, "value": payload, "len_fails": True}, "iter-fault")
				for k in range(n + 1):
					chk.case("iterfault", {"values": vals, "key": spec_key, "value": payload, "next_fails_at": k}, "iter-fault")
	# ---- table assignment
	for _ in range(700 if chk.quick() else 5000):
		ncols = rng.choice([1, 2, 3])
		n = rng.choice([1, 2, 3, 4])
		kinds = [rng.choice(["int", "float", "str", "date"]) for _ in range(ncols)]
		cols = [[rng.choice(KIND_VALUES[k]) for _ in range(n)] for k in kinds]
		names = ["a", "b", "c"][:ncols]
		ts = {"names": names, "cols": cols}
		fault = rng.choice(["none", "none", "unrelated-at-k", "promote", "none-value", "shape", "row-index"])
		rows = rng.choice([rng.randrange(n), (0, n, None), (0, max(1, n - 1), None), (None, None, 2)])
		if fault == "row-index":
			rows = n + 1
		nrows = 1 if isinstance(rows, int) else len(range(*slice(*rows).indices(n)))
		colspec = rng.choice([("int", rng.randrange(ncols)), ("name", rng.randrange(ncols)), ("slice", (0, ncols, None)), ("slice", (0, 1, None)), ("all",)])
		if colspec[0] == "int" or colspec[0] == "name":
			cidx = [colspec[1]]
		elif colspec[0] == "slice":
			cidx = list(range(ncols))[slice(*colspec[1])]
		else:
			cidx = list(range(ncols))
		def val(c, k=None):
			x = rng.choice(KIND_VALUES[kinds[c]])
			return x
		if isinstance(rows, int):
			vform = rng.choice(["scalar", "row"]) if len(cidx) > 1 else rng.choice(["scalar", "row"])
		else:
			vform = rng.choice(["scalar", "column", "cols-list", "cols-table"]) if len(cidx) == 1 else rng.choice(["scalar", "cols-list", "cols-table"])
		if vform == "scalar":
			value = val(cidx[0])
			if len({kinds[c] for c in cidx}) > 1:
				vform = "row" if isinstance(rows, int) else "cols-list"
		if vform == "row":
			value = [val(c) for c in cidx]
		elif vform == "column":
			value = [val(cidx[0]) for _ in range(nrows)]
		elif vform in ("cols-list", "cols-table"):
			value = [[val(c) for _ in range(nrows)] for c in cidx]
			if nrows == 0:
				continue
		# inject the fault at a random column / position
		kc = rng.randrange(len(cidx))
		if fault == "unrelated-at-k":
			bad = [1, 2] if kinds[cidx[kc]] != "object" else None
			bad = object()
			if vform == "scalar":
				value = "zz" if kinds[cidx[0]] != "str" else 3
			elif vform == "row":
				value[kc] = "zz" if kinds[cidx[kc]] != "str" else 3
			elif vform == "column":
				value[rng.randrange(len(value))] = "zz" if kinds[cidx[0]] != "str" else 3
			else:
				value[kc][rng.randrange(nrows)] = "zz" if kinds[cidx[kc]] != "str" else 3
		elif fault == "promote":
			w = {"int": 2.5, "float": 1j, "date": datetime(2020, 1, 1, 5), "str": "s"}[kinds[cidx[kc]]]
			if vform == "scalar":
				value = {"int": 2.5, "float": 1j, "date": datetime(2020, 1, 1, 5), "str": "s"}[kinds[cidx[0]]]
			elif vform == "row":
				value[kc] = w
			elif vform == "column":
				value[rng.randrange(len(value))] = {"int": 2.5, "float": 1j, "date": datetime(2020, 1, 1, 5), "str": "s"}[kinds[cidx[0]]]
			else:
				value[kc][rng.randrange(nrows)] = w
		elif fault == "none-value":
			if vform == "scalar":
				value = None
			elif vform == "row":
				value[kc] = None
			elif vform == "column":
				value[rng.randrange(len(value))] = None
			else:
				value[kc][rng.randrange(nrows)] = None
				if vform == "cols-table" and all(x is None for x in value[kc]):
					continue
		elif fault == "shape":
			if vform == "row":
				value = value + [1]
			elif vform == "column":
				value = value + [value[0]]
			elif vform in ("cols-list", "cols-table"):
				if rng.random() < 0.5:
					value = value + [value[0]]
				else:
					value = [c + [c[0]] for c in value]
			else:
				continue
		if vform == "cols-table" and any(len(c) != len(value[0]) for c in value):
			continue
		if vform in ("cols-list", "cols-table") and fault == "shape" and len(value) == len(cidx):
			# wrong number of rows per column: the per-column model decides (length mismatch), not the shape rule
			pass
		spec_t = {"table": ts, "rows": rows, "colspec": colspec, "vform": vform, "value": value, "fault": fault}
		if vform in ("row", "column", "cols-list"):
			spec_t["as"] = rng.choice(["list", "list", "tuple", "vector"])
		if ncols >= 2 and colspec[0] == "name" and rng.random() < 0.6:
			a, b = names[0], names[1]
			spec_t["prerename"] = rng.choice([
				("rename_columns", [a, b, "tmp_"], ["tmp_", a, b]),          # swap through a temporary: the set of names is unchanged
				("rename_columns", [a, b], [b, "was_" + b]) if False else ("rename_columns", [b, a], ["zz9", b]),
				("view", [a, b], [b, a]),                                     # swap through live column views
				("view", [a], ["renamed9"]),
			])
		chk.case("table_assign", spec_t, "table-assign")
	# ---- rename_columns
	namesets = [["a", "b", "c"], ["a", "a", "b"], ["x"], ["a", None, "b"], ["a", "b", "c", "d"]]
	for names in namesets:
		real = [nm for nm in names if nm is not None]
		for k in range(1, 4):
			for pos in range(k):
				olds = [rng.choice(real) for _ in range(k)]
				news = [rng.choice(["n1", "n2", "a", "b"]) for _ in range(k)]
				bad = list(olds)
				bad[pos] = "no-such-column"
				chk.case("rename", {"names": names, "olds": bad, "news": news, "fault": f"unknown-at-{pos}-of-{k}"}, "rename")
				chk.case("rename", {"names": names, "olds": olds, "news": news, "fault": "none"}, "rename")
			chk.case("rename", {"names": names, "olds": [real[0]] * k, "news": ["q"] * (k + 1), "fault": "unequal-lengths"}, "rename")
		if len(real) >= 2:
			chk.case("rename", {"names": names, "olds": [real[0], real[1]], "news": [real[1], real[0]], "fault": "swap"}, "rename")
			chk.case("rename", {"names": names, "olds": [real[0], "renamed-once"], "news": ["renamed-once", "renamed-twice"], "fault": "chain"}, "rename")
			chk.case("rename", {"names": names, "olds": [real[0], real[0]], "news": ["p", "q"], "fault": "same-old-twice"}, "rename")
		for k in range(1, min(3, len(real)) + 1):
			for pos in range(k):
				chk.case("rename_fault", {"names": names, "olds": real[:k], "news": [f"n{j}" for j in range(k)], "fault": "new-name-text-raises", "pos": pos}, "rename")
		if len(names) >= 3 and all(isinstance(nm, str) for nm in names) and len(set(names)) == len(names):
			for viewcol in range(len(names) - 1):
				for touch_first in (False, True):
					chk.case("rename_fault", {"names": names, "olds": [names[-1]], "news": ["z1"], "fault": "handle-rename-then-bad-label", "viewcol": viewcol, "pos": 0, "touch_first": touch_first}, "rename")
		if len(names) >= 3 and names[0] is not None and names[-1] is not None and names[0] != names[-1]:
			for k in (1, 2):
				chk.case("rename_fault", {"names": names, "olds": [names[-1], "z1"][:k], "news": ["z1", "z2"][:k], "fault": "warnings-as-errors-duplicate", "viewcol": 1, "dup": names[0]}, "rename")
